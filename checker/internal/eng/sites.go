package eng

import (
	"go/types"
	"strings"

	"golang.org/x/tools/go/ssa"
)

// CalleeKeys returns the identity of what a call instruction invokes:
//   - static function / method:   "pkg.Recv.Method" or "pkg.Func" (closures: parent$n)
//   - interface method (invoke):  "pkg.Iface.Method"
//   - package-level func variable: "var:pkg.name"   (the repository's I/O seams)
//   - func-typed struct field:     "field:pkg.T.f"
//   - func-typed parameter / free variable / local: "param:name" | "fv:name" | "local"
//   - builtins: "builtin:name"
func (p *Prog) CalleeKeys(c ssa.CallInstruction) []string {
	cc := c.Common()
	if cc.IsInvoke() {
		keys := []string{ObjKey(cc.Method)}
		// a method promoted from an embedded interface (e.g. io.Closer in tsdb.DataFamily) is also
		// named after the static interface type of the receiver
		if n, ok := types.Unalias(cc.Value.Type()).(*types.Named); ok && n.Obj().Pkg() != nil {
			k := ShortPkg(n.Obj().Pkg().Path()) + "." + n.Obj().Name() + "." + cc.Method.Name()
			if k != keys[0] {
				keys = append(keys, k)
			}
		}
		return keys
	}
	if f := cc.StaticCallee(); f != nil {
		return []string{p.FuncKey(f)}
	}
	switch v := cc.Value.(type) {
	case *ssa.Builtin:
		return []string{"builtin:" + v.Name()}
	case *ssa.UnOp:
		if g, ok := v.X.(*ssa.Global); ok {
			return []string{"var:" + ShortPkg(g.Pkg.Pkg.Path()) + "." + g.Name()}
		}
		if fa, ok := v.X.(*ssa.FieldAddr); ok {
			return []string{"field:" + FieldKeyOfAddr(fa)}
		}
		if a, ok := v.X.(*ssa.Alloc); ok {
			return []string{"local:" + LocalName(a)}
		}
		if fv, ok := v.X.(*ssa.FreeVar); ok {
			return []string{"fv:" + LocalName(fv)}
		}
	case *ssa.Field:
		return []string{"field:" + fieldKey(v.X.Type(), v.Field)}
	case *ssa.Parameter:
		return []string{"param:" + ParamName(v)}
	case *ssa.FreeVar:
		return []string{"fv:" + LocalName(v)}
	case *ssa.MakeClosure:
		if f, ok := v.Fn.(*ssa.Function); ok {
			return []string{p.FuncKey(f)}
		}
	}
	return []string{"dynamic"}
}

func structOf(t types.Type) (*types.Struct, *types.Named) {
	if p, ok := t.Underlying().(*types.Pointer); ok {
		t = p.Elem()
	}
	t = types.Unalias(t)
	n, _ := t.(*types.Named)
	s, _ := t.Underlying().(*types.Struct)
	return s, n
}

func fieldKey(t types.Type, idx int) string {
	s, n := structOf(t)
	if s == nil || idx >= s.NumFields() {
		return "?"
	}
	name := "?"
	pkg := ""
	if n != nil {
		name = n.Origin().Obj().Name()
		if n.Obj().Pkg() != nil {
			pkg = ShortPkg(n.Obj().Pkg().Path())
		}
	} else {
		name = "struct"
		if s.Field(idx).Pkg() != nil {
			pkg = ShortPkg(s.Field(idx).Pkg().Path())
		}
	}
	return pkg + "." + name + "." + s.Field(idx).Name()
}

// FieldKeyOfAddr names the field addressed by a FieldAddr: "pkg.T.f".
func FieldKeyOfAddr(fa *ssa.FieldAddr) string { return fieldKey(fa.X.Type(), fa.Field) }

// FieldVar returns the types.Var of the addressed field.
func FieldVar(fa *ssa.FieldAddr) *types.Var {
	s, _ := structOf(fa.X.Type())
	if s == nil {
		return nil
	}
	return s.Field(fa.Field)
}

// Matcher selects instructions (sites).
type Matcher func(p *Prog, in ssa.Instruction) bool

// Any combines matchers with OR.
func Any(ms ...Matcher) Matcher {
	return func(p *Prog, in ssa.Instruction) bool {
		for _, m := range ms {
			if m(p, in) {
				return true
			}
		}
		return false
	}
}

// And combines matchers with AND.
func And(ms ...Matcher) Matcher {
	return func(p *Prog, in ssa.Instruction) bool {
		for _, m := range ms {
			if !m(p, in) {
				return false
			}
		}
		return true
	}
}

// CallTo matches plain call instructions (not go/defer) invoking any of the keys.
func CallTo(keys ...string) Matcher {
	return func(p *Prog, in ssa.Instruction) bool {
		c, ok := in.(*ssa.Call)
		if !ok {
			return false
		}
		return hasKey(p.CalleeKeys(c), keys)
	}
}

// AnyCallTo matches call, go and defer instructions invoking any of the keys.
func AnyCallTo(keys ...string) Matcher {
	return func(p *Prog, in ssa.Instruction) bool {
		c, ok := in.(ssa.CallInstruction)
		if !ok {
			return false
		}
		return hasKey(p.CalleeKeys(c), keys)
	}
}

// DeferTo matches defer instructions invoking any of the keys.
func DeferTo(keys ...string) Matcher {
	return func(p *Prog, in ssa.Instruction) bool {
		c, ok := in.(*ssa.Defer)
		if !ok {
			return false
		}
		return hasKey(p.CalleeKeys(c), keys)
	}
}

// GoTo matches go statements invoking any of the keys.
func GoTo(keys ...string) Matcher {
	return func(p *Prog, in ssa.Instruction) bool {
		c, ok := in.(*ssa.Go)
		if !ok {
			return false
		}
		return hasKey(p.CalleeKeys(c), keys)
	}
}

func hasKey(have, want []string) bool {
	for _, h := range have {
		for _, w := range want {
			if h == w {
				return true
			}
			if strings.HasSuffix(w, "*") && strings.HasPrefix(h, strings.TrimSuffix(w, "*")) {
				return true
			}
		}
	}
	return false
}

// atomic wrapper method names that mutate / read the wrapped value.
var atomicWrite = map[string]bool{"Store": true, "Inc": true, "Dec": true, "Add": true, "Sub": true,
	"CAS": true, "CompareAndSwap": true, "Swap": true, "Toggle": true}
var atomicRead = map[string]bool{"Load": true}

func isAtomicType(t types.Type) bool {
	if p, ok := t.(*types.Pointer); ok {
		t = p.Elem()
	}
	n, ok := types.Unalias(t).(*types.Named)
	if !ok || n.Obj().Pkg() == nil {
		return false
	}
	pp := n.Obj().Pkg().Path()
	return pp == "go.uber.org/atomic" || pp == "sync/atomic"
}

// fieldAddrOf returns the FieldAddr a value denotes (through pointer-typed field loads for *atomic.X fields).
func fieldAddrOf(v ssa.Value) *ssa.FieldAddr {
	var fa *ssa.FieldAddr
	switch v := v.(type) {
	case *ssa.FieldAddr:
		fa = v
	case *ssa.UnOp: // load of a pointer-typed field, e.g. consumedSeq *atomic.Int64
		if x, ok := v.X.(*ssa.FieldAddr); ok {
			fa = x
		}
	}
	// an atomic wrapper embedding another atomic type (go.uber.org/atomic.Value embeds sync/atomic.Value):
	// name the outermost atomic-typed field
	for fa != nil {
		outer, ok := fa.X.(*ssa.FieldAddr)
		if !ok || !isAtomicType(outer.Type()) {
			break
		}
		fa = outer
	}
	return fa
}

// AtomicOp describes a call x.f.Method(...) on an atomic-typed field.
func AtomicOp(in ssa.Instruction) (fa *ssa.FieldAddr, method string, call ssa.CallInstruction) {
	c, ok := in.(ssa.CallInstruction)
	if !ok {
		return nil, "", nil
	}
	cc := c.Common()
	if cc.IsInvoke() {
		return nil, "", nil
	}
	f := cc.StaticCallee()
	if f == nil || f.Signature.Recv() == nil || len(cc.Args) == 0 {
		return nil, "", nil
	}
	if !isAtomicType(f.Signature.Recv().Type()) {
		return nil, "", nil
	}
	fa = fieldAddrOf(cc.Args[0])
	if fa == nil {
		return nil, "", nil
	}
	return fa, f.Name(), c
}

// StoreField matches a write to the struct field "pkg.T.f": a plain store, or a mutating
// method of an atomic wrapper held in that field.
func StoreField(keys ...string) Matcher {
	return func(p *Prog, in ssa.Instruction) bool {
		if st, ok := in.(*ssa.Store); ok {
			if fa, ok := st.Addr.(*ssa.FieldAddr); ok {
				return hasKey([]string{FieldKeyOfAddr(fa)}, keys)
			}
			return false
		}
		if fa, m, _ := AtomicOp(in); fa != nil && atomicWrite[m] {
			return hasKey([]string{FieldKeyOfAddr(fa)}, keys)
		}
		return false
	}
}

// LoadField matches a read of the struct field: a load through FieldAddr, a Field
// extraction, or Load() of an atomic wrapper held in that field.
func LoadField(keys ...string) Matcher {
	return func(p *Prog, in ssa.Instruction) bool {
		switch v := in.(type) {
		case *ssa.UnOp:
			if fa, ok := v.X.(*ssa.FieldAddr); ok {
				if isAtomicType(fa.Type()) { // pointer-to-atomic field load is not a value read
					return false
				}
				return hasKey([]string{FieldKeyOfAddr(fa)}, keys)
			}
		case *ssa.Field:
			return hasKey([]string{fieldKey(v.X.Type(), v.Field)}, keys)
		}
		if fa, m, _ := AtomicOp(in); fa != nil && atomicRead[m] {
			return hasKey([]string{FieldKeyOfAddr(fa)}, keys)
		}
		return false
	}
}

// TouchField matches any instruction that takes the address of / reads / writes the field.
func TouchField(keys ...string) Matcher {
	return func(p *Prog, in ssa.Instruction) bool {
		switch v := in.(type) {
		case *ssa.FieldAddr:
			return hasKey([]string{FieldKeyOfAddr(v)}, keys)
		case *ssa.Field:
			return hasKey([]string{fieldKey(v.X.Type(), v.Field)}, keys)
		}
		return false
	}
}

// MapUpdateOf matches m[k] = v where m is loaded from the field "pkg.T.f".
func MapUpdateOf(keys ...string) Matcher {
	return func(p *Prog, in ssa.Instruction) bool {
		mu, ok := in.(*ssa.MapUpdate)
		if !ok {
			return false
		}
		if u, ok := mu.Map.(*ssa.UnOp); ok {
			if fa, ok := u.X.(*ssa.FieldAddr); ok {
				return hasKey([]string{FieldKeyOfAddr(fa)}, keys)
			}
		}
		return false
	}
}

// IsReturn matches return instructions.
func IsReturn() Matcher {
	return func(p *Prog, in ssa.Instruction) bool { _, ok := in.(*ssa.Return); return ok }
}

// Site is one matched instruction.
type Site struct {
	Fn    *ssa.Function
	Instr ssa.Instruction
}

// Sites returns every instruction of fn (not its closures) matched by m, in block order.
func (p *Prog) Sites(fn *ssa.Function, m Matcher) []Site {
	if TransparentSites {
		return p.SitesT(fn, m)
	}
	return p.SitesDirect(fn, m)
}

// TransparentSites: Sites looks through transparent helpers (see transparent.go).
var TransparentSites = true

// SitesDirect returns the instructions of fn itself matched by m, in block order.
func (p *Prog) SitesDirect(fn *ssa.Function, m Matcher) []Site {
	var out []Site
	if fn == nil {
		return nil
	}
	for _, b := range fn.Blocks {
		for _, in := range b.Instrs {
			if m(p, in) {
				out = append(out, Site{fn, in})
			}
		}
	}
	return out
}

// SitesDeep returns matches in fn and in all closures nested in it.
func (p *Prog) SitesDeep(fn *ssa.Function, m Matcher) []Site {
	var out []Site
	for _, f := range Closures(fn) {
		out = append(out, p.Sites(f, m)...)
	}
	return out
}

// SitesInProgram scans all module functions.
func (p *Prog) SitesInProgram(m Matcher) []Site {
	var out []Site
	for _, f := range p.AllFuncs {
		out = append(out, p.SitesDirect(f, m)...)
	}
	return out
}

// Contains reports whether fn (optionally following static callees inside the module up to
// depth) contains a site matched by m on some path ("may").
func (p *Prog) Contains(fn *ssa.Function, m Matcher, depth int) bool {
	return p.containsRec(fn, m, depth, map[*ssa.Function]bool{})
}

func (p *Prog) containsRec(fn *ssa.Function, m Matcher, depth int, seen map[*ssa.Function]bool) bool {
	if fn == nil || seen[fn] {
		return false
	}
	seen[fn] = true
	for _, b := range fn.Blocks {
		for _, in := range b.Instrs {
			if m(p, in) {
				return true
			}
			if depth > 0 {
				if c, ok := in.(ssa.CallInstruction); ok {
					for _, cal := range p.ModuleCallees(c) {
						if p.containsRec(cal, m, depth-1, seen) {
							return true
						}
					}
				}
				if mc, ok := in.(*ssa.MakeClosure); ok {
					if f, ok := mc.Fn.(*ssa.Function); ok && p.containsRec(f, m, depth-1, seen) {
						return true
					}
				}
			}
		}
	}
	return false
}

// ModuleCallees resolves the possible callees of a call that live in the module:
// the static callee, a directly called closure, or — for interface calls — every module
// method implementing the interface method (CHA restricted to the module).
func (p *Prog) ModuleCallees(c ssa.CallInstruction) []*ssa.Function {
	cc := c.Common()
	if cc.IsInvoke() {
		return p.Implementers(cc.Method)
	}
	if f := cc.StaticCallee(); f != nil {
		if f.Origin() != nil && f.Blocks == nil {
			f = f.Origin()
		}
		if InModule(f) && f.Blocks != nil {
			return []*ssa.Function{f}
		}
		return nil
	}
	if mc, ok := cc.Value.(*ssa.MakeClosure); ok {
		if f, ok := mc.Fn.(*ssa.Function); ok {
			return []*ssa.Function{f}
		}
	}
	return nil
}

var implCache = map[*types.Func][]*ssa.Function{}

func implCacheReset() {
	for k := range implCache {
		delete(implCache, k)
	}
}

// Implementers returns the module's concrete methods that implement the interface method m.
func (p *Prog) Implementers(m *types.Func) []*ssa.Function {
	if r, ok := implCache[m]; ok {
		return r
	}
	var out []*ssa.Function
	sig, _ := m.Type().(*types.Signature)
	if sig == nil || sig.Recv() == nil {
		return nil
	}
	iface, _ := sig.Recv().Type().Underlying().(*types.Interface)
	if iface == nil {
		return nil
	}
	for _, pk := range p.Pkgs {
		sc := pk.Types.Scope()
		for _, name := range sc.Names() {
			tn, ok := sc.Lookup(name).(*types.TypeName)
			if !ok || tn.IsAlias() {
				continue
			}
			nt, ok := tn.Type().(*types.Named)
			if !ok || nt.TypeParams().Len() > 0 {
				continue
			}
			if _, isIface := nt.Underlying().(*types.Interface); isIface {
				continue
			}
			for _, t := range []types.Type{nt, types.NewPointer(nt)} {
				if types.Implements(t, iface) {
					sel := p.SSA.MethodSets.MethodSet(t).Lookup(m.Pkg(), m.Name())
					if sel != nil {
						if f := p.SSA.MethodValue(sel); f != nil {
							// unwrap promoted-method wrappers to the declared method
							if f.Synthetic != "" {
								if o, ok := sel.Obj().(*types.Func); ok {
									if d := p.SSA.FuncValue(o); d != nil {
										f = d
									}
								}
							}
							if InModule(f) && f.Blocks != nil {
								out = append(out, f)
							}
						}
					}
					break
				}
			}
		}
	}
	// dedupe
	seen := map[*ssa.Function]bool{}
	var ded []*ssa.Function
	for _, f := range out {
		if !seen[f] {
			seen[f] = true
			ded = append(ded, f)
		}
	}
	implCache[m] = ded
	return ded
}

// RefersTo matches any instruction that has the function (by key) as an operand: a direct call, a
// method value (bound-method closure), or passing the function as a value. Bound-method and thunk
// wrappers are resolved to the method they wrap.
func RefersTo(keys ...string) Matcher {
	return func(p *Prog, in ssa.Instruction) bool {
		var ops []*ssa.Value
		ops = in.Operands(ops)
		for _, o := range ops {
			if o == nil || *o == nil {
				continue
			}
			f, ok := (*o).(*ssa.Function)
			if !ok {
				continue
			}
			k := p.FuncKey(f)
			if f.Synthetic != "" {
				if obj, ok := f.Object().(*types.Func); ok && obj != nil {
					k = ObjKey(obj)
				} else {
					// "bound method wrapper for func (T).M" has no Object; strip the $bound suffix
					k = strings.TrimSuffix(strings.TrimSuffix(k, "$bound"), "$thunk")
				}
			}
			if hasKey([]string{k}, keys) {
				return true
			}
		}
		return false
	}
}
