package eng

import (
	"go/constant"
	"go/token"
	"go/types"

	"golang.org/x/tools/go/ssa"
)

// InstrIndex returns the index of in inside its block.
func InstrIndex(in ssa.Instruction) int {
	for i, x := range in.Block().Instrs {
		if x == in {
			return i
		}
	}
	return -1
}

// EdgeFilter decides whether the CFG edge from block b to its idx-th successor may be taken.
type EdgeFilter func(b *ssa.BasicBlock, succIdx int) bool

// PathQuery describes a reachability question inside one function.
type PathQuery struct {
	Fn *ssa.Function
	// Start: nil = function entry; otherwise the search starts right after this instruction.
	After ssa.Instruction
	// Target instructions (reaching any of them answers true).
	Target func(in ssa.Instruction) bool
	// Blocked instructions cut a path (checked before Target for the same instruction is NOT
	// applied: an instruction that is both is treated as blocked).
	Blocked func(in ssa.Instruction) bool
	// Edge filters paths by edges; nil = all edges.
	Edge EdgeFilter
}

// PathExists answers whether some CFG path from the start reaches a target instruction
// without passing through a blocked instruction. If found, it returns the witness target.
// Calls to transparent helpers (see transparent.go) are walked through: the search enters the helper's body and
// continues after the call when the helper returns; a helper's own return instructions are not offered to Target /
// Blocked (they are not exits of q.Fn).
func PathExists(q PathQuery) (ssa.Instruction, bool) {
	fn := q.Fn
	if fn == nil || len(fn.Blocks) == 0 {
		return nil, false
	}
	type state struct {
		b     *ssa.BasicBlock
		idx   int
		stack []*ssa.Call
		// set when the state continues after a transparent helper returned: the call and whether the error it
		// returned on that path is the nil constant (+1), provably non-nil (-1) or unknown (0)
		retCall *ssa.Call
		retErr  int
		retVals []int8 // per result of the helper: +1 constant nil / true, -1 provably non-nil / constant false, 0 unknown
		cons    string // signature of (retCall, retVals): part of the visited key (knowledge about the helper's results stays
		// valid along the path: SSA values do not change)
	}
	key := func(stack []*ssa.Call) string {
		if len(stack) == 0 {
			return ""
		}
		k := make([]byte, 0, 16*len(stack))
		for _, c := range stack {
			k = append(k, []byte(ptrKey(c))...)
			k = append(k, '/')
		}
		return string(k)
	}
	type vkey struct {
		stack string
		b     *ssa.BasicBlock
	}
	type rkey struct {
		stack string
		c     *ssa.Call
	}
	visited := map[vkey]bool{}  // (context, block) entered at index 0
	returned := map[rkey]bool{} // (context, call) continued after the call
	var work []state
	if q.After == nil {
		work = append(work, state{b: fn.Blocks[0]})
		visited[vkey{"", fn.Blocks[0]}] = true
	} else {
		af := q.After.Parent()
		chains := [][]*ssa.Call{nil}
		if af != fn {
			if cs := transparentChains(fn, af); len(cs) > 0 {
				chains = cs
			}
		}
		start := InstrIndex(q.After) + 1
		if _, isRet := q.After.(*ssa.Return); isRet && af != fn {
			start-- // "after" the return of a transparent helper means: back in its caller
		}
		for _, ch := range chains {
			work = append(work, state{b: q.After.Block(), idx: start, stack: ch})
		}
	}
	onStack := func(stack []*ssa.Call, g *ssa.Function) bool {
		if g == fn {
			return true
		}
		for _, c := range stack {
			if c.Parent() == g || TransparentCallee(c) == g {
				return true
			}
		}
		return false
	}
	for len(work) > 0 {
		s := work[len(work)-1]
		work = work[:len(work)-1]
		cut := false
		for i := s.idx; i < len(s.b.Instrs); i++ {
			in := s.b.Instrs[i]
			if _, isRet := in.(*ssa.Return); isRet && len(s.stack) > 0 {
				// return of a transparent helper: continue after the call in the caller
				call := s.stack[len(s.stack)-1]
				rest := s.stack[:len(s.stack)-1]
				ne := 0
				if r := in.(*ssa.Return); len(r.Results) > 0 && isErrorType(r.Results[len(r.Results)-1].Type()) {
					last := r.Results[len(r.Results)-1]
					if srcs := resolveLocal(last); len(srcs) == 1 {
						last = srcs[0]
					}
					if IsNilConst(last) {
						ne = 1
					} else if provablyNonNilAt(in.Parent(), last, in) {
						ne = -1
					}
				}
				var rv []int8
				sig := ""
				for _, res := range in.(*ssa.Return).Results {
					k := int8(0)
					x := res
					if srcs := resolveLocal(x); len(srcs) == 1 {
						x = srcs[0]
					}
					if cst, ok := x.(*ssa.Const); ok {
						if cst.IsNil() {
							k = 1
						} else if cst.Value != nil && cst.Value.Kind() == constant.Bool {
							if constant.BoolVal(cst.Value) {
								k = 1
							} else {
								k = -1
							}
						}
					} else if isErrorType(x.Type()) && provablyNonNilAt(in.Parent(), x, in) {
						k = -1
					}
					rv = append(rv, k)
					sig += string(rune('1' + k))
				}
				_ = ne
				rk := rkey{key(rest) + "#" + sig, call}
				if !returned[rk] {
					returned[rk] = true
					work = append(work, state{b: call.Block(), idx: InstrIndex(call) + 1, stack: rest, retCall: call, retErr: ne, retVals: rv, cons: ptrKey(call) + "=" + sig})
				}
				cut = true
				break
			}
			if q.Blocked != nil && q.Blocked(in) {
				cut = true
				break
			}
			if q.Target != nil && q.Target(in) {
				return in, true
			}
			if g := TransparentCallee(in); g != nil && len(s.stack) < maxInlineDepth && !onStack(s.stack, g) {
				ns := append(append([]*ssa.Call{}, s.stack...), in.(*ssa.Call))
				vk := vkey{key(ns) + "|" + s.cons, g.Blocks[0]}
				if !visited[vk] {
					visited[vk] = true
					work = append(work, state{b: g.Blocks[0], stack: ns, retCall: s.retCall, retVals: s.retVals, cons: s.cons})
				}
				cut = true // the continuation is scheduled when the helper returns
				break
			}
		}
		if cut {
			continue
		}
		sk := key(s.stack) + "|" + s.cons
		// a helper that returned a nil (non-nil) error cannot take the caller's err != nil (err == nil) branch right after
		skip := -1
		if s.retCall != nil && len(s.retVals) > 0 && len(s.b.Succs) == 2 {
			if ifi, ok := s.b.Instrs[len(s.b.Instrs)-1].(*ssa.If); ok {
				skip = prunedSucc(ifi.Cond, s.retCall, s.retVals)
			}
		}
		for si, succ := range s.b.Succs {
			if si == skip {
				continue
			}
			if q.Edge != nil && !q.Edge(s.b, si) {
				continue
			}
			vk := vkey{sk, succ}
			if !visited[vk] {
				visited[vk] = true
				work = append(work, state{b: succ, stack: s.stack, retCall: s.retCall, retVals: s.retVals, cons: s.cons})
			}
		}
	}
	return nil, false
}

func ptrKey(c *ssa.Call) string {
	return c.Name() + "@" + c.Parent().Name() + c.Parent().RelString(nil)
}

func instrSet(sites []Site) map[ssa.Instruction]bool {
	m := map[ssa.Instruction]bool{}
	for _, s := range sites {
		m[s.Instr] = true
	}
	return m
}

// DominatedBy reports whether every path from the entry of fn to target passes through
// one of the instructions in by (respecting the edge filter). The witness is the target when
// a by-passing path exists.
func DominatedBy(fn *ssa.Function, target ssa.Instruction, by []Site, edge EdgeFilter) bool {
	bs := instrSet(by)
	if bs[target] {
		return true
	}
	_, found := PathExists(PathQuery{Fn: fn,
		Target:  func(in ssa.Instruction) bool { return in == target },
		Blocked: func(in ssa.Instruction) bool { return bs[in] },
		Edge:    edge})
	return !found
}

// Reaches reports whether some path leads from just after `from` to an instruction in `to`.
func Reaches(fn *ssa.Function, from ssa.Instruction, to []Site, blocked []Site) (ssa.Instruction, bool) {
	ts := instrSet(to)
	bs := instrSet(blocked)
	return PathExists(PathQuery{Fn: fn, After: from,
		Target:  func(in ssa.Instruction) bool { return ts[in] },
		Blocked: func(in ssa.Instruction) bool { return bs[in] }})
}

// IsNilConst reports whether v is the nil constant.
func IsNilConst(v ssa.Value) bool {
	c, ok := v.(*ssa.Const)
	return ok && c.IsNil()
}

// unwrap strips conversions that do not change the identity of a value.
func unwrap(v ssa.Value) ssa.Value {
	for {
		switch x := v.(type) {
		case *ssa.ChangeType:
			v = x.X
		case *ssa.ChangeInterface:
			v = x.X
		case *ssa.MakeInterface:
			v = x.X
		case *ssa.Convert:
			v = x.X
		default:
			return v
		}
	}
}

// resolveLocal follows a load from a local cell (an Alloc that escaped lifting, e.g. a named
// result captured by a deferred closure) back to the values stored into it that can reach the
// load: it returns the set of stored values if all reaching stores can be enumerated simply.
func resolveLocal(v ssa.Value) []ssa.Value {
	u, ok := v.(*ssa.UnOp)
	if !ok || u.Op != token.MUL {
		return []ssa.Value{v}
	}
	a, ok := u.X.(*ssa.Alloc)
	if !ok {
		return []ssa.Value{v}
	}
	// latest store in the same block before the load
	b := u.Block()
	idx := InstrIndex(u)
	for i := idx - 1; i >= 0; i-- {
		if st, ok := b.Instrs[i].(*ssa.Store); ok && st.Addr == a {
			// `*t1 = v; t = *t1; *t1 = t` chains (named results): resolve through
			if inner, ok := st.Val.(*ssa.UnOp); ok && inner.Op == token.MUL && inner.X == ssa.Value(a) && inner != u {
				return resolveLocal(inner)
			}
			return []ssa.Value{st.Val}
		}
	}
	// otherwise: all stores to the cell anywhere in the function (over-approximation of sources)
	var vals []ssa.Value
	for _, ref := range *a.Referrers() {
		if st, ok := ref.(*ssa.Store); ok && st.Addr == a {
			vals = append(vals, st.Val)
		}
	}
	if len(vals) == 0 {
		return []ssa.Value{v}
	}
	return vals
}

// DerivesFromCall reports whether v is (an extraction of / a phi over / a local copy of) the
// result of the call instruction c.
func DerivesFromCall(v ssa.Value, c ssa.Value, depth int) bool {
	if depth > 6 {
		return false
	}
	v = unwrap(v)
	if v == c {
		return true
	}
	switch x := v.(type) {
	case *ssa.Extract:
		return x.Tuple == c
	case *ssa.Phi:
		for _, e := range x.Edges {
			if DerivesFromCall(e, c, depth+1) {
				return true
			}
		}
	case *ssa.UnOp:
		if x.Op == token.MUL {
			if _, ok := x.X.(*ssa.Alloc); ok {
				for _, s := range resolveLocal(x) {
					if s != v && DerivesFromCall(s, c, depth+1) {
						return true
					}
				}
			}
		}
	}
	return false
}

// OnlyFromCall reports whether v can only be the result of call c (no phi alternative).
func OnlyFromCall(v ssa.Value, c ssa.Value) bool {
	v = unwrap(v)
	if v == c {
		return true
	}
	if x, ok := v.(*ssa.Extract); ok {
		return x.Tuple == c
	}
	if u, ok := v.(*ssa.UnOp); ok && u.Op == token.MUL {
		if _, ok := u.X.(*ssa.Alloc); ok {
			srcs := resolveLocal(u)
			if len(srcs) == 1 && srcs[0] != v {
				return OnlyFromCall(srcs[0], c)
			}
		}
	}
	return false
}

// isErrorType reports whether t is the predeclared error interface.
func isErrorType(t types.Type) bool {
	return types.Identical(t, types.Universe.Lookup("error").Type())
}

// NilErrEdges returns, for the call instruction c (whose result or one of whose results is an
// error), an edge filter that forbids every edge on which that error is known to be non-nil —
// i.e. paths under the filter are those on which "c returned a nil error" was established or
// never tested. It also returns the set of "nil edges" (block,succ) found.
type Edge struct {
	B    *ssa.BasicBlock
	Succ int
}

// ErrCheckEdges finds the If instructions that test the error produced by call c against nil and
// classifies their out-edges. nilEdges are edges taken when the error is nil; errEdges when non-nil.
func ErrCheckEdges(fn *ssa.Function, c ssa.Value) (nilEdges, errEdges []Edge) {
	for _, b := range blocksT(fn, c) {
		if len(b.Instrs) == 0 {
			continue
		}
		ifi, ok := b.Instrs[len(b.Instrs)-1].(*ssa.If)
		if !ok {
			continue
		}
		bo, ok := ifi.Cond.(*ssa.BinOp)
		if !ok || (bo.Op != token.NEQ && bo.Op != token.EQL) {
			continue
		}
		var other ssa.Value
		if IsNilConst(bo.Y) {
			other = bo.X
		} else if IsNilConst(bo.X) {
			other = bo.Y
		} else {
			continue
		}
		if !isErrorType(other.Type()) {
			continue
		}
		if !DerivesFromCall(other, c, 0) {
			continue
		}
		// Succs[0] = true branch
		if bo.Op == token.NEQ {
			errEdges = append(errEdges, Edge{b, 0})
			nilEdges = append(nilEdges, Edge{b, 1})
		} else {
			nilEdges = append(nilEdges, Edge{b, 0})
			errEdges = append(errEdges, Edge{b, 1})
		}
	}
	return
}

// BoolCheckEdges does the same for a call returning bool (or a bool extracted from it): edges taken
// when the result is true / false. Handles `if f()`, `if !f()`, `if ok := f(); ok`.
func BoolCheckEdges(fn *ssa.Function, c ssa.Value) (trueEdges, falseEdges []Edge) {
	for _, b := range blocksT(fn, c) {
		if len(b.Instrs) == 0 {
			continue
		}
		ifi, ok := b.Instrs[len(b.Instrs)-1].(*ssa.If)
		if !ok {
			continue
		}
		cond := ifi.Cond
		neg := false
		for {
			if u, ok := cond.(*ssa.UnOp); ok && u.Op == token.NOT {
				neg = !neg
				cond = u.X
				continue
			}
			break
		}
		if !DerivesFromCall(cond, c, 0) {
			continue
		}
		t, f := Edge{b, 0}, Edge{b, 1}
		if neg {
			t, f = f, t
		}
		trueEdges = append(trueEdges, t)
		falseEdges = append(falseEdges, f)
	}
	return
}

// ForbidEdges builds an edge filter that excludes the given edges.
func ForbidEdges(edges []Edge) EdgeFilter {
	return func(b *ssa.BasicBlock, s int) bool {
		for _, e := range edges {
			if e.B == b && e.Succ == s {
				return false
			}
		}
		return true
	}
}

// OkDominates reports whether target is only reachable after call c returned a nil error:
// (1) c dominates target, and (2) every path from c to target goes through an edge on which
// c's error was tested nil (so the error edge is not an option and an unchecked fall-through
// is not accepted either).
func OkDominates(fn *ssa.Function, c ssa.Instruction, target ssa.Instruction) (bool, string) {
	cv, ok := c.(ssa.Value)
	if !ok {
		return false, "not a value-producing call"
	}
	if !DominatedBy(fn, target, []Site{{fn, c}}, nil) {
		return false, "a path reaches the site without passing the call"
	}
	// the target is a return that hands the call's own error back (possibly through a transparent helper's return): it is
	// a success return exactly when the call succeeded
	if r, ok := target.(*ssa.Return); ok && len(r.Results) > 0 {
		last := r.Results[len(r.Results)-1]
		if isErrorType(last.Type()) && errorOfCall(last, cv, 0) {
			return true, ""
		}
	}
	nilEdges, _ := ErrCheckEdges(fn, cv)
	if len(nilEdges) == 0 {
		return false, "the call's error result is never compared with nil"
	}
	// search from after c to target, forbidding nil edges: if target is still reachable, some path
	// avoids the nil-check success edge.
	_, found := PathExists(PathQuery{Fn: fn, After: c,
		Target: func(in ssa.Instruction) bool { return in == target },
		Edge:   ForbidEdges(nilEdges)})
	if found {
		return false, "a path from the call reaches the site without taking the err==nil edge"
	}
	return true, ""
}

// ReturnsNilError reports whether a return instruction returns a nil constant as its last
// (error-typed) result, or true for a bool-only result.
func ReturnsNilError(r *ssa.Return) bool {
	if len(r.Results) == 0 {
		return true
	}
	last := r.Results[len(r.Results)-1]
	if isErrorType(last.Type()) {
		return IsNilConst(last)
	}
	return true
}

// SuccessReturns lists the return instructions that may return a nil error: a nil constant, or a
// value that is not provably non-nil (conservative: everything except returns dominated by an
// err!=nil edge of the value they return).
func SuccessReturns(fn *ssa.Function) []ssa.Instruction {
	var out []ssa.Instruction
	for _, b := range fn.Blocks {
		if b == fn.Recover {
			continue // only entered after a recovered panic
		}
		for _, in := range b.Instrs {
			r, ok := in.(*ssa.Return)
			if !ok {
				continue
			}
			if len(r.Results) == 0 {
				out = append(out, r)
				continue
			}
			last := r.Results[len(r.Results)-1]
			if !isErrorType(last.Type()) {
				out = append(out, r)
				continue
			}
			if srcs := resolveLocal(last); len(srcs) == 1 {
				last = srcs[0] // defer-spilled result: `*t0 = v; rundefers; t = *t0; return t`
			}
			if IsNilConst(last) {
				out = append(out, r)
				continue
			}
			if provablyNonNilAt(fn, last, r) {
				continue
			}
			out = append(out, r)
		}
	}
	return out
}

// provablyNonNilAt: the returned error value v is known non-nil at r because r is only reachable
// through an edge testing v != nil, or v is a freshly constructed error (call to errors.New /
// fmt.Errorf / a package-level error variable load).
func provablyNonNilAt(fn *ssa.Function, v ssa.Value, r ssa.Instruction) bool {
	uv := unwrap(v)
	switch x := uv.(type) {
	case *ssa.UnOp:
		if _, ok := x.X.(*ssa.Global); ok { // package-level sentinel error
			return true
		}
	case *ssa.Call:
		if f := x.Common().StaticCallee(); f != nil && f.Pkg != nil {
			pp := f.Pkg.Pkg.Path()
			if (pp == "errors" && f.Name() == "New") || (pp == "fmt" && f.Name() == "Errorf") {
				return true
			}
		}
	case *ssa.MakeInterface:
		return true
	}
	if _, ok := v.(*ssa.MakeInterface); ok {
		return true
	}
	// reachable only via err != nil edge of v itself?
	var errEdges, nilEdges []Edge
	for _, b := range fn.Blocks {
		if len(b.Instrs) == 0 {
			continue
		}
		ifi, ok := b.Instrs[len(b.Instrs)-1].(*ssa.If)
		if !ok {
			continue
		}
		bo, ok := ifi.Cond.(*ssa.BinOp)
		if !ok || (bo.Op != token.NEQ && bo.Op != token.EQL) {
			continue
		}
		var other ssa.Value
		if IsNilConst(bo.Y) {
			other = bo.X
		} else if IsNilConst(bo.X) {
			other = bo.Y
		} else {
			continue
		}
		if !sameValue(other, v) {
			continue
		}
		if bo.Op == token.NEQ {
			errEdges = append(errEdges, Edge{b, 0})
			nilEdges = append(nilEdges, Edge{b, 1})
		} else {
			nilEdges = append(nilEdges, Edge{b, 0})
			errEdges = append(errEdges, Edge{b, 1})
		}
	}
	if len(errEdges) == 0 {
		return false
	}
	// if r is unreachable when err edges are forbidden, every path to r took an err edge
	_, found := PathExists(PathQuery{Fn: fn,
		Target: func(in ssa.Instruction) bool { return in == r },
		Edge:   ForbidEdges(errEdges)})
	return !found
}

// sameValue: identical SSA value, or both loads of the same local cell.
func sameValue(a, b ssa.Value) bool {
	a, b = unwrap(a), unwrap(b)
	if a == b {
		return true
	}
	ua, ok1 := a.(*ssa.UnOp)
	ub, ok2 := b.(*ssa.UnOp)
	if ok1 && ok2 && ua.Op == token.MUL && ub.Op == token.MUL {
		if aa, ok := ua.X.(*ssa.Alloc); ok && ua.X == ub.X {
			_ = aa
			return true
		}
	}
	// phi containing the other (e.g. named result merged)
	if p, ok := b.(*ssa.Phi); ok {
		for _, e := range p.Edges {
			if unwrap(e) == a {
				return true
			}
		}
	}
	if p, ok := a.(*ssa.Phi); ok {
		for _, e := range p.Edges {
			if unwrap(e) == b {
				return true
			}
		}
	}
	return false
}

// RunDefersSites lists the RunDefers instructions of fn.
func RunDefersSites(fn *ssa.Function) []Site {
	var out []Site
	for _, b := range fn.Blocks {
		for _, in := range b.Instrs {
			if _, ok := in.(*ssa.RunDefers); ok {
				out = append(out, Site{fn, in})
			}
		}
	}
	return out
}

// RetVal returns the i-th result of a return instruction, looking through the cell a deferred
// function forces results into (`*t0 = v; rundefers; t = *t0; return t`).
func RetVal(r ssa.Instruction, i int) ssa.Value {
	ret, ok := r.(*ssa.Return)
	if !ok || i >= len(ret.Results) {
		return nil
	}
	v := ret.Results[i]
	if srcs := resolveLocal(v); len(srcs) == 1 {
		return srcs[0]
	}
	return v
}

// SameValue reports whether two SSA values denote the same runtime value: identical, or loads of
// one local cell.
func SameValue(a, b ssa.Value) bool { return sameValue(a, b) }

// Unwrap strips conversions that do not change the identity of a value.
func Unwrap(v ssa.Value) ssa.Value { return unwrap(v) }

// GuardingConds returns the branch conditions that decide whether `in` executes within one pass
// through the code: on the CFG without loop back edges, the If blocks D that dominate in's block
// and from which exactly one successor can reach it.  The exit test of a loop is not a guard of
// the code that follows the loop (it only says the loop terminated); the entry test of a loop is a
// guard of its body.  taken[i] tells which outcome leads to `in`.
func GuardingConds(fn *ssa.Function, in ssa.Instruction) (conds []ssa.Value, taken []bool) {
	if g := in.Parent(); g != nil && fn != nil && g != fn {
		// instruction inside a transparent helper: its guards inside the helper plus the guards of the call site(s)
		conds, taken = guardingCondsIn(g, in)
		chains := transparentChains(fn, g)
		if len(chains) == 1 {
			for i := len(chains[0]) - 1; i >= 0; i-- {
				call := chains[0][i]
				c2, t2 := guardingCondsIn(call.Parent(), call)
				conds = append(conds, c2...)
				taken = append(taken, t2...)
			}
		}
		return
	}
	return guardingCondsIn(fn, in)
}

func guardingCondsIn(fn *ssa.Function, in ssa.Instruction) (conds []ssa.Value, taken []bool) {
	tb := in.Block()
	isBack := func(u, v *ssa.BasicBlock) bool { return v.Dominates(u) }
	reachDAG := func(start *ssa.BasicBlock) bool {
		if start == tb {
			return true
		}
		seen := map[*ssa.BasicBlock]bool{start: true}
		work := []*ssa.BasicBlock{start}
		for len(work) > 0 {
			b := work[len(work)-1]
			work = work[:len(work)-1]
			for _, s := range b.Succs {
				if isBack(b, s) {
					continue
				}
				if s == tb {
					return true
				}
				if !seen[s] {
					seen[s] = true
					work = append(work, s)
				}
			}
		}
		return false
	}
	reachFull := func(from, to *ssa.BasicBlock) bool {
		seen := map[*ssa.BasicBlock]bool{from: true}
		work := []*ssa.BasicBlock{from}
		for len(work) > 0 {
			b := work[len(work)-1]
			work = work[:len(work)-1]
			for _, s := range b.Succs {
				if s == to {
					return true
				}
				if !seen[s] {
					seen[s] = true
					work = append(work, s)
				}
			}
		}
		return false
	}
	for _, d := range fn.Blocks {
		if len(d.Instrs) == 0 || len(d.Succs) != 2 || d == tb {
			continue
		}
		ifi, ok := d.Instrs[len(d.Instrs)-1].(*ssa.If)
		if !ok || !d.Dominates(tb) {
			continue
		}
		// a successor entered through a loop back edge (`continue`) starts the NEXT pass: it does not lead to `in` within this one
		t, f := !isBack(d, d.Succs[0]) && reachDAG(d.Succs[0]), !isBack(d, d.Succs[1]) && reachDAG(d.Succs[1])
		if t == f {
			continue
		}
		// loop header: is the reaching successor the loop exit?
		header := false
		for _, pr := range d.Preds {
			if isBack(pr, d) {
				header = true
			}
		}
		if header {
			reaching := d.Succs[0]
			if f {
				reaching = d.Succs[1]
			}
			if reaching != d && !reachFull(reaching, d) {
				continue // leaving the loop: not a guard of what follows
			}
		}
		conds = append(conds, ifi.Cond)
		taken = append(taken, t)
	}
	return
}

// EarlyLoopExits lists the edges (and returns) that leave a loop of fn from somewhere other than the loop's header test:
// `break`, `return`, `goto` out of the body. A scan that must visit every element has none.
// A loop is identified by its header (a block with an incoming back edge); its body is the set of blocks dominated by the
// header from which the header is reachable.
type LoopExit struct {
	Header *ssa.BasicBlock
	From   *ssa.BasicBlock
	To     *ssa.BasicBlock // nil for a return
}

func EarlyLoopExits(fn *ssa.Function) []LoopExit {
	var out []LoopExit
	for _, h := range fn.Blocks {
		isHeader := false
		for _, pr := range h.Preds {
			if h.Dominates(pr) {
				isHeader = true
			}
		}
		if !isHeader {
			continue
		}
		// body: blocks dominated by h that reach h
		body := map[*ssa.BasicBlock]bool{h: true}
		changed := true
		for changed {
			changed = false
			for _, b := range fn.Blocks {
				if body[b] || !h.Dominates(b) {
					continue
				}
				for _, s := range b.Succs {
					if body[s] {
						body[b] = true
						changed = true
						break
					}
				}
			}
		}
		for b := range body {
			if b == h {
				continue
			}
			if len(b.Instrs) > 0 {
				if _, ok := b.Instrs[len(b.Instrs)-1].(*ssa.Return); ok {
					out = append(out, LoopExit{h, b, nil})
				}
			}
			for _, s := range b.Succs {
				if !body[s] {
					out = append(out, LoopExit{h, b, s})
				}
			}
		}
	}
	return out
}

// DominatedByEdge reports whether every path from the entry of fn to `in` takes edge e.
func DominatedByEdge(fn *ssa.Function, in ssa.Instruction, e Edge) bool {
	_, found := PathExists(PathQuery{Fn: fn,
		Target: func(x ssa.Instruction) bool { return x == in },
		Edge:   ForbidEdges([]Edge{e})})
	return !found
}

// blocksT lists the blocks of fn, of the helpers fn transparently enters, and of the function that holds the value v
// (a test of a call's result may sit in another function of the same transparent region than the call).
func blocksT(fn *ssa.Function, v ssa.Value) []*ssa.BasicBlock {
	var out []*ssa.BasicBlock
	seen := map[*ssa.Function]bool{}
	var rec func(f *ssa.Function, d int)
	rec = func(f *ssa.Function, d int) {
		if f == nil || seen[f] {
			return
		}
		seen[f] = true
		out = append(out, f.Blocks...)
		if d >= maxInlineDepth {
			return
		}
		for _, b := range f.Blocks {
			for _, in := range b.Instrs {
				if g := TransparentCallee(in); g != nil {
					rec(g, d+1)
				}
			}
		}
	}
	rec(fn, 0)
	if in, ok := v.(ssa.Instruction); ok && in.Parent() != nil {
		rec(in.Parent(), maxInlineDepth)
	}
	return out
}

// BlocksT lists the blocks of fn and of the helpers it transparently enters.
func BlocksT(fn *ssa.Function) []*ssa.BasicBlock { return blocksT(fn, nil) }

// prunedSucc: the helper call `call` just returned with the per-result knowledge vals; if cond tests one of those results
// (err != nil, err == nil, ok, !ok), the index of the successor that can NOT be taken is returned (-1 otherwise).
func prunedSucc(cond ssa.Value, call *ssa.Call, vals []int8) int {
	neg := false
	for {
		if u, ok := cond.(*ssa.UnOp); ok && u.Op == token.NOT {
			neg = !neg
			cond = u.X
			continue
		}
		break
	}
	resIdx := func(v ssa.Value) int {
		v = unwrap(v)
		if srcs := resolveLocal(v); len(srcs) == 1 {
			v = unwrap(srcs[0])
		}
		if e, ok := v.(*ssa.Extract); ok && e.Tuple == ssa.Value(call) {
			return e.Index
		}
		if v == ssa.Value(call) {
			return 0
		}
		return -1
	}
	holds := 0 // +1 the condition is known true, -1 known false
	if bo, ok := cond.(*ssa.BinOp); ok && (bo.Op == token.NEQ || bo.Op == token.EQL) {
		var other ssa.Value
		if IsNilConst(bo.Y) {
			other = bo.X
		} else if IsNilConst(bo.X) {
			other = bo.Y
		}
		if other != nil {
			if i := resIdx(other); i >= 0 && i < len(vals) && vals[i] != 0 {
				isNil := vals[i] == 1
				if (bo.Op == token.EQL) == isNil {
					holds = 1
				} else {
					holds = -1
				}
			}
		}
	} else if i := resIdx(cond); i >= 0 && i < len(vals) && vals[i] != 0 {
		if t, ok := cond.Type().Underlying().(*types.Basic); ok && t.Kind() == types.Bool {
			if vals[i] == 1 {
				holds = 1
			} else {
				holds = -1
			}
		}
	}
	if holds == 0 {
		return -1
	}
	if neg {
		holds = -holds
	}
	if holds == 1 {
		return 1 // condition true: the else successor is impossible
	}
	return 0
}

// errorOfCall: v is the error produced by call c and nothing else: c's error result itself, or the error result of a call
// to a transparent helper all of whose returns hand back c's error or were reached under c's err == nil.
func errorOfCall(v ssa.Value, c ssa.Value, depth int) bool {
	if depth > maxInlineDepth {
		return false
	}
	v = unwrap(v)
	if srcs := resolveLocal(v); len(srcs) == 1 {
		v = unwrap(srcs[0])
	}
	if e, ok := v.(*ssa.Extract); ok && e.Tuple == c && isErrorType(e.Type()) {
		return true
	}
	if v == c && isErrorType(v.Type()) {
		return true
	}
	// result of a transparent helper
	var call *ssa.Call
	idx := 0
	switch x := v.(type) {
	case *ssa.Extract:
		call, _ = x.Tuple.(*ssa.Call)
		idx = x.Index
	case *ssa.Call:
		call = x
	}
	if call == nil {
		return false
	}
	g := TransparentCallee(call)
	if g == nil {
		return false
	}
	ci, ok := c.(ssa.Instruction)
	if !ok || ci.Parent() != g {
		return false
	}
	for _, r := range returnsOf(g) {
		if idx >= len(r.Results) {
			return false
		}
		rv := r.Results[idx]
		if errorOfCall(rv, c, depth+1) {
			continue
		}
		// another exit of the helper: acceptable when it is a failing exit, or reached only after c returned nil
		if !IsNilConst(unwrap(rv)) && provablyNonNilAt(g, rv, r) {
			continue // a failing exit
		}
		if ok, _ := OkDominates(g, ci, r); ok {
			continue
		}
		return false
	}
	return true
}
