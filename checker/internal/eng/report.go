package eng

import (
	"encoding/json"
	"fmt"
	"os"
	"path/filepath"
	"runtime/debug"
	"sort"
	"strings"
	"time"

	"golang.org/x/tools/go/ssa"
)

// Obligation is one decided rule instance.
type Obligation struct {
	Key    string `json:"key"`    // rule + construct, never a line number
	Rule   string `json:"rule"`   // ORDER, PASS, GUARD, ATOMIC, GUARDED-BY, OWNER, ...
	Site   string `json:"site"`   // file:line of the construct inspected (informational)
	Func   string `json:"func"`   // function key
	Want   string `json:"want"`   // the obligation in words
	Status string `json:"status"` // discharged | violated | undecided | known-finding
	Detail string `json:"detail,omitempty"`
	Config string `json:"config,omitempty"`
}

// KnownFinding is an entry of /verif/known_findings.json.
type KnownFinding struct {
	Status   string `json:"status"`
	Property string `json:"property"`
	Key      string `json:"key,omitempty"`
	What     string `json:"what,omitempty"`
	Commit   string `json:"commit,omitempty"`
	Line     string `json:"line,omitempty"`
}

// Ctx is the per-property checking context.
type Ctx struct {
	P            *Prog
	Prop         string
	Tier         string
	Obls         []Obligation
	Observations []string
	Explanation  string
	NotDecided   string
	Assumptions  []string
	MinObls      int
	Known        []KnownFinding
	FuncsTouched map[string]bool
	curRule      string
	curKey       string
}

type anchorErr struct{ msg string }

// Fn resolves a function anchor or aborts the current rule instance as undecided.
func (c *Ctx) Fn(key string) *ssa.Function {
	f := c.P.Func(key)
	if f == nil || f.Blocks == nil {
		panic(anchorErr{"unresolved anchor: function " + key + " not found in the loaded program"})
	}
	c.FuncsTouched[key] = true
	return f
}

// One returns the single site matched in fn, or aborts the rule instance as undecided.
func (c *Ctx) One(fn *ssa.Function, m Matcher, what string) Site {
	s := c.P.SitesT(fn, m) // fn and the helpers it transparently enters
	if len(s) != 1 {
		if d := c.P.SitesDirect(fn, m); len(d) == 1 {
			s = d // several in the region, one in fn itself: the rule means that one
		}
	}
	if len(s) != 1 {
		panic(anchorErr{fmt.Sprintf("unresolved anchor: expected exactly one %s in %s, found %d", what, c.P.FuncKey(fn), len(s))})
	}
	return s[0]
}

// Some returns the sites matched in fn (at least one) or aborts the instance as undecided.
func (c *Ctx) Some(fn *ssa.Function, m Matcher, what string) []Site {
	s := c.P.SitesT(fn, m)
	if len(s) == 0 {
		panic(anchorErr{fmt.Sprintf("unresolved anchor: no %s in %s", what, c.P.FuncKey(fn))})
	}
	return s
}

// Undecided aborts the current rule instance.
func (c *Ctx) Undecided(format string, a ...interface{}) {
	panic(anchorErr{fmt.Sprintf(format, a...)})
}

// Rule runs one rule instance; a panic inside (unresolved anchor, unrecognised idiom, checker bug)
// is recorded as an undecided obligation, which counts as a failure.
func (c *Ctx) Rule(rule, key string, body func()) {
	full := c.Prop + "/" + rule + "/" + key
	before := len(c.Obls)
	defer func() {
		if r := recover(); r != nil {
			msg := ""
			if ae, ok := r.(anchorErr); ok {
				msg = ae.msg
			} else {
				msg = fmt.Sprintf("checker panic: %v\n%s", r, string(debug.Stack()))
			}
			c.Obls = append(c.Obls, Obligation{Key: full, Rule: rule, Status: "undecided", Detail: msg,
				Want: "rule instance must be decidable on the current tree", Config: c.P.Config})
			return
		}
		if len(c.Obls) == before {
			c.Obls = append(c.Obls, Obligation{Key: full, Rule: rule, Status: "undecided",
				Detail: "rule instance produced no obligation (vacuous)", Config: c.P.Config})
		}
	}()
	c.curRule = rule
	cur := c.curKey
	c.curKey = full
	body()
	c.curKey = cur
}

// Check records one obligation under the current rule instance. sub distinguishes several
// obligations of one instance (construct name, not a line).
func (c *Ctx) Check(ok bool, sub string, at ssa.Instruction, fn *ssa.Function, want, detail string) bool {
	o := Obligation{Key: c.curKey, Rule: c.curRule, Want: want, Config: c.P.Config}
	if sub != "" {
		o.Key += "#" + sub
	}
	if fn != nil {
		o.Func = c.P.FuncKey(fn)
		c.FuncsTouched[o.Func] = true
	}
	if at != nil {
		o.Site = c.P.InstrPos(at)
		if fn == nil && at.Parent() != nil {
			o.Func = c.P.FuncKey(at.Parent())
		}
	} else if fn != nil {
		o.Site = c.P.Pos(fn.Pos())
	}
	if ok {
		o.Status = "discharged"
	} else {
		o.Status = "violated"
		o.Detail = detail
	}
	c.Obls = append(c.Obls, o)
	return ok
}

// Observe records something noticed and deliberately not claimed.
func (c *Ctx) Observe(s string) { c.Observations = append(c.Observations, s) }

// Property is a registered property check.
type Property struct {
	ID          string
	Title       string
	Explanation string // what is decided
	NotDecided  string // what is not
	MinObls     int    // confirmed-by-hand minimum obligation count
	Run         func(c *Ctx)
	Assumptions []string
}

// Result is the outcome of one property run.
type Result struct {
	Prop       string
	Obls       []Obligation
	Violations []Obligation
	KnownHits  []Obligation
}

// Evidence is the evidence file layout (EVIDENCE.schema.json, level "other").
type Evidence struct {
	PropertyID  string                 `json:"property_id"`
	Tier        string                 `json:"tier"`
	Seed        int                    `json:"seed"`
	Level       string                 `json:"level"`
	Coverage    map[string]interface{} `json:"coverage"`
	Assumptions []string               `json:"assumptions"`
	WallS       float64                `json:"wall_s"`
	Violations  int                    `json:"violations"`
}

// LoadKnown reads the committed known-findings file.
func LoadKnown(path string) ([]KnownFinding, error) {
	b, err := os.ReadFile(path)
	if err != nil {
		return nil, err
	}
	var f struct {
		Findings []KnownFinding `json:"findings"`
	}
	if err := json.Unmarshal(b, &f); err != nil {
		return nil, err
	}
	return f.Findings, nil
}

// RunProperty evaluates a property on one or more loaded configurations and merges the obligations.
func RunProperty(pr Property, progs []*Prog, tier string, known []KnownFinding, extra func(c *Ctx)) *Ctx {
	var merged *Ctx
	for _, p := range progs {
		c := &Ctx{P: p, Prop: pr.ID, Tier: tier, Known: known, FuncsTouched: map[string]bool{},
			Explanation: pr.Explanation, NotDecided: pr.NotDecided, Assumptions: pr.Assumptions, MinObls: pr.MinObls}
		func() {
			defer func() {
				if r := recover(); r != nil {
					c.Obls = append(c.Obls, Obligation{Key: pr.ID + "/ENGINE/panic", Rule: "ENGINE", Status: "undecided",
						Detail: fmt.Sprintf("checker panic outside a rule instance: %v\n%s", r, debug.Stack()), Config: p.Config})
				}
			}()
			curProg = p
			pr.Run(c)
			if extra != nil {
				extra(c)
			}
		}()
		n := 0
		for _, o := range c.Obls {
			if o.Status == "discharged" || o.Status == "violated" {
				n++
			}
		}
		if n < pr.MinObls {
			c.Obls = append(c.Obls, Obligation{Key: pr.ID + "/ENGINE/instance-count", Rule: "ENGINE", Status: "undecided",
				Want:   fmt.Sprintf("at least %d decided obligations (count confirmed by hand)", pr.MinObls),
				Detail: fmt.Sprintf("only %d obligations were decided: rule instances no longer match the code", n), Config: p.Config})
		}
		if merged == nil {
			merged = c
		} else {
			merged.Obls = append(merged.Obls, c.Obls...)
			for k := range c.FuncsTouched {
				merged.FuncsTouched[k] = true
			}
			merged.Observations = append(merged.Observations, c.Observations...)
		}
	}
	return merged
}

// Finish classifies violations against the known-findings file, prints the verdict lines,
// writes replay files and the evidence file. It returns the number of unlisted violations.
func Finish(c *Ctx, outDir string, start time.Time, configs []string, stats map[string]interface{}) int {
	_ = os.MkdirAll(filepath.Join(outDir, "replay"), 0o755)
	// remove stale replay files of this property
	old, _ := filepath.Glob(filepath.Join(outDir, "replay", c.Prop+"-*.json"))
	for _, f := range old {
		_ = os.Remove(f)
	}
	knownByKey := map[string]KnownFinding{}
	for _, k := range c.Known {
		if k.Status == "known" && k.Property == c.Prop {
			knownByKey[k.Key] = k
		}
	}
	viol := 0
	discharged := 0
	var knownHits []string
	seenKnown := map[string]bool{}
	for i := range c.Obls {
		o := &c.Obls[i]
		switch o.Status {
		case "discharged":
			discharged++
		case "violated", "undecided":
			if k, ok := knownByKey[o.Key]; ok && o.Status == "violated" {
				o.Status = "known-finding"
				if !seenKnown[o.Key] {
					seenKnown[o.Key] = true
					fmt.Printf("KNOWN-FINDING: property=%s %s [%s at %s]\n", c.Prop, k.What, o.Key, o.Site)
					knownHits = append(knownHits, o.Key)
				}
				continue
			}
			viol++
			path := filepath.Join(outDir, "replay", fmt.Sprintf("%s-%d.json", c.Prop, viol))
			b, _ := json.MarshalIndent(map[string]interface{}{
				"property": c.Prop, "obligation": o, "tier": c.Tier,
				"how_to_replay": "./run.sh explain " + path,
			}, "", " ")
			_ = os.WriteFile(path, b, 0o644)
			fmt.Printf("%s: %s %s\n    want: %s\n    %s: %s\n", o.Site, o.Rule, o.Key, o.Want, o.Status, o.Detail)
			fmt.Printf("VIOLATION property=%s replay=%s\n", c.Prop, path)
		}
	}
	// evidence
	samples := []interface{}{}
	ruleKinds := map[string]int{}
	for _, o := range c.Obls {
		ruleKinds[o.Rule]++
		if len(samples) < 400 {
			samples = append(samples, o)
		}
	}
	var funcs []string
	for k := range c.FuncsTouched {
		funcs = append(funcs, k)
	}
	sort.Strings(funcs)
	expl := c.Explanation
	if c.NotDecided != "" {
		expl += " NOT decided: " + c.NotDecided
	}
	cov := map[string]interface{}{
		"explanation":        expl,
		"obligations":        len(c.Obls),
		"discharged":         discharged,
		"known_findings":     knownHits,
		"samples":            samples,
		"rule_kinds":         ruleKinds,
		"functions_analysed": funcs,
		"functions_count":    len(funcs),
		"build_configs":      configs,
		"observations":       c.Observations,
		"min_obligations":    c.MinObls,
		"checker_cmd":        "./run.sh " + c.Prop + " " + c.Tier,
		"trusted_base": []string{"go/types and go/ssa of golang.org/x/tools v0.29.0", "go/packages loading of /repo with the real module",
			"the hand-confirmed rule-instance tables in /verif/checker/internal/props", "class-hierarchy resolution of interface calls restricted to the module"},
		"exhaustive": true,
	}
	for k, v := range stats {
		cov[k] = v
	}
	ev := Evidence{PropertyID: c.Prop, Tier: c.Tier, Seed: seedFromEnv(), Level: "other", Coverage: cov,
		Assumptions: append([]string{
			"static analysis only: no lindb code is executed; verdicts are about the shape of the code on every path",
			"calls that leave a package do not call back into mutators of that package's unexported state unless a closure is passed",
			"file-system primitives behave as documented (rename is atomic, fsync makes prior writes durable)",
		}, c.Assumptions...),
		WallS: time.Since(start).Seconds(), Violations: viol}
	b, _ := json.MarshalIndent(ev, "", " ")
	_ = os.WriteFile(filepath.Join(outDir, c.Prop+".json"), b, 0o644)
	fmt.Printf("%s %s: %d obligations, %d discharged, %d known findings, %d violations (%s)\n",
		c.Prop, c.Tier, len(c.Obls), discharged, len(knownHits), viol, strings.Join(configs, ","))
	return viol
}

func seedFromEnv() int {
	var n int
	fmt.Sscanf(os.Getenv("VERIF_SEED"), "%d", &n)
	return n
}
