package eng

import (
	"fmt"
	"go/token"
	"strings"

	"golang.org/x/tools/go/ssa"
)

// Desc canonicalises an SSA value into a small readable term ("value descriptor").
// Loads of fields become access paths (recv.field), atomic Load() folds into the field read,
// conversions are transparent, calls are callee(args).
func (p *Prog) Desc(v ssa.Value) string { return p.desc(v, 0) }

func (p *Prog) desc(v ssa.Value, d int) string {
	if v == nil {
		return "<nil>"
	}
	if d > 8 {
		return v.Name()
	}
	switch x := v.(type) {
	case *ssa.Parameter:
		return ParamName(x)
	case *ssa.FreeVar:
		return LocalName(x)
	case *ssa.Const:
		if x.IsNil() {
			return "nil"
		}
		if x.Value == nil {
			return "zero"
		}
		return x.Value.String()
	case *ssa.Global:
		return ShortPkg(x.Pkg.Pkg.Path()) + "." + x.Name()
	case *ssa.Function:
		return p.FuncKey(x)
	case *ssa.Builtin:
		return x.Name()
	case *ssa.Alloc:
		if x.Comment != "" {
			return LocalName(x)
		}
		return "new"
	case *ssa.FieldAddr:
		s, _ := structOf(x.X.Type())
		name := "?"
		if s != nil {
			name = s.Field(x.Field).Name()
		}
		return p.desc(x.X, d+1) + "." + name
	case *ssa.Field:
		s, _ := structOf(x.X.Type())
		name := "?"
		if s != nil {
			name = s.Field(x.Field).Name()
		}
		return p.desc(x.X, d+1) + "." + name
	case *ssa.UnOp:
		switch x.Op {
		case token.MUL:
			if _, ok := x.X.(*ssa.Alloc); ok {
				// a local cell (e.g. a defer-spilled named result): describe the value stored into it
				// when the reaching store is unambiguous
				if srcs := resolveLocal(x); len(srcs) == 1 && srcs[0] != ssa.Value(x) {
					return p.desc(srcs[0], d+1)
				}
			}
			switch x.X.(type) {
			case *ssa.FieldAddr, *ssa.Alloc, *ssa.FreeVar, *ssa.Global, *ssa.IndexAddr:
				return p.desc(x.X, d+1)
			}
			return "*" + p.desc(x.X, d+1)
		case token.NOT:
			return "!" + p.desc(x.X, d+1)
		case token.SUB:
			return "-" + p.desc(x.X, d+1)
		case token.ARROW:
			return "<-" + p.desc(x.X, d+1)
		}
		return x.Op.String() + p.desc(x.X, d+1)
	case *ssa.BinOp:
		return "(" + p.desc(x.X, d+1) + x.Op.String() + p.desc(x.Y, d+1) + ")"
	case *ssa.ChangeType:
		return p.desc(x.X, d+1)
	case *ssa.ChangeInterface:
		return p.desc(x.X, d+1)
	case *ssa.MakeInterface:
		return p.desc(x.X, d+1)
	case *ssa.Convert:
		return p.desc(x.X, d+1)
	case *ssa.Extract:
		return fmt.Sprintf("%s#%d", p.desc(x.Tuple, d+1), x.Index)
	case *ssa.Phi:
		if x.Comment != "" {
			return "phi:" + x.Comment
		}
		return "phi:" + x.Name()
	case *ssa.IndexAddr:
		return p.desc(x.X, d+1) + "[" + p.desc(x.Index, d+1) + "]"
	case *ssa.Index:
		return p.desc(x.X, d+1) + "[" + p.desc(x.Index, d+1) + "]"
	case *ssa.Lookup:
		return p.desc(x.X, d+1) + "[" + p.desc(x.Index, d+1) + "]"
	case *ssa.Slice:
		return p.desc(x.X, d+1) + "[:]"
	case *ssa.MakeClosure:
		if f, ok := x.Fn.(*ssa.Function); ok {
			return "closure:" + p.FuncKey(f)
		}
	case *ssa.TypeAssert:
		return p.desc(x.X, d+1)
	case *ssa.Call:
		if fa, m, _ := AtomicOp(x); fa != nil && m == "Load" {
			return p.desc(fa, d+1)
		}
		cc := x.Common()
		if f := cc.StaticCallee(); f != nil && len(cc.Args) > 0 && InModule(f) {
			g := f
			if g.Origin() != nil && g.Blocks == nil {
				g = g.Origin()
			}
			if path, ok := p.AccessorField(g); ok {
				return p.desc(cc.Args[0], d+1) + "." + path
			}
		}
		var args []string
		a := cc.Args
		recv := ""
		if cc.IsInvoke() {
			recv = p.desc(cc.Value, d+1) + "."
		} else if f := cc.StaticCallee(); f != nil && f.Signature.Recv() != nil && len(a) > 0 {
			recv = p.desc(a[0], d+1) + "."
			a = a[1:]
		}
		for _, e := range a {
			args = append(args, p.desc(e, d+1))
		}
		name := strings.Join(p.CalleeKeys(x), "|")
		if recv != "" {
			if i := strings.LastIndex(name, "."); i >= 0 {
				name = name[i+1:]
			}
		}
		return recv + name + "(" + strings.Join(args, ",") + ")"
	}
	return v.Name()
}

// BaseOfFieldAddr returns the descriptor of the object whose field is addressed.
func (p *Prog) BaseOfFieldAddr(fa *ssa.FieldAddr) string { return p.Desc(fa.X) }

// DescUp is Desc, except that a parameter of a transparent helper with exactly one call site is described by what the
// caller passes (for rules that compare a value used inside a helper with the caller's names).
func (p *Prog) DescUp(v ssa.Value) string {
	if x, ok := v.(*ssa.Parameter); ok {
		if as := transparentArgs(x); len(as) == 1 {
			return p.DescUp(as[0])
		}
	}
	return p.Desc(v)
}
