package eng

import (
	"go/token"
	"sort"
	"strings"

	"golang.org/x/tools/go/ssa"
)

// LockOp describes a mutex operation instruction.
type LockOp struct {
	Instr    ssa.Instruction
	Field    string // "pkg.T.f" of the mutex field ("" when the mutex is not a struct field)
	Base     string // descriptor of the object holding the mutex
	Acquire  bool
	Write    bool // Lock/Unlock vs RLock/RUnlock
	Deferred bool
}

// Key identifies the lock instance inside one function.
func (l LockOp) Key() string { return l.Base + "|" + l.Field }

// lockOpOf recognises sync.Mutex / sync.RWMutex / sync.Locker operations.
func (p *Prog) lockOpOf(in ssa.Instruction) (LockOp, bool) {
	c, ok := in.(ssa.CallInstruction)
	if !ok {
		return LockOp{}, false
	}
	cc := c.Common()
	var name string
	var recv ssa.Value
	if cc.IsInvoke() {
		if cc.Method.Pkg() == nil || cc.Method.Pkg().Path() != "sync" {
			return LockOp{}, false
		}
		name = cc.Method.Name()
		recv = cc.Value
	} else {
		f := cc.StaticCallee()
		if f == nil || f.Pkg == nil || f.Pkg.Pkg.Path() != "sync" || f.Signature.Recv() == nil || len(cc.Args) == 0 {
			return LockOp{}, false
		}
		rt := recvTypeName(f.Signature.Recv().Type())
		if rt != "Mutex" && rt != "RWMutex" {
			return LockOp{}, false
		}
		name = f.Name()
		recv = cc.Args[0]
	}
	op := LockOp{Instr: in}
	switch name {
	case "Lock":
		op.Acquire, op.Write = true, true
	case "RLock":
		op.Acquire = true
	case "Unlock":
		op.Write = true
	case "RUnlock":
	default:
		return LockOp{}, false
	}
	if _, ok := in.(*ssa.Defer); ok {
		op.Deferred = true
	}
	if fa := fieldAddrOf(recv); fa != nil {
		op.Field = FieldKeyOfAddr(fa)
		op.Base = p.Desc(fa.X)
	} else if u, ok := recv.(*ssa.UnOp); ok && u.Op == token.MUL {
		// e.g. cond.L (interface) loaded from a field
		if fa, ok := u.X.(*ssa.FieldAddr); ok {
			op.Field = FieldKeyOfAddr(fa)
			op.Base = p.Desc(fa.X)
		} else {
			op.Base = p.Desc(recv)
		}
	} else {
		op.Base = p.Desc(recv)
	}
	return op, true
}

// Held is the set of locks that are definitely held: key -> write mode.
type Held map[string]bool

func (h Held) clone() Held {
	n := Held{}
	for k, v := range h {
		n[k] = v
	}
	return n
}

// HasField reports whether some lock on mutex field (type-level key "pkg.T.f") is held; if
// write is requested a read hold does not count.
func (h Held) HasField(field string, write bool) bool {
	for k, w := range h {
		if strings.HasSuffix(k, "|"+field) && (!write || w) {
			return true
		}
	}
	return false
}

func (h Held) String() string {
	var ks []string
	for k, w := range h {
		m := "R"
		if w {
			m = "W"
		}
		ks = append(ks, k+":"+m)
	}
	sort.Strings(ks)
	return "{" + strings.Join(ks, ",") + "}"
}

// LockState is the result of the lock-hold dataflow of one function.
type LockState struct {
	p     *Prog
	fn    *ssa.Function
	in    map[*ssa.BasicBlock]Held
	ops   map[ssa.Instruction]LockOp
	sub   map[*ssa.Function]*LockState // lock states of transparent helpers, seeded with what is held at their call sites
	depth int
}

// Locks computes, by a forward must-dataflow, the locks held at each point of fn.
// `defer mu.Unlock()` keeps the lock held until function exit. The entry state can be seeded
// (locks the caller is known to hold).
func (p *Prog) Locks(fn *ssa.Function, entry Held) *LockState { return p.locksDepth(fn, entry, 0) }

func (p *Prog) locksDepth(fn *ssa.Function, entry Held, depth int) *LockState {
	ls := &LockState{p: p, fn: fn, in: map[*ssa.BasicBlock]Held{}, ops: map[ssa.Instruction]LockOp{}, depth: depth}
	if fn == nil || len(fn.Blocks) == 0 {
		return ls
	}
	for _, b := range fn.Blocks {
		for _, in := range b.Instrs {
			if op, ok := p.lockOpOf(in); ok {
				ls.ops[in] = op
			}
		}
	}
	if entry == nil {
		entry = Held{}
	}
	out := map[*ssa.BasicBlock]Held{}
	ls.in[fn.Blocks[0]] = entry.clone()
	changed := true
	for iter := 0; changed && iter < 50; iter++ {
		changed = false
		for _, b := range fn.Blocks {
			var inb Held
			if b == fn.Blocks[0] {
				inb = entry.clone()
			} else {
				first := true
				for _, pr := range b.Preds {
					o, ok := out[pr]
					if !ok {
						continue // not yet computed: optimistic (top)
					}
					if first {
						inb = o.clone()
						first = false
					} else {
						for k, w := range inb {
							ow, ok := o[k]
							if !ok {
								delete(inb, k)
							} else if w && !ow {
								inb[k] = false
							}
						}
					}
				}
				if inb == nil {
					inb = Held{}
					if first && len(b.Preds) > 0 {
						// no predecessor computed yet
						continue
					}
				}
			}
			ls.in[b] = inb
			cur := inb.clone()
			for _, in := range b.Instrs {
				ls.apply(cur, in)
			}
			if old, ok := out[b]; !ok || !sameHeld(old, cur) {
				out[b] = cur
				changed = true
			}
		}
	}
	return ls
}

func sameHeld(a, b Held) bool {
	if len(a) != len(b) {
		return false
	}
	for k, v := range a {
		if w, ok := b[k]; !ok || w != v {
			return false
		}
	}
	return true
}

func (ls *LockState) apply(cur Held, in ssa.Instruction) {
	op, ok := ls.ops[in]
	if !ok {
		// a transparent helper may take or release locks: its effect is the lock set held at all its returns
		if g := TransparentCallee(in); g != nil && ls.depth < maxInlineDepth && g != ls.fn {
			if eff, ok := ls.p.helperLockEffect(g, in.(*ssa.Call), cur, ls.depth+1); ok {
				for k := range cur {
					delete(cur, k)
				}
				for k, v := range eff {
					cur[k] = v
				}
			}
		}
		return
	}
	if op.Deferred {
		return
	}
	if op.Acquire {
		cur[op.Key()] = op.Write
	} else {
		delete(cur, op.Key())
	}
}

// At returns the locks definitely held immediately before instruction in executes.  For an instruction inside a
// transparent helper of the function the state is that of the helper, entered with what is held at its call sites.
func (ls *LockState) At(in ssa.Instruction) Held {
	if g := in.Parent(); g != nil && g != ls.fn && ls.fn != nil {
		if sub := ls.subState(g); sub != nil {
			return sub.At(in)
		}
	}
	b := in.Block()
	cur := ls.in[b].clone()
	if cur == nil {
		cur = Held{}
	}
	for _, x := range b.Instrs {
		if x == in {
			break
		}
		ls.apply(cur, x)
	}
	return cur
}

// Ops returns the lock operations of the function in block order.
func (ls *LockState) Ops() []LockOp {
	var out []LockOp
	for _, b := range ls.fn.Blocks {
		for _, in := range b.Instrs {
			if op, ok := ls.ops[in]; ok {
				out = append(out, op)
			}
		}
	}
	return out
}

// SameHold reports whether instructions a and b of the function lie in one uninterrupted hold of
// a lock on mutex field `field` (write mode if write): the lock is held at both and no path from
// a to b passes a (non-deferred) release of that mutex field.
func (ls *LockState) SameHold(a, b ssa.Instruction, field string, write bool) (bool, string) {
	if !ls.At(a).HasField(field, write) {
		return false, "lock not held at " + ls.p.InstrPos(a)
	}
	if !ls.At(b).HasField(field, write) {
		return false, "lock not held at " + ls.p.InstrPos(b)
	}
	// order the two sites along the control flow: the hold has to be uninterrupted from the earlier to the later one
	if _, ab := PathExists(PathQuery{Fn: ls.fn, After: a, Target: func(x ssa.Instruction) bool { return x == b }}); !ab {
		if _, ba := PathExists(PathQuery{Fn: ls.fn, After: b, Target: func(x ssa.Instruction) bool { return x == a }}); ba {
			a, b = b, a
		}
	}
	rel := func(in ssa.Instruction) bool {
		op, ok := ls.p.lockOpOf(in) // also inside transparent helpers
		return ok && !op.Deferred && !op.Acquire && op.Field == field
	}
	// is there a path a -> release -> b ?
	var hit ssa.Instruction
	_, found := PathExists(PathQuery{Fn: ls.fn, After: a,
		Target: func(in ssa.Instruction) bool {
			if rel(in) {
				// from this release, can b be reached?
				if _, ok := PathExists(PathQuery{Fn: ls.fn, After: in,
					Target: func(x ssa.Instruction) bool { return x == b }}); ok {
					hit = in
					return true
				}
			}
			return false
		},
		Blocked: func(in ssa.Instruction) bool { return in == b }})
	if found {
		return false, "the lock is released at " + ls.p.InstrPos(hit) + " between the two sites"
	}
	return true, ""
}

// HeldAtAllCallers reports whether every static caller of fn (transitively up to depth through
// callers that themselves do not hold it) holds a lock on mutex `field` at the call site.
// It returns the offending call site description when not.
func (p *Prog) HeldAtAllCallers(fn *ssa.Function, field string, write bool, depth int) (bool, string, int) {
	callers := p.StaticCallers(fn)
	if len(callers) == 0 && fn.Parent() != nil {
		// a closure handed to a callee (e.g. a Walk callback): it runs inside the enclosing function's
		// dynamic extent when it is created under the lock and not started as a goroutine / deferred
		par := fn.Parent()
		ls := p.Locks(par, nil)
		for _, b := range par.Blocks {
			for _, in := range b.Instrs {
				mc, ok := in.(*ssa.MakeClosure)
				if !ok || mc.Fn != ssa.Value(fn) {
					continue
				}
				async := false
				for _, ref := range *mc.Referrers() {
					switch ref.(type) {
					case *ssa.Go, *ssa.Defer:
						async = true
					}
				}
				if !async && ls.At(in).HasField(field, write) {
					return true, "", 1
				}
				if depth > 0 && !async {
					return p.HeldAtAllCallers(par, field, write, depth-1)
				}
				return false, "closure " + p.FuncKey(fn) + " is created without " + field + " held", 0
			}
		}
	}
	if len(callers) == 0 {
		return false, "no static caller found for " + p.FuncKey(fn), 0
	}
	n := 0
	for _, cs := range callers {
		ls := p.Locks(cs.Fn, nil)
		if ls.At(cs.Instr).HasField(field, write) {
			n++
			continue
		}
		if depth > 0 {
			ok, why, m := p.HeldAtAllCallers(cs.Fn, field, write, depth-1)
			if ok {
				n += m
				continue
			}
			return false, why, n
		}
		return false, "call at " + p.InstrPos(cs.Instr) + " in " + p.FuncKey(cs.Fn) + " without " + field, n
	}
	return true, "", n
}

// subState computes the lock state of the transparent helper g as entered from ls.fn (intersection over call chains).
func (ls *LockState) subState(g *ssa.Function) *LockState {
	if ls.sub == nil {
		ls.sub = map[*ssa.Function]*LockState{}
	}
	if st, ok := ls.sub[g]; ok {
		return st
	}
	ls.sub[g] = nil // recursion guard
	chains := transparentChains(ls.fn, g)
	if len(chains) == 0 {
		return nil
	}
	var entry Held
	for i, ch := range chains {
		call := ch[len(ch)-1]
		h := translateHeld(ls.p, ls.At(call), call, g)
		if i == 0 {
			entry = h
		} else {
			for k, w := range entry {
				ow, ok := h[k]
				if !ok {
					delete(entry, k)
				} else if w && !ow {
					entry[k] = false
				}
			}
		}
	}
	st := ls.p.locksDepth(g, entry, ls.depth+1)
	ls.sub[g] = st
	return st
}

// translateHeld renames the lock bases of a caller's held set into the callee's parameter names where an argument
// denotes the same object (method receivers first of all); other keys are kept.
func translateHeld(p *Prog, h Held, call *ssa.Call, g *ssa.Function) Held {
	out := Held{}
	args := call.Common().Args
	for k, w := range h {
		i := strings.Index(k, "|")
		base, field := k[:i], k[i:]
		nb := base
		for ai, a := range args {
			if ai < len(g.Params) && p.Desc(a) == base {
				nb = g.Params[ai].Name()
				break
			}
		}
		// closures see the caller's variables under their own names
		out[nb+field] = w
	}
	return out
}

// helperLockEffect: the lock set after a call to the transparent helper g entered with `cur`: what is held at every
// normal return of g, renamed back into the caller's names.
func (p *Prog) helperLockEffect(g *ssa.Function, call *ssa.Call, cur Held, depth int) (Held, bool) {
	touches := false
	for _, b := range g.Blocks {
		for _, in := range b.Instrs {
			if _, ok := p.lockOpOf(in); ok {
				touches = true
			}
			if TransparentCallee(in) != nil {
				touches = true
			}
		}
	}
	if !touches {
		return nil, false
	}
	entry := translateHeld(p, cur, call, g)
	st := p.locksDepth(g, entry, depth)
	var out Held
	first := true
	for _, b := range g.Blocks {
		if len(b.Instrs) == 0 || b == g.Recover {
			continue
		}
		r, ok := b.Instrs[len(b.Instrs)-1].(*ssa.Return)
		if !ok {
			continue
		}
		h := st.At(r)
		// deferred unlocks of g run before it returns
		for _, op := range st.ops {
			if op.Deferred && !op.Acquire {
				delete(h, op.Key())
			}
		}
		if first {
			out, first = h, false
			continue
		}
		for k, w := range out {
			ow, ok := h[k]
			if !ok {
				delete(out, k)
			} else if w && !ow {
				out[k] = false
			}
		}
	}
	if first {
		return nil, false
	}
	// rename back
	back := Held{}
	args := call.Common().Args
	for k, w := range out {
		i := strings.Index(k, "|")
		base, field := k[:i], k[i:]
		nb := base
		for ai, a := range args {
			if ai < len(g.Params) && g.Params[ai].Name() == base {
				nb = p.Desc(a)
				break
			}
		}
		back[nb+field] = w
	}
	return back, true
}
