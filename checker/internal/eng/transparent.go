package eng

import (
	"go/ast"

	"golang.org/x/tools/go/ssa"
)

// Transparency: the analysis does not depend on how a function body is split into unexported helpers of the same
// package.  A call to such a helper (or a function literal invoked in place) is TRANSPARENT: path searches walk through
// the helper's body and come back to the instruction after the call, site searches look inside it, lock states are
// carried into and out of it, and values flow through its parameters and results.  Extract-method / inline refactorings
// therefore leave every path-, site-, lock- and value-based rule unchanged.
//
// Transparent callee of a call instruction (plain call, not go / defer):
//   - a function or method of the module with a body, declared in the same package as the caller, whose name is not
//     exported; or
//   - a function literal created and invoked in place.
// Exported functions and other packages stay opaque: they are API boundaries that rules name explicitly.

const maxInlineDepth = 3

// TransparentCallee returns the helper the call instruction transparently enters, or nil.
func TransparentCallee(in ssa.Instruction) *ssa.Function {
	c, ok := in.(*ssa.Call)
	if !ok {
		return nil
	}
	cc := c.Common()
	if cc.IsInvoke() {
		return nil
	}
	caller := in.Parent()
	if caller == nil || caller.Synthetic != "" {
		return nil // package initialisers and wrappers are not rule entry points
	}
	if mc, ok := unwrap(cc.Value).(*ssa.MakeClosure); ok {
		if f, ok := mc.Fn.(*ssa.Function); ok && len(f.Blocks) > 0 {
			return f
		}
		return nil
	}
	f := cc.StaticCallee()
	if f == nil {
		return nil
	}
	if f.Origin() != nil && len(f.Blocks) == 0 {
		f = f.Origin()
	}
	if len(f.Blocks) == 0 || !InModule(f) || f.Synthetic != "" {
		return nil
	}
	for q := caller; q != nil; q = q.Parent() {
		if q == f {
			return nil // recursion is a call, not a piece of the caller's body
		}
	}
	if ast.IsExported(baseFuncName(f)) {
		return nil
	}
	if pkgOfFn(f) == nil || pkgOfFn(f) != pkgOfFn(caller) {
		return nil
	}
	return f
}

func baseFuncName(f *ssa.Function) string {
	n := f.Name()
	for i := 0; i < len(n); i++ {
		if n[i] == '[' || n[i] == '$' {
			return n[:i]
		}
	}
	return n
}

func pkgOfFn(f *ssa.Function) *ssa.Package {
	for f != nil {
		if f.Pkg != nil {
			return f.Pkg
		}
		if f.Origin() != nil && f.Origin().Pkg != nil {
			return f.Origin().Pkg
		}
		f = f.Parent()
	}
	return nil
}

// transparentChains lists the call chains (outermost call first) by which root transparently reaches fn.
func transparentChains(root, fn *ssa.Function) [][]*ssa.Call {
	var out [][]*ssa.Call
	var rec func(cur *ssa.Function, chain []*ssa.Call, onStack map[*ssa.Function]bool)
	rec = func(cur *ssa.Function, chain []*ssa.Call, onStack map[*ssa.Function]bool) {
		if len(chain) >= maxInlineDepth {
			return
		}
		for _, b := range cur.Blocks {
			for _, in := range b.Instrs {
				g := TransparentCallee(in)
				if g == nil || onStack[g] {
					continue
				}
				nc := append(append([]*ssa.Call{}, chain...), in.(*ssa.Call))
				if g == fn {
					out = append(out, nc)
					continue
				}
				onStack[g] = true
				rec(g, nc, onStack)
				delete(onStack, g)
			}
		}
	}
	if root == fn {
		return [][]*ssa.Call{nil}
	}
	rec(root, nil, map[*ssa.Function]bool{root: true})
	return out
}

// SitesT returns the sites matched by m in fn and in every helper fn transparently enters (Fn of a site is the function
// that contains it).
func (p *Prog) SitesT(fn *ssa.Function, m Matcher) []Site {
	var out []Site
	seen := map[ssa.Instruction]bool{}
	var rec func(cur *ssa.Function, depth int, onStack map[*ssa.Function]bool)
	rec = func(cur *ssa.Function, depth int, onStack map[*ssa.Function]bool) {
		for _, b := range cur.Blocks {
			for _, in := range b.Instrs {
				if m(p, in) && !seen[in] {
					seen[in] = true
					out = append(out, Site{cur, in})
				}
				if depth >= maxInlineDepth {
					continue
				}
				if g := TransparentCallee(in); g != nil && !onStack[g] {
					onStack[g] = true
					rec(g, depth+1, onStack)
					delete(onStack, g)
				}
			}
		}
	}
	if fn == nil {
		return nil
	}
	rec(fn, 0, map[*ssa.Function]bool{fn: true})
	return out
}

// ThroughHelper resolves a value produced by a call to a transparent helper to the value the helper returns, when the
// helper has a single return (repeatedly); other values are returned unchanged.
func ThroughHelper(v ssa.Value) ssa.Value {
	for d := 0; d < maxInlineDepth; d++ {
		idx := 0
		cv := unwrap(v)
		if e, ok := cv.(*ssa.Extract); ok {
			idx = e.Index
			cv = e.Tuple
		}
		cl, ok := cv.(*ssa.Call)
		if !ok {
			return v
		}
		g := TransparentCallee(cl)
		if g == nil {
			return v
		}
		rs := returnsOf(g)
		if len(rs) == 0 {
			return v
		}
		var r ssa.Value
		for _, ret := range rs {
			if idx >= len(ret.Results) {
				return v
			}
			x := ret.Results[idx]
			if srcs := resolveLocal(x); len(srcs) == 1 {
				x = srcs[0]
			}
			if r == nil {
				r = x
			} else if r != x {
				return v // different values on different exits
			}
		}
		v = r
	}
	return v
}

// FuncOfValue resolves a function-typed value to the module function it denotes: a function literal, a named function,
// or a bound method value (the synthetic wrapper is looked through).
func FuncOfValue(v ssa.Value) *ssa.Function {
	v = unwrap(v)
	var f *ssa.Function
	switch x := v.(type) {
	case *ssa.MakeClosure:
		f, _ = x.Fn.(*ssa.Function)
	case *ssa.Function:
		f = x
	}
	if f == nil {
		return nil
	}
	if f.Synthetic != "" {
		// bound method wrapper / thunk: the one static call inside
		for _, b := range f.Blocks {
			for _, in := range b.Instrs {
				if c, ok := in.(ssa.CallInstruction); ok {
					if g := c.Common().StaticCallee(); g != nil && InModule(g) {
						return g
					}
				}
			}
		}
		return nil
	}
	return f
}

// ValueReferrers lists the module functions that use fn as a value (pass it as a callback, store it), directly or as a
// bound method value.
func (p *Prog) ValueReferrers(fn *ssa.Function) []*ssa.Function {
	var out []*ssa.Function
	seen := map[*ssa.Function]bool{}
	for _, f := range p.AllFuncs {
		for _, b := range f.Blocks {
			for _, in := range b.Instrs {
				var ops [12]*ssa.Value
				for _, op := range in.Operands(ops[:0]) {
					if op == nil || *op == nil {
						continue
					}
					if _, isCall := in.(ssa.CallInstruction); isCall {
						if cc := in.(ssa.CallInstruction).Common(); cc.Value == *op {
							if _, isMC := (*op).(*ssa.MakeClosure); !isMC {
								continue // the callee position of a static call is a call, not a value use
							}
						}
					}
					if g := FuncOfValue(*op); g == fn && !seen[f] {
						if _, isMC := in.(*ssa.MakeClosure); isMC && in.(*ssa.MakeClosure).Fn == ssa.Value(fn) {
							continue // creation of fn's own closure is not a use by itself; its consumer is
						}
						seen[f] = true
						out = append(out, f)
					}
				}
			}
		}
	}
	return out
}

// UpParam resolves a parameter of a transparent helper that has exactly one transparent call site to the value the
// caller passes (repeatedly); every other value is returned unchanged.
func UpParam(v ssa.Value) ssa.Value {
	for d := 0; d < maxInlineDepth; d++ {
		x, ok := unwrap(v).(*ssa.Parameter)
		if !ok {
			return v
		}
		as := transparentArgs(x)
		if len(as) != 1 {
			return v
		}
		v = as[0]
	}
	return v
}

// TopOf maps a site found (transparently) inside a helper of root to the call instruction in root's own body through which
// the helper is entered; a site in root itself is returned unchanged. nil when the site is not reached from root, or is
// reached through several different call sites.
func TopOf(root *ssa.Function, s Site) ssa.Instruction {
	fn := s.Instr.Parent()
	if fn == root {
		return s.Instr
	}
	chains := transparentChains(root, fn)
	var top ssa.Instruction
	for _, ch := range chains {
		if len(ch) == 0 {
			continue
		}
		if top != nil && top != ssa.Instruction(ch[0]) {
			return nil
		}
		top = ch[0]
	}
	return top
}

// UpParamVia resolves a parameter of the transparent helper that contains site s to the argument passed by the call
// through which root enters that helper (repeatedly, along the unique chain); other values are returned unchanged.
// Unlike UpParam it works for a helper with several callers, as long as root itself reaches it through one chain.
func UpParamVia(root *ssa.Function, s Site, v ssa.Value) ssa.Value {
	for d := 0; d < maxInlineDepth; d++ {
		x, ok := unwrap(v).(*ssa.Parameter)
		if !ok || x.Parent() == root {
			return v
		}
		g := x.Parent()
		chains := transparentChains(root, g)
		var call *ssa.Call
		for _, ch := range chains {
			if len(ch) == 0 {
				continue
			}
			last := ch[len(ch)-1]
			if call != nil && call != last {
				return v
			}
			call = last
		}
		if call == nil {
			return v
		}
		idx := -1
		for i, pr := range g.Params {
			if pr == x {
				idx = i
			}
		}
		args := call.Common().Args
		if call.Common().IsInvoke() || idx < 0 || idx >= len(args) {
			return v
		}
		v = args[idx]
	}
	return v
}

// ThroughHelperValue is ThroughHelper for helpers with several returns of which all but one hand back a constant (nil, false,
// 0 - the "nothing to do" exits): the value of the one informative return.
func ThroughHelperValue(v ssa.Value) ssa.Value {
	for d := 0; d < maxInlineDepth; d++ {
		idx := 0
		cv := unwrap(v)
		if e, ok := cv.(*ssa.Extract); ok {
			idx = e.Index
			cv = e.Tuple
		}
		cl, ok := cv.(*ssa.Call)
		if !ok {
			return v
		}
		g := TransparentCallee(cl)
		if g == nil {
			return v
		}
		var r ssa.Value
		for _, ret := range returnsOf(g) {
			if idx >= len(ret.Results) {
				return v
			}
			x := ret.Results[idx]
			if srcs := resolveLocal(x); len(srcs) == 1 {
				x = srcs[0]
			}
			if _, isConst := x.(*ssa.Const); isConst {
				continue
			}
			if r == nil {
				r = x
			} else if r != x {
				return v
			}
		}
		if r == nil {
			return v
		}
		v = r
	}
	return v
}
