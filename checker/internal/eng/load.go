// Package eng holds the reusable analysis primitives of lincheck: loading the
// type-checked program, SSA, naming, site matchers, path queries, must-facts,
// lock-hold dataflow and the obligation/evidence recorder.
package eng

import (
	"fmt"
	"go/ast"
	"go/constant"
	"go/token"
	"go/types"
	"os"
	"sort"
	"strings"

	"golang.org/x/tools/go/packages"
	"golang.org/x/tools/go/ssa"
	"golang.org/x/tools/go/ssa/ssautil"
)

// ModPrefix is the module path of the analysed repository.
const ModPrefix = "github.com/lindb/lindb/"

// Prog is the loaded, type-checked, SSA-built program.
type Prog struct {
	Dir      string
	Config   string // build configuration label, e.g. "linux/amd64"
	Pkgs     []*packages.Package
	ByPath   map[string]*packages.Package
	SSA      *ssa.Program
	Fset     *token.FileSet
	funcs    map[string]*ssa.Function // key -> function (source functions of the module, incl. closures)
	AllFuncs []*ssa.Function          // module functions with bodies (sorted by key)
	keyOf    map[*ssa.Function]string
	callers  map[*ssa.Function][]CallSite // static callers index (lazy)
	NumFuncs int
}

// CallSite is a call instruction inside a function.
type CallSite struct {
	Fn    *ssa.Function
	Instr ssa.CallInstruction
}

// LoadOptions selects the build configuration and optional source overlay.
type LoadOptions struct {
	Dir     string
	GOOS    string
	GOARCH  string
	Overlay map[string][]byte
}

// Load loads ./... of the repository with full syntax and builds SSA.
// Any package error, type error, or an implausibly small package count is an error.
func Load(opt LoadOptions) (*Prog, error) {
	env := append(os.Environ(),
		"GOFLAGS=-mod=mod", "GOPROXY=off", "GOSUMDB=off", "GOWORK=off", "GOTOOLCHAIN=local", "CGO_ENABLED=0")
	label := "default"
	if opt.GOOS != "" {
		env = append(env, "GOOS="+opt.GOOS)
		label = opt.GOOS
	}
	if opt.GOARCH != "" {
		env = append(env, "GOARCH="+opt.GOARCH)
		label += "/" + opt.GOARCH
	}
	cfg := &packages.Config{
		Mode:    packages.LoadAllSyntax,
		Dir:     opt.Dir,
		Env:     env,
		Tests:   false,
		Overlay: opt.Overlay,
	}
	pkgs, err := packages.Load(cfg, "./...")
	if err != nil {
		return nil, fmt.Errorf("packages.Load: %w", err)
	}
	if len(pkgs) < 100 {
		return nil, fmt.Errorf("only %d packages loaded from %s (expected >= 100): incomplete build", len(pkgs), opt.Dir)
	}
	var errs []string
	packages.Visit(pkgs, nil, func(p *packages.Package) {
		for _, e := range p.Errors {
			errs = append(errs, e.Error())
		}
	})
	if len(errs) > 0 {
		sort.Strings(errs)
		if len(errs) > 10 {
			errs = errs[:10]
		}
		return nil, fmt.Errorf("the tree does not type-check (%s): %s", label, strings.Join(errs, "; "))
	}
	prog, _ := ssautil.AllPackages(pkgs, ssa.BuilderMode(0))
	prog.Build()

	p := &Prog{
		Dir: opt.Dir, Config: label, Pkgs: pkgs, SSA: prog,
		ByPath: map[string]*packages.Package{},
		funcs:  map[string]*ssa.Function{},
		keyOf:  map[*ssa.Function]string{},
	}
	if len(pkgs) > 0 {
		p.Fset = pkgs[0].Fset
	}
	packages.Visit(pkgs, nil, func(pk *packages.Package) { p.ByPath[pk.PkgPath] = pk }) // incl. dependencies
	// index module functions (including methods and closures)
	for _, pk := range pkgs {
		sp := prog.Package(pk.Types)
		if sp == nil {
			continue
		}
		var add func(fn *ssa.Function)
		add = func(fn *ssa.Function) {
			if fn == nil {
				return
			}
			k := p.FuncKey(fn)
			if _, dup := p.funcs[k]; !dup {
				p.funcs[k] = fn
				p.keyOf[fn] = k
				if fn.Blocks != nil {
					p.AllFuncs = append(p.AllFuncs, fn)
				}
			}
			for _, an := range fn.AnonFuncs {
				add(an)
			}
		}
		// declared init functions are not package members: reach them through the package initializer
		if ini := sp.Func("init"); ini != nil {
			for _, b := range ini.Blocks {
				for _, in := range b.Instrs {
					if cl, ok := in.(*ssa.Call); ok {
						if f := cl.Common().StaticCallee(); f != nil && strings.HasPrefix(f.Name(), "init#") && f.Pkg == sp {
							add(f)
						}
					}
				}
			}
		}
		for _, m := range sp.Members {
			switch m := m.(type) {
			case *ssa.Function:
				add(m)
			case *ssa.Type:
				for _, t := range []types.Type{m.Type(), types.NewPointer(m.Type())} {
					ms := prog.MethodSets.MethodSet(t)
					for i := 0; i < ms.Len(); i++ {
						if f := prog.MethodValue(ms.At(i)); f != nil && f.Synthetic == "" {
							add(f)
						}
					}
				}
			}
		}
	}
	sort.Slice(p.AllFuncs, func(i, j int) bool { return p.keyOf[p.AllFuncs[i]] < p.keyOf[p.AllFuncs[j]] })
	p.NumFuncs = len(p.AllFuncs)
	return p, nil
}

// ShortPkg strips the module prefix from a package path.
func ShortPkg(path string) string {
	if path == strings.TrimSuffix(ModPrefix, "/") {
		return "."
	}
	return strings.TrimPrefix(path, ModPrefix)
}

func recvTypeName(t types.Type) string {
	if p, ok := t.(*types.Pointer); ok {
		t = p.Elem()
	}
	switch t := t.(type) {
	case *types.Named:
		return t.Obj().Name()
	case *types.Alias:
		return t.Obj().Name()
	}
	return t.String()
}

// ObjKey names a function object: "pkg/path.Recv.Method" or "pkg/path.Func".
func ObjKey(f *types.Func) string {
	if f == nil {
		return "<nil>"
	}
	f = f.Origin()
	pkg := ""
	if f.Pkg() != nil {
		pkg = ShortPkg(f.Pkg().Path())
	}
	sig, _ := f.Type().(*types.Signature)
	if sig != nil && sig.Recv() != nil {
		return pkg + "." + recvTypeName(sig.Recv().Type()) + "." + f.Name()
	}
	return pkg + "." + f.Name()
}

// FuncKey names an SSA function; closures are "<parent>$n".
func (p *Prog) FuncKey(fn *ssa.Function) string {
	if k, ok := p.keyOf[fn]; ok {
		return k
	}
	if fn.Origin() != nil {
		fn = fn.Origin()
	}
	if fn.Parent() != nil {
		par := fn.Parent()
		idx := 0
		for i, a := range par.AnonFuncs {
			if a == fn {
				idx = i + 1
			}
		}
		return fmt.Sprintf("%s$%d", p.FuncKey(par), idx)
	}
	if strings.HasPrefix(fn.Name(), "init#") && fn.Pkg != nil {
		return ShortPkg(fn.Pkg.Pkg.Path()) + "." + fn.Name() // a declared init function (the bare name is the package initializer)
	}
	if o, ok := fn.Object().(*types.Func); ok && o != nil {
		return ObjKey(o)
	}
	if fn.Pkg != nil {
		return ShortPkg(fn.Pkg.Pkg.Path()) + "." + fn.Name()
	}
	return fn.String()
}

// Func resolves a function key; nil if absent.
func (p *Prog) Func(key string) *ssa.Function { return p.funcs[key] }

// FuncsWithPrefix returns all indexed functions whose key starts with prefix (sorted).
func (p *Prog) FuncsWithPrefix(prefix string) []*ssa.Function {
	var out []*ssa.Function
	for _, f := range p.AllFuncs {
		if strings.HasPrefix(p.keyOf[f], prefix) {
			out = append(out, f)
		}
	}
	return out
}

// Closures returns fn and all functions nested in it.
func Closures(fn *ssa.Function) []*ssa.Function {
	out := []*ssa.Function{fn}
	for _, a := range fn.AnonFuncs {
		out = append(out, Closures(a)...)
	}
	return out
}

// Pos renders a position relative to the repository root.
func (p *Prog) Pos(pos token.Pos) string {
	if !pos.IsValid() {
		return "?"
	}
	ps := p.Fset.Position(pos)
	f := strings.TrimPrefix(ps.Filename, p.Dir+"/")
	return fmt.Sprintf("%s:%d", f, ps.Line)
}

// InstrPos returns the best known position of an instruction.
func (p *Prog) InstrPos(in ssa.Instruction) string {
	if in == nil {
		return "?"
	}
	pos := in.Pos()
	if !pos.IsValid() {
		if c, ok := in.(ssa.CallInstruction); ok {
			pos = c.Common().Pos()
		}
	}
	if !pos.IsValid() {
		if v, ok := in.(*ssa.Store); ok {
			pos = v.Addr.Pos()
		}
	}
	if !pos.IsValid() {
		// fall back to the nearest instruction with a position in the same block
		b := in.Block()
		if b != nil {
			for _, x := range b.Instrs {
				if x.Pos().IsValid() {
					pos = x.Pos()
					if x == in {
						break
					}
				}
			}
		}
	}
	if !pos.IsValid() && in.Parent() != nil {
		pos = in.Parent().Pos()
	}
	return p.Pos(pos)
}

// InModule reports whether the function belongs to the analysed module.
func InModule(fn *ssa.Function) bool {
	if fn == nil {
		return false
	}
	for fn.Parent() != nil {
		fn = fn.Parent()
	}
	if fn.Pkg == nil {
		if o := fn.Object(); o != nil && o.Pkg() != nil {
			return strings.HasPrefix(o.Pkg().Path(), strings.TrimSuffix(ModPrefix, "/"))
		}
		return false
	}
	return strings.HasPrefix(fn.Pkg.Pkg.Path(), strings.TrimSuffix(ModPrefix, "/"))
}

// PkgOf returns the short package path of a function.
func PkgOf(fn *ssa.Function) string {
	for fn.Parent() != nil {
		fn = fn.Parent()
	}
	if fn.Pkg != nil {
		return ShortPkg(fn.Pkg.Pkg.Path())
	}
	if o := fn.Object(); o != nil && o.Pkg() != nil {
		return ShortPkg(o.Pkg().Path())
	}
	return ""
}

// Package returns the loaded package with the given short path.
func (p *Prog) Package(short string) *packages.Package {
	if short == "." {
		return p.ByPath[strings.TrimSuffix(ModPrefix, "/")]
	}
	return p.ByPath[ModPrefix+short]
}

// LookupType returns the named type pkg.Name.
func (p *Prog) LookupType(shortPkg, name string) *types.Named {
	pk := p.Package(shortPkg)
	if pk == nil {
		return nil
	}
	o := pk.Types.Scope().Lookup(name)
	if o == nil {
		return nil
	}
	n, _ := o.Type().(*types.Named)
	return n
}

// FuncDecl finds the AST declaration of a function key ("pkg.Recv.Name" / "pkg.Name").
func (p *Prog) FuncDecl(key string) (*ast.FuncDecl, *packages.Package) {
	fn := p.funcs[key]
	if fn == nil {
		return nil, nil
	}
	d, _ := fn.Syntax().(*ast.FuncDecl)
	pk := p.Package(PkgOf(fn))
	return d, pk
}

// StaticCallers returns the static call sites of fn across the module.
func (p *Prog) StaticCallers(fn *ssa.Function) []CallSite {
	if p.callers == nil {
		p.callers = map[*ssa.Function][]CallSite{}
		for _, f := range p.AllFuncs {
			for _, b := range f.Blocks {
				for _, in := range b.Instrs {
					c, ok := in.(ssa.CallInstruction)
					if !ok {
						continue
					}
					if cal := c.Common().StaticCallee(); cal != nil {
						if cal.Origin() != nil {
							cal = cal.Origin()
						}
						p.callers[cal] = append(p.callers[cal], CallSite{f, c})
					}
				}
			}
		}
	}
	return p.callers[fn]
}

// ConstInt64 returns the value of the package-level integer constant shortPkg.name.
func (p *Prog) ConstInt64(shortPkg, name string) (int64, bool) {
	pk := p.Package(shortPkg)
	if pk == nil {
		return 0, false
	}
	c, ok := pk.Types.Scope().Lookup(name).(*types.Const)
	if !ok {
		return 0, false
	}
	return constant.Int64Val(constant.ToInt(c.Val()))
}
