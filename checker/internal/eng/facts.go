package eng

import (
	"fmt"
	"go/token"
	"sort"
	"strings"

	"golang.org/x/tools/go/ssa"
)

// Fact is a comparison between two SSA values known to hold: Op in {lt, le, eq, ne, true, false}.
// For true/false Y is nil. SSA values are immutable, so a fact never needs to be killed; whether a
// loaded field value is still current at a site is a separate freshness check (see FreshAt).
type Fact struct {
	Op   string
	X, Y ssa.Value
}

func valID(v ssa.Value) string {
	if v == nil {
		return ""
	}
	if c, ok := v.(*ssa.Const); ok {
		if c.IsNil() {
			return "nil:" + c.Type().String()
		}
		if c.Value == nil {
			return "zero:" + c.Type().String()
		}
		return "c:" + c.Value.ExactString()
	}
	return fmt.Sprintf("%s@%p", v.Name(), v)
}

func (f Fact) key() string { return f.Op + "|" + valID(f.X) + "|" + valID(f.Y) }

// FactSet is a set of facts.
type FactSet map[string]Fact

func (s FactSet) clone() FactSet {
	n := FactSet{}
	for k, v := range s {
		n[k] = v
	}
	return n
}

func (s FactSet) add(f Fact) { s[f.key()] = f }

// condFacts returns the facts established when cond evaluates to `val`.
func condFacts(cond ssa.Value, val bool) []Fact {
	switch c := cond.(type) {
	case *ssa.UnOp:
		if c.Op == token.NOT {
			return condFacts(c.X, !val)
		}
	case *ssa.BinOp:
		x, y := unwrapCmp(c.X), unwrapCmp(c.Y)
		op := c.Op
		if !val {
			switch op {
			case token.LSS:
				op = token.GEQ
			case token.LEQ:
				op = token.GTR
			case token.GTR:
				op = token.LEQ
			case token.GEQ:
				op = token.LSS
			case token.EQL:
				op = token.NEQ
			case token.NEQ:
				op = token.EQL
			default:
				return nil
			}
		}
		switch op {
		case token.LSS:
			return []Fact{{"lt", x, y}}
		case token.LEQ:
			return []Fact{{"le", x, y}}
		case token.GTR:
			return []Fact{{"lt", y, x}}
		case token.GEQ:
			return []Fact{{"le", y, x}}
		case token.EQL:
			return []Fact{{"eq", x, y}}
		case token.NEQ:
			return []Fact{{"ne", x, y}}
		}
		return nil
	}
	if ph, ok := cond.(*ssa.Phi); ok && (ph.Comment == "||" && !val || ph.Comment == "&&" && val) {
		// short-circuit lowering: `a || b` false means every operand is false; `a && b` true means every operand is true
		var out []Fact
		for i, e := range ph.Edges {
			if c, isC := e.(*ssa.Const); isC && c.Value != nil {
				// the short-circuit edge was NOT taken: the operand tested at the end of that predecessor evaluated the
				// other way (`a && b` true: a was true; `a || b` false: a was false)
				if i < len(ph.Block().Preds) {
					pr := ph.Block().Preds[i]
					if len(pr.Instrs) > 0 {
						if ifi, ok := pr.Instrs[len(pr.Instrs)-1].(*ssa.If); ok && len(pr.Succs) == 2 && pr.Succs[0] != pr.Succs[1] {
							if pr.Succs[1] == ph.Block() { // false edge short-circuits (&&)
								out = append(out, condFacts(ifi.Cond, true)...)
							} else if pr.Succs[0] == ph.Block() { // true edge short-circuits (||)
								out = append(out, condFacts(ifi.Cond, false)...)
							}
						}
					}
				}
				continue
			}
			out = append(out, condFacts(e, val)...)
		}
		if val {
			out = append(out, Fact{"true", cond, nil})
		} else {
			out = append(out, Fact{"false", cond, nil})
		}
		return out
	}
	if val {
		return []Fact{{"true", cond, nil}}
	}
	return []Fact{{"false", cond, nil}}
}

func unwrapCmp(v ssa.Value) ssa.Value {
	// keep conversions transparent for integer comparisons of the same value
	for {
		switch x := v.(type) {
		case *ssa.ChangeType:
			v = x.X
		case *ssa.MakeInterface:
			v = x.X
		default:
			return v
		}
	}
}

// Facts holds the per-block must-facts of a function.
type Facts struct {
	p      *Prog
	fn     *ssa.Function
	in     map[*ssa.BasicBlock]FactSet
	sub    map[*ssa.Function]*Facts
	assume FactSet // extra assumptions of a ProveWith call
}

// MustFacts runs the forward must-dataflow: a fact holds at a block iff it is established on
// every path from the entry (intersection over predecessors of their facts plus the fact of the
// branch edge taken).
func (p *Prog) MustFacts(fn *ssa.Function) *Facts { return p.mustFactsFrom(fn, nil) }

// mustFactsFrom is MustFacts with facts known at the function's entry (a transparent helper entered from a call site).
func (p *Prog) mustFactsFrom(fn *ssa.Function, entry FactSet) *Facts {
	fs := &Facts{p: p, fn: fn, in: map[*ssa.BasicBlock]FactSet{}}
	if fn == nil || len(fn.Blocks) == 0 {
		return fs
	}
	edge := func(pr *ssa.BasicBlock, succ *ssa.BasicBlock) []Fact {
		if len(pr.Instrs) == 0 {
			return nil
		}
		ifi, ok := pr.Instrs[len(pr.Instrs)-1].(*ssa.If)
		if !ok {
			return nil
		}
		if pr.Succs[0] == pr.Succs[1] {
			return nil
		}
		if pr.Succs[0] == succ {
			return condFacts(ifi.Cond, true)
		}
		return condFacts(ifi.Cond, false)
	}
	computed := map[*ssa.BasicBlock]bool{}
	fs.in[fn.Blocks[0]] = FactSet{}
	if entry != nil {
		fs.in[fn.Blocks[0]] = entry.clone()
	}
	computed[fn.Blocks[0]] = true
	changed := true
	for iter := 0; changed && iter < 60; iter++ {
		changed = false
		for _, b := range fn.Blocks[1:] {
			var cur FactSet
			first := true
			for _, pr := range b.Preds {
				if !computed[pr] {
					continue
				}
				o := fs.in[pr].clone()
				for _, f := range edge(pr, b) {
					o.add(f)
				}
				if first {
					cur = o
					first = false
				} else {
					for k := range cur {
						if _, ok := o[k]; !ok {
							delete(cur, k)
						}
					}
				}
			}
			if first {
				continue
			}
			old, had := fs.in[b]
			if !had || len(old) != len(cur) {
				fs.in[b] = cur
				computed[b] = true
				changed = true
				continue
			}
			for k := range cur {
				if _, ok := old[k]; !ok {
					fs.in[b] = cur
					changed = true
					break
				}
			}
		}
	}
	return fs
}

// At returns the facts that hold when instruction in executes.
func (fs *Facts) At(in ssa.Instruction) FactSet {
	if g := in.Parent(); g != nil && g != fs.fn && fs.fn != nil {
		// instruction inside a transparent helper: the facts established inside the helper (facts about the caller's
		// values are not carried over: they speak about other SSA values)
		if fs.sub == nil {
			fs.sub = map[*ssa.Function]*Facts{}
		}
		sub, ok := fs.sub[g]
		if !ok {
			fs.sub[g] = fs.p.MustFacts(g) // recursion guard / fallback
			sub = fs.p.mustFactsFrom(g, fs.entryFactsFor(g))
			fs.sub[g] = sub
		}
		return sub.At(in)
	}
	if s, ok := fs.in[in.Block()]; ok {
		return s
	}
	return FactSet{}
}

// Render lists the facts with value descriptors (sorted), for diagnostics and evidence.
func (fs *Facts) Render(s FactSet) []string {
	var out []string
	for _, f := range s {
		if f.Y == nil {
			out = append(out, f.Op+"("+fs.p.Desc(f.X)+")")
		} else {
			out = append(out, f.Op+"("+fs.p.Desc(f.X)+", "+fs.p.Desc(f.Y)+")")
		}
	}
	sort.Strings(out)
	return out
}

// Find returns the facts in s whose operator and operand descriptors satisfy the query.
// Query semantics: want "le" is also satisfied by lt/eq (either orientation for eq); want "ne" by
// lt in either orientation; want "lt"/"eq"/"true"/"false" must match exactly. Descriptors are
// matched by the supplied predicates.
func (fs *Facts) Find(s FactSet, op string, mx, my func(desc string, v ssa.Value) bool) []Fact {
	var out []Fact
	try := func(f Fact, x, y ssa.Value) bool {
		if !mx(fs.p.Desc(x), x) {
			return false
		}
		if y == nil {
			return my == nil
		}
		return my != nil && my(fs.p.Desc(y), y)
	}
	for _, f := range s {
		ok := false
		switch op {
		case "lt":
			ok = f.Op == "lt" && try(f, f.X, f.Y)
		case "le":
			ok = (f.Op == "lt" || f.Op == "le") && try(f, f.X, f.Y) ||
				f.Op == "eq" && (try(f, f.X, f.Y) || try(f, f.Y, f.X))
		case "eq":
			ok = f.Op == "eq" && (try(f, f.X, f.Y) || try(f, f.Y, f.X))
		case "ne":
			ok = (f.Op == "ne" || f.Op == "lt") && (try(f, f.X, f.Y) || try(f, f.Y, f.X))
		case "true", "false":
			ok = f.Op == op && try(f, f.X, nil)
		}
		if ok {
			out = append(out, f)
		}
	}
	return out
}

// DescIs builds a descriptor predicate matching any of the given exact descriptors.
func DescIs(ds ...string) func(string, ssa.Value) bool {
	return func(d string, _ ssa.Value) bool {
		for _, x := range ds {
			if d == x {
				return true
			}
		}
		return false
	}
}

// DescHas builds a descriptor predicate matching descriptors containing the substring.
func DescHas(sub string) func(string, ssa.Value) bool {
	return func(d string, _ ssa.Value) bool { return strings.Contains(d, sub) }
}

// DescSuffix matches descriptors ending with suffix.
func DescSuffix(suf string) func(string, ssa.Value) bool {
	return func(d string, _ ssa.Value) bool { return strings.HasSuffix(d, suf) }
}

// ---- a small prover over the must-facts -----------------------------------------------------

// edgeFacts returns the facts that hold when control flows from pred to succ.
func (fs *Facts) edgeFacts(pred, succ *ssa.BasicBlock) FactSet {
	o := fs.in[pred].clone()
	if o == nil {
		o = FactSet{}
	}
	if len(pred.Instrs) > 0 {
		if ifi, ok := pred.Instrs[len(pred.Instrs)-1].(*ssa.If); ok && pred.Succs[0] != pred.Succs[1] {
			if pred.Succs[0] == succ {
				for _, f := range condFacts(ifi.Cond, true) {
					o.add(f)
				}
			} else {
				for _, f := range condFacts(ifi.Cond, false) {
					o.add(f)
				}
			}
		}
	}
	return o
}

func constCmp(op string, x, y ssa.Value) (bool, bool) {
	a, ok1 := ConstInt(x)
	b, ok2 := ConstInt(y)
	if !ok1 || !ok2 {
		return false, false
	}
	switch op {
	case "lt":
		return a < b, true
	case "le":
		return a <= b, true
	case "eq":
		return a == b, true
	case "ne":
		return a != b, true
	}
	return false, false
}

func holdsIn(s FactSet, op string, x, y ssa.Value) bool {
	x, y = unwrapCmp(x), unwrapCmp(y)
	if r, ok := constCmp(op, x, y); ok {
		return r
	}
	if x == y && (op == "le" || op == "eq") {
		return true
	}
	has := func(o string, a, b ssa.Value) bool { _, ok := s[Fact{o, a, b}.key()]; return ok }
	switch op {
	case "lt":
		return has("lt", x, y)
	case "le":
		return has("lt", x, y) || has("le", x, y) || has("eq", x, y) || has("eq", y, x)
	case "eq":
		return has("eq", x, y) || has("eq", y, x)
	case "ne":
		return has("ne", x, y) || has("ne", y, x) || has("lt", x, y) || has("lt", y, x)
	}
	return false
}

// Prove tries to establish op(x, y) at instruction `at`: directly from the must-facts there, or by
// decomposing x and/or y when they are phis: the relation must then hold for the corresponding
// incoming values on every incoming edge of the phi's block (using the facts of that edge).
// SSA values are immutable, so a relation proved at the phi's block holds wherever both are in scope.
func (fs *Facts) Prove(op string, x, y ssa.Value, at ssa.Instruction) bool {
	return fs.prove(op, x, y, fs.At(at), 0)
}

// ProveWith is Prove under additional assumptions (facts established elsewhere, e.g. an invariant of another object).
func (fs *Facts) ProveWith(op string, x, y ssa.Value, at ssa.Instruction, assume ...Fact) bool {
	old := fs.assume
	fs.assume = FactSet{}
	for _, f := range assume {
		fs.assume.add(f)
	}
	defer func() { fs.assume = old }()
	return fs.prove(op, x, y, fs.At(at), 0)
}

func (fs *Facts) prove(op string, x, y ssa.Value, ctx FactSet, depth int) bool {
	if len(fs.assume) > 0 {
		ctx = ctx.clone()
		for _, f := range fs.assume {
			ctx.add(f)
		}
	}
	x, y = unwrapCmp(x), unwrapCmp(y)
	if holdsIn(ctx, op, x, y) {
		return true
	}
	if depth > 6 {
		return false
	}
	// transitivity through a known fact: x <= z is provable and z <= y is known
	if op == "le" && depth < 4 {
		for _, f := range ctx {
			if (f.Op == "le" || f.Op == "lt" || f.Op == "eq") && f.Y != nil && valID(f.Y) == valID(y) && valID(f.X) != valID(y) && valID(f.X) != valID(x) {
				if fs.prove("le", x, f.X, ctx, depth+3) {
					return true
				}
			}
		}
	}
	px, okx := x.(*ssa.Phi)
	py, oky := y.(*ssa.Phi)
	var blk *ssa.BasicBlock
	if okx && oky && px.Block() != py.Block() {
		// two phis of different blocks: expand the later one first (its incoming edges see the earlier one as a plain
		// value), then the other way round
		first, second := px, py
		if px.Block().Dominates(py.Block()) {
			first, second = py, px
		}
		for _, ph := range []*ssa.Phi{first, second} {
			ok := true
			for i, pred := range ph.Block().Preds {
				xi, yi := x, y
				if ph == px {
					xi = px.Edges[i]
				} else {
					yi = py.Edges[i]
				}
				if !fs.prove(op, xi, yi, fs.edgeFacts(pred, ph.Block()), depth+1) {
					ok = false
					break
				}
			}
			if ok {
				return true
			}
		}
		return false
	}
	switch {
	case okx && oky && px.Block() == py.Block():
		blk = px.Block()
	case okx:
		blk = px.Block()
		oky = false
	case oky:
		blk = py.Block()
	default:
		// values produced by a transparent helper: prove the relation at the helper's return, with the helper's facts
		if hx, hy, ret := helperResults(x, y); ret != nil {
			sub := fs.p.MustFacts(ret.Parent())
			if sub != fs {
				// the caller's assumptions hold inside the helper as well
				old := sub.assume
				sub.assume = fs.assume
				defer func() { sub.assume = old }()
			}
			if sub == fs {
				return sub.prove(op, hx, hy, sub.At(ret), depth+1)
			}
			return sub.prove(op, hx, hy, sub.At(ret), depth) // a hop into another function's helper is not a proof step
		}
		return false
	}
	for i, pred := range blk.Preds {
		xi, yi := x, y
		if okx && px.Block() == blk {
			xi = px.Edges[i]
		}
		if oky && py.Block() == blk {
			yi = py.Edges[i]
		}
		// a back edge whose incoming value is the phi itself is trivially fine for le/eq
		ectx := fs.edgeFacts(pred, blk)
		if !fs.prove(op, xi, yi, ectx, depth+1) {
			return false
		}
	}
	return true
}

// ProveOnEdge establishes op(x,y) using the facts that hold when control flows pred -> succ.
func (fs *Facts) ProveOnEdge(op string, x, y ssa.Value, pred, succ *ssa.BasicBlock) bool {
	return fs.prove(op, x, y, fs.edgeFacts(pred, succ), 0)
}

// EdgesWithFact returns the CFG edges of fn on which a fact satisfying pred is established by the
// branch condition of their source block.
func EdgesWithFact(fn *ssa.Function, pred func(Fact) bool) []Edge {
	var out []Edge
	for _, b := range BlocksT(fn) {
		if len(b.Instrs) == 0 {
			continue
		}
		ifi, ok := b.Instrs[len(b.Instrs)-1].(*ssa.If)
		if !ok || b.Succs[0] == b.Succs[1] {
			continue
		}
		for si, val := range []bool{true, false} {
			for _, f := range condFacts(ifi.Cond, val) {
				if pred(f) {
					out = append(out, Edge{b, si})
				}
			}
		}
	}
	return out
}

// OnlyEdges builds an edge filter that, for every block that is the source of one of the given
// edges, allows only the OTHER out-edges (i.e. forbids taking the listed edges).
func OnlyOtherEdges(edges []Edge) EdgeFilter { return ForbidEdges(edges) }

// EdgeFactsFor returns the facts that hold when control flows pred -> succ.
func (fs *Facts) EdgeFactsFor(pred, succ *ssa.BasicBlock) FactSet { return fs.edgeFacts(pred, succ) }

// entryFactsFor: the facts that hold at every transparent call site of g inside fs.fn, re-expressed over g's parameters
// (a fact about an argument becomes a fact about the parameter; facts about other caller values are dropped, constants
// are kept).
func (fs *Facts) entryFactsFor(g *ssa.Function) FactSet {
	chains := transparentChains(fs.fn, g)
	var out FactSet
	for i, ch := range chains {
		call := ch[len(ch)-1]
		at := fs.At(call)
		tr := FactSet{}
		args := call.Common().Args
		mapv := func(v ssa.Value) (ssa.Value, bool) {
			if v == nil {
				return nil, true
			}
			if _, ok := v.(*ssa.Const); ok {
				return v, true
			}
			for ai, a := range args {
				if ai < len(g.Params) && sameValue(a, v) {
					return g.Params[ai], true
				}
			}
			return nil, false
		}
		for _, f := range at {
			// facts about the caller's own values stay true while the helper runs (SSA values never change) ...
			tr.add(f)
			// ... and facts about arguments are also facts about the parameters they are bound to
			x, okx := mapv(f.X)
			y, oky := mapv(f.Y)
			if okx && oky && x != nil {
				tr.add(Fact{Op: f.Op, X: x, Y: y})
			}
		}
		if i == 0 {
			out = tr
		} else {
			for k := range out {
				if _, ok := tr[k]; !ok {
					delete(out, k)
				}
			}
		}
	}
	return out
}

// helperResults: when x and/or y are results of one call to a transparent helper with a single return (the other may be a
// constant or also a result of that call), the corresponding returned values and the return instruction.
func helperResults(x, y ssa.Value) (ssa.Value, ssa.Value, *ssa.Return) {
	callOf := func(v ssa.Value) (*ssa.Call, int) {
		v = unwrap(v)
		if e, ok := v.(*ssa.Extract); ok {
			if cl, ok := e.Tuple.(*ssa.Call); ok {
				return cl, e.Index
			}
		}
		if cl, ok := v.(*ssa.Call); ok {
			return cl, 0
		}
		return nil, 0
	}
	cx, ix := callOf(x)
	cy, iy := callOf(y)
	inside := func(v ssa.Value, c *ssa.Call) bool {
		in, ok := v.(ssa.Instruction)
		g := TransparentCallee(c)
		return ok && g != nil && in.Parent() == g
	}
	if cx != nil && TransparentCallee(cx) == nil {
		cx = nil
	}
	if cy != nil && TransparentCallee(cy) == nil {
		cy = nil
	}
	var call *ssa.Call
	switch {
	case cx != nil && cy == nil && inside(y, cx):
		call = cx
	case cy != nil && cx == nil && inside(x, cy):
		call = cy
	case cx != nil && cy != nil && cx == cy:
		call = cx
	case cx != nil && cy == nil:
		if _, ok := y.(*ssa.Const); ok {
			call = cx
		}
	case cy != nil && cx == nil:
		if _, ok := x.(*ssa.Const); ok {
			call = cy
		}
	}
	if call == nil {
		return nil, nil, nil
	}
	g := TransparentCallee(call)
	if g == nil {
		return nil, nil, nil
	}
	rs := returnsOf(g)
	if len(rs) != 1 {
		return nil, nil, nil
	}
	res := func(c *ssa.Call, i int, orig ssa.Value) ssa.Value {
		if c == nil {
			return orig
		}
		if i >= len(rs[0].Results) {
			return orig
		}
		r := rs[0].Results[i]
		if srcs := resolveLocal(r); len(srcs) == 1 {
			r = srcs[0]
		}
		return r
	}
	return res(cx, ix, x), res(cy, iy, y), rs[0]
}
