package eng

import (
	"go/constant"
	"go/token"

	"golang.org/x/tools/go/ssa"
)

// DeepSite is a site reached from a root function through a chain of static module calls.
// Chain[0] is the instruction inside the root (the site itself when len(Chain)==1); each further
// element is the instruction inside the callee of the previous call.
type DeepSite struct {
	Chain []ssa.Instruction
}

// Top is the instruction in the root function through which the site is reached.
func (d DeepSite) Top() ssa.Instruction { return d.Chain[0] }

// Leaf is the site itself.
func (d DeepSite) Leaf() ssa.Instruction { return d.Chain[len(d.Chain)-1] }

// DeepSites finds all instructions matched by m in root and in the module functions statically
// called from it (following static callees and directly-invoked closures, depth levels).
// Interface calls are followed only when follow is true (CHA inside the module).
func (p *Prog) DeepSites(root *ssa.Function, m Matcher, depth int, followIface bool) []DeepSite {
	var out []DeepSite
	var rec func(fn *ssa.Function, chain []ssa.Instruction, d int, stack map[*ssa.Function]bool)
	rec = func(fn *ssa.Function, chain []ssa.Instruction, d int, stack map[*ssa.Function]bool) {
		if fn == nil || stack[fn] {
			return
		}
		stack[fn] = true
		defer delete(stack, fn)
		for _, b := range fn.Blocks {
			for _, in := range b.Instrs {
				if m(p, in) {
					c := append(append([]ssa.Instruction{}, chain...), in)
					out = append(out, DeepSite{c})
				}
				if d <= 0 {
					continue
				}
				c, ok := in.(ssa.CallInstruction)
				if !ok {
					continue
				}
				if c.Common().IsInvoke() && !followIface {
					continue
				}
				for _, cal := range p.ModuleCallees(c) {
					rec(cal, append(append([]ssa.Instruction{}, chain...), in), d-1, stack)
				}
			}
		}
	}
	rec(root, nil, depth, map[*ssa.Function]bool{})
	return out
}

// MustPass reports whether every path from the entry of fn to a normal return passes through a
// site matched by m, or through a call to a module callee for which that holds (depth-bounded).
// Panicking exits are not returns and need not pass.
func (p *Prog) MustPass(fn *ssa.Function, m Matcher, depth int) bool {
	return p.mustPass(fn, m, depth, map[*ssa.Function]bool{})
}

func (p *Prog) mustPass(fn *ssa.Function, m Matcher, depth int, stack map[*ssa.Function]bool) bool {
	if fn == nil || fn.Blocks == nil || stack[fn] {
		return false
	}
	stack[fn] = true
	defer delete(stack, fn)
	way := p.Waypoints(fn, m, depth, stack)
	ws := instrSet(way)
	_, found := PathExists(PathQuery{Fn: fn,
		Target:  func(in ssa.Instruction) bool { _, ok := in.(*ssa.Return); return ok },
		Blocked: func(in ssa.Instruction) bool { return ws[in] }})
	return !found
}

// Waypoints returns the instructions of fn that are m-sites or calls that must pass an m-site.
func (p *Prog) Waypoints(fn *ssa.Function, m Matcher, depth int, stack map[*ssa.Function]bool) []Site {
	if stack == nil {
		stack = map[*ssa.Function]bool{}
	}
	var way []Site
	for _, b := range fn.Blocks {
		for _, in := range b.Instrs {
			if m(p, in) {
				way = append(way, Site{fn, in})
				continue
			}
			if depth <= 0 {
				continue
			}
			if c, ok := in.(*ssa.Call); ok && !c.Common().IsInvoke() {
				cals := p.ModuleCallees(c)
				if len(cals) == 1 && p.mustPass(cals[0], m, depth-1, stack) {
					way = append(way, Site{fn, in})
				}
			}
		}
	}
	return way
}

// DomDeep reports whether the deep site is preceded, on every path from the root's entry, by an
// m-site: at some level of its call chain the chain instruction is dominated (within that level's
// function) by m-waypoints. Optional edge filters apply only at the root level.
func (p *Prog) DomDeep(root *ssa.Function, d DeepSite, m Matcher, depth int) bool {
	for lvl := len(d.Chain) - 1; lvl >= 0; lvl-- {
		in := d.Chain[lvl]
		fn := in.Parent()
		way := p.Waypoints(fn, m, depth, nil)
		if len(way) == 0 {
			continue
		}
		if DominatedBy(fn, in, way, nil) {
			return true
		}
	}
	return false
}

// ConstInt returns the integer value of a constant SSA value.
func ConstInt(v ssa.Value) (int64, bool) {
	v = unwrap(v)
	c, ok := v.(*ssa.Const)
	if !ok || c.Value == nil {
		return 0, false
	}
	if c.Value.Kind() != constant.Int {
		return 0, false
	}
	n, ok := constant.Int64Val(c.Value)
	return n, ok
}

// SplitConstAdd decomposes v into base + constant (v itself with 0 when it is no such sum).
func SplitConstAdd(v ssa.Value) (ssa.Value, int64) {
	v = unwrap(v)
	if b, ok := v.(*ssa.BinOp); ok && b.Op == token.ADD {
		if n, ok := ConstInt(b.Y); ok {
			base, m := SplitConstAdd(b.X)
			return base, n + m
		}
		if n, ok := ConstInt(b.X); ok {
			base, m := SplitConstAdd(b.Y)
			return base, n + m
		}
	}
	if n, ok := ConstInt(v); ok {
		return nil, n
	}
	return v, 0
}

// SplitConstOffset is SplitConstAdd that also understands `x - n`.
func SplitConstOffset(v ssa.Value) (ssa.Value, int64) {
	v = unwrap(v)
	if b, ok := v.(*ssa.BinOp); ok && b.Op == token.SUB {
		if n, ok := ConstInt(b.Y); ok {
			base, m := SplitConstOffset(b.X)
			return base, m - n
		}
	}
	if b, ok := v.(*ssa.BinOp); ok && b.Op == token.ADD {
		if n, ok := ConstInt(b.Y); ok {
			base, m := SplitConstOffset(b.X)
			return base, n + m
		}
		if n, ok := ConstInt(b.X); ok {
			base, m := SplitConstOffset(b.Y)
			return base, n + m
		}
	}
	return v, 0
}

// WalkExpr visits v and the values it is computed from (through arithmetic, conversions,
// extractions, phis and call arguments), depth-bounded, calling f on each.
func WalkExpr(v ssa.Value, f func(ssa.Value) bool) {
	type sk struct {
		v   ssa.Value
		ctx *ssa.Call
	}
	seen := map[sk]bool{}
	// ctx: the call through which the walk descended into the current transparent helper (its parameters then stand for
	// that call's arguments only, not for those of the helper's other call sites)
	var recC func(v ssa.Value, d int, ctx []*ssa.Call)
	var curCtx []*ssa.Call
	rec := func(v ssa.Value, d int) { recC(v, d, curCtx) }
	recC = func(v ssa.Value, d int, ctx []*ssa.Call) {
		var top *ssa.Call
		if len(ctx) > 0 {
			top = ctx[len(ctx)-1]
		}
		if v == nil || seen[sk{v, top}] || d > 12 {
			return
		}
		seen[sk{v, top}] = true
		saved := curCtx
		curCtx = ctx
		defer func() { curCtx = saved }()
		if !f(v) {
			return
		}
		switch x := v.(type) {
		case *ssa.BinOp:
			rec(x.X, d+1)
			rec(x.Y, d+1)
		case *ssa.UnOp:
			if x.Op == token.MUL {
				if _, ok := x.X.(*ssa.Alloc); ok {
					n := 0
					for _, s := range resolveLocal(x) {
						if s != v {
							rec(s, d+1)
							n++
						}
					}
					if n == 0 {
						rec(x.X, d+1) // a composite literal cell: its field / element stores
					}
					return
				}
			}
			rec(x.X, d+1)
		case *ssa.Convert:
			rec(x.X, d+1)
		case *ssa.ChangeType:
			rec(x.X, d+1)
		case *ssa.MakeInterface:
			rec(x.X, d+1)
		case *ssa.ChangeInterface:
			rec(x.X, d+1)
		case *ssa.Extract:
			if cl, ok := x.Tuple.(*ssa.Call); ok {
				if g := TransparentCallee(cl); g != nil && len(ctx) < maxInlineDepth {
					if !seen[sk{cl, top}] {
						seen[sk{cl, top}] = true
						if !f(cl) { // the call itself is part of the expression
							return
						}
					}
					for _, r := range returnsOf(g) {
						if x.Index < len(r.Results) {
							recC(r.Results[x.Index], d+1, append(append([]*ssa.Call{}, ctx...), cl))
						}
					}
					// the helper's results were followed inside it; its arguments matter only through its parameters
					return
				}
			}
			rec(x.Tuple, d+1)
		case *ssa.Parameter:
			// parameter of a transparent helper: the argument of the call the walk came through, or (no context) the
			// arguments of all its call sites
			if top != nil && TransparentCallee(top) == x.Parent() {
				for pi, pp := range x.Parent().Params {
					if pp == x && pi < len(top.Common().Args) {
						recC(top.Common().Args[pi], d+1, ctx[:len(ctx)-1])
					}
				}
				return
			}
			for _, a := range transparentArgs(x) {
				recC(a, d+1, nil)
			}
		case *ssa.FreeVar:
			// captured variable of a function literal: the binding at its creation
			if b := freeVarBinding(x); b != nil {
				rec(b, d+1)
			}
		case *ssa.Phi:
			for _, e := range x.Edges {
				rec(e, d+1)
			}
		case *ssa.Call:
			if g := TransparentCallee(x); g != nil && len(ctx) < maxInlineDepth {
				single := false
				for _, r := range returnsOf(g) {
					if len(r.Results) == 1 {
						single = true
						recC(r.Results[0], d+1, append(append([]*ssa.Call{}, ctx...), x))
					}
				}
				if single {
					return
				}
			}
			for _, a := range x.Common().Args {
				rec(a, d+1)
			}
			if x.Common().IsInvoke() {
				rec(x.Common().Value, d+1)
			}
		case *ssa.FieldAddr:
			rec(x.X, d+1)
		case *ssa.Field:
			rec(x.X, d+1)
		case *ssa.IndexAddr:
			rec(x.X, d+1)
			rec(x.Index, d+1)
		case *ssa.Index:
			rec(x.X, d+1)
			rec(x.Index, d+1)
		case *ssa.Lookup:
			rec(x.X, d+1)
			rec(x.Index, d+1)
		case *ssa.Slice:
			rec(x.X, d+1)
			rec(x.Low, d+1)
			rec(x.High, d+1)
			rec(x.Max, d+1)
		case *ssa.TypeAssert:
			rec(x.X, d+1)
		case *ssa.Next:
			rec(x.Iter, d+1)
		case *ssa.Range:
			rec(x.X, d+1)
		case *ssa.Alloc:
			// a local cell passed by address (e.g. a value-typed atomic copied out of a map): its contents
			for _, ref := range *x.Referrers() {
				switch r := ref.(type) {
				case *ssa.Store:
					if r.Addr == ssa.Value(x) {
						rec(r.Val, d+1)
					}
				case *ssa.IndexAddr: // element of a local array (variadic argument lists)
					if r.X == ssa.Value(x) && r.Referrers() != nil {
						for _, r2 := range *r.Referrers() {
							if st, ok := r2.(*ssa.Store); ok && st.Addr == ssa.Value(r) {
								rec(st.Val, d+1)
							}
						}
					}
				case *ssa.FieldAddr: // field of a local struct literal
					if r.X == ssa.Value(x) && r.Referrers() != nil {
						for _, r2 := range *r.Referrers() {
							if st, ok := r2.(*ssa.Store); ok && st.Addr == ssa.Value(r) {
								rec(st.Val, d+1)
							}
						}
					}
				}
			}
		}
	}
	recC(v, 0, nil)
}

// CallsIn returns the calls (by callee key) that v's expression tree contains.
func (p *Prog) CallsIn(v ssa.Value, keys ...string) []*ssa.Call {
	var out []*ssa.Call
	WalkExpr(v, func(x ssa.Value) bool {
		if c, ok := x.(*ssa.Call); ok {
			if hasKey(p.CalleeKeys(c), keys) {
				out = append(out, c)
			}
		}
		return true
	})
	return out
}

// DependsOn reports whether v's expression tree contains a value satisfying pred.
func DependsOn(v ssa.Value, pred func(ssa.Value) bool) bool {
	hit := false
	WalkExpr(v, func(x ssa.Value) bool {
		if hit {
			return false
		}
		if pred(x) {
			hit = true
			return false
		}
		return true
	})
	return hit
}

// CallArgs returns the explicit arguments of a call (receiver stripped for static method calls).
func CallArgs(c ssa.CallInstruction) []ssa.Value {
	cc := c.Common()
	if cc.IsInvoke() {
		return cc.Args
	}
	if f := cc.StaticCallee(); f != nil && f.Signature.Recv() != nil && len(cc.Args) > 0 {
		return cc.Args[1:]
	}
	return cc.Args
}

// CallRecv returns the receiver value of a method call (nil for plain functions).
func CallRecv(c ssa.CallInstruction) ssa.Value {
	cc := c.Common()
	if cc.IsInvoke() {
		return cc.Value
	}
	if f := cc.StaticCallee(); f != nil && f.Signature.Recv() != nil && len(cc.Args) > 0 {
		return cc.Args[0]
	}
	return nil
}

// AccessorField: if fn is a pure accessor — its only effects are lock operations and it returns a
// read of a field (path) of its receiver — it returns the field path relative to the receiver.
func (p *Prog) AccessorField(fn *ssa.Function) (string, bool) {
	if fn == nil || fn.Blocks == nil || fn.Signature.Recv() == nil || len(fn.Params) == 0 {
		return "", false
	}
	if r, ok := accessorCache[fn]; ok {
		return r, r != ""
	}
	accessorCache[fn] = ""
	recv := fn.Params[0]
	if fn.Signature.Results().Len() != 1 {
		return "", false
	}
	var ret ssa.Value
	n := 0
	for _, b := range fn.Blocks {
		for _, in := range b.Instrs {
			switch x := in.(type) {
			case *ssa.Store, *ssa.MapUpdate, *ssa.Send, *ssa.Go:
				if st, ok := x.(*ssa.Store); ok {
					if _, isLocal := st.Addr.(*ssa.Alloc); isLocal {
						continue
					}
				}
				return "", false
			case ssa.CallInstruction:
				if _, isLock := p.lockOpOf(in); isLock {
					continue
				}
				if fa, m, _ := AtomicOp(in); fa != nil && m == "Load" {
					continue
				}
				return "", false
			case *ssa.Return:
				n++
				ret = x.Results[0]
			}
		}
	}
	if n != 1 || ret == nil {
		// allow the defer-spilled form: two returns (normal + recover block) of the same cell
		if ret == nil {
			return "", false
		}
	}
	if srcs := resolveLocal(ret); len(srcs) == 1 {
		ret = srcs[0]
	}
	d := p.Desc(ret)
	prefix := ParamName(recv) + "."
	if len(d) > len(prefix) && d[:len(prefix)] == prefix {
		path := d[len(prefix):]
		for _, ch := range path {
			if !(ch == '.' || ch == '_' || (ch >= 'a' && ch <= 'z') || (ch >= 'A' && ch <= 'Z') || (ch >= '0' && ch <= '9')) {
				return "", false
			}
		}
		accessorCache[fn] = path
		return path, true
	}
	return "", false
}

var accessorCache = map[*ssa.Function]string{}

// DependsOnField reports whether v is computed from a read of the struct field "pkg.T.f".
func DependsOnField(v ssa.Value, fieldKeys ...string) bool {
	return DependsOn(v, func(x ssa.Value) bool {
		switch y := x.(type) {
		case *ssa.FieldAddr:
			return hasKey([]string{FieldKeyOfAddr(y)}, fieldKeys)
		case *ssa.Field:
			return hasKey([]string{fieldKey(y.X.Type(), y.Field)}, fieldKeys)
		}
		return false
	})
}

// SitesInl is Sites(fn, m) plus the call instructions of fn that invoke a function literal declared inside fn
// (directly or nested) which contains an m-site: `func() { lock; defer unlock; m() }()` counts as m at the call.
func (p *Prog) SitesInl(fn *ssa.Function, m Matcher) []Site {
	out := p.Sites(fn, m)
	seen := map[ssa.Instruction]bool{}
	for _, s := range out {
		seen[s.Instr] = true
	}
	for _, d := range p.DeepSites(fn, m, 2, false) {
		if len(d.Chain) < 2 || seen[d.Top()] {
			continue
		}
		inner := true
		for _, in := range d.Chain[1:] {
			q := in.Parent()
			for q != nil && q != fn {
				q = q.Parent()
			}
			if q != fn {
				inner = false
			}
		}
		if inner {
			seen[d.Top()] = true
			out = append(out, Site{fn, d.Top()})
		}
	}
	return out
}

func returnsOf(g *ssa.Function) []*ssa.Return {
	var out []*ssa.Return
	for _, b := range g.Blocks {
		if b == g.Recover || len(b.Instrs) == 0 {
			continue
		}
		if r, ok := b.Instrs[len(b.Instrs)-1].(*ssa.Return); ok {
			out = append(out, r)
		}
	}
	return out
}

// curProg is the program being analysed (static caller index for parameters of transparent helpers).
var curProg *Prog

// transparentArgs: the actual arguments bound to parameter x at the transparent call sites of its function.
func transparentArgs(x *ssa.Parameter) []ssa.Value {
	g := x.Parent()
	if g == nil || curProg == nil {
		return nil
	}
	idx := -1
	for i, p := range g.Params {
		if p == x {
			idx = i
		}
	}
	if idx < 0 {
		return nil
	}
	var out []ssa.Value
	for _, cs := range curProg.StaticCallers(g) {
		in, ok := cs.Instr.(*ssa.Call)
		if !ok || TransparentCallee(in) != g {
			continue
		}
		if idx < len(in.Common().Args) {
			out = append(out, in.Common().Args[idx])
		}
	}
	return out
}

// FreeVarBinding: the value (usually the Alloc of a captured variable) the enclosing function binds to the free variable x.
func FreeVarBinding(x *ssa.FreeVar) ssa.Value { return freeVarBinding(x) }

func freeVarBinding(x *ssa.FreeVar) ssa.Value {
	cl := x.Parent()
	if cl == nil || cl.Parent() == nil {
		return nil
	}
	idx := -1
	for i, fv := range cl.FreeVars {
		if fv == x {
			idx = i
		}
	}
	if idx < 0 {
		return nil
	}
	for _, b := range cl.Parent().Blocks {
		for _, in := range b.Instrs {
			if mc, ok := in.(*ssa.MakeClosure); ok && mc.Fn == ssa.Value(cl) && idx < len(mc.Bindings) {
				return mc.Bindings[idx]
			}
		}
	}
	return nil
}
