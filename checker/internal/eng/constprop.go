package eng

import (
	"go/constant"
	"go/token"
	"sort"
	"strings"

	"golang.org/x/tools/go/ssa"
)

// Outcome is one way a function can return on the paths explored by BoolOutcomes.
type Outcome struct {
	Ret   *ssa.Return
	Known bool // the examined result is a known boolean on that path
	Val   bool
}

// BoolOutcomes explores the paths of fn that continue after instruction `after` and reports, for every return reached,
// what is known about result `res` of that return, given the boolean facts in `seed` (value -> boolean) at the start. The exploration is a path-sensitive propagation of boolean constants
// (conditional constant propagation, intraprocedural): the condition tested on e is known from the edge taken; φ-nodes
// take the value of the incoming edge; `!x`, `x == y`, `x != y` over known booleans are evaluated; a branch on a known
// condition is followed only in its taken direction. Every other value is unknown, and a value defined in a block
// becomes unknown again when the block is re-entered (a new dynamic instance).
func BoolOutcomes(fn *ssa.Function, after ssa.Instruction, res int, seed map[ssa.Value]bool) []Outcome {
	type env map[ssa.Value]bool
	sig := func(en env) string {
		var ks []string
		for v, b := range en {
			s := v.Name()
			if b {
				s += "=1"
			} else {
				s += "=0"
			}
			ks = append(ks, s)
		}
		sort.Strings(ks)
		return strings.Join(ks, ",")
	}
	var eval func(v ssa.Value, en env) (bool, bool)
	eval = func(v ssa.Value, en env) (bool, bool) {
		if k, ok := v.(*ssa.Const); ok {
			if k.Value != nil && k.Value.Kind() == constant.Bool {
				return constant.BoolVal(k.Value), true
			}
			return false, false
		}
		if b, ok := en[v]; ok {
			return b, true
		}
		switch x := v.(type) {
		case *ssa.UnOp:
			if x.Op == token.NOT {
				if b, ok := eval(x.X, en); ok {
					return !b, true
				}
			}
		case *ssa.BinOp:
			if x.Op == token.EQL || x.Op == token.NEQ {
				a, oka := eval(x.X, en)
				b, okb := eval(x.Y, en)
				if oka && okb {
					return (a == b) == (x.Op == token.EQL), true
				}
			}
		}
		return false, false
	}
	learn := func(en env, cond ssa.Value, val bool) {
		for {
			en[cond] = val
			u, ok := cond.(*ssa.UnOp)
			if !ok || u.Op != token.NOT {
				return
			}
			cond, val = u.X, !val
		}
	}
	var out []Outcome
	seenRet := map[string]bool{}
	visited := map[string]bool{}
	type item struct {
		pred, b *ssa.BasicBlock
		en      env
		from    int // index of the first instruction to execute (>0 only for the start state)
	}
	start := env{}
	for v, b := range seed {
		start[v] = b
	}
	work := []item{{nil, after.Block(), start, InstrIndex(after) + 1}}
	for len(work) > 0 {
		it := work[len(work)-1]
		work = work[:len(work)-1]
		en := env{}
		for k, v := range it.en {
			en[k] = v
		}
		// φ-nodes read their operands simultaneously, from the environment of the predecessor
		pi := -1
		for i, p := range it.b.Preds {
			if p == it.pred {
				pi = i
			}
		}
		phiVals := map[ssa.Value][2]bool{}
		for _, in := range it.b.Instrs {
			ph, ok := in.(*ssa.Phi)
			if !ok || it.from > 0 {
				break
			}
			if pi >= 0 {
				if b, known := eval(ph.Edges[pi], it.en); known {
					phiVals[ph] = [2]bool{b, true}
					continue
				}
			}
			phiVals[ph] = [2]bool{false, false}
		}
		for ph, bv := range phiVals {
			if bv[1] {
				en[ph] = bv[0]
			} else {
				delete(en, ph)
			}
		}
		k := itoa(it.b.Index) + "|" + sig(en)
		if visited[k] && it.from == 0 {
			continue
		}
		if it.from == 0 {
			visited[k] = true
		}
		for ii, in := range it.b.Instrs {
			if _, isPhi := in.(*ssa.Phi); isPhi || ii < it.from {
				continue
			}
			if v, ok := in.(ssa.Value); ok {
				delete(en, v) // a new dynamic instance of the value
			}
			switch x := in.(type) {
			case *ssa.Return:
				o := Outcome{Ret: x}
				if res < len(x.Results) {
					o.Val, o.Known = eval(x.Results[res], en)
				}
				rk := itoa(InstrIndex(x)) + "@" + itoa(it.b.Index)
				if o.Known {
					if o.Val {
						rk += "=1"
					} else {
						rk += "=0"
					}
				}
				if !seenRet[rk] {
					seenRet[rk] = true
					out = append(out, o)
				}
			case *ssa.If:
				if b, known := eval(x.Cond, en); known {
					s := 1
					if b {
						s = 0
					}
					work = append(work, item{it.b, it.b.Succs[s], en, 0})
				} else {
					for s := 0; s < 2; s++ {
						e2 := env{}
						for k, v := range en {
							e2[k] = v
						}
						learn(e2, x.Cond, s == 0)
						work = append(work, item{it.b, it.b.Succs[s], e2, 0})
					}
				}
			case *ssa.Jump:
				work = append(work, item{it.b, it.b.Succs[0], en, 0})
			}
		}
	}
	return out
}

func itoa(i int) string {
	if i < 0 {
		return "-" + itoa(-i)
	}
	if i < 10 {
		return string(rune('0' + i))
	}
	return itoa(i/10) + string(rune('0'+i%10))
}
