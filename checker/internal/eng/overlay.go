package eng

import (
	"bufio"
	"fmt"
	"os"
	"os/exec"
	"path/filepath"
	"strings"
)

// OverlayFromPatch applies a unified diff to private copies of the files it touches (never to the
// repository itself) and returns the patched contents keyed by their path inside repo, suitable for
// packages.Config.Overlay. The scratch directory is removed before returning.
func OverlayFromPatch(repo, patchFile string) (map[string][]byte, error) {
	f, err := os.Open(patchFile)
	if err != nil {
		return nil, err
	}
	var files []string
	sc := bufio.NewScanner(f)
	sc.Buffer(make([]byte, 1<<20), 1<<24)
	for sc.Scan() {
		l := sc.Text()
		if strings.HasPrefix(l, "+++ b/") {
			files = append(files, strings.TrimSpace(strings.TrimPrefix(l, "+++ b/")))
		}
	}
	f.Close()
	if len(files) == 0 {
		return nil, fmt.Errorf("no files in patch %s", patchFile)
	}
	tmp, err := os.MkdirTemp("", "lincheck-variant-")
	if err != nil {
		return nil, err
	}
	defer os.RemoveAll(tmp)
	for _, rel := range files {
		dst := filepath.Join(tmp, rel)
		if err := os.MkdirAll(filepath.Dir(dst), 0o755); err != nil {
			return nil, err
		}
		if b, err := os.ReadFile(filepath.Join(repo, rel)); err == nil {
			if err := os.WriteFile(dst, b, 0o644); err != nil {
				return nil, err
			}
		}
	}
	abs, _ := filepath.Abs(patchFile)
	cmd := exec.Command("patch", "-p1", "-s", "--no-backup-if-mismatch", "-i", abs)
	cmd.Dir = tmp
	if out, err := cmd.CombinedOutput(); err != nil {
		return nil, fmt.Errorf("patch does not apply to the current tree (stale variant): %v: %s", err, strings.TrimSpace(string(out)))
	}
	ov := map[string][]byte{}
	for _, rel := range files {
		b, err := os.ReadFile(filepath.Join(tmp, rel))
		if err != nil {
			return nil, err
		}
		ov[filepath.Join(repo, rel)] = b
	}
	return ov, nil
}

// ResetCaches drops all per-program memoisation (call before discarding a Prog so it can be collected).
func ResetCaches() {
	implCacheReset()
	for k := range accessorCache {
		delete(accessorCache, k)
	}
}
