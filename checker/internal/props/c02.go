package props

import (
	"fmt"
	"go/token"
	"go/types"
	"strings"

	"golang.org/x/tools/go/ssa"

	"lincheck/internal/eng"
)

const (
	fvT  = "kv/version.familyVersion"
	fvMu = fvT + ".mutex"
	scT  = "kv/table.storeCache"
	scMu = scT + ".mutex"
	snT  = "kv/version.snapshot"
)

func init() {
	register(eng.Property{
		ID:    "C02",
		Title: "KV store: snapshot reads are stable and their files stay alive under concurrency",
		Explanation: "Decides the lock discipline and keep-set structure that make file deletion safe for every interleaving: the current/active version lists are " +
			"accessed only under the family-version mutex (listed exceptions), a snapshot picks the current version and takes its reference inside one lock hold, references are " +
			"taken only by snapshot creation and dropped only by the CAS-guarded Close, a version is forgotten only when it is not current; the obsolete-file cleanup builds its keep-set from " +
			"pending outputs FIRST, then every active version's files, then live rollup files, and deletes (evict before delete) only table files absent from it; readers are closed only by the " +
			"cache, eviction by time only at reference count zero; every obtained snapshot is closed on all paths or handed to an owner that closes it; a background job closes its own snapshot before " +
			"running the cleanup.",
		NotDecided: "data races outside these mutex scopes, content equality of what a snapshot reads, the reader-reference leak in snapshot.Load (observation).",
		MinObls:    55,
		Run:        runC02,
	})
}

// guardedBy: every instruction touching the field (address taken / value read) lies under a hold
// of mutex `mu` (write mode for stores) unless its function is in the exception table.
func guardedBy(c *eng.Ctx, field, mu string, exceptions map[string]string, min int) {
	p := c.P
	n := 0
	for _, s := range p.SitesInProgram(eng.TouchField(field)) {
		tf := topFunc(c, s.Fn)
		n++
		if why, ok := exceptions[p.FuncKey(s.Fn)]; ok {
			c.Check(true, "exception:"+p.FuncKey(s.Fn), s.Instr, s.Fn, field+" accessed without "+mu+": "+why, "")
			continue
		}
		// is the access a write?
		write := false
		if fa, ok := s.Instr.(*ssa.FieldAddr); ok && fa.Referrers() != nil {
			for _, ref := range *fa.Referrers() {
				switch r := ref.(type) {
				case *ssa.Store:
					if r.Addr == ssa.Value(fa) {
						write = true
					}
				case *ssa.MapUpdate:
					write = true
				}
				// map update through a loaded map value
				if u, ok := ref.(*ssa.UnOp); ok && u.Referrers() != nil {
					for _, r2 := range *u.Referrers() {
						if mu2, ok := r2.(*ssa.MapUpdate); ok && mu2.Map == ssa.Value(u) {
							write = true
						}
						if cl, ok := r2.(*ssa.Call); ok {
							if b, ok := cl.Common().Value.(*ssa.Builtin); ok && b.Name() == "delete" {
								write = true
							}
						}
					}
				}
			}
		}
		ls := p.Locks(s.Fn, nil)
		held := ls.At(s.Instr).HasField(mu, write)
		detail := "held: " + ls.At(s.Instr).String()
		if !held {
			// a helper whose every caller holds the lock
			ok, why, _ := p.HeldAtAllCallers(s.Fn, mu, write, 1)
			held = ok
			if !ok {
				detail += "; " + why
			}
		}
		mode := "read"
		if write {
			mode = "write"
		}
		c.Check(held, fmt.Sprintf("%s@%s:%s", field[strings.LastIndex(field, ".")+1:], tf, mode), s.Instr, s.Fn,
			fmt.Sprintf("%s is %s only while %s is held", field, map[bool]string{true: "written", false: "read"}[write], mu), detail)
	}
	if n < min {
		c.Check(false, field+"@count", nil, nil, fmt.Sprintf("at least %d accesses of %s exist", min, field), fmt.Sprintf("found %d", n))
	}
}

func runC02(c *eng.Ctx) {
	p := c.P
	c.Rule("ORDER", cjT+".installCompactionResults{one commit}", func() { installOneCommit(c) }) // C02-m21: shared with C03/C04/C15
	findFilesReturnsItsOwnSlice(c)
	c.Rule("ATOMIC", famT+".rollup{single flight}", func() { singleFlight(c, famT+".rolluping", famT+".rollup") })

	// ---- 1/2. version lists ---------------------------------------------------------------------------------------
	c.Rule("GUARDED-BY", fvT+"{current,activeVersions}", func() {
		exc := map[string]string{
			"kv/version.newFamilyVersion": "constructor, object not yet published",
			fvT + ".appendVersion":        "the unlocked read `previous := fv.current` is safe because appendVersion's only caller holds the version-set write mutex (checked below)",
		}
		guardedBy(c, fvT+".current", fvMu, exc, 6)
		guardedBy(c, fvT+".activeVersions", fvMu, exc, 3)
		owner(c, "call of familyVersion.appendVersion", eng.AnyCallTo(fvT+".appendVersion", "kv/version.FamilyVersion.appendVersion"), []string{vsT + ".CommitFamilyEditLog"}, 1)
		// inside appendVersion the stores themselves are locked
		av := c.Fn(fvT + ".appendVersion")
		ls := p.Locks(av, nil)
		st := c.One(av, eng.StoreField(fvT+".current"), "fv.current = v")
		reg := c.One(av, eng.MapUpdateOf(fvT+".activeVersions"), "activeVersions[id] = v")
		c.Check(ls.At(st.Instr).HasField(fvMu, true), "install-locked", st.Instr, av, "the new current version is installed under the write lock", "")
		ok, why := ls.SameHold(reg.Instr, st.Instr, fvMu, true)
		c.Check(ok, "register-and-install-one-hold", st.Instr, av, "the version is registered as active and made current in one hold (a snapshot can not see a current version that is not active)", why)
	})

	// ---- 2b. a commit derives the new version from the version that is current INSIDE the commit's own hold -----------------
	c.Rule("ATOMIC", vsT+".CommitFamilyEditLog{base read + install}", func() { commitBaseInHold(c) })

	// ---- 3/4. snapshot takes its reference under the lock ---------------------------------------------------------
	c.Rule("ATOMIC", fvT+".GetSnapshot{pick+retain}", func() {
		f := c.Fn(fvT + ".GetSnapshot")
		ls := p.Locks(f, nil)
		mk := c.One(f, eng.CallTo("kv/version.newSnapshot"), "newSnapshot(name, fv.current, cache)")
		c.Check(ls.At(mk.Instr).HasField(fvMu, false), "retain-under-lock", mk.Instr, f,
			"the snapshot (which takes the version's reference) is created while the family-version lock is held", "held: "+ls.At(mk.Instr).String())
		cur := eng.CallArgs(mk.Instr.(*ssa.Call))[1]
		var load ssa.Instruction
		eng.WalkExpr(cur, func(x ssa.Value) bool {
			if in, ok := x.(ssa.Instruction); ok && eng.LoadField(fvT+".current")(p, in) {
				load = in
			}
			return true
		})
		if load == nil {
			c.Check(false, "snapshot-of-current", mk.Instr, f, "the snapshot is taken of fv.current", "argument is "+p.Desc(cur))
		} else {
			ok, why := ls.SameHold(load, mk.Instr, fvMu, false)
			c.Check(ok, "pick-and-retain-one-hold", mk.Instr, f, "reading fv.current and retaining it happen in one hold (no commit can retire the version in between)", why)
		}
		ns := c.Fn("kv/version.newSnapshot")
		c.Check(p.MustPass(ns, invokeOn("version", "Retain"), 0), "newSnapshot-retains", nil, ns, "creating a snapshot retains its version on every path", "")
		owner(c, "call of Version.Retain", eng.AnyCallTo("kv/version.Version.Retain", "kv/version.version.Retain"), []string{"kv/version.newSnapshot"}, 1)
		owner(c, "call of Version.Release", eng.AnyCallTo("kv/version.Version.Release", "kv/version.version.Release"), []string{snT + ".Close"}, 1)
		owner(c, "call of newSnapshot", eng.AnyCallTo("kv/version.newSnapshot"), []string{fvT + ".GetSnapshot"}, 1)
		cl := c.Fn(snT + ".Close")
		facts := p.MustFacts(cl)
		rel := c.One(cl, invokeOn(".version", "Release"), "version.Release()")
		cas := facts.Find(facts.At(rel.Instr), "true", func(_ string, v ssa.Value) bool {
			call, ok := v.(*ssa.Call)
			if !ok {
				return false
			}
			fa, m, _ := eng.AtomicOp(call)
			return fa != nil && (m == "CompareAndSwap" || m == "CAS") && strings.HasSuffix(eng.FieldKeyOfAddr(fa), ".closed")
		}, nil)
		c.Check(len(cas) > 0, "release-once", rel.Instr, cl, "a snapshot releases its version only for the caller that wins closed.CompareAndSwap(false,true) (never twice)", "")
		rv := c.Fn("kv/version.version.Release")
		dec := c.One(rv, eng.StoreField("kv/version.version.ref"), "ref.Dec()")
		for _, s := range c.Some(rv, invokeOn(".fv", "removeVersion"), "fv.removeVersion(v)") {
			fs := p.MustFacts(rv)
			z := fs.Find(fs.At(s.Instr), "eq", func(_ string, v ssa.Value) bool { return v == dec.Instr.(ssa.Value) }, eng.DescIs("0"))
			c.Check(len(z) > 0, "forget-at-zero", s.Instr, rv, "a version asks to be forgotten only when its reference count reached zero", "")
		}
	})

	// ---- 5. removeVersion never drops the current version -----------------------------------------------------------
	c.Rule("GUARD", fvT+".removeVersion", func() {
		f := c.Fn(fvT + ".removeVersion")
		facts := p.MustFacts(f)
		del := c.One(f, eng.CallTo("builtin:delete"), "delete(activeVersions, id)")
		ne := facts.Find(facts.At(del.Instr), "ne", eng.DescIs("v"), eng.DescSuffix(".current"))
		c.Check(len(ne) > 0, "not-current", del.Instr, f, "a version is removed from the active set only when it is not the current one", "facts: "+strings.Join(facts.Render(facts.At(del.Instr)), " ; "))
		c.Check(p.Locks(f, nil).At(del.Instr).HasField(fvMu, true), "locked", del.Instr, f, "the active set is changed under the write lock", "")
		// … and only when nobody holds it: the count that made Release call us was read before this lock was taken, and GetSnapshot
		// retains the CURRENT version under the read lock - between the two a reader may have retained it and a commit retired it (F48)
		ls := p.Locks(f, nil)
		okZero, why := false, "no NumOfRef() == 0 test under the lock"
		for _, s := range p.Sites(f, func(p *eng.Prog, in ssa.Instruction) bool {
			cl, ok := in.(*ssa.Call)
			if !ok {
				return false
			}
			if cl.Common().IsInvoke() {
				return cl.Common().Method.Name() == "NumOfRef"
			}
			fa, m, _ := eng.AtomicOp(cl)
			return fa != nil && m == "Load" && strings.HasSuffix(eng.FieldKeyOfAddr(fa), ".ref")
		}) {
			z := facts.Find(facts.At(del.Instr), "eq", func(_ string, v ssa.Value) bool { return v == s.Instr.(ssa.Value) }, eng.DescIs("0"))
			at := s.Instr
			if len(z) == 0 && s.Instr.Parent() != f {
				// the test sits in a small predicate helper (isUnreferenced(v) = v.NumOfRef() == 0): the helper returns exactly
				// "count == 0" and the delete is guarded by the helper answering true
				h := s.Instr.Parent()
				exact := true
				for _, hb := range h.Blocks {
					for _, hin := range hb.Instrs {
						r, isR := hin.(*ssa.Return)
						if !isR {
							continue
						}
						bo, isB := eng.Unwrap(r.Results[0]).(*ssa.BinOp)
						if len(r.Results) != 1 || !isB || bo.Op != token.EQL {
							exact = false
							continue
						}
						k, isC := eng.ConstInt(bo.Y)
						if !isC || k != 0 || eng.Unwrap(bo.X) != s.Instr.(ssa.Value) {
							exact = false
						}
					}
				}
				if top := eng.TopOf(f, s); exact && top != nil {
					if tv, isV := top.(ssa.Value); isV {
						z = facts.Find(facts.At(del.Instr), "true", func(_ string, v ssa.Value) bool { return v == tv }, nil)
						at = top
					}
				}
			}
			if len(z) == 0 {
				why = "the count read at " + p.InstrPos(s.Instr) + " does not guard the delete"
				continue
			}
			if ok, w := ls.SameHold(at, del.Instr, fvMu, true); !ok {
				why = "the count is read outside the hold that deletes: " + w
				continue
			}
			okZero = true
		}
		c.Check(okZero, "unreferenced-under-the-lock", del.Instr, f,
			"a version is removed from the active set only when its reference count is zero as read INSIDE the write hold that removes it (a snapshot retains the current version under the read lock of the same mutex)", why)
	})

	// ---- 6/7/8. the keep-set ------------------------------------------------------------------------------------------
	// ---- 5b. a reader's file selection visits every file of a level whose range holds the key (rule shared with C15 / C03) ---------
	c.Rule("GUARD", "kv/version.version.FindFiles{inclusive}", func() { findFilesInclusive(c) })

	c.Rule("UNION", famT+".deleteObsoleteFiles{keep-set}", func() { obsoleteKeepSet(c) })

	// ---- 9/10/11. reader cache -----------------------------------------------------------------------------------------
	pendingOutputClaimOrder(c)

	c.Rule("OWNER", "kv/table.Cache.ReleaseReaders{only Snapshot.Close gives the retained readers back}", func() {
		// every reader a snapshot retains is recorded in s.readers and released exactly once, by Close; a second release on an
		// error path drops the reference another open snapshot still relies on (the cache then unmaps the file under it)
		owner(c, "call of Cache.ReleaseReaders", func(p *eng.Prog, in ssa.Instruction) bool {
			cc, ok := in.(ssa.CallInstruction)
			if !ok {
				return false
			}
			if cc.Common().IsInvoke() {
				return cc.Common().Method.Name() == "ReleaseReaders"
			}
			g := cc.Common().StaticCallee()
			return g != nil && baseName(g.Name()) == "ReleaseReaders"
		}, []string{"kv/version.snapshot.Close"}, 1)
		cl := c.Fn("kv/version.snapshot.Close")
		rel := c.One(cl, invokeOn(".cache", "ReleaseReaders"), "s.cache.ReleaseReaders(s.readers)")
		c.Check(eng.DependsOnField(eng.CallArgs(rel.Instr.(*ssa.Call))[0], "kv/version.snapshot.readers"), "releases-the-recorded-readers", rel.Instr, cl, "Close releases exactly the readers recorded in s.readers", "")
	})

	c.Rule("ATOMIC", "kv/version.storeVersionSet.CommitFamilyEditLog", func() { commitFamilyEditLogAtomic(c) })

	c.Rule("OWNER", scT+"{evict, close, cleanup}", func() {
		owner(c, "call of Cache.Evict", eng.AnyCallTo("kv/table.Cache.Evict", scT+".Evict"), []string{"kv.store.evictFamilyFile"}, 1)
		owner(c, "call of store.evictFamilyFile", eng.AnyCallTo("kv.store.evictFamilyFile", "kv.Store.evictFamilyFile"), []string{famT + ".deleteObsoleteFiles"}, 1)
		owner(c, "call of storeCache.closeReader", eng.AnyCallTo(scT+".closeReader"), []string{scT + ".evict", scT + ".Close"}, 2)
		owner(c, "call of storeCache.evict", eng.AnyCallTo(scT+".evict"), []string{scT + ".Evict", scT + ".Cleanup"}, 2)
		owner(c, "call of table.unmapFunc", eng.AnyCallTo("var:kv/table.unmapFunc"), []string{"kv/table.newMMapStoreReader", "kv/table.storeMMapReader.Close"}, 2)
		owner(c, "call of table.Reader.Close", eng.AnyCallTo("kv/table.Reader.Close", "kv/table.storeMMapReader.Close"), []string{scT + ".closeReader"}, 1)
		cu := c.Fn(scT + ".Cleanup")
		var cb *ssa.Function
		for _, cl := range cu.AnonFuncs {
			if len(p.Sites(cl, eng.CallTo(scT+".evict"))) > 0 {
				cb = cl
			}
		}
		if cb == nil {
			c.Undecided("Cleanup's eviction callback not found")
		}
		facts := p.MustFacts(cb)
		ev := c.One(cb, eng.CallTo(scT+".evict"), "c.evict(entry)")
		fs := facts.At(ev.Instr)
		zero := facts.Find(fs, "eq", eng.DescSuffix(".ref"), eng.DescIs("0"))
		exp := facts.Find(fs, "lt", func(d string, _ ssa.Value) bool {
			return strings.Contains(d, "ttl") || strings.Contains(d, "Milliseconds")
		}, func(d string, _ ssa.Value) bool { return strings.Contains(d, ".last") })
		c.Check(len(zero) > 0, "evict-only-unreferenced", ev.Instr, cb, "time-based cleanup closes a reader only when no snapshot holds it (ref == 0)", "facts: "+strings.Join(facts.Render(fs), " ; "))
		c.Check(len(exp) > 0, "evict-only-expired", ev.Instr, cb, "and only when it has not been used for the ttl", "facts: "+strings.Join(facts.Render(fs), " ; "))
		exc := map[string]string{"kv/table.NewCache": "constructor"}
		guardedBy(c, scT+".cache", scMu, exc, 8)
		guardedBy(c, scT+".families", scMu, exc, 4)
		gr := c.Fn(scT + ".GetReader")
		c.Check(len(p.Sites(gr, eng.CallTo("kv/table.cacheEntry.retain"))) >= 2, "get-retains", nil, gr, "handing out a reader retains its cache entry (hit and miss path)", "")
	})

	// ---- 12. every snapshot is closed or handed to an owner -----------------------------------------------------------------
	c.Rule("TYPESTATE", "Snapshot{acquire->Close}", func() { snapshotTypestate(c) })

	// ---- 13. a job closes its own snapshot before cleaning up ------------------------------------------------------------------
	c.Rule("ORDER", famT+".backgroundCompactionJob{close<cleanup}", func() {
		f := c.Fn(famT + ".backgroundCompactionJob")
		if len(f.AnonFuncs) == 0 {
			c.Undecided("no deferred block in backgroundCompactionJob")
		}
		d := f.AnonFuncs[0]
		orderInFn(c, d, invokeOn("", "Close"), eng.AnyCallTo(famT+".deleteObsoleteFiles"), "snapshot.Close", "deleteObsoleteFiles")
		run := c.Some(f, invokeOn("", "Run"), "compactJob.Run")
		df := c.Some(f, func(p *eng.Prog, in ssa.Instruction) bool { _, ok := in.(*ssa.Defer); return ok }, "defer")
		c.Check(eng.DominatedBy(f, run[0].Instr, df, nil), "cleanup-deferred-before-run", run[0].Instr, f, "the cleanup is deferred, so it runs after the compaction installed its result", "")
	})

	// ---- 14. a version owns its level objects (an installed version's file lists are never edited through a newer version) ----
	c.Rule("PROV", "kv/version.version.levels{every version owns its level objects}", func() { versionOwnsLevels(c) })
	// ---- 15. a new table number is claimed (pending output) before its file exists, so the cleanup never sees an unclaimed file
	c.Rule("ORDER", famT+".newTableBuilder", func() { newTableBuilderClaimsFirst(c) })
	// ---- 16. one family object per family (F36): pending outputs are kept per family OBJECT -------------------------------------------
	c.Rule("ATOMIC", "kv.store.CreateFamily{look-up, create and register in one write hold}", func() { createFamilyOnce(c) })
	// ---- 17. an edit log carries the id of the family that commits it (replay routes records by that id) ------------------------------------
	c.Rule("PROV", "kv{edit log family id = the committing family}", func() { editLogOwnID(c) })
	c.Rule("UNION", vsT+".createFamilySnapshot{rollup marks and references are enumerated from their own maps}", func() {
		snapshotEnumeratesStateMaps(c, c.Fn(vsT+".createFamilySnapshot"))
	})

	c.Observe("snapshot.Load obtains readers through cache.GetReader without recording them for release — a reference leak (readers stay open), not a safety violation")
}

// snapshotTypestate: every value obtained from Family.GetSnapshot / FamilyVersion.GetSnapshot is
// closed on every path (directly or by a deferred Close), or ownership is transferred to a listed owner.
func snapshotTypestate(c *eng.Ctx) {
	p := c.P
	transfer := map[string]string{
		"index.NewIndexKVStore":      "stored in indexKVStore.snapshot, closed and replaced by Flush",
		"index.indexKVStore.Flush":   "the new snapshot replaces indexKVStore.snapshot (the old one is closed in the same hold)",
		"kv.family.GetSnapshot":      "forwarding method: returns the snapshot to its caller",
		"kv.family.doRollupWork":     "closed by the deferred block of the function",
		"tsdb.dataFamily.fileFilter": "closed by the deferred block unless a filter result set takes ownership of it",
	}
	acquire := eng.AnyCallTo("kv.Family.GetSnapshot", "kv.family.GetSnapshot", "kv/version.FamilyVersion.GetSnapshot", fvT+".GetSnapshot")
	n := 0
	for _, s := range p.SitesInProgram(acquire) {
		fn := s.Fn
		call, ok := s.Instr.(*ssa.Call)
		if !ok {
			continue
		}
		n++
		key := p.FuncKey(fn)
		isClose := func(in ssa.Instruction) bool {
			cl, ok := in.(ssa.CallInstruction)
			if !ok {
				return false
			}
			cc := cl.Common()
			name := ""
			if cc.IsInvoke() {
				name = cc.Method.Name()
			} else if f := cc.StaticCallee(); f != nil {
				name = f.Name()
			}
			if name != "Close" {
				return false
			}
			r := eng.CallRecv(cl)
			return r != nil && (eng.DerivesFromCall(r, call, 0) || eng.SameValue(r, call))
		}
		// deferred close directly or inside a deferred closure of this function
		deferred := false
		for _, b := range eng.BlocksT(fn) {
			for _, in := range b.Instrs {
				if d, ok := in.(*ssa.Defer); ok {
					if isClose(d) {
						deferred = true
					}
					if mc, ok := d.Call.Value.(*ssa.MakeClosure); ok {
						cf := mc.Fn.(*ssa.Function)
						// closure closes a captured snapshot variable
						for _, cb := range eng.BlocksT(cf) {
							for _, cin := range cb.Instrs {
								if cl, ok := cin.(ssa.CallInstruction); ok {
									cc := cl.Common()
									if cc.IsInvoke() && cc.Method.Name() == "Close" && strings.Contains(cc.Value.Type().String(), "Snapshot") {
										deferred = true
									}
								}
							}
						}
					}
				}
			}
		}
		closedAll := false
		if !deferred {
			_, leak := eng.PathExists(eng.PathQuery{Fn: fn, After: call, Target: func(in ssa.Instruction) bool { _, ok := in.(*ssa.Return); return ok }, Blocked: isClose})
			closedAll = !leak
		}
		_, listed := transfer[key]
		if !listed {
			_, listed = transfer[topFunc(c, fn)]
		}
		lifted := ""
		if !listed {
			// the acquiring statement moved into a helper of a listed owner
			lifted = p.FuncKey(liftTransparent(p, fn))
			_, listed = transfer[lifted]
		}
		okk := deferred || closedAll || listed
		how := "deferred Close"
		if closedAll {
			how = "Close on every path"
		}
		if listed && !deferred && !closedAll {
			how = "ownership transferred: " + transfer[topFunc(c, fn)] + transfer[lifted]
		}
		c.Check(okk, "closed:"+key, call, fn, "a snapshot obtained here is closed on every path or handed to a listed owner ("+how+")",
			"no Close on some path to a return and the function is not a listed owner")
		// no use of a reader obtained from the snapshot after an explicit (non-deferred) Close in the same function
		for _, b := range eng.BlocksT(fn) {
			for _, in := range b.Instrs {
				if _, isDefer := in.(*ssa.Defer); isDefer || !isClose(in) {
					continue
				}
				use := func(x ssa.Instruction) bool {
					cl, ok := x.(*ssa.Call)
					if !ok || isClose(x) {
						return false
					}
					r := eng.CallRecv(cl)
					return r != nil && eng.DerivesFromCall(r, call, 0)
				}
				_, after := eng.PathExists(eng.PathQuery{Fn: fn, After: in, Target: use})
				c.Check(!after, "no-use-after-close:"+key, in, fn, "the snapshot is not used after it was closed", "a method of the snapshot is called after Close")
			}
		}
	}
	if n < 15 {
		c.Check(false, "acquire@count", nil, nil, "at least 15 snapshot acquisition sites exist", fmt.Sprintf("found %d", n))
	}
}

// commitBaseInHold (C01 + C02): the version a commit clones (its base) is read in the same write hold of the version-set mutex
// that installs the result. If the base is read before the hold, two overlapping commits clone the same base, each installs
// base+own edit, and the later install silently discards the earlier, already acknowledged commit.
func commitBaseInHold(c *eng.Ctx) {
	p := c.P
	f := c.Fn(vsT + ".CommitFamilyEditLog")
	ls := p.Locks(f, nil)
	ins := c.One(f, invokeOn("", "appendVersion"), "familyVersion.appendVersion")
	nv := eng.CallArgs(ins.Instr.(*ssa.Call))[0]
	// every call the installed version derives from: Clone(), GetCurrent(), GetSnapshot()
	n := 0
	for _, name := range []string{"Clone", "GetCurrent", "GetSnapshot"} {
		for i, s := range p.Sites(f, invokeOn("", name)) {
			v, isV := s.Instr.(ssa.Value)
			if !isV || !eng.DependsOn(nv, func(x ssa.Value) bool { return x == v }) {
				continue
			}
			n++
			ok, why := ls.SameHold(s.Instr, ins.Instr, vsMu, true)
			c.Check(ok, fmt.Sprintf("base-read-in-install-hold:%s[%d]", name, i), s.Instr, f,
				"the base version of a commit ("+name+") is read in the write hold that installs the new version (overlapping commits can not clone the same base)", why)
		}
	}
	c.Check(n >= 3, "base-chain-found", ins.Instr, f, "the installed version derives from GetSnapshot().GetCurrent().Clone()", fmt.Sprintf("%d links found for %s", n, p.Desc(nv)))
}

func obsoleteKeepSet(c *eng.Ctx) {
	p := c.P
	_ = p
	f := c.Fn(famT + ".deleteObsoleteFiles")
	pend := c.One(f, invokeOnGeneric(".pendingOutputs", "Range"), "pendingOutputs.Range")
	act := c.One(f, invokeOn(".familyVersion", "GetAllActiveFiles"), "familyVersion.GetAllActiveFiles()")
	rol := c.One(f, invokeOn(".familyVersion", "GetLiveRollupFiles"), "familyVersion.GetLiveRollupFiles()")
	dels := c.Some(f, eng.AnyCallTo("var:kv.removeDirFunc"), "removal of a table file (removeDirFunc)")
	evs := c.Some(f, invokeOn(".store", "evictFamilyFile"), "store.evictFamilyFile")
	for _, src := range []eng.Site{pend, act, rol} {
		for i, d := range append(append([]eng.Site{}, dels...), evs...) {
			c.Check(eng.DominatedBy(f, d.Instr, []eng.Site{src}, nil), fmt.Sprintf("source<%s[%d]:%s", "delete", i, shortInstr(p, src.Instr)), d.Instr, f,
				"nothing is evicted or deleted before the keep-set received "+shortInstr(p, src.Instr), "")
		}
	}
	c.Check(eng.DominatedBy(f, act.Instr, []eng.Site{pend}, nil), "pending-read-before-active", act.Instr, f,
		"pending outputs are collected BEFORE the active versions' files: a flush moves its file from pending to a version (commit, then un-mark), so reading in the other order can miss a file that is in neither set at read time",
		"GetAllActiveFiles is read before the pending outputs")
	// the pending range closure puts keys into the same map the deletion loop consults
	facts := p.MustFacts(f)
	for i, d := range dels {
		// the removal is guarded by "not in the keep-set": a guard derived from the comma-ok lookup, taken on its false side
		conds, taken := eng.GuardingConds(f, d.Instr)
		okGuard := false
		detail := ""
		for k, cd := range conds {
			v := cd
			neg := false
			for {
				if u, ok := v.(*ssa.UnOp); ok && u.Op == token.NOT {
					neg = !neg
					v = u.X
					continue
				}
				break
			}
			fromLookup := eng.DependsOn(v, func(x ssa.Value) bool {
				e, ok := x.(*ssa.Extract)
				if !ok || e.Index != 1 {
					return false
				}
				_, isLookup := e.Tuple.(*ssa.Lookup)
				return isLookup
			})
			if !fromLookup {
				continue
			}
			present := taken[k] != neg // the guard holds with ok/keep == present
			detail += fmt.Sprintf("guard %s taken=%v; ", p.Desc(cd), taken[k])
			if !present {
				okGuard = true
			}
		}
		c.Check(okGuard, fmt.Sprintf("delete-only-if-absent[%d]", i), d.Instr, f, "a table is deleted only when its number is absent from the keep-set", detail)
		c.Check(eng.DominatedBy(f, d.Instr, evs, nil), fmt.Sprintf("evict<delete[%d]", i), d.Instr, f, "the cached reader is evicted (unmapped) before the file is removed", "")
		a := eng.CallArgs(d.Instr.(*ssa.Call))[0]
		ea := eng.CallArgs(evs[0].Instr.(*ssa.Call))[0]
		c.Check(eng.DependsOn(a, func(x ssa.Value) bool { return x == ea || eng.SameValue(x, ea) }), fmt.Sprintf("same-file[%d]", i), d.Instr, f, "the evicted and the deleted file are the same number", "removes "+p.Desc(a)+", evicts "+p.Desc(ea))
	}
	// only table files are subject to deletion: the lookup that can clear `keep` is under FileType == TypeTable
	var look ssa.Instruction
	for _, b := range eng.BlocksT(f) {
		for _, in := range b.Instrs {
			if l, ok := in.(*ssa.Lookup); ok && l.CommaOk {
				look = in
			}
		}
	}
	if look == nil {
		c.Undecided("keep-set lookup not found")
	}
	tt := facts.Find(facts.At(look), "eq", eng.DescSuffix(".FileType"), func(d string, _ ssa.Value) bool { return true })
	c.Check(len(tt) > 0, "only-table-files", look, f, "only files of type table can lose their keep status", "")
	// the three sources feed the map that is looked up
	lm := look.(*ssa.Lookup).X
	nFeed := 0
	for _, b := range eng.BlocksT(f) {
		for _, in := range b.Instrs {
			if mu, ok := in.(*ssa.MapUpdate); ok {
				nFeed++
				same := eng.SameValue(mu.Map, lm) || mu.Map == lm || eng.DependsOn(lm, func(x ssa.Value) bool { return x == mu.Map || eng.SameValue(x, mu.Map) }) || eng.DependsOn(mu.Map, func(x ssa.Value) bool { return x == lm || eng.SameValue(x, lm) })
				c.Check(same, fmt.Sprintf("feeds-keep-set[%d]", nFeed), in, f, "every collected number goes into the map the deletion consults", "updates "+p.Desc(mu.Map)+", consults "+p.Desc(lm))
			}
		}
	}
	ga := c.Fn(fvT + ".GetAllActiveFiles")
	rg := false
	for _, b := range eng.BlocksT(ga) {
		for _, in := range b.Instrs {
			if r, ok := in.(*ssa.Range); ok && eng.DependsOnField(r.X, fvT+".activeVersions") {
				rg = true
			}
		}
	}
	c.Check(rg, "all-active-versions", nil, ga, "GetAllActiveFiles ranges over every active version (not only the current one), so files of versions pinned by open snapshots are kept", "no range over fv.activeVersions")
	c.Check(len(p.Sites(ga, eng.LoadField(fvT+".current"))) == 0 || rg, "not-only-current", nil, ga, "the active-file set is not computed from fv.current alone", "")
	owner(c, "call of family.deleteObsoleteFiles", eng.AnyCallTo(famT+".deleteObsoleteFiles", "kv.Family.deleteObsoleteFiles"),
		[]string{famT + ".backgroundCompactionJob", famT + ".rollup", "kv.store.deleteFamilyObsoleteFiles"}, 3)
}

// versionOwnsLevels: snapshots read the file lists of the version they retain while newer versions are built by
// Clone + edit-log apply. Each slot of version.levels must therefore hold a level object created for that version
// (newLevel()); if a level object is taken over from another version, every in-place mutator call of a version method
// must go through a helper that can copy it first.
func versionOwnsLevels(c *eng.Ctx) {
	p := c.P
	const levelsKey = "kv/version.version.levels"
	isSlot := func(v ssa.Value) bool {
		ia, ok := v.(*ssa.IndexAddr)
		if !ok {
			return false
		}
		if u, ok := eng.Unwrap(ia.X).(*ssa.UnOp); ok {
			if fa, ok := u.X.(*ssa.FieldAddr); ok && eng.FieldKeyOfAddr(fa) == levelsKey {
				return true
			}
		}
		// a []*level slice built locally before it is stored into the field
		if sl, ok := ia.X.Type().Underlying().(*types.Slice); ok {
			if pt, ok := sl.Elem().(*types.Pointer); ok {
				if nt, ok := pt.Elem().(*types.Named); ok && nt.Obj().Name() == "level" && nt.Obj().Pkg() != nil && strings.HasSuffix(nt.Obj().Pkg().Path(), "kv/version") {
					return true
				}
			}
		}
		return false
	}
	var shared []eng.Site
	n := 0
	for _, fn := range p.FuncsWithPrefix("kv/version.") {
		for _, b := range fn.Blocks {
			for _, in := range b.Instrs {
				st, ok := in.(*ssa.Store)
				if !ok || !isSlot(st.Addr) {
					continue
				}
				n++
				fresh := len(p.CallsIn(st.Val, "kv/version.newLevel")) > 0 && !eng.DependsOnField(st.Val, levelsKey)
				c.Check(true, "slot-store@"+p.FuncKey(fn), in, fn, "stores into version.levels are enumerated", fmt.Sprintf("fresh=%v value=%s", fresh, p.Desc(st.Val)))
				if !fresh {
					shared = append(shared, eng.Site{Fn: fn, Instr: in})
				}
			}
		}
	}
	c.Check(n >= 1, "slot-stores-found", nil, nil, "at least one store into version.levels exists (newVersion)", fmt.Sprintf("found %d", n))
	muts := 0
	for _, fn := range p.FuncsWithPrefix("kv/version.version.") {
		for _, s := range p.SitesDirect(fn, eng.CallTo("kv/version.level.addFile", "kv/version.level.addFiles", "kv/version.level.deleteFile")) {
			muts++
			recv := eng.CallRecv(s.Instr.(ssa.CallInstruction))
			direct := true
			if u, ok := eng.Unwrap(recv).(*ssa.UnOp); ok {
				direct = isSlot(u.X)
			} else if _, ok := eng.Unwrap(recv).(*ssa.Call); ok {
				direct = false
			}
			ok := len(shared) == 0 || !direct
			detail := ""
			if !ok {
				detail = fmt.Sprintf("the level object may be shared with another version (%s) and is edited in place", p.InstrPos(shared[0].Instr))
			}
			c.Check(ok, "mutator@"+baseName(fn.Name()), s.Instr, fn,
				"a level's file list is edited only through the version that owns the level object", detail)
		}
	}
	c.Check(muts >= 3, "mutators-found", nil, nil, "AddFile, AddFiles and DeleteFile edit a level", fmt.Sprintf("found %d", muts))

	// F40: the same for the nested containers of a version: a map stored INSIDE one of the new version's maps (reference marks:
	// store -> family -> files) is edited in place by the edit log that is applied to the clone, so Clone must create it; taking
	// over the base version's inner map lets a commit change what an older snapshot (and a concurrent reader) sees
	cl := c.Fn("kv/version.version.Clone")
	nm := 0
	for _, b := range eng.BlocksT(cl) {
		for _, in := range b.Instrs {
			mu, ok := in.(*ssa.MapUpdate)
			if !ok {
				continue
			}
			if _, inner := mu.Value.Type().Underlying().(*types.Map); !inner {
				continue
			}
			nm++
			fresh := freshMap(mu.Value, 0)
			c.Check(fresh, fmt.Sprintf("clone-owns-inner-map[%d]", nm), in, cl,
				"a map nested in the version's state is created by Clone, not taken over from the base version", "stores "+p.Desc(mu.Value))
		}
	}
	c.Check(nm >= 1, "inner-maps-found", nil, cl, "Clone copies the nested reference map", fmt.Sprintf("found %d", nm))
}

// createFamilyOnce (F36): the claim a family holds on the table it is writing (pendingOutputs), its compacting / rolluping flags and
// the WaitGroup close() waits on live in the *family object. If two callers can both miss in store.families and both build an
// object, the cleanup run through one object deletes the table the other is writing. So the look-up whose miss leads to
// newFamilyFunc and the registration s.families[name] = family lie in ONE write hold of the store's mutex.
func createFamilyOnce(c *eng.Ctx) {
	p := c.P
	const mu = "kv.store.rwMutex"
	f := c.Fn("kv.store.CreateFamily")
	ls := p.Locks(f, nil)
	mk := c.One(f, eng.AnyCallTo("var:kv.newFamilyFunc", "kv.newFamily"), "newFamilyFunc(store, option)")
	reg := c.Some(f, eng.MapUpdateOf("kv.store.families"), "s.families[name] = family")
	var lookups []eng.Site
	for _, b := range eng.BlocksT(f) {
		for _, in := range b.Instrs {
			if l, ok := in.(*ssa.Lookup); ok && eng.DependsOnField(l.X, "kv.store.families") {
				// the look-up itself (the creation may be written in the same helper / literal) ...
				lookups = append(lookups, eng.Site{Fn: f, Instr: in})
				// ... and, for a look-up inside a helper, every site of CreateFamily that enters the helper
				if in.Parent() != f {
					for _, top := range topsOf(f, in) {
						lookups = append(lookups, eng.Site{Fn: f, Instr: top})
					}
				}
			}
		}
	}
	c.Check(len(lookups) >= 1, "look-up-found", nil, f, "CreateFamily looks the family up before creating it", "")
	for i, r := range reg {
		ok, why := ls.SameHold(mk.Instr, r.Instr, mu, true)
		c.Check(ok, fmt.Sprintf("create-and-register-in-one-hold[%d]", i), r.Instr, f, "the family object is built and registered in one write hold", why)
		found := false
		detail := "no look-up of s.families lies in the write hold of the registration: between the (read-locked) look-up and the write lock another caller can create the same family"
		for _, l := range lookups {
			if good, _ := ls.SameHold(l.Instr, r.Instr, mu, true); good && eng.DominatedBy(f, mk.Instr, []eng.Site{l}, nil) {
				found = true
			}
		}
		c.Check(found, fmt.Sprintf("look-up-in-the-registering-hold[%d]", i), r.Instr, f,
			"the look-up that decides to create is repeated inside the write hold that registers the new family object", detail)
	}
}

// editLogOwnID (shared by C02 and C01): a running store routes a commit by family NAME and never reads the id inside the edit log; the
// manifest replay routes every record by that id. Every edit log / compaction a family (or its flusher) builds must therefore carry
// the id of that very family: ID() called on the method's own receiver (or on the flusher's own family), never on another family
// that happens to be at hand (the rollup source).
func editLogOwnID(c *eng.Ctx) {
	p := c.P
	n := 0
	perFn := map[string]int{}
	for _, fn := range p.FuncsWithPrefix("kv.") {
		for _, s := range p.SitesDirect(fn, eng.CallTo("kv/version.NewEditLog", "kv/version.NewCompaction")) {
			top := fn
			for top.Parent() != nil {
				top = top.Parent()
			}
			if top.Signature.Recv() == nil && !strings.HasSuffix(p.FuncKey(top), "newStoreFlusher") {
				continue
			}
			n++
			id := eng.Unwrap(eng.CallArgs(s.Instr.(ssa.CallInstruction))[0])
			ok := false
			detail := "family id argument is " + p.Desc(id)
			if cl, isCall := id.(*ssa.Call); isCall {
				name := ""
				if cl.Common().IsInvoke() {
					name = cl.Common().Method.Name()
				} else if g := cl.Common().StaticCallee(); g != nil {
					name = baseName(g.Name())
				}
				recv := eng.CallRecv(cl)
				if name == "ID" && recv != nil {
					own := ssa.Value(top.Params[0])
					// ID() of the receiver itself, of a field of the receiver (sf.family), or - in the flusher's constructor - of the family it is built for
					ok = eng.DependsOn(recv, func(x ssa.Value) bool { return x == own })
					if ok && top.Signature.Recv() != nil {
						for _, pr := range top.Params[1:] {
							pr := pr
							if eng.DependsOn(recv, func(x ssa.Value) bool { return x == ssa.Value(pr) }) {
								ok = false
								detail = "ID() is called on parameter " + pr.Name() + ", another family than the one that commits the log"
							}
						}
					}
				}
			}
			perFn[p.FuncKey(top)]++
			c.Check(ok, fmt.Sprintf("own-id@%s[%d]", p.FuncKey(top), perFn[p.FuncKey(top)]), s.Instr, fn,
				"the edit log is created with the id of the family that commits it", detail)
		}
	}
	c.Check(n >= 3, "edit-log-sites-found", nil, nil, "families and flushers create edit logs", fmt.Sprintf("%d sites", n))
}

// pendingOutputClaimOrder: a new table stays a pending output until the commit that references it is in the version
// (shared by C02, C01 and C07: a flush whose table is deleted by a concurrent obsolete-file scan acknowledges its sequence
// for data that no longer exists).
func pendingOutputClaimOrder(c *eng.Ctx) {
	c.Rule("ORDER", "kv{pending-output claim is dropped only after the commit that references the file}", func() {
		f := c.Fn(sfT + ".Commit")
		neverBeforeDeep(c, f, eng.AnyCallTo("kv.Family.removePendingOutput", famT+".removePendingOutput"), invokeOn(".family", "commitEditLog"), "removePendingOutput", "commitEditLog", 3)
		m := c.Fn(cjT + ".mergeCompaction")
		neverBeforeDeep(c, m, eng.AnyCallTo("kv.Family.removePendingOutput", famT+".removePendingOutput"), eng.AnyCallTo("kv.Family.commitEditLog", famT+".commitEditLog"), "removePendingOutput", "commitEditLog", 3)
	})
}

// freshMap: v is a map made here: make(map..) / a map literal, or the result of a function (of this module) every return
// of which hands out a map it made itself.
func freshMap(v ssa.Value, depth int) bool {
	v = eng.Unwrap(v)
	if depth > 3 || v == nil {
		return false
	}
	switch x := v.(type) {
	case *ssa.MakeMap:
		return true
	case *ssa.Phi:
		for _, e := range x.Edges {
			if !freshMap(e, depth+1) {
				return false
			}
		}
		return true
	case *ssa.Call:
		g := x.Common().StaticCallee()
		if g == nil || len(g.Blocks) == 0 || !eng.InModule(g) || g.Signature.Results().Len() != 1 {
			return false
		}
		n := 0
		for _, b := range g.Blocks {
			if r, ok := b.Instrs[len(b.Instrs)-1].(*ssa.Return); ok {
				n++
				if !freshMap(r.Results[0], depth+1) {
					return false
				}
			}
		}
		return n > 0
	}
	return false
}
