package props

import (
	"regexp"
	"fmt"
	"go/ast"
	"go/types"
	"sort"
	"strings"

	"golang.org/x/tools/go/packages"
	"golang.org/x/tools/go/ssa"

	"lincheck/internal/eng"
)

const (
	mfT  = "tsdb/tblstore/metricsdata.flusher"
	mgT  = "tsdb/tblstore/metricsdata.merger"
	cmpT = "kv/version.Compaction"
)

func init() {
	register(eng.Property{
		ID:    "C03",
		Title: "Compaction of metric data never changes what a reader can observe",
		Explanation: "Decides structural conditions of a value-preserving compaction: input deletions (both levels, each with its own level number) and output additions go into one edit log that is committed once; " +
			"the input iterator covers both input levels; in the merge loop every value read from the iterator reaches the batch handed to the merger, the last batch is merged after the loop, merge errors " +
			"stop the job and an open output is finished before success; the merger unions the series ids and the slot range of ALL blocks (the two range bounds are widened independently), flushes every " +
			"series it merged and commits the metric with that range; in the block writer a relative offset is only taken against an anchor that was re-captured after the last foreign write (bucket trailer), " +
			"so the first series of a later bucket is addressed correctly; block footer writer/reader agree per role, offset and width; field-type tables are exhaustive and mutually consistent; " +
			"the binary aggregate is a+b / min / max / first=a / last=b.",
		NotDecided: "aggregate values over real data, slot arithmetic inside the series merger, decoding of stored blocks.",
		MinObls:    50,
		Run:        runC03,
	})
}

// switchTable extracts, from a method whose body is a single switch on its receiver, the mapping
// case-constant-name -> returned expression text.
func switchTable(pk *packages.Package, fd *ast.FuncDecl) (map[string]string, bool) {
	out := map[string]string{}
	var sw *ast.SwitchStmt
	ast.Inspect(fd.Body, func(n ast.Node) bool {
		if s, ok := n.(*ast.SwitchStmt); ok && sw == nil {
			sw = s
		}
		return true
	})
	if sw == nil {
		return nil, false
	}
	for _, st := range sw.Body.List {
		cc := st.(*ast.CaseClause)
		ret := ""
		for _, s := range cc.Body {
			if r, ok := s.(*ast.ReturnStmt); ok && len(r.Results) == 1 {
				ret = types.ExprString(r.Results[0])
			}
		}
		if cc.List == nil {
			out["default"] = ret
		}
		for _, e := range cc.List {
			if id, ok := e.(*ast.Ident); ok {
				out[id.Name] = ret
			} else if se, ok := e.(*ast.SelectorExpr); ok {
				out[se.Sel.Name] = ret
			}
		}
	}
	return out, true
}

func constsOfType(pk *packages.Package, typeName string) []string {
	var out []string
	sc := pk.Types.Scope()
	for _, n := range sc.Names() {
		if cn, ok := sc.Lookup(n).(*types.Const); ok {
			if nt, ok := cn.Type().(*types.Named); ok && nt.Obj().Name() == typeName && nt.Obj().Pkg() == pk.Types {
				out = append(out, n)
			}
		}
	}
	sort.Strings(out)
	return out
}

// fieldTypeTables is shared by C03 and C11.
func fieldTypeTables(c *eng.Ctx) {
	p := c.P
	pk := p.Package("series/field")
	if pk == nil {
		c.Undecided("series/field not loaded")
	}
	types_ := constsOfType(pk, "Type")
	if len(types_) < 7 {
		c.Undecided("field.Type constants not found: %v", types_)
	}
	agg, ok1 := switchTable(pk, funcDecl(pk, "AggType", "Type"))
	ds, ok2 := switchTable(pk, funcDecl(pk, "DownSamplingFunc", "Type"))
	if !ok1 || !ok2 {
		c.Undecided("AggType / DownSamplingFunc switch not found")
	}
	class := func(s string) string {
		s = strings.TrimPrefix(s, "function.")
		return s
	}
	for _, t := range types_ {
		if t == "Unknown" {
			continue
		}
		a, okA := agg[t]
		d, okD := ds[t]
		c.Check(okA && a != "", "AggType:"+t, nil, nil, "field type "+t+" has an aggregate class (compaction and rollup can combine it)", "no case in Type.AggType")
		c.Check(okD && d != "", "DownSamplingFunc:"+t, nil, nil, "field type "+t+" has a down-sampling function", "no case in Type.DownSamplingFunc")
		if okA && okD {
			c.Check(class(a) == class(d), "agree:"+t, nil, nil, "the aggregate class and the down-sampling function of "+t+" are the same operator", a+" vs "+d)
		}
	}
	// the binary combine step
	agDecl := funcDecl(pk, "Aggregate", "AggType")
	ag, ok := switchTable(pk, agDecl)
	if !ok {
		c.Undecided("AggType.Aggregate switch not found")
	}
	// the two operands by position, whatever the parameters are called: first -> a, second -> b
	if agDecl != nil && agDecl.Type.Params != nil {
		var names []string
		for _, f := range agDecl.Type.Params.List {
			for _, id := range f.Names {
				names = append(names, id.Name)
			}
		}
		if len(names) == 2 && names[0] != names[1] {
			for k, v := range ag {
				v = regexp.MustCompile(`\b`+regexp.QuoteMeta(names[0])+`\b`).ReplaceAllString(v, "\x00")
				v = regexp.MustCompile(`\b`+regexp.QuoteMeta(names[1])+`\b`).ReplaceAllString(v, "b")
				ag[k] = strings.ReplaceAll(v, "\x00", "a")
			}
		}
	}
	forms := map[string][]string{
		"Sum": {"a + b", "b + a"}, "Count": {"a + b", "b + a"}, "Last": {"b"}, "First": {"a"},
		"Min": {"math.Min(a, b)", "math.Min(b, a)"}, "Max": {"math.Max(a, b)", "math.Max(b, a)"},
	}
	for _, at := range constsOfType(pk, "AggType") {
		want, known := forms[at]
		got, has := ag[at]
		okF := false
		for _, w := range want {
			if got == w {
				okF = true
			}
		}
		c.Check(known && has && okF, "Aggregate:"+at, nil, nil, "combining two values of class "+at+" is one of the accepted forms "+strings.Join(want, " | "), "case returns `"+got+"`")
	}
}

// anchorRule: in fn, no path leads from a call that (deep) writes foreign bytes to the stream writer
// to a use of the anchor without passing a re-capture  anchor = kvWriter.Size().
func anchorRule(c *eng.Ctx, fn *ssa.Function, anchorSuffix string, foreign eng.Matcher, foreignName string) {
	p := c.P
	isAnchorAddr := func(v ssa.Value) bool { return strings.HasSuffix(p.Desc(v), anchorSuffix) }
	capture := func(p *eng.Prog, in ssa.Instruction) bool {
		st, ok := in.(*ssa.Store)
		return ok && isAnchorAddr(st.Addr) && strings.Contains(p.Desc(st.Val), "kvWriter.Size()")
	}
	use := func(p *eng.Prog, in ssa.Instruction) bool {
		u, ok := in.(*ssa.UnOp)
		return ok && u.Op.String() == "*" && isAnchorAddr(u.X)
	}
	fsites := p.Sites(fn, foreign)
	if len(fsites) == 0 {
		c.Undecided("no %s in %s", foreignName, p.FuncKey(fn))
	}
	caps := p.Sites(fn, capture)
	// uses: direct reads in fn, or calls into helpers that read the anchor
	var uses []eng.Site
	uses = append(uses, p.Sites(fn, use)...)
	for _, b := range eng.BlocksT(fn) {
		for _, in := range b.Instrs {
			if cl, ok := in.(*ssa.Call); ok {
				for _, cal := range p.ModuleCallees(cl) {
					if cal != fn && p.Contains(cal, use, 2) && !foreign(p, in) {
						uses = append(uses, eng.Site{Fn: fn, Instr: in})
					}
				}
			}
		}
	}
	if len(uses) == 0 {
		c.Undecided("no use of %s reachable from %s", anchorSuffix, p.FuncKey(fn))
	}
	for i, f := range fsites {
		w, stale := eng.Reaches(fn, f.Instr, uses, caps)
		d := ""
		if stale {
			d = "the anchor is used at " + p.InstrPos(w) + " after " + foreignName + " wrote bytes, without being re-captured"
		}
		c.Check(!stale, fmt.Sprintf("anchor%s-fresh-after-%s[%d]", anchorSuffix, foreignName, i), f.Instr, fn,
			"after "+foreignName+" wrote trailer bytes, the anchor "+anchorSuffix+" is re-captured (= kvWriter.Size()) before any relative offset is computed against it", d)
	}
}

func runC03(c *eng.Ctx) {
	p := c.P
	compactionStreamFollowsTheOutputFile(c)
	scannerAdvanceIsAllOrNothing(c)
	downSamplingEmitsEverySlot(c)
	editRecordTouchesOnlyItsLevel(c)
	downSamplingStartsFromUnset(c)
	everyCompactionInputIsRead(c)
	compactionOutputClaimedUntilInstalled(c)

	// ---- 1/2/3. one atomic install; both input levels ---------------------------------------------------------------------
	c.Rule("ORDER", cjT+".installCompactionResults{one commit}", func() { installOneCommit(c) })

	// ---- 3b. the inputs reach the merge in ascending key order (rule shared with C15) ------------------------------------------------
	c.Rule("PASS", "kv/table.mergedIterator.HasNext{heap re-established}", func() { mergedIteratorHeap(c) })

	// ---- 3c. after a compaction a reader still finds every file whose range holds the key (rule shared with C15 / C02) -------------
	c.Rule("GUARD", "kv/version.version.FindFiles{inclusive}", func() { findFilesInclusive(c) })

	// ---- 4. the merge loop -------------------------------------------------------------------------------------------------------
	c.Rule("PASS", cjT+".doMerge{no value dropped}", func() {
		f := c.Fn(cjT + ".doMerge")
		val := c.One(f, invokeOn("", "Value"), "it.Value()")
		if g := val.Instr.Parent(); g != f && g.Parent() == nil {
			// the grouping loop, the trailing merge and the close of the output moved into a helper that doMerge ends with
			// (return c.mergeInputs(merger, it)): the rule is about that body - its returns are doMerge's returns
			f = g
		}
		nxt := c.One(f, invokeOn("", "HasNext"), "it.HasNext()")
		apps := p.Sites(f, func(p *eng.Prog, in ssa.Instruction) bool {
			cl, ok := in.(*ssa.Call)
			if !ok {
				return false
			}
			b, ok := cl.Common().Value.(*ssa.Builtin)
			if !ok || b.Name() != "append" {
				return false
			}
			return eng.DependsOn(cl.Common().Args[1], func(x ssa.Value) bool { return x == val.Instr.(ssa.Value) })
		})
		if len(apps) == 0 {
			c.Undecided("no append(needMerge, value) found")
		}
		// prune the infeasible fall-through of `case key == previousKey … case key != previousKey`:
		// an edge establishing key == previousKey whose source is only reachable after an edge established key != previousKey
		isPair := func(ft eng.Fact, op string) bool {
			if ft.Op != op || ft.Y == nil {
				return false
			}
			dx, dy := p.Desc(ft.X), p.Desc(ft.Y)
			return strings.Contains(dx+dy, "Key()") && strings.Contains(dx+dy, "previousKey")
		}
		ne := eng.EdgesWithFact(f, func(ft eng.Fact) bool { return isPair(ft, "ne") })
		eq := eng.EdgesWithFact(f, func(ft eng.Fact) bool { return isPair(ft, "eq") })
		var infeasible []eng.Edge
		for _, e := range eq {
			first := e.B.Instrs[0]
			if _, reach := eng.PathExists(eng.PathQuery{Fn: f, After: val.Instr, Target: func(in ssa.Instruction) bool { return in == first }, Edge: eng.ForbidEdges(ne)}); !reach {
				infeasible = append(infeasible, e)
			}
		}
		_, drop := eng.PathExists(eng.PathQuery{Fn: f, After: val.Instr, Target: func(in ssa.Instruction) bool { return in == nxt.Instr },
			Blocked: func(in ssa.Instruction) bool { return instrIn(in, apps) }, Edge: eng.ForbidEdges(infeasible)})
		// error returns are fine: only the path back to the loop head matters
		c.Check(!drop, "every-value-batched", val.Instr, f, "every value read from the input iterator is appended to the batch before the next entry is read", "a path returns to the loop head without appending the value")
		merges := c.Some(f, invokeOn("", "Merge"), "merger.Merge")
		c.Check(len(merges) >= 2, "merge-inside-and-after-loop", nil, f, "the merger is invoked when the key changes and once more after the loop for the last batch", fmt.Sprint(len(merges)))
		// inside the loop a batch is merged only when the KEY CHANGED: the merger writes one entry per call and the table
		// builder silently ignores a key that does not grow, so a second Merge for the same key loses its whole batch
		for i, m := range merges {
			if _, back := eng.Reaches(f, m.Instr, []eng.Site{nxt}, nil); !back {
				continue // the trailing merge
			}
			_, same := eng.PathExists(eng.PathQuery{Fn: f, After: val.Instr, Target: func(in ssa.Instruction) bool { return in == m.Instr },
				Blocked: func(in ssa.Instruction) bool { return in == nxt.Instr }, Edge: eng.ForbidEdges(ne)})
			c.Check(len(ne) > 0 && !same, fmt.Sprintf("one-merge-per-key[%d]", i), m.Instr, f,
				"inside the loop the batch is handed to the merger only on an edge that established key != previous key: every key is merged - and written - exactly once per compaction",
				"merger.Merge is reachable within one iteration without the key having changed")
		}
		// the trailing merge: reachable from the loop exit, under len(needMerge) > 0
		var tail eng.Site
		for _, m := range merges {
			if _, back := eng.Reaches(f, m.Instr, []eng.Site{nxt}, nil); !back {
				tail = m
			}
		}
		if tail.Instr == nil {
			c.Check(false, "trailing-merge", nil, f, "the last batch is merged after the loop", "no merge call outside the loop")
		} else {
			conds, _ := eng.GuardingConds(f, tail.Instr)
			okLen := false
			for _, cd := range conds {
				if strings.Contains(p.Desc(cd), "len(") && strings.Contains(p.Desc(cd), ">0") || strings.Contains(p.Desc(cd), "0<") {
					okLen = true
				}
			}
			c.Check(okLen, "trailing-merge-if-nonempty", tail.Instr, f, "the trailing merge runs whenever the last batch is non-empty", "")
		}
		for i, m := range merges {
			nilE, _ := eng.ErrCheckEdges(f, m.Instr.(ssa.Value))
			succ := eng.SuccessReturns(f)
			_, via := eng.PathExists(eng.PathQuery{Fn: f, After: m.Instr, Target: func(in ssa.Instruction) bool {
				for _, r := range succ {
					if r == in {
						return true
					}
				}
				return in == nxt.Instr
			}, Edge: eng.ForbidEdges(nilE)})
			c.Check(len(nilE) > 0 && !via, fmt.Sprintf("merge-error-stops[%d]", i), m.Instr, f, "a merge error aborts the job (nothing is installed)", "")
			a := eng.CallArgs(m.Instr.(*ssa.Call))
			c.Check(strings.Contains(p.Desc(a[0]), "previousKey") || strings.HasPrefix(p.Desc(a[0]), "phi"), fmt.Sprintf("merge-under-batch-key[%d]", i), m.Instr, f, "the batch is merged under the key it was collected for", "key "+p.Desc(a[0]))
		}
		fin := c.Some(f, eng.CallTo(cjT+".finishCompactionOutputFile"), "finishCompactionOutputFile")
		for i, r := range eng.SuccessReturns(f) {
			_, open := eng.PathExists(eng.PathQuery{Fn: f, Target: func(in ssa.Instruction) bool { return in == r }, Blocked: func(in ssa.Instruction) bool { return instrIn(in, fin) },
				Edge: func(b *ssa.BasicBlock, s int) bool { return !isNilFieldEdge(p, b, s, ".state.builder") }})
			c.Check(!open, fmt.Sprintf("open-output-finished[%d]", i), r, f, "an open output builder is finished (closed and registered) before the merge reports success", "")
		}
	})

	// ---- merger: union of series and ranges, every series flushed -------------------------------------------------------------------
	c.Rule("UNION", mgT+"{prepare, Merge}", func() {
		pr := c.Fn(mgT + ".prepare")
		or := c.One(pr, invokeOn(".seriesIDs", "Or"), "ctx.seriesIDs.Or(reader.GetSeriesIDs())")
		conds, _ := eng.GuardingConds(pr, or.Instr)
		okAll := false
		other := 0
		for _, cd := range conds {
			d := p.Desc(cd)
			switch {
			case strings.Contains(d, "len(metricBlocks)"):
				okAll = true
			case strings.Contains(d, "NewReader(") && strings.Contains(d, "nil"): // a block that can not be opened aborts the merge
			default:
				other++
			}
		}
		c.Check(okAll && other == 0, "series-of-every-block", or.Instr, pr, "the series ids of every input block are unioned (unconditionally per block)", fmt.Sprintf("%d other guards", other))
		// independent widening of the two bounds
		for _, b := range []struct{ fld, other string }{{"Start", "End"}, {"End", "Start"}} {
			sts := p.Sites(pr, func(p *eng.Prog, in ssa.Instruction) bool {
				st, ok := in.(*ssa.Store)
				return ok && strings.HasSuffix(p.Desc(st.Addr), ".sourceRange."+b.fld)
			})
			if len(sts) < 2 {
				c.Check(false, "range-bound:"+b.fld, nil, pr, "sourceRange."+b.fld+" is initialised from the first block and widened by later ones", fmt.Sprintf("%d stores", len(sts)))
				continue
			}
			for i, s := range sts {
				cds, _ := eng.GuardingConds(pr, s.Instr)
				bad := ""
				for _, cd := range cds {
					d := p.Desc(cd)
					if strings.Contains(d, ".sourceRange."+b.other) || strings.Contains(d, "timeRange."+b.other) || strings.Contains(d, "#"+map[string]string{"Start": "1", "End": "0"}[b.fld]+")") && false {
						bad = d
					}
				}
				c.Check(bad == "", fmt.Sprintf("bounds-independent:%s[%d]", b.fld, i), s.Instr, pr,
					"widening the "+b.fld+" of the union range does not depend on the outcome of the "+b.other+" comparison (a block enclosing the accumulated range widens both)", "guarded by "+bad)
			}
		}
		// non-rollup target range = union source range
		for _, b := range []string{"Start", "End"} {
			okT := false
			for _, s := range p.Sites(pr, func(p *eng.Prog, in ssa.Instruction) bool {
				st, ok := in.(*ssa.Store)
				return ok && strings.HasSuffix(p.Desc(st.Addr), ".targetRange."+b)
			}) {
				if strings.HasSuffix(p.Desc(s.Instr.(*ssa.Store).Val), ".sourceRange."+b) {
					okT = true
				}
			}
			// or the whole range struct is copied
			for _, s := range p.Sites(pr, func(p *eng.Prog, in ssa.Instruction) bool {
				st, ok := in.(*ssa.Store)
				return ok && strings.HasSuffix(p.Desc(st.Addr), ".targetRange") && strings.HasSuffix(p.Desc(st.Val), ".sourceRange")
			}) {
				_ = s
				okT = true
			}
			c.Check(okT, "target-range-is-union:"+b, nil, pr, "for a plain compaction the output range "+b+" is the union's "+b, "")
		}
		mg := c.Fn(mgT + ".Merge")
		fl := c.One(mg, invokeOn(".dataFlusher", "FlushSeries"), "dataFlusher.FlushSeries")
		sm := c.One(mg, invokeOn(".seriesMerger", "merge"), "seriesMerger.merge")
		okd, why := eng.OkDominates(mg, sm.Instr, fl.Instr)
		c.Check(okd, "flush-each-merged-series", fl.Instr, mg, "every merged series is flushed (after its merge succeeded)", why)
		_, skip := eng.PathExists(eng.PathQuery{Fn: mg, After: sm.Instr, Target: func(in ssa.Instruction) bool {
			cl, ok := in.(*ssa.Call)
			return ok && cl.Common().IsInvoke() && cl.Common().Method.Name() == "HasNext"
		}, Blocked: func(in ssa.Instruction) bool { return in == fl.Instr }})
		c.Check(!skip, "no-series-skipped", fl.Instr, mg, "the loop does not advance to the next series without flushing the current one", "")
		cmm := c.One(mg, invokeOn(".dataFlusher", "CommitMetric"), "dataFlusher.CommitMetric(targetRange)")
		c.Check(strings.HasSuffix(p.Desc(eng.CallArgs(cmm.Instr.(*ssa.Call))[0]), ".targetRange"), "commit-with-union-range", cmm.Instr, mg, "the metric block is committed with the computed target range", "")
		hk := c.One(mg, invokeOn(".seriesIDs", "GetHighKeys"), "seriesIDs.GetHighKeys()")
		c.Check(eng.DominatedBy(mg, fl.Instr, []eng.Site{hk}, nil), "iterates-union", fl.Instr, mg, "the series iterated are those of the union bitmap", "")
	})

	// ---- the per-block scanner of the merge only moves forward when it lags behind the requested container --------------------------
	c.Rule("GUARD", "tsdb/tblstore/metricsdata.dataScanner.scan{advance only when behind}", func() {
		f := c.Fn("tsdb/tblstore/metricsdata.dataScanner.scan")
		facts := p.MustFacts(f)
		adv := c.Some(f, eng.StoreField("tsdb/tblstore/metricsdata.dataScanner.highContainerIdx"), "s.highContainerIdx++ (scanner moves to its next container)")
		for i, a := range adv {
			fs := facts.At(a.Instr)
			lt := facts.Find(fs, "lt", eng.DescSuffix(".highKey"), eng.DescIs("highKey"))
			c.Check(len(lt) > 0, fmt.Sprintf("behind[%d]", i), a.Instr, f,
				"the scanner leaves its current container only when that container's high key is SMALLER than the requested one; a block that is ahead of the request answers 'not here' and keeps its position (its later containers are still to be merged)",
				"facts: "+strings.Join(facts.Render(fs), " ; "))
		}
		// and it answers from the current container only on an exact match
		cont := c.Some(f, invokeOn(".container", "Contains"), "s.container.Contains(lowSeriesID)")
		for i, x := range cont {
			fs := facts.At(x.Instr)
			eq := facts.Find(fs, "eq", eng.DescSuffix(".highKey"), eng.DescIs("highKey"))
			c.Check(len(eq) > 0, fmt.Sprintf("exact-container[%d]", i), x.Instr, f, "series data is looked up only in the container of the requested high key", "facts: "+strings.Join(facts.Render(fs), " ; "))
		}
	})

	// ---- one compaction job per family at a time ----------------------------------------------------------------------------------------
	c.Rule("ATOMIC", "kv.family.compact{single flight}", func() { singleFlight(c, "kv.family.compacting", "kv.family.compact") })

	// ---- a source block answers only for a field id it really holds --------------------------------------------------------------------
	c.Rule("GUARD", "tsdb/tblstore/metricsdata.fieldReader.GetFieldData{only the requested field}", func() { fieldDataOnlyForHeldField(c) })

	// ---- every level-1 input of a compaction is listed once -----------------------------------------------------------------------------
	c.Rule("UNION", "kv/version.version.PickL0Compaction{distinct level-1 inputs}", func() { distinctUpInputs(c) })

	// ---- every input block is decoded over its own slot range and re-encoded ---------------------------------------------------------
	c.Rule("PROV", "tsdb/tblstore/metricsdata.seriesMerger.merge{decode with the block's own range}", func() { seriesMergerOwnRange(c) })

	c.Rule("PASS", "aggregation{forward-only TSD cursor: every slot asked, every value consumed}", func() { sequentialCursorRules(c) })

	c.Rule("PROV", mgT+".prepare{target field list is the merger's own slice}", func() {
		f := c.Fn(mgT + ".prepare")
		sts := c.Some(f, eng.StoreField("tsdb/tblstore/metricsdata.mergerContext.targetFields"), "ctx.targetFields = …")
		srt := p.Sites(f, eng.CallTo("sort.Slice", "sort.Sort", "sort.SliceStable", "slices.SortFunc"))
		c.Check(len(srt) > 0, "sorted-in-place", nil, f, "the target field list is sorted in place (by field id)", "")
		for i, st := range sts {
			v := eng.Unwrap(st.Instr.(*ssa.Store).Val)
			own := false
			if cl, ok := v.(*ssa.Call); ok {
				if b, ok := cl.Common().Value.(*ssa.Builtin); ok && b.Name() == "append" {
					own = true
				}
			}
			if _, ok := v.(*ssa.MakeSlice); ok {
				own = true
			}
			if sl, ok := v.(*ssa.Slice); ok {
				if _, lit := sl.X.(*ssa.Alloc); lit {
					own = true // a slice literal
				}
			}
			if k, ok := v.(*ssa.Const); ok && k.IsNil() {
				own = true
			}
			c.Check(own, fmt.Sprintf("owned[%d]", i), st.Instr, f,
				"the list that is later sorted in place is built by the merger itself (append / make), never a slice handed out by a block reader: sorting a reader's own field metas re-orders the table its scanner uses to locate field data",
				"assigns "+p.Desc(v))
		}
	})

	// ---- per-metric writer state is cleared between metric blocks -----------------------------------------------------------------
	c.Rule("RESET", mfT+".reset{per-metric state of the block writer}", func() { flusherMetricReset(c) })

	c.Rule("PROV", mgT+".Merge{field readers belong to one metric}", func() { mergeReadersPerMetric(c) })
	c.Rule("PASS", "tsdb/tblstore/metricsdata.seriesMerger.merge{one FlushField per target field}", func() { flushFieldPerTargetField(c) })

	// ---- block writer anchors -----------------------------------------------------------------------------------------------------------
	c.Rule("ANCHOR", mfT+".FlushSeries{startAt}", func() { flusherAnchors(c) })

	// ---- block footer ------------------------------------------------------------------------------------------------------------------------
	c.Rule("LAYOUT", "tsdb/tblstore/metricsdata{block footer}", func() { blockFooter(c) })

	// ---- pooled down-sampling buffer --------------------------------------------------------------------------------------------------------
	c.Rule("RESET", "aggregation.DownSamplingMultiSeriesInto{pooled target buffer}", func() {
		f := c.Fn("aggregation.DownSamplingMultiSeriesInto")
		fill := c.One(f, eng.CallTo("aggregation.fillInfBlock"), "fillInfBlock(targetValues)")
		n := 0
		for _, b := range eng.BlocksT(f) {
			for _, in := range b.Instrs {
				ia, ok := in.(*ssa.IndexAddr)
				if !ok || !strings.Contains(ia.X.Type().String(), "float64") {
					continue
				}
				n++
				c.Check(eng.DominatedBy(f, in, []eng.Site{fill}, nil), fmt.Sprintf("filled-before-use[%d]", n), in, f,
					"the (possibly pooled) target buffer is filled with the empty sentinel before any slot is read or written (a stale value would be aggregated into the result)", "")
			}
		}
		if n < 2 {
			c.Undecided("no slot accesses found in DownSamplingMultiSeriesInto")
		}
		g := c.Fn("aggregation.getFloat64Slice")
		for i, r := range eng.SuccessReturns(g) {
			v := eng.Unwrap(eng.RetVal(r, 0))
			okLen := false
			switch x := v.(type) {
			case *ssa.MakeSlice:
				okLen = p.Desc(x.Len) == "size"
			case *ssa.Slice:
				okLen = x.High != nil && p.Desc(x.High) == "size" && x.Low == nil
			}
			c.Check(okLen, fmt.Sprintf("sized[%d]", i), r, g, "a pooled slice is handed out with exactly the requested length", "returns "+p.Desc(v))
		}
		owner(c, "call of aggregation.getFloat64Slice", eng.AnyCallTo("aggregation.getFloat64Slice"), []string{"aggregation.DownSamplingMultiSeriesInto"}, 1)
	})

	// ---- field-type tables ---------------------------------------------------------------------------------------------------------------------
	c.Rule("EXHAUSTIVE", "series/field{type tables}", func() { fieldTypeTables(c) })
}

// positionRole: a footer value that is a stream position kvWriter.Size(): name it after the first
// thing written to the stream after that capture.
func positionRole(p *eng.Prog, fn *ssa.Function, v ssa.Value) string {
	var cap ssa.Instruction
	eng.WalkExpr(v, func(x ssa.Value) bool {
		if cl, ok := x.(*ssa.Call); ok && cl.Common().IsInvoke() && cl.Common().Method.Name() == "Size" {
			cap = cl
		}
		return true
	})
	if cap == nil {
		return "?"
	}
	// next stream write after the capture in the same block chain (looking into a helper that is called there)
	var roleOf func(in ssa.Instruction, depth int) string
	roleOf = func(in ssa.Instruction, depth int) string {
		cl, ok := in.(*ssa.Call)
		if !ok {
			return ""
		}
		d := ""
		if cl.Common().IsInvoke() {
			d = cl.Common().Method.Name()
		} else if f := cl.Common().StaticCallee(); f != nil {
			d = f.Name()
		}
		switch {
		case d == "WriteTo" && strings.Contains(p.Desc(eng.CallRecv(cl)), "seriesIDs"):
			return "seriesIDs"
		case d == "Write" && strings.Contains(p.Desc(eng.CallRecv(cl)), "highKeyOffsets"):
			return "highKeyOffsets"
		case d == "Write" && strings.Contains(p.Desc(eng.CallRecv(cl)), "kvWriter"):
			return "fieldMetas"
		}
		if g := eng.TransparentCallee(in); g != nil && depth < 2 {
			for _, gb := range g.Blocks {
				for _, gi := range gb.Instrs {
					if r := roleOf(gi, depth+1); r != "" {
						return r
					}
				}
			}
		}
		return ""
	}
	b := cap.Block()
	idx := eng.InstrIndex(cap)
	for _, in := range b.Instrs[idx+1:] {
		if r := roleOf(in, 0); r != "" {
			return r
		}
	}
	return "?"
}

// readerRole names a footer read after what the reader does with the value.
func readerRole(p *eng.Prog, fn *ssa.Function, call *ssa.Call) string {
	role := "?"
	var visit func(v ssa.Value, d int)
	visit = func(v ssa.Value, d int) {
		if d > 4 || v.Referrers() == nil || role != "?" {
			return
		}
		for _, ref := range *v.Referrers() {
			switch x := ref.(type) {
			case *ssa.Store:
				ds := p.Desc(x.Addr)
				switch {
				case strings.HasSuffix(ds, ".timeRange.Start"):
					role = "slotStart"
				case strings.HasSuffix(ds, ".timeRange.End"):
					role = "slotEnd"
				case strings.HasSuffix(ds, ".crc32CheckSum"):
					role = "crc"
				}
			case *ssa.Slice:
				// r.metricBlock[pos:] passed on
				if x.Low == v || eng.DependsOn(x.Low, func(y ssa.Value) bool { return y == v }) {
					for _, r2 := range *x.Referrers() {
						if cl, ok := r2.(*ssa.Call); ok {
							k := strings.Join(p.CalleeKeys(cl), "")
							if strings.HasSuffix(k, "BitmapUnmarshal") {
								role = "pos:seriesIDs"
							}
							if strings.HasSuffix(k, "FixedOffsetDecoder.Unmarshal") {
								role = "pos:highKeyOffsets"
							}
						}
					}
				}
				if x.High == v && x.Low == nil {
					role = "pos:fieldMetas" // seriesBucket = metricBlock[:fieldMetaStartPos]
				}
			case ssa.Value:
				visit(x, d+1)
			}
		}
	}
	visit(call, 0)
	return role
}

// flusherAnchors (shared by C03 and C11): relative offsets in the metric block writer are taken
// against freshly captured anchors.
func flusherAnchors(c *eng.Ctx) {
	p := c.P

	f := c.Fn(mfT + ".FlushSeries")
	bucket := eng.CallTo(mfT + ".flushLevel2SeriesBucket")
	anchorRule(c, f, ".Level4.startAt", bucket, "flushLevel2SeriesBucket")
	anchorRule(c, f, ".Level3.startAt", bucket, "flushLevel2SeriesBucket")
	// at exit (deferred) the level-4 anchor is re-captured for the next series, after this series' offsets footer
	okDef := false
	for _, cl := range localFuncs(f) {
		for _, s := range p.Sites(cl, func(p *eng.Prog, in ssa.Instruction) bool {
			st, ok := in.(*ssa.Store)
			return ok && strings.HasSuffix(p.Desc(st.Addr), ".Level4.startAt") && strings.Contains(p.Desc(st.Val), "kvWriter.Size()")
		}) {
			_ = s
			okDef = true
		}
	}
	c.Check(okDef, "anchor-recaptured-at-exit", nil, f, "when a series is done the level-4 anchor is moved to the current end of the stream (deferred, so on every exit)", "")
	ff := c.Fn(mfT + ".flushField")
	wr := c.Some(ff, invokeOn(".kvWriter", "Write"), "kvWriter.Write(data)")
	for i, s := range p.Sites(ff, invokeOn(".fieldDataOffsets", "Add")) {
		a := eng.CallArgs(s.Instr.(*ssa.Call))[0]
		d := p.Desc(a)
		c.Check(strings.Contains(d, "kvWriter.Size()") && strings.Contains(d, "-") && strings.Contains(d, ".Level4.startAt"), fmt.Sprintf("field-offset-relative[%d]", i), s.Instr, ff,
			"a field's offset is the stream position before its data minus the level-4 anchor", "offset "+d)
		var sz ssa.Instruction
		eng.WalkExpr(a, func(x ssa.Value) bool {
			if cl, ok := x.(*ssa.Call); ok && cl.Common().IsInvoke() && cl.Common().Method.Name() == "Size" {
				sz = cl
			}
			return true
		})
		c.Check(sz != nil && eng.DominatedBy(ff, wr[0].Instr, []eng.Site{{Fn: ff, Instr: sz}}, nil), fmt.Sprintf("position-before-data[%d]", i), s.Instr, ff, "the position is taken before the field's data is written", "")
	}
}

// blockFooter (shared by C03 and C11): writer/reader agreement of the metric block footer.
func blockFooter(c *eng.Ctx) {
	p := c.P

	w := c.Fn(mfT + ".CommitMetric")
	type span struct {
		lo, hi int64
		role   string
	}
	var ws []span
	for _, b := range eng.BlocksT(w) {
		for _, in := range b.Instrs {
			call, ok := in.(*ssa.Call)
			if !ok {
				continue
			}
			k := strings.Join(p.CalleeKeys(call), "")
			width := int64(0)
			switch {
			case strings.HasSuffix(k, "littleEndian.PutUint16"):
				width = 2
			case strings.HasSuffix(k, "littleEndian.PutUint32"):
				width = 4
			default:
				continue
			}
			a := eng.CallArgs(call)
			sl, ok := eng.Unwrap(a[0]).(*ssa.Slice)
			if !ok || !strings.HasSuffix(p.Desc(sl.X), ".Level2.footer") {
				continue
			}
			lo := int64(0)
			if sl.Low != nil {
				lo, _ = eng.ConstInt(sl.Low)
			}
			d := p.Desc(a[1])
			role := "?"
			switch {
			case strings.HasSuffix(d, "slotRange.Start"):
				role = "slotStart"
			case strings.HasSuffix(d, "slotRange.End"):
				role = "slotEnd"
			case strings.Contains(d, "CRC32CheckSum"):
				role = "crc"
			default:
				// a position captured with kvWriter.Size(): classify by what is written right after the capture
				role = "pos:" + positionRole(p, w, a[1])
			}
			ws = append(ws, span{lo, lo + width, role})
		}
	}
	if len(ws) != 6 {
		c.Undecided("expected 6 footer fields in CommitMetric, found %d", len(ws))
	}
	r := c.Fn("tsdb/tblstore/metricsdata.metricReader.initReader")
	var rs []span
	for _, b := range eng.BlocksT(r) {
		for _, in := range b.Instrs {
			call, ok := in.(*ssa.Call)
			if !ok {
				continue
			}
			k := strings.Join(p.CalleeKeys(call), "")
			width := int64(0)
			switch {
			case strings.HasSuffix(k, "littleEndian.Uint16"):
				width = 2
			case strings.HasSuffix(k, "littleEndian.Uint32"):
				width = 4
			default:
				continue
			}
			sl, ok := eng.Unwrap(eng.CallArgs(call)[0]).(*ssa.Slice)
			if !ok || sl.Low == nil {
				continue
			}
			base, off := eng.SplitConstAdd(sl.Low)
			if base == nil || !strings.Contains(p.Desc(base), "len(") {
				continue
			}
			role := readerRole(p, r, call)
			rs = append(rs, span{off, off + width, role})
		}
	}
	byRole := func(l []span) map[string]span {
		m := map[string]span{}
		for _, s := range l {
			m[s.role] = s
		}
		return m
	}
	wm, rm := byRole(ws), byRole(rs)
	var ext int64
	for _, role := range []string{"slotStart", "slotEnd", "pos:fieldMetas", "pos:seriesIDs", "pos:highKeyOffsets", "crc"} {
		a, ok1 := wm[role]
		b, ok2 := rm[role]
		c.Check(ok1 && ok2 && a.lo == b.lo && a.hi == b.hi, "footer:"+role, nil, w, "the reader takes "+role+" from the footer bytes the writer stored it in", fmt.Sprintf("writer %v reader %v", wm[role], rm[role]))
		if a.hi > ext {
			ext = a.hi
		}
	}
	fsz := constOf(c, "tsdb/tblstore/metricsdata", "dataFooterSize")
	c.Check(fsz == ext, "footer-size", nil, w, "dataFooterSize equals the extent the writer fills", fmt.Sprintf("const %d, extent %d", fsz, ext))
}

// fieldDataOnlyForHeldField: fieldReader.GetFieldData returns bytes only on the found-edge of the lookup of the REQUESTED field
// id in the block's own field index (a block that does not hold the field answers nil, also when it holds exactly one field).
// Otherwise the merge re-aggregates one field's values into every field of the merged metric.
func fieldDataOnlyForHeldField(c *eng.Ctx) {
	p := c.P
	f := c.Fn("tsdb/tblstore/metricsdata.fieldReader.GetFieldData")
	facts := p.MustFacts(f)
	var look *ssa.Lookup
	for _, b := range eng.BlocksT(f) {
		for _, in := range b.Instrs {
			if l, ok := in.(*ssa.Lookup); ok && l.CommaOk && eng.DependsOnField(l.X, "tsdb/tblstore/metricsdata.fieldReader.fieldIndexes") {
				look = l
			}
		}
	}
	if look == nil {
		c.Undecided("no comma-ok lookup in fieldReader.fieldIndexes found in GetFieldData")
	}
	c.Check(len(f.Params) > 1 && eng.DependsOn(look.Index, func(x ssa.Value) bool { return x == ssa.Value(f.Params[1]) }), "looks-up-requested-id", look, f,
		"the field index is consulted for the requested field id", "index "+p.Desc(look.Index))
	n := 0
	for _, b := range f.Blocks {
		for _, in := range b.Instrs {
			r, ok := in.(*ssa.Return)
			if !ok || b == f.Recover {
				continue
			}
			rv := eng.RetVal(r, 0)
			if rv == nil || eng.IsNilConst(rv) {
				continue
			}
			fs := facts.At(r)
			held := facts.Find(fs, "true", func(_ string, v ssa.Value) bool { return extractIs(v, look, 1) }, nil)
			c.Check(len(held) > 0, fmt.Sprintf("data-only-if-field-held[%d]", n), r, f, "data is returned only when the block's field index holds the requested field id",
				"returns "+p.Desc(rv)+" with facts: "+strings.Join(facts.Render(fs), " ; "))
			open := facts.Find(fs, "false", eng.DescSuffix(".completed"), nil)
			c.Check(len(open) > 0, fmt.Sprintf("data-only-while-not-completed[%d]", n), r, f,
				"data is returned only while the reader is not completed: the merger keeps one reader per block across series and relies on Close() to silence a reader whose block lacks the current series (a stale series entry must not be read again)",
				"returns "+p.Desc(rv)+" with facts: "+strings.Join(facts.Render(fs), " ; "))
			n++
		}
	}
	c.Check(n >= 2, "data-returns-found", nil, f, "GetFieldData has its two data-returning exits (single-field entry, field block)", fmt.Sprintf("%d", n))
}

// distinctUpInputs: the level-1 files handed to NewCompaction by PickL0Compaction pass through a container keyed by file
// number (each file is opened and merged once even when several level-0 files overlap it); a file listed twice would be
// aggregated twice by the merger (sums doubled).
func distinctUpInputs(c *eng.Ctx) {
	p := c.P
	f := c.Fn("kv/version.version.PickL0Compaction")
	nc := c.One(f, eng.CallTo("kv/version.NewCompaction"), "NewCompaction(...)")
	up := eng.CallArgs(nc.Instr.(*ssa.Call))[3]
	ov := c.Some(f, eng.CallTo("kv/version.version.getOverlappingInputs"), "getOverlappingInputs(1, ...)")
	// the overlap results reach the level-up argument only through a container keyed by GetFileNumber():
	//   (a) a map file-number -> file whose values are then listed, or
	//   (b) appends guarded by a not-yet-seen lookup in a set keyed by file number
	isNumber := func(v ssa.Value) bool {
		return eng.DependsOn(v, func(x ssa.Value) bool {
			cl, ok := x.(*ssa.Call)
			if !ok {
				return false
			}
			if cl.Common().IsInvoke() {
				return cl.Common().Method.Name() == "GetFileNumber"
			}
			return cl.Common().StaticCallee() != nil && baseName(cl.Common().StaticCallee().Name()) == "GetFileNumber"
		})
	}
	fromOv := func(v ssa.Value) bool {
		return eng.DependsOn(v, func(x ssa.Value) bool { return x == ov[0].Instr.(ssa.Value) })
	}
	var keyedMaps []ssa.Value
	for _, b := range eng.BlocksT(f) {
		for _, in := range b.Instrs {
			if mu, ok := in.(*ssa.MapUpdate); ok && isNumber(mu.Key) && fromOv(mu.Key) {
				keyedMaps = append(keyedMaps, mu.Map)
			}
		}
	}
	isKeyed := func(m ssa.Value) bool {
		for _, k := range keyedMaps {
			if eng.SameValue(k, m) {
				return true
			}
		}
		return false
	}
	keyed := false
	dbg := ""
	if len(keyedMaps) > 0 {
		fromMap := eng.DependsOn(up, func(x ssa.Value) bool {
			r, ok := x.(*ssa.Range)
			return ok && isKeyed(r.X)
		})
		direct := fromOv(up)
		if fromMap && !direct {
			keyed = true // (a)
		} else if direct {
			// (b): every append of an overlap element is guarded by a lookup in the keyed set
			all, n := true, 0
			for _, ap := range p.Sites(f, eng.CallTo("builtin:append")) {
				call := ap.Instr.(*ssa.Call)
				args := call.Common().Args
				if len(args) < 2 || !fromOv(args[1]) {
					continue
				}
				n++
				cds, _ := eng.GuardingConds(f, call)
				g := false
				for _, cd := range cds {
					if eng.DependsOn(cd, func(x ssa.Value) bool { l, ok := x.(*ssa.Lookup); return ok && isKeyed(l.X) && isNumber(l.Index) }) {
						g = true
					}
				}
				if !g {
					all = false
				}
			}
			keyed = all && n > 0
			dbg = fmt.Sprintf(" appends=%d allGuarded=%v", n, all)
		}
		c.Check(keyed, "up-inputs-from-the-keyed-set", nc.Instr, f, "the level-1 inputs passed to NewCompaction are taken from / filtered by the set keyed by file number", fmt.Sprintf("fromMap=%v direct=%v arg=%s%s", fromMap, direct, p.Desc(up), dbg))
	}
	c.Check(keyed, "overlaps-collected-by-file-number", nc.Instr, f, "overlapping level-1 files are collected into a map keyed by file number", "no such map update")
}

// seriesMergerOwnRange: field data in a metric block carries no time stamps; bit i of its stream belongs to slot
// (block start + i). The series merger therefore (1) resets the decoder of input block k with the slot range reported by
// block k's own reader (not the union range of the job, which starts earlier for every later block), and (2) writes to
// the output only what the encoder produced over the target range — raw input bytes may be copied through only under a
// test of that block's own range.
func seriesMergerOwnRange(c *eng.Ctx) {
	p := c.P
	f := c.Fn("tsdb/tblstore/metricsdata.seriesMerger.merge")
	isInvoke := func(name string) func(ssa.Value) bool {
		return func(x ssa.Value) bool {
			cl, ok := x.(*ssa.Call)
			return ok && cl.Common().IsInvoke() && cl.Common().Method.Name() == name && strings.HasSuffix(cl.Common().Value.Type().String(), "metricsdata.FieldReader")
		}
	}
	rs := c.Some(f, invokeOn("", "ResetWithTimeRange"), "decoder.ResetWithTimeRange(fieldData, start, end)")
	for i, r := range rs {
		a := eng.CallArgs(r.Instr.(*ssa.Call))
		if len(a) != 3 {
			c.Undecided("ResetWithTimeRange does not take (data, start, end)")
		}
		for j, bound := range []string{"Start", "End"} {
			v := a[1+j]
			own := eng.DependsOn(v, isInvoke("SlotRange")) && strings.HasSuffix(p.Desc(v), "."+bound)
			job := eng.DependsOnField(v, "tsdb/tblstore/metricsdata.mergerContext.sourceRange", "tsdb/tblstore/metricsdata.mergerContext.targetRange")
			c.Check(own && !job, fmt.Sprintf("own-%s[%d]", strings.ToLower(bound), i), r.Instr, f,
				"the decoder of an input block is positioned with the "+bound+" of that block's own slot range (reader.SlotRange()), not with a range of the merge job",
				"passes "+p.Desc(v))
		}
		// the range and the data come from the same reader
		var dataRecv, rangeRecv ssa.Value
		eng.WalkExpr(a[0], func(x ssa.Value) bool {
			if isInvoke("GetFieldData")(x) {
				dataRecv = x.(*ssa.Call).Common().Value
			}
			return true
		})
		eng.WalkExpr(a[1], func(x ssa.Value) bool {
			if isInvoke("SlotRange")(x) {
				rangeRecv = x.(*ssa.Call).Common().Value
			}
			return true
		})
		if dataRecv != nil && rangeRecv != nil {
			c.Check(eng.SameValue(dataRecv, rangeRecv) || p.Desc(dataRecv) == p.Desc(rangeRecv), fmt.Sprintf("same-reader[%d]", i), r.Instr, f,
				"data and range handed to the decoder come from the same block reader", p.Desc(dataRecv)+" vs "+p.Desc(rangeRecv))
		}
	}
	fl := c.Some(f, invokeOn("flusher", "FlushField"), "flusher.FlushField(data)")
	for i, x := range fl {
		a := eng.CallArgs(x.Instr.(*ssa.Call))
		enc := eng.DependsOn(a[0], func(v ssa.Value) bool {
			cl, ok := v.(*ssa.Call)
			if !ok || cl.Common().StaticCallee() == nil {
				return false
			}
			k := p.FuncKey(cl.Common().StaticCallee())
			return k == "pkg/encoding.TSDEncoder.BytesWithoutTime" || k == "pkg/encoding.TSDEncoder.Bytes"
		})
		if enc || eng.IsNilConst(a[0]) {
			c.Check(true, fmt.Sprintf("output-is-encoder-result[%d]", i), x.Instr, f, "what is written for a field is what the encoder produced over the target range", "")
			continue
		}
		conds, _ := eng.GuardingConds(f, x.Instr)
		guarded := false
		for _, cd := range conds {
			if eng.DependsOn(cd, isInvoke("SlotRange")) {
				guarded = true
			}
		}
		c.Check(guarded, fmt.Sprintf("output-is-encoder-result[%d]", i), x.Instr, f,
			"what is written for a field is what the encoder produced over the target range; input bytes are passed through only under a test of the contributing block's own slot range",
			"writes "+p.Desc(a[0])+" without such a test")
	}
}

// nestedPath renders the field path below the method receiver that addr denotes ("Level3.isHighKeySetEver").
func nestedPath(addr ssa.Value) string {
	var parts []string
	for d := 0; d < 10 && addr != nil; d++ {
		switch a := addr.(type) {
		case *ssa.FieldAddr:
			if fv := eng.FieldVar(a); fv != nil {
				parts = append([]string{fv.Name()}, parts...)
			}
			addr = a.X
		case *ssa.IndexAddr:
			addr = a.X
		case *ssa.UnOp:
			addr = a.X
		case *ssa.Slice:
			addr = a.X
		default:
			// the receiver itself, its spill slot (a method with a deferred closure) or the closure's captured copy
			t := addr.Type()
			for k := 0; k < 2; k++ {
				if pt, ok := t.Underlying().(*types.Pointer); ok {
					t = pt.Elem()
				}
			}
			if nt, ok := t.(*types.Named); ok && len(parts) > 0 {
				if st, ok := nt.Underlying().(*types.Struct); ok {
					for i := 0; i < st.NumFields(); i++ {
						if st.Field(i).Name() == parts[0] {
							return strings.Join(parts, ".")
						}
					}
				}
			}
			return ""
		}
	}
	return ""
}

// flusherMetricReset (shared by C03 and C11): the metric block writer is one object reused for every metric of a table. Every
// sub-field of its Level2/Level3/Level4 state that a method other than reset() writes (store, element store or a mutating
// method call) must be cleared by reset(), which CommitMetric defers; the exceptions are listed with their reason.
func flusherMetricReset(c *eng.Ctx) {
	p := c.P
	exempt := map[string]string{
		"Level2.footer":         "scratch buffer, every byte is rewritten by CommitMetric before it is written out",
		"Level4.scratch":        "scratch buffer for one varint",
		"Level4.fieldAppendIdx": "per-series cursor, cleared by FlushSeries",
		"Level4.fieldBuffer":    "per-series buffers, cleared by FlushSeries",
		"Level3.highKey":        "only read while isHighKeySetEver is true, which reset() clears",
	}
	reset := c.Fn(mfT + ".reset")
	paths := func(fn *ssa.Function) map[string]ssa.Instruction {
		out := map[string]ssa.Instruction{}
		for _, b := range fn.Blocks {
			for _, in := range b.Instrs {
				var addr ssa.Value
				switch x := in.(type) {
				case *ssa.Store:
					addr = x.Addr
				case ssa.CallInstruction:
					if _, mut := mutatingCallee(p, x); !mut {
						continue
					}
					cc := x.Common()
					if cc.IsInvoke() {
						addr = cc.Value
					} else if len(cc.Args) > 0 && cc.StaticCallee() != nil && cc.StaticCallee().Signature.Recv() != nil {
						addr = cc.Args[0]
					}
				}
				if addr == nil {
					continue
				}
				if pa := nestedPath(addr); strings.HasPrefix(pa, "Level") && strings.Count(pa, ".") >= 1 {
					pa = strings.Join(strings.Split(pa, ".")[:2], ".")
					if _, ok := out[pa]; !ok {
						out[pa] = in
					}
				}
			}
		}
		return out
	}
	cleared := paths(reset)
	dirty := map[string]string{}
	for _, fn := range p.FuncsWithPrefix(mfT + ".") {
		if fn == reset || topFunc(c, fn) != p.FuncKey(fn) && topFunc(c, fn) == p.FuncKey(reset) {
			continue
		}
		for pa, in := range paths(fn) {
			if _, ok := dirty[pa]; !ok {
				dirty[pa] = p.FuncKey(fn) + " at " + p.InstrPos(in)
			}
		}
	}
	var names []string
	for pa := range dirty {
		names = append(names, pa)
	}
	sort.Strings(names)
	n := 0
	for _, pa := range names {
		if why, ok := exempt[pa]; ok {
			c.Check(true, "exempt:"+pa, nil, reset, pa+" need not be cleared per metric: "+why, "")
			continue
		}
		n++
		_, ok := cleared[pa]
		c.Check(ok, "cleared:"+pa, nil, reset, "reset() clears "+pa+", which is written while a metric block is built", "written by "+dirty[pa]+"; reset() never writes it")
	}
	c.Check(n >= 7, "dirty-paths-found", nil, reset, "the per-metric state paths of the writer are found", fmt.Sprintf("found %d: %v", n, names))
	cm := c.Fn(mfT + ".CommitMetric")
	c.Check(len(p.Sites(cm, eng.DeferTo(mfT+".reset"))) == 1, "commit-defers-reset", nil, cm, "CommitMetric defers reset(), so every exit of it clears the per-metric state", "")
}

// mergeReadersPerMetric (shared by C03 and C11): a field reader keeps the field-id -> position table of the block it was created for
// (newFieldReader(scanner.fieldIndexes(), …)); Reset only replaces the series entry. The reader slice handed to the series merger must
// therefore be created inside Merge (one metric), never kept in the merger across metrics whose blocks have other field tables.
func mergeReadersPerMetric(c *eng.Ctx) {
	p := c.P
	f := c.Fn(mgT + ".Merge")
	calls := c.Some(f, invokeOn("", "merge"), "seriesMerger.merge(ctx, streams, readers)")
	for i, s := range calls {
		args := eng.CallArgs(s.Instr.(ssa.CallInstruction))
		if len(args) < 3 {
			c.Undecided("seriesMerger.merge has %d arguments", len(args))
		}
		rd := args[len(args)-1]
		local := eng.DependsOn(rd, func(v ssa.Value) bool { _, ok := v.(*ssa.MakeSlice); return ok })
		field := eng.DependsOn(rd, func(v ssa.Value) bool {
			fa, ok := v.(*ssa.FieldAddr)
			return ok && strings.HasPrefix(eng.FieldKeyOfAddr(fa), mgT+".")
		})
		c.Check(local && !field, fmt.Sprintf("readers-made-in-Merge[%d]", i), s.Instr, f,
			"the field readers given to the series merger are allocated in this Merge call", "readers = "+p.Desc(rd))
	}
	// and a reader's field table is only set when it is created
	owner(c, "store to fieldReader.fieldIndexes", eng.StoreField("tsdb/tblstore/metricsdata.fieldReader.fieldIndexes"), []string{"tsdb/tblstore/metricsdata.newFieldReader"}, 1)
}

// flushFieldPerTargetField (shared by C03 and C11): the block writer buffers field data by CALL ORDER and writes len(fieldMetas) entries
// per series: FlushField must be called once for every target field, also when no input block holds data for it (an empty
// entry). A skipped call shifts every later field of the series one position down.
func flushFieldPerTargetField(c *eng.Ctx) {
	_ = c.P
	f := c.Fn("tsdb/tblstore/metricsdata.seriesMerger.merge")
	fl := c.Some(f, invokeOn("flusher", "FlushField"), "flusher.FlushField(data)")
	for i, s := range fl {
		top := eng.TopOf(f, s)
		if top == nil {
			c.Check(false, fmt.Sprintf("per-field[%d]", i), s.Instr, f, "FlushField is called from the loop over the target fields", "reached through several call sites")
			continue
		}
		everyIterationPasses(c, f, eng.Site{Fn: f, Instr: top}, fmt.Sprintf("per-field[%d]", i),
			"every iteration over the target fields reaches FlushField (an empty entry for a field without data): no `continue` passes it by")
	}
}

func installOneCommit(c *eng.Ctx) {
	p := c.P
	_ = p
	f := c.Fn(cjT + ".installCompactionResults")
	cm := c.Some(f, invokeOn(".family", "commitEditLog"), "family.commitEditLog")
	c.Check(len(cm) == 1, "exactly-one-commit", cm[0].Instr, f, "input deletions and output additions are installed by ONE commit (readers see the old or the new file set, never a mix)", fmt.Sprintf("%d commits", len(cm)))
	a := eng.CallArgs(cm[0].Instr.(*ssa.Call))[0]
	c.Check(strings.Contains(p.Desc(a), ".compaction.GetEditLog()") || strings.Contains(p.Desc(a), ".compaction.editLog"), "commits-the-compaction-log", cm[0].Instr, f, "what is committed is the compaction's edit log", "commits "+p.Desc(a))
	for _, m := range []struct{ name, desc string }{{"MarkInputDeletes", "input deletions"}, {"AddFile", "output additions"}} {
		for i, s := range c.Some(f, eng.AnyCallTo(cmpT+"."+m.name), m.name) {
			_, late := eng.Reaches(f, cm[0].Instr, []eng.Site{s}, nil)
			c.Check(!late && strings.Contains(p.Desc(eng.CallRecv(s.Instr.(ssa.CallInstruction))), ".state.compaction"), fmt.Sprintf("%s-in-that-log[%d]", m.name, i), s.Instr, f,
				m.desc+" are recorded in the compaction's log before the commit", "")
		}
	}
	// deletions are skipped only for a rollup job (inputs belong to another family)
	md := c.One(f, eng.AnyCallTo(cmpT+".MarkInputDeletes"), "MarkInputDeletes")
	conds, _ := eng.GuardingConds(f, md.Instr)
	okG := len(conds) == 1 && strings.HasSuffix(p.Desc(conds[0]), ".rollup==nil)") || len(conds) == 1 && strings.Contains(p.Desc(conds[0]), ".rollup")
	c.Check(okG, "deletes-unless-rollup", md.Instr, f, "inputs are deleted unless the job is a rollup (whose inputs live in the source family)", fmt.Sprintf("%d guarding conditions", len(conds)))
	// outputs: every recorded output is added
	ad := c.One(f, eng.AnyCallTo(cmpT+".AddFile"), "AddFile")
	conds2, _ := eng.GuardingConds(f, ad.Instr)
	okO := false
	for _, cd := range conds2 {
		if strings.Contains(p.Desc(cd), ".outputs") {
			okO = true
		}
	}
	c.Check(okO, "all-outputs-added", ad.Instr, f, "every output file of the job is added", "")
	mk := c.Fn(cmpT + ".MarkInputDeletes")
	type del struct {
		list, level string
	}
	var dels []del
	for _, s := range c.Some(mk, eng.CallTo("kv/version.NewDeleteFile"), "NewDeleteFile") {
		a := eng.CallArgs(s.Instr.(*ssa.Call))
		list := ""
		switch {
		case eng.DependsOnField(a[1], cmpT+".levelInputs"):
			list = "levelInputs"
		case eng.DependsOnField(a[1], cmpT+".levelUpInputs"):
			list = "levelUpInputs"
		}
		dels = append(dels, del{list, p.Desc(a[0])})
	}
	want := map[string]string{"levelInputs": "c.level", "levelUpInputs": "(c.level+1)"}
	seen := map[string]bool{}
	for _, d := range dels {
		seen[d.list] = true
		c.Check(d.list != "" && d.level == want[d.list], "delete-level:"+d.list, nil, mk, "files of "+d.list+" are deleted at level "+want[d.list], "deleted at "+d.level)
	}
	c.Check(seen["levelInputs"] && seen["levelUpInputs"], "both-input-levels-deleted", nil, mk, "both the level's inputs and the overlapping inputs one level up are deleted", fmt.Sprint(dels))
	it := c.Fn(cjT + ".makeInputIterator")
	gi := c.One(it, eng.AnyCallTo(cmpT+".GetInputs"), "GetInputs()")
	// the index applied to GetInputs() reaches 1: as a constant (unrolled), or as a counter whose tightest known upper bound
	// at the indexing is >= 1 (which < 2, which <= 1, which < len(inputs))
	okBoth := false
	facts3 := p.MustFacts(it)
	constIdx := map[int64]bool{}
	for _, b := range it.Blocks {
		for _, in := range b.Instrs {
			ia, ok := in.(*ssa.IndexAddr)
			if !ok || eng.Unwrap(ia.X) != gi.Instr.(ssa.Value) {
				continue // only the indexing of the list of input sets itself (not of one set's files)
			}
			if k, isC := eng.ConstInt(ia.Index); isC {
				constIdx[k] = true
				continue
			}
			best, have := int64(0), false
			for _, ft := range facts3.At(in) {
				if ft.Y == nil || eng.Unwrap(ft.X) != eng.Unwrap(ia.Index) || (ft.Op != "lt" && ft.Op != "le") {
					continue
				}
				k, isC := eng.ConstInt(ft.Y)
				if !isC {
					if lc, isL := eng.Unwrap(ft.Y).(*ssa.Call); isL && len(lc.Call.Args) == 1 && eng.Unwrap(lc.Call.Args[0]) == gi.Instr.(ssa.Value) {
						if bi, isB := lc.Call.Value.(*ssa.Builtin); isB && bi.Name() == "len" {
							okBoth = true // bounded by the number of input sets itself
						}
					}
					continue
				}
				if ft.Op == "lt" {
					k--
				}
				if !have || k < best {
					best, have = k, true
				}
			}
			if have && best >= 1 {
				okBoth = true
			}
		}
	}
	if constIdx[0] && constIdx[1] {
		okBoth = true
	}
	c.Check(okBoth, "iterates-both-input-sets", gi.Instr, it, "the merged input iterator is built from both input sets (which < 2)", "")
	gr := c.One(it, invokeOn(".snapshot", "GetReader"), "snapshot.GetReader")
	c.Check(eng.DependsOn(eng.CallArgs(gr.Instr.(*ssa.Call))[0], func(x ssa.Value) bool { return x == gi.Instr.(ssa.Value) }), "reader-per-input-file", gr.Instr, it, "a reader is opened for every input file", "")
}
