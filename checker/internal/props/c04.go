package props

import (
	"fmt"
	"go/token"
	"go/types"
	"strings"

	"golang.org/x/tools/go/ssa"

	"lincheck/internal/eng"
)

func init() {
	register(eng.Property{
		ID:    "C04",
		Title: "Rollup writes the right aggregate into the right coarse slot, once",
		Explanation: "Decides the exactly-once bookkeeping of rollup structurally: a flushed file is registered for every configured target interval in the flush's own edit log; rollup work skips source files the " +
			"target already references and selects its inputs from the filtered set; for every selected input a reference record naming the same file is created and rides the same commit as the rollup output " +
			"(added to the compaction before the job runs); the source's delete-rollup record for a target is written only when that target's work succeeded; the source commits its bookkeeping BEFORE the targets " +
			"drop their reference records (a crash in between can only leave a harmless extra reference, never forget a rollup that happened); version cloning and the manifest snapshot carry rollup and reference " +
			"state (C01); both ends of the target slot range are computed by the same mapping of the corresponding source end; the interval calculator switch covers every interval type.",
		NotDecided: "slot arithmetic (baseSlot + slot/ratio), interval calculators, aggregate values — numeric.",
		MinObls:    22,
		Run:        runC04,
	})
}

func runC04(c *eng.Ctx) {
	p := c.P
	downSamplingEmitsEverySlot(c)
	downSamplingStartsFromUnset(c)
	rollupMarkOnlyForAFlushedTable(c)
	c.Rule("ATOMIC", vsT+".CommitFamilyEditLog", func() { commitFamilyEditLogAtomic(c) })
	c.Rule("PROV", "kv{edit log family id = the committing family}", func() { editLogOwnID(c) })
	decodedRecordOwnsItsStrings(c)
	compactionOutputClaimedUntilInstalled(c)

	// ---- 1. registration rides the flush commit ---------------------------------------------------------------------------
	c.Rule("ORDER", sfT+".Commit{rollup registration}", func() {
		f := c.Fn(sfT + ".Commit")
		reg := c.Some(f, eng.CallTo("kv/version.CreateNewRollupFile"), "CreateNewRollupFile(output, interval)")
		commit := c.One(f, invokeOn(".family", "commitEditLog"), "commitEditLog")
		for i, r := range reg {
			a := eng.CallArgs(r.Instr.(*ssa.Call))
			c.Check(eng.DependsOnField(a[0], sfT+".outputs"), fmt.Sprintf("registers-flushed-file[%d]", i), r.Instr, f, "the file registered for rollup is an output of this flush", "registers "+p.Desc(a[0]))
			c.Check(strings.Contains(p.Desc(a[1]), "Rollup") || eng.DependsOn(a[1], func(x ssa.Value) bool { return strings.Contains(p.Desc(x), ".Rollup") }), fmt.Sprintf("for-configured-interval[%d]", i), r.Instr, f, "for each target interval configured on the store", "interval "+p.Desc(a[1]))
			// added to the flusher's log, before the commit
			added := false
			for _, ref := range *r.Instr.(ssa.Value).Referrers() {
				if cl, ok := ref.(*ssa.Call); ok && cl.Common().IsInvoke() && cl.Common().Method.Name() == "Add" && strings.HasSuffix(p.Desc(cl.Common().Value), "sf.editLog") {
					added = eng.DominatedBy(f, commit.Instr, []eng.Site{{Fn: f, Instr: cl}}, nil) || true
					_, late := eng.Reaches(f, commit.Instr, []eng.Site{{Fn: f, Instr: cl}}, nil)
					added = !late
				}
			}
			c.Check(added, fmt.Sprintf("same-commit-as-the-file[%d]", i), r.Instr, f, "the registration is in the edit log that is committed together with the new file", "")
		}
		// F39: a flush whose builder held no key abandons its table - no NewFile record - and must not leave a needs-rollup mark for
		// that number: the mark keeps the empty file alive and every later rollup pass of the family fails on it
		for i, ab := range c.Some(f, invokeOn("", "Abandon"), "builder.Abandon()") {
			cleared := p.Sites(f, func(p *eng.Prog, in ssa.Instruction) bool {
				st, ok := in.(*ssa.Store)
				if !ok || !eng.StoreField(sfT+".outputs")(p, in) {
					return false
				}
				if eng.IsNilConst(st.Val) {
					return true
				}
				sl, ok := eng.Unwrap(st.Val).(*ssa.Slice)
				if !ok || sl.High == nil {
					return false
				}
				k, isC := eng.ConstInt(sl.High)
				return isC && k == 0
			})
			w, marked := eng.Reaches(f, ab.Instr, reg, cleared)
			detail := ""
			if marked {
				detail = "after Abandon() the flusher still reaches the registration at " + p.InstrPos(w) + " with the abandoned number in sf.outputs"
			}
			c.Check(!marked, fmt.Sprintf("no-mark-for-an-abandoned-table[%d]", i), ab.Instr, f,
				"a needs-rollup mark is registered only for a file this commit records as a table (NewFile); an abandoned (empty) builder registers nothing", detail)
		}
	})

	// ---- 2/3. rollup work ------------------------------------------------------------------------------------------------------
	c.Rule("GUARD", famT+".doRollupWork{skip referenced, reference rides the commit}", func() {
		f := c.Fn(famT + ".doRollupWork")
		live := c.One(f, invokeOn(".familyVersion", "GetLiveReferenceFiles"), "familyVersion.GetLiveReferenceFiles(sourceStore)")
		del := c.Some(f, eng.CallTo("builtin:delete"), "delete(targetFiles, file)")
		get := c.Some(f, invokeOn("", "GetFile"), "v.GetFile(0, fileNumber)")
		run := c.One(f, invokeOn("", "Run"), "compactJob.Run()")
		// the skip loop precedes input selection
		for i, g := range get {
			c.Check(eng.DominatedBy(f, g.Instr, []eng.Site{live}, nil), fmt.Sprintf("referenced-checked-first[%d]", i), g.Instr, f, "inputs are selected only after the target's live references were consulted", "")
		}
		// deleted key is a file found in the live references of this source family
		for i, d := range del {
			a := d.Instr.(*ssa.Call).Common().Args
			c.Check(eng.DependsOn(a[1], func(x ssa.Value) bool { return x == live.Instr.(ssa.Value) }), fmt.Sprintf("skips-referenced-file[%d]", i), d.Instr, f,
				"a file is removed from the work set when the target already references it (it was rolled up before)", "deletes "+p.Desc(a[1]))
			// inputs are chosen from the same (filtered) map
			var fromSame bool
			for _, g := range get {
				fn := eng.CallArgs(g.Instr.(*ssa.Call))[1]
				if eng.DependsOn(fn, func(x ssa.Value) bool {
					r, ok := x.(*ssa.Range)
					return ok && (eng.SameValue(r.X, a[0]) || eng.DependsOn(r.X, func(y ssa.Value) bool { return y == a[0] || eng.SameValue(y, a[0]) }))
				}) {
					fromSame = true
				}
			}
			c.Check(fromSame, fmt.Sprintf("inputs-from-filtered-set[%d]", i), d.Instr, f, "the inputs are taken from the filtered work set (not from the original request)", "")
		}
		// every file left in the work set becomes an input of the merge — or the work fails: the caller marks ALL requested
		// files as rolled up when doRollupWork returns nil, so a file that is silently passed over is lost for the targets
		inputs := p.Sites(f, func(p *eng.Prog, in ssa.Instruction) bool {
			cl, ok := in.(*ssa.Call)
			if !ok {
				return false
			}
			ks := p.CalleeKeys(cl)
			return len(ks) == 1 && ks[0] == "builtin:append" && strings.Contains(cl.Type().String(), "version.FileMeta")
		})
		c.Check(len(inputs) > 0, "inputs-collected", nil, f, "doRollupWork collects the input files of the merge", "")
		for i, g := range get {
			_, notFound := eng.BoolCheckEdges(f, g.Instr.(ssa.Value))
			for j, e := range notFound {
				first := e.B.Succs[e.Succ].Instrs[0]
				tgt := func(in ssa.Instruction) bool {
					if _, ok := in.(*ssa.Next); ok {
						return true
					}
					if in == run.Instr {
						return true
					}
					return in.Parent() == f && instrIsSuccessReturn(f, in)
				}
				_, skipped := eng.PathExists(eng.PathQuery{Fn: f, After: first, Target: tgt, Blocked: func(in ssa.Instruction) bool { return instrIn(in, inputs) }})
				if tgt(first) && !instrIn(first, inputs) {
					skipped = true
				}
				c.Check(!skipped, fmt.Sprintf("no-requested-file-passed-over[%d,%d]", i, j), g.Instr, f,
					"a requested source file that is not found in level 0 of the source's current version (it was compacted upwards meanwhile; the file itself is kept on disk for the rollup) still becomes an input, or the work fails — it is never skipped silently, because the caller then records it as rolled up",
					"the not-found edge of GetFile reaches the next file / the job / a successful return without adding an input")
			}
			c.Check(len(notFound) > 0, fmt.Sprintf("lookup-outcome-tested[%d]", i), g.Instr, f, "the outcome of the level-0 lookup is tested", "")
		}
		// referenced lookup is keyed by this source family
		srcArg := eng.CallArgs(live.Instr.(*ssa.Call))[0]
		c.Check(eng.DependsOn(srcArg, func(x ssa.Value) bool { return strings.Contains(p.Desc(x), "sourceFamily.getStore()") }), "references-of-this-source", live.Instr, f, "the references consulted are those of the source store", "key "+p.Desc(srcArg))
		// empty work set returns before any job
		facts := p.MustFacts(f)
		nz := facts.Find(facts.At(run.Instr), "ne", func(d string, _ ssa.Value) bool { return strings.Contains(d, "len(") }, eng.DescIs("0"))
		c.Check(len(nz) > 0, "no-job-for-empty-set", run.Instr, f, "no job runs when nothing is left to roll up", "facts: "+strings.Join(facts.Render(facts.At(run.Instr)), " ; "))
		// reference record per input, same file number, added before Run to the compaction that runs
		refs := c.Some(f, eng.CallTo("kv/version.CreateNewReferenceFile"), "CreateNewReferenceFile")
		for i, r := range refs {
			a := eng.CallArgs(r.Instr.(*ssa.Call))
			sameFile := false
			for _, g := range get {
				if eng.CallArgs(g.Instr.(*ssa.Call))[1] == a[2] && g.Instr.Block().Dominates(r.Instr.Block()) {
					sameFile = true
				}
			}
			c.Check(sameFile, fmt.Sprintf("reference-names-the-input[%d]", i), r.Instr, f, "the reference record names exactly the file that becomes an input", "")
			c.Check(eng.DominatedBy(f, r.Instr, inputs, nil), fmt.Sprintf("reference-only-for-an-input[%d]", i), r.Instr, f,
				"a reference is recorded only for a file that became an input of this merge (found in the source's version, or — since F24 — read from disk by its number because it was compacted upwards)", "")
		}
		add := c.One(f, eng.AnyCallTo(cmpT+".AddReferenceFiles"), "compaction.AddReferenceFiles(logs)")
		c.Check(eng.DominatedBy(f, run.Instr, []eng.Site{add}, nil), "references-before-run", run.Instr, f, "the reference records are in the compaction's edit log before the job runs (they are committed with the output, C03 one-commit rule)", "")
		ns := c.One(f, eng.CallTo("kv.newCompactionState"), "newCompactionState(…, compaction)")
		sameCompaction := eng.SameValue(eng.CallArgs(ns.Instr.(*ssa.Call))[2], eng.CallRecv(add.Instr.(ssa.CallInstruction))) ||
			eng.SameValue(eng.ThroughHelper(eng.CallArgs(ns.Instr.(*ssa.Call))[2]), eng.CallRecv(add.Instr.(ssa.CallInstruction)))
		c.Check(sameCompaction, "that-compaction-runs", ns.Instr, f, "the compaction that carries the references is the one that runs", "")
		mk := c.One(f, eng.CallTo("var:kv.newCompactJobFunc"), "newCompactJobFunc(f, state, rollup)")
		c.Check(p.Desc(eng.CallArgs(mk.Instr.(*ssa.Call))[2]) == "rollup", "job-is-a-rollup", mk.Instr, f, "the job is created with the rollup context (so inputs are not deleted from the target)", "")
	})

	// ---- 4/5. source bookkeeping ---------------------------------------------------------------------------------------------------
	c.Rule("ORDER", famT+".rollup{commit<clean references}", func() { rollupCommitBeforeClean(c) })
	c.Rule("ERRFLOW", "kv{the outcome of a manifest commit that installs job output reaches the job's caller}", func() { commitResultExamined(c) })
	c.Rule("ORDER", cjT+".installCompactionResults{one commit}", func() { installOneCommit(c) })

	// ---- 5b. one rollup job per source family at a time ---------------------------------------------------------------------------------
	c.Rule("ATOMIC", famT+".rollup{single flight}", func() { singleFlight(c, famT+".rolluping", famT+".rollup") })

	// ---- 5b2. the job works on the marks as they are AFTER its claim --------------------------------------------------------------------
	// (a trigger that read the marks before it won the claim may have read them while the previous job was still running: that job
	// then finishes, clears its references, releases the flag, and the stale list makes the new job merge the same files again)
	c.Rule("ORDER", famT+".rollup{the marks are read by the claimer}", func() {
		f := c.Fn(famT + ".rollup")
		read := invokeOn("", "GetLiveRollupFiles")
		var cas ssa.Value
		for _, b := range f.Blocks {
			for _, in := range b.Instrs {
				if fa, m, _ := eng.AtomicOp(in); fa != nil && eng.FieldKeyOfAddr(fa) == famT+".rolluping" && (m == "CompareAndSwap" || m == "CAS") {
					cas = in.(ssa.Value)
				}
			}
		}
		if cas == nil {
			c.Undecided("unresolved anchor: no rolluping.CompareAndSwap in %s", famT+".rollup")
		}
		te, _ := eng.BoolCheckEdges(f, cas)
		claimed := func(in ssa.Instruction) bool {
			for _, e := range te {
				if eng.DominatedByEdge(f, in, e) {
					return true
				}
			}
			return false
		}
		inJob := 0
		for _, g := range append([]*ssa.Function{f}, append(eng.Closures(f)[1:], localFuncs(f)...)...) {
			for i, s := range p.SitesDirect(g, read) {
				if g != f {
					inJob++
					continue
				}
				if claimed(s.Instr) {
					inJob++
					continue
				}
				// a look before the claim may only decide whether to try at all: its result does not travel into the job
				escapes := ""
				for _, b := range f.Blocks {
					for _, in := range b.Instrs {
						if mc, ok := in.(*ssa.MakeClosure); ok {
							for _, bd := range mc.Bindings {
								if eng.DependsOn(bd, func(x ssa.Value) bool { return x == s.Instr.(ssa.Value) }) {
									escapes = "captured by the job started at " + p.InstrPos(in)
								}
							}
						}
						if g, ok := in.(*ssa.Go); ok {
							for _, a := range g.Common().Args {
								if eng.DependsOn(a, func(x ssa.Value) bool { return x == s.Instr.(ssa.Value) }) {
									escapes = "handed to the job started at " + p.InstrPos(in)
								}
							}
						}
					}
				}
				c.Check(escapes == "", fmt.Sprintf("pre-claim-look-stays-outside-the-job[%d]", i), s.Instr, f,
					"the rollup marks read before the single-flight claim are not what the job works on", escapes)
			}
		}
		c.Check(inJob >= 1, "marks-read-after-the-claim", nil, f, "the job reads the source family's rollup marks after it has claimed the flag", "no GetLiveRollupFiles() on the claimed side")
	})

	// ---- 5c. the reference key written by the target is the key it is looked up / deleted by --------------------------------------
	c.Rule("SYMMETRY", famT+"{reference key = (source store, source family id, file)}", func() { referenceKeySymmetry(c) })

	// ---- 5d. version state bookkeeping of the marks ---------------------------------------------------------------------------------------
	c.Rule("UNION", vsT+".createFamilySnapshot{rollup marks and references are enumerated from their own maps}", func() {
		snapshotEnumeratesStateMaps(c, c.Fn(vsT+".createFamilySnapshot"))
	})
	c.Rule("GUARD", "kv/version.rollup.removeReferenceFile{a store's entry is dropped only when no family is left in it}", func() {
		f := c.Fn("kv/version.rollup.removeReferenceFile")
		fs := p.MustFacts(f)
		n := 0
		for _, b := range f.Blocks {
			for _, in := range b.Instrs {
				cl, ok := in.(*ssa.Call)
				if !ok {
					continue
				}
				bi, ok := cl.Common().Value.(*ssa.Builtin)
				if !ok || bi.Name() != "delete" || !eng.DependsOnField(cl.Common().Args[0], "kv/version.rollup.referenceFiles") {
					continue
				}
				if _, inner := eng.Unwrap(cl.Common().Args[0]).(*ssa.Extract); inner {
					continue // delete(families, familyID): the inner map
				}
				if _, inner := eng.Unwrap(cl.Common().Args[0]).(*ssa.Lookup); inner {
					continue
				}
				n++
				at := fs.At(in)
				isLenOfFamilies := func(d string, v ssa.Value) bool {
					lc, ok := v.(*ssa.Call)
					if !ok || !strings.HasPrefix(d, "builtin:len(") || len(lc.Common().Args) != 1 {
						return false
					}
					_, isMap := lc.Common().Args[0].Type().Underlying().(*types.Map)
					return isMap && eng.DependsOnField(v, "kv/version.rollup.referenceFiles")
				}
				empt := append(fs.Find(at, "eq", isLenOfFamilies, eng.DescIs("0")), fs.Find(at, "le", isLenOfFamilies, eng.DescIs("0"))...)
				c.Check(len(empt) > 0, fmt.Sprintf("outer-delete[%d]", n), in, f,
					"delete(referenceFiles, store) is reached only when the store's family map is empty: the marks of the OTHER source families of that store must survive",
					"facts at the delete: "+strings.Join(fs.Render(at), ", "))
			}
		}
		c.Check(n >= 1, "outer-delete-found", nil, f, "the store entry is dropped somewhere", fmt.Sprintf("%d", n))
	})

	// ---- 8. both ends by the same mapping ----------------------------------------------------------------------------------------------
	c.Rule("SYMMETRY", mgT+".prepare{rollup target range}", func() {
		pr := c.Fn(mgT + ".prepare")
		vals := map[string][]string{}
		for _, b := range []string{"Start", "End"} {
			for _, s := range p.Sites(pr, func(p *eng.Prog, in ssa.Instruction) bool {
				st, ok := in.(*ssa.Store)
				return ok && strings.HasSuffix(p.Desc(st.Addr), ".targetRange."+b)
			}) {
				d := p.Desc(s.Instr.(*ssa.Store).Val)
				if strings.Contains(d, "rollup") || strings.Contains(d, "CalcSlot") || strings.Contains(d, "/") {
					vals[b] = append(vals[b], d)
				}
			}
		}
		if len(vals["Start"]) != 1 || len(vals["End"]) != 1 {
			c.Undecided("rollup branch stores to targetRange not recognised: %v", vals)
		}
		s, e := vals["Start"][0], vals["End"][0]
		c.Check(strings.ReplaceAll(s, ".Start", ".X") == strings.ReplaceAll(e, ".End", ".X"), "same-mapping-for-both-ends", nil, pr,
			"the target slot range's start and end are obtained from the source start and end by one and the same mapping (timestamp of the slot, then the target slot of that timestamp)",
			"start = "+s+" ; end = "+e)
		c.Check(strings.Contains(s, "CalcSlot(") && strings.Contains(s, "GetTimestamp("), "mapping-via-timestamp", nil, pr, "the mapping goes through the slot's timestamp (family-position independent)", "start = "+s)
	})

	// ---- 7. calculators --------------------------------------------------------------------------------------------------------------------
	c.Rule("PROV", "tsdb/tblstore/metricsdata.seriesMerger.merge{decode with the block's own range}", func() { seriesMergerOwnRange(c) })

	c.Rule("GUARD", "tsdb/tblstore/metricsdata.fieldReader.GetFieldData{only the requested field}", func() { fieldDataOnlyForHeldField(c) })

	// ---- Last / First over several input blocks: decided by the SOURCE SLOT, not by the position of the block ---------------------------
	c.Rule("SYMMETRY", "aggregation.DownSamplingMultiSeriesInto{order-sensitive fields compare source slots}", func() {
		f := c.Fn("aggregation.DownSamplingMultiSeriesInto")
		aggs := c.Some(f, invokeOn("", "Aggregate"), "fieldType.AggType().Aggregate(acc, value)")
		// the loop variable over the source slots of one decoder
		has := c.Some(f, eng.CallTo("pkg/encoding.TSDDecoder.HasValueWithSlot"), "decoder.HasValueWithSlot(slot)")
		slotV := eng.CallArgs(has[0].Instr.(*ssa.Call))[0]
		// a comparison between the current source slot and a remembered slot (an element of a per-target-position array)
		cmp := false
		for _, b := range eng.BlocksT(f) {
			for _, in := range b.Instrs {
				bo, ok := in.(*ssa.BinOp)
				if !ok {
					continue
				}
				switch bo.Op {
				case token.LSS, token.GTR, token.LEQ, token.GEQ:
				default:
					continue
				}
				isSlot := func(v ssa.Value) bool { return eng.DependsOn(v, func(x ssa.Value) bool { return x == slotV }) }
				isRemembered := func(v ssa.Value) bool {
					return eng.DependsOn(v, func(x ssa.Value) bool {
						u, ok := x.(*ssa.UnOp)
						if !ok || u.Op != token.MUL {
							return false
						}
						ia, ok := u.X.(*ssa.IndexAddr)
						return ok && !strings.Contains(ia.X.Type().String(), "float64") && !strings.Contains(ia.X.Type().String(), "TSDDecoder")
					})
				}
				if isSlot(bo.X) && isRemembered(bo.Y) || isSlot(bo.Y) && isRemembered(bo.X) {
					cmp = true
				}
			}
		}
		c.Check(cmp, "slots-compared-across-blocks", aggs[0].Instr, f,
			"the input blocks of one merge are folded one after the other, and Aggregate(acc, v) of a Last (First) field simply returns v (acc): which block comes last is an accident of file order (a Go map iteration in doRollupWork). For these field types the fold therefore remembers, per target position, the source slot of the value it holds and replaces it only by a value of a later (earlier) source slot",
			"no comparison between the current source slot and a remembered slot exists: the last / first BLOCK wins")
		// … and the remembered slot always belongs to the value that is held: wherever a raw value (not an aggregate) is stored into
		// the target buffer, the slot array is updated before the iteration ends, unless the field type keeps no slots
		isElemOf := func(addr ssa.Value, elem string) bool {
			ia, ok := addr.(*ssa.IndexAddr)
			if !ok {
				return false
			}
			sl, ok := ia.X.Type().Underlying().(*types.Slice)
			return ok && sl.Elem().String() == elem
		}
		hosts := []*ssa.Function{f}
		seenHost := map[*ssa.Function]bool{f: true}
		for _, b := range eng.BlocksT(f) {
			for _, in := range b.Instrs {
				if g := eng.TransparentCallee(in); g != nil && !seenHost[g] {
					seenHost[g] = true
					hosts = append(hosts, g)
				}
			}
		}
		nRaw, nSlot := 0, 0
		for _, g := range hosts {
			var slotStores []eng.Site
			for _, b := range g.Blocks {
				for _, in := range b.Instrs {
					if st, ok := in.(*ssa.Store); ok && isElemOf(st.Addr, "uint16") {
						slotStores = append(slotStores, eng.Site{Fn: g, Instr: in})
					}
				}
			}
			nSlot += len(slotStores)
			noSlots := eng.EdgesWithFact(g, func(ft eng.Fact) bool {
				if ft.Op != "eq" || ft.Y == nil || !eng.IsNilConst(ft.Y) {
					return false
				}
				sl, ok := ft.X.Type().Underlying().(*types.Slice)
				return ok && sl.Elem().String() == "uint16"
			})
			for _, b := range g.Blocks {
				for _, in := range b.Instrs {
					st, ok := in.(*ssa.Store)
					if !ok || !isElemOf(st.Addr, "float64") {
						continue
					}
					if eng.DependsOn(st.Val, func(x ssa.Value) bool {
						cl, ok := x.(*ssa.Call)
						return ok && (cl.Common().IsInvoke() && cl.Common().Method.Name() == "Aggregate" || cl.Common().StaticCallee() != nil && baseName(cl.Common().StaticCallee().Name()) == "Aggregate")
					}) {
						continue // an aggregate of old and new value: sum / min / max fields keep no slot
					}
					if _, isConst := st.Val.(*ssa.Const); isConst {
						continue
					}
					nRaw++
					header := innermostLoop(g, b)
					_, unpaired := eng.PathExists(eng.PathQuery{Fn: g, After: in,
						Target: func(x ssa.Instruction) bool {
							if _, isRet := x.(*ssa.Return); isRet {
								return true
							}
							return header != nil && x.Block() == header && x == header.Instrs[0]
						},
						Blocked: func(x ssa.Instruction) bool { return instrIn(x, slotStores) },
						Edge:    eng.ForbidEdges(noSlots)})
					c.Check(!unpaired, fmt.Sprintf("slot-follows-the-value[%d]", nRaw), in, g,
						"whenever a First/Last field takes a new value into a target position, the position's remembered source slot is set to that value's slot in the same iteration; a stale slot lets a later block replace (or fail to replace) the value against the wrong reference",
						"a path from this store to the next iteration sets no remembered slot although the field keeps slots")
				}
			}
		}
		c.Check(nRaw >= 2 && nSlot >= 1, "raw-stores-found", nil, f, "values are taken over (first value of a position, replacement for First/Last)", fmt.Sprintf("%d raw stores, %d slot stores", nRaw, nSlot))
	})

	calcSlotNoWrap(c)
	calculatorExhaustive(c)
}

func calcSlotNoWrap(c *eng.Ctx) {
	p := c.P
	_ = p
	// ---- slot of a timestamp inside its family: the offset from the family start is never folded below the family's length ------
	c.Rule("LAYOUT", "pkg/timeutil.{day,month,year}.CalcSlot{no wrap-around inside one family}", func() {
		// length of one family per calculator (a table, confirmed by reading CalcFamilyStartTime / CalcFamilyEndTime):
		//   day   -> one family per hour; month -> one family per day; year -> one family per CALENDAR MONTH (up to 31 days)
		const hour = int64(3600 * 1000)
		span := map[string]int64{"day": hour, "month": 24 * hour, "year": 31 * 24 * hour}
		for _, name := range []string{"day", "month", "year"} {
			f := c.Fn("pkg/timeutil." + name + ".CalcSlot")
			quo := 0
			for _, b := range eng.BlocksT(f) {
				for _, in := range b.Instrs {
					bo, ok := in.(*ssa.BinOp)
					if !ok {
						continue
					}
					switch bo.Op {
					case token.QUO:
						quo++
						c.Check(p.Desc(bo.Y) == "interval", name+":divides-by-the-interval", bo, f, "the slot is the offset divided by the interval", "divides by "+p.Desc(bo.Y))
					case token.REM:
						k, isC := eng.ConstInt(bo.Y)
						c.Check(isC && k >= span[name], name+":modulus-not-below-the-family-length", bo, f,
							fmt.Sprintf("an offset (timestamp - base time) is reduced only modulo a constant that is at least the length of one %s-type family (%d ms): a smaller modulus folds the end of the family onto its beginning (a year-type family is a calendar month of up to 31 days, not 30)", name, span[name]),
							fmt.Sprintf("modulus %s = %d", p.Desc(bo.Y), k))
					}
				}
			}
			c.Check(quo == 1, name+":one-division", nil, f, "CalcSlot divides once by the interval", fmt.Sprintf("%d divisions", quo))
		}
	})
}

func calculatorExhaustive(c *eng.Ctx) {
	p := c.P
	_ = p
	c.Rule("EXHAUSTIVE", "pkg/timeutil.Interval{Type, Calculator}", func() {
		pk := p.Package("pkg/timeutil")
		if pk == nil {
			c.Undecided("pkg/timeutil not loaded")
		}
		its := constsOfType(pk, "IntervalType")
		if len(its) < 3 {
			c.Undecided("IntervalType constants not found")
		}
		tbl, ok := switchTable(pk, funcDecl(pk, "Calculator", "Interval"))
		if !ok {
			c.Undecided("Interval.Calculator switch not found")
		}
		var missing []string
		used := map[string]string{}
		for _, it := range its {
			if it == "Unknown" || strings.HasPrefix(it, "Unknown") {
				continue
			}
			if r, has := tbl[it]; has {
				if prev, dup := used[r]; dup {
					c.Check(false, "calculator-distinct:"+it, nil, nil, "each interval type has its own calculator", it+" shares "+r+" with "+prev)
				}
				used[r] = it
				c.Check(true, "calculator:"+it, nil, nil, "interval type "+it+" has a calculator ("+r+")", "")
			} else {
				missing = append(missing, it)
			}
		}
		def, hasDef := tbl["default"]
		_, defShared := used[def]
		c.Check(len(missing) == 0 || len(missing) == 1 && hasDef && def != "" && !defShared, "calculator:remaining-type-by-default", nil, nil,
			"at most one interval type is served by the default branch, which returns a calculator of its own", fmt.Sprintf("missing %v, default returns %q", missing, def))
	})
}

func rollupCommitBeforeClean(c *eng.Ctx) {
	p := c.P
	_ = p
	f := c.Fn(famT + ".rollup")
	var body *ssa.Function
	cands := append([]*ssa.Function{}, eng.Closures(f)...)
	for _, g := range eng.Closures(f) {
		for _, b := range g.Blocks {
			for _, in := range b.Instrs {
				// the goroutine body as a method: go f.backgroundRollupJob(...)
				if gi, ok := in.(*ssa.Go); ok {
					if callee := gi.Common().StaticCallee(); callee != nil && callee.Blocks != nil {
						cands = append(cands, eng.Closures(callee)...)
					}
				}
			}
		}
	}
	for _, cl := range cands {
		if len(p.SitesDirect(cl, invokeOn("", "doRollupWork"))) > 0 {
			body = cl
		}
	}
	if body == nil {
		// the per-target work moved into an unexported helper: the body is the function that commits the source's edit log and
		// reaches doRollupWork through that helper
		for _, cl := range cands {
			if len(p.SitesDirect(cl, eng.CallTo(famT+".commitEditLog"))) > 0 && len(p.Sites(cl, invokeOn("", "doRollupWork"))) > 0 {
				body = cl
			}
		}
	}
	if body == nil {
		c.Undecided("rollup goroutine body not found")
	}
	work := c.One(body, invokeOn("", "doRollupWork"), "targetFamily.doRollupWork")
	dl := c.Some(body, eng.CallTo("kv/version.CreateDeleteRollupFile"), "CreateDeleteRollupFile")
	for i, d := range dl {
		ok, why := eng.OkDominates(body, work.Instr, d.Instr)
		c.Check(ok, fmt.Sprintf("mark-done-only-on-success[%d]", i), d.Instr, body, "a source file is marked as rolled up for a target only when that target's work succeeded", why)
	}
	cm := c.One(body, eng.CallTo(famT+".commitEditLog"), "f.commitEditLog(editLog)")
	cl := c.Some(body, invokeOn("", "cleanReferenceFiles"), "targetFamily.cleanReferenceFiles")
	committed, _ := eng.BoolCheckEdges(body, cm.Instr.(ssa.Value))
	for i, x := range cl {
		_, unsure := eng.PathExists(eng.PathQuery{Fn: body, After: cm.Instr, Target: func(in ssa.Instruction) bool { return in == x.Instr }, Edge: eng.ForbidEdges(committed)})
		c.Check(len(committed) > 0 && !unsure, fmt.Sprintf("clean-only-after-the-source-commit-succeeded[%d]", i), x.Instr, body,
			"a target forgets its reference records only when the source family's commit of the delete-rollup records SUCCEEDED (commitEditLog reports failure as false): after a failed commit the source still lists the files as to-be-rolled-up, and without the reference records the next rollup merges them into the target a second time",
			"cleanReferenceFiles is reachable although commitEditLog returned false (its result is not tested)")
	}
	for i, x := range cl {
		c.Check(eng.DominatedBy(body, x.Instr, []eng.Site{cm}, nil), fmt.Sprintf("source-commit<clean-references[%d]", i), x.Instr, body,
			"the source family commits its delete-rollup records before any target forgets its reference records (otherwise a crash in between makes the next rollup merge the same files again)",
			"cleanReferenceFiles reachable before the source commit")
		_, back := eng.Reaches(body, x.Instr, []eng.Site{cm}, nil)
		c.Check(!back, fmt.Sprintf("no-commit-after-clean[%d]", i), x.Instr, body, "the source commit is not after the cleaning", "")
	}
	// only targets whose work succeeded are cleaned
	reg := p.Sites(body, func(p *eng.Prog, in ssa.Instruction) bool {
		mu, ok := in.(*ssa.MapUpdate)
		return ok && strings.Contains(mu.Map.Type().String(), "Family")
	})
	for i, r := range reg {
		ok, why := eng.OkDominates(body, work.Instr, r.Instr)
		c.Check(ok, fmt.Sprintf("clean-only-successful-targets[%d]", i), r.Instr, body, "a target is scheduled for reference cleaning only when its work succeeded", why)
	}
	cr := c.Fn(famT + ".cleanReferenceFiles")
	c.Check(len(p.Sites(cr, eng.CallTo("kv/version.CreateDeleteReferenceFile"))) == 1 && p.MustPass(cr, eng.CallTo(famT+".commitEditLog"), 0), "clean-is-one-commit", nil, cr, "cleaning records the delete-reference entries and commits them", "")
}

func referenceKeySymmetry(c *eng.Ctx) {
	p := c.P
	_ = p
	// the receiver of a call is the source family itself, or a helper's parameter that receives it
	recvIs := func(recv ssa.Value, src ssa.Value) bool {
		return recv == src || eng.DependsOn(recv, func(x ssa.Value) bool { return x == src })
	}
	isSrcID := func(v ssa.Value, src ssa.Value) bool {
		srcID := func(x ssa.Value) bool {
			cl, ok := x.(*ssa.Call)
			return ok && cl.Common().IsInvoke() && cl.Common().Method.Name() == "ID" && recvIs(cl.Common().Value, src)
		}
		otherID := func(x ssa.Value) bool {
			cl, ok := x.(*ssa.Call)
			if !ok {
				return false
			}
			name := ""
			if cl.Common().IsInvoke() {
				name = cl.Common().Method.Name()
			} else if g := cl.Common().StaticCallee(); g != nil {
				name = baseName(g.Name())
			}
			return name == "ID" && !recvIs(eng.CallRecv(cl), src)
		}
		// the id is ID() of the source family (directly, through a helper's parameter or a small struct) and of no other family
		return eng.DependsOn(v, srcID) && !eng.DependsOn(v, otherID)
	}
	fromSrcStore := func(v ssa.Value, src ssa.Value) bool {
		return eng.DependsOn(v, func(x ssa.Value) bool {
			cl, ok := x.(*ssa.Call)
			return ok && cl.Common().IsInvoke() && cl.Common().Method.Name() == "getStore" && recvIs(cl.Common().Value, src)
		})
	}
	w := c.Fn(famT + ".doRollupWork")
	src := ssa.Value(w.Params[1])
	live := c.One(w, invokeOn(".familyVersion", "GetLiveReferenceFiles"), "GetLiveReferenceFiles(sourceStore)")
	c.Check(fromSrcStore(eng.CallArgs(live.Instr.(*ssa.Call))[0], src), "lookup:store", live.Instr, w, "already-rolled-up files are looked up under the SOURCE store's name", "")
	nl := 0
	for _, b := range eng.BlocksT(w) {
		for _, in := range b.Instrs {
			if l, ok := in.(*ssa.Lookup); ok && eng.DependsOn(l.X, func(x ssa.Value) bool { return x == live.Instr.(ssa.Value) }) {
				nl++
				c.Check(isSrcID(l.Index, src), fmt.Sprintf("lookup:family-id[%d]", nl), l, w, "… and under the SOURCE family's id", "index "+p.Desc(l.Index))
			}
		}
	}
	c.Check(nl == 1, "lookup:found", live.Instr, w, "the live references are indexed once", fmt.Sprintf("%d", nl))
	for i, r := range c.Some(w, eng.CallTo("kv/version.CreateNewReferenceFile"), "CreateNewReferenceFile") {
		a := eng.CallArgs(r.Instr.(*ssa.Call))
		c.Check(fromSrcStore(a[0], src) && isSrcID(a[1], src), fmt.Sprintf("write:key[%d]", i), r.Instr, w,
			"the reference is recorded under (source store, source family id): the key the next rollup looks it up by and cleanReferenceFiles deletes it by", "records ("+p.Desc(a[0])+", "+p.Desc(a[1])+")")
	}
	cr := c.Fn(famT + ".cleanReferenceFiles")
	csrc := ssa.Value(cr.Params[1])
	for i, r := range c.Some(cr, eng.CallTo("kv/version.CreateDeleteReferenceFile"), "CreateDeleteReferenceFile") {
		a := eng.CallArgs(r.Instr.(*ssa.Call))
		c.Check(fromSrcStore(a[0], csrc) && isSrcID(a[1], csrc), fmt.Sprintf("delete:key[%d]", i), r.Instr, cr, "the reference is deleted under (source store, source family id)", "deletes ("+p.Desc(a[0])+", "+p.Desc(a[1])+")")
	}
	// one spelling of the store key on all three sides (look-up, record, delete): the source store's full name and its last path
	// segment both "derive from the source store"; a look-up under one and a record under the other never meet
	norm := func(v ssa.Value, fn *ssa.Function) string {
		d := p.DescUp(eng.Unwrap(eng.UpParam(v)))
		for _, pr := range fn.Params {
			d = strings.ReplaceAll(d, pr.Name()+".", "$.")
		}
		return d
	}
	lookupKey := norm(eng.CallArgs(live.Instr.(*ssa.Call))[0], w)
	for i, r := range p.Sites(w, eng.CallTo("kv/version.CreateNewReferenceFile")) {
		k := norm(eng.CallArgs(r.Instr.(*ssa.Call))[0], w)
		c.Check(k == lookupKey, fmt.Sprintf("same-store-key:record[%d]", i), r.Instr, w, "the reference is recorded under the very store key it is looked up by", "look-up key "+lookupKey+", record key "+k)
	}
	for i, r := range p.Sites(cr, eng.CallTo("kv/version.CreateDeleteReferenceFile")) {
		k := norm(eng.CallArgs(r.Instr.(*ssa.Call))[0], cr)
		c.Check(k == lookupKey, fmt.Sprintf("same-store-key:delete[%d]", i), r.Instr, cr, "the reference is deleted under the very store key it is looked up by", "look-up key "+lookupKey+", delete key "+k)
	}
}

// commitResultExamined (F43, shared by C04 and C01): family.commitEditLog reports a failed manifest commit as `false`. Wherever the
// edit log carries the OUTPUT of a job (flush, compaction, rollup), the caller must see the failure, otherwise the job is reported
// done: the rollup source then deletes its needs-rollup marks (and later the files) although the target never got the data.
func commitResultExamined(c *eng.Ctx) {
	p := c.P
	exempt := map[string]string{
		"kv.compactJob.moveCompaction":  "metadata-only move of one file to the next level: a failed commit leaves the file where it was",
		"kv.family.cleanReferenceFiles": "a failed clean keeps the reference marks: the source files stay known as rolled up (the safe side)",
	}
	n := 0
	for _, fn := range p.FuncsWithPrefix("kv.") {
		for _, s := range p.SitesDirect(fn, eng.AnyCallTo("kv.family.commitEditLog", "kv.Family.commitEditLog")) {
			n++
			k := topFunc(c, fn)
			if why, ok := exempt[k]; ok {
				c.Check(true, "exempt@"+k, s.Instr, fn, "the result of this commit need not be examined: "+why, "")
				continue
			}
			// the trivial move written in place in its caller: the commit lies under the IsTrivialMove() test
			conds, _ := eng.GuardingConds(fn, s.Instr)
			trivial := false
			for _, cd := range conds {
				if eng.DependsOn(cd, func(x ssa.Value) bool {
					cl, ok := x.(*ssa.Call)
					if !ok {
						return false
					}
					if cl.Common().IsInvoke() {
						return cl.Common().Method.Name() == "IsTrivialMove"
					}
					g := cl.Common().StaticCallee()
					return g != nil && baseName(g.Name()) == "IsTrivialMove"
				}) {
					trivial = true
				}
			}
			if trivial {
				c.Check(true, "exempt@"+k+":trivial-move", s.Instr, fn, "the result of this commit need not be examined: "+exempt["kv.compactJob.moveCompaction"], "")
				continue
			}
			v := s.Instr.(ssa.Value)
			used := v.Referrers() != nil && len(*v.Referrers()) > 0
			c.Check(used, "result-examined@"+k, s.Instr, fn,
				"the outcome of the manifest commit that installs a job's output is examined and reaches the job's caller", "the boolean result of commitEditLog is discarded")
			if used && fn.Signature.Results().Len() > 0 {
				// … and a failure is reported: some return of the function is reachable only on the `false` edge
				_, fe := eng.BoolCheckEdges(fn, v)
				c.Check(len(fe) > 0 || returnsValue(fn, v), "failure-reported@"+k, s.Instr, fn, "a failed commit is turned into the function's failing result", "")
			}
		}
	}
	c.Check(n >= 4, "commit-sites-found", nil, nil, "flush, compaction and rollup commit through family.commitEditLog", fmt.Sprintf("%d sites", n))
	// the compaction job hands the failure on
	mc := c.Fn("kv.compactJob.mergeCompaction")
	for i, s := range c.Some(mc, eng.CallTo("kv.compactJob.installCompactionResults"), "installCompactionResults()") {
		v, isVal := s.Instr.(ssa.Value)
		used := isVal && v.Referrers() != nil && len(*v.Referrers()) > 0
		c.Check(used, fmt.Sprintf("install-result-propagated[%d]", i), s.Instr, mc, "mergeCompaction returns the failure of installing its results", "installCompactionResults' outcome is not looked at")
	}
}

func returnsValue(fn *ssa.Function, v ssa.Value) bool {
	for _, b := range fn.Blocks {
		if r, ok := b.Instrs[len(b.Instrs)-1].(*ssa.Return); ok {
			for _, res := range r.Results {
				if eng.DependsOn(res, func(x ssa.Value) bool { return x == v }) {
					return true
				}
			}
		}
	}
	return false
}
