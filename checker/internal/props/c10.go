package props

import (
	"fmt"
	"go/ast"
	"go/constant"
	"go/token"
	"go/types"
	"sort"
	"strings"

	"golang.org/x/tools/go/packages"
	"golang.org/x/tools/go/ssa"

	"lincheck/internal/eng"
)

func init() {
	register(eng.Property{
		ID:    "C10",
		Title: "Tag filtering through the index equals evaluating the predicate on every series",
		Explanation: "Decides structural conditions of index-based filtering: the two condition walkers (value lookup, series filtering) have a case for every expression kind a condition can contain and agree with each other; " +
			"the dictionary lookup has a case for every tag-filter kind; AND intersects and anything else accepted unions, unknown operators are rejected; NOT subtracts from the series that have the tag key; every index read " +
			"(postings, forward index, dictionaries, schema) consults the mutable store, the immutable store AND the persisted store on every success path — so entries are visible whether in memory, being flushed or flushed; " +
			"the dictionary's bucket cache is purged in the same write hold that installs the new snapshot; a merge accumulator of the forward index is reset between two emitted containers.",
		NotDecided: "set equality of results, trie/regex/like matching, group-by values, the cumulative container table of the forward reader (numeric).",
		MinObls:    40,
		Run:        runC10,
	})
}

// typeSwitchCases lists the case types of the first type switch in a function.
func typeSwitchCases(pk *packages.Package, fd *ast.FuncDecl) ([]string, bool) {
	var ts *ast.TypeSwitchStmt
	ast.Inspect(fd.Body, func(n ast.Node) bool {
		if t, ok := n.(*ast.TypeSwitchStmt); ok && ts == nil {
			ts = t
		}
		return true
	})
	if ts == nil {
		return nil, false
	}
	var out []string
	for _, st := range ts.Body.List {
		for _, e := range st.(*ast.CaseClause).List {
			t := pk.TypesInfo.TypeOf(e)
			if t == nil {
				continue
			}
			if n := namedOf(t); n != nil {
				out = append(out, n.Obj().Name())
			}
		}
	}
	sort.Strings(out)
	return out, true
}

// bufferCycle: an accumulate buffer held in a field must be reset between an emit (a call consuming it)
// and the next growth, and before its first growth in the function.
func bufferCycle(c *eng.Ctx, fn *ssa.Function, fieldKey string, emit eng.Matcher, emitName string) {
	p := c.P
	var grows, resets []eng.Site
	for _, s := range p.Sites(fn, eng.StoreField(fieldKey)) {
		st, ok := s.Instr.(*ssa.Store)
		if !ok {
			continue
		}
		if sl, ok := st.Val.(*ssa.Slice); ok && sl.High != nil {
			if n, ok := eng.ConstInt(sl.High); ok && n == 0 {
				resets = append(resets, s)
				continue
			}
		}
		grows = append(grows, s)
	}
	emits := p.Sites(fn, emit)
	if len(grows) == 0 || len(resets) == 0 || len(emits) == 0 {
		c.Undecided("buffer %s in %s: %d growth sites, %d resets, %d emits", fieldKey, p.FuncKey(fn), len(grows), len(resets), len(emits))
	}
	for i, e := range emits {
		_, stale := eng.Reaches(fn, e.Instr, grows, resets)
		c.Check(!stale, fmt.Sprintf("reset-between-emits[%d]", i), e.Instr, fn,
			"after "+emitName+" consumed the accumulator it is reset before it grows again (the next emitted block must not start with the previous block's entries)", "a path from the emit to the next growth skips the reset")
	}
	for i, g := range grows {
		c.Check(eng.DominatedBy(fn, g.Instr, resets, nil), fmt.Sprintf("reset-before-first-growth[%d]", i), g.Instr, fn, "the accumulator is reset before it first grows in this call (the object is re-used across calls)", "")
	}
}

func runC10(c *eng.Ctx) {
	p := c.P
	c.Rule("ORDER", "index.metricMetaDatabase.Flush{counters<dictionaries}", func() { metaFlushCountersFirst(c) }) // C10-m21: shared with C09/C07
	lookupMissIsFinalOnlyOnCurrentSnapshot(c)
	cachedBucketIsNotRecycled(c)
	forwardEntryIsFresh(c)
	dictionaryKeysOwnTheirMemory(c)
	c.Rule("ORDER", midT+".Flush{postings<series-dictionary}", func() { indexFlushSeriesLast(c) })

	// ---- 1. walkers exhaustive and in agreement -----------------------------------------------------------------------------
	c.Rule("EXHAUSTIVE", "query/operator{condition walkers}", func() {
		op := p.Package("query/operator")
		ix := p.Package("index")
		if op == nil || ix == nil {
			c.Undecided("packages not loaded")
		}
		// the kinds a walker distinguishes: the types its expression parameter is tested against (type switch or
		// comma-ok assertions alike)
		a := assertedKinds(c.Fn("query/operator.tagValuesLookup.findTagValueIDsByExpr"), 1)
		b := assertedKinds(c.Fn("query/operator.seriesFiltering.findSeriesIDsByExpr"), 1)
		if len(a) == 0 || len(b) == 0 {
			c.Undecided("walker type tests not found")
		}
		want := []string{"BinaryExpr", "NotExpr", "ParenExpr", "TagFilter"}
		for _, k := range want {
			c.Check(inList(k, a), "lookup-walker:"+k, nil, nil, "the tag value lookup walker handles "+k, fmt.Sprint(a))
			c.Check(inList(k, b), "filter-walker:"+k, nil, nil, "the series filtering walker handles "+k, fmt.Sprint(b))
		}
		c.Check(strings.Join(a, ",") == strings.Join(b, ","), "walkers-agree", nil, nil, "both walkers handle exactly the same expression kinds (a condition the lookup prepared is a condition the filter evaluates)", fmt.Sprintf("%v vs %v", a, b))
		// every TagFilter implementer has a case in the dictionary lookup
		tf := p.LookupType("sql/stmt", "TagFilter")
		if tf == nil {
			c.Undecided("stmt.TagFilter not found")
		}
		cases := assertedKinds(c.Fn("index.indexKVStore.FindValuesByExpr"), 2)
		if len(cases) == 0 {
			c.Undecided("FindValuesByExpr type tests not found")
		}
		sp := p.Package("sql/stmt")
		n := 0
		for _, name := range sp.Types.Scope().Names() {
			tn, ok := sp.Types.Scope().Lookup(name).(*types.TypeName)
			if !ok {
				continue
			}
			if _, isI := tn.Type().Underlying().(*types.Interface); isI {
				continue
			}
			if types.Implements(types.NewPointer(tn.Type()), tf.Underlying().(*types.Interface)) {
				n++
				c.Check(inList(name, cases), "dictionary-lookup:"+name, nil, nil, "the dictionary lookup handles tag filter kind "+name+" (otherwise the filter silently selects nothing)", fmt.Sprint(cases))
			}
		}
		if n < 4 {
			c.Undecided("expected >= 4 TagFilter kinds, found %d", n)
		}
	})

	// ---- 2b'. flush life cycle of the memory stores (shared with C09): nothing is dropped from memory before it is on disk -------
	flushLifecycleRules(c)

	// ---- 2c. an atom that matches no value is an empty set, never a failure of the whole condition ---------------------------------
	c.Rule("ERRFLOW", "index.metricMetaDatabase{empty match is not an error}", func() { emptyMatchIsNotAnError(c) })

	// ---- 3. boolean structure ---------------------------------------------------------------------------------------------------
	c.Rule("GUARD", "query/operator.seriesFiltering.findSeriesIDsByExpr{and/or/not}", func() {
		f := c.Fn("query/operator.seriesFiltering.findSeriesIDsByExpr")
		facts := p.MustFacts(f)
		and := c.One(f, eng.AnyCallTo("github.com/lindb/roaring.Bitmap.And"), "left.And(right)")
		or := c.One(f, eng.AnyCallTo("github.com/lindb/roaring.Bitmap.Or"), "left.Or(right)")
		andC := constOf(c, "sql/stmt", "AND")
		isAnd := func(d string, _ ssa.Value) bool { return d == fmt.Sprint(andC) }
		fa := facts.Find(facts.At(and.Instr), "eq", eng.DescSuffix(".Operator"), isAnd)
		fo := facts.Find(facts.At(or.Instr), "ne", eng.DescSuffix(".Operator"), isAnd)
		c.Check(len(fa) > 0, "and-intersects", and.Instr, f, "the AND operator intersects the operand series sets", "")
		c.Check(len(fo) > 0, "otherwise-unions", or.Instr, f, "any other (accepted) operator unions them", "")
		for _, s := range []eng.Site{and, or} {
			cl := s.Instr.(*ssa.Call)
			l, r := eng.CallRecv(cl), eng.CallArgs(cl)[0]
			c.Check(strings.Contains(p.Desc(l), ".Left") && strings.Contains(p.Desc(r), ".Right"), "operands:"+shortInstr(p, s.Instr), s.Instr, f, "the operands are the results for the left and the right sub-expression", p.Desc(l)+" / "+p.Desc(r))
		}
		an := c.One(f, eng.AnyCallTo("github.com/lindb/roaring.Bitmap.AndNot"), "all.AndNot(matchResult)")
		all := c.One(f, invokeOn(".indexDB", "GetSeriesIDsForTag"), "indexDB.GetSeriesIDsForTag(tagKey)")
		cl := an.Instr.(*ssa.Call)
		c.Check(eng.DerivesFromCall(eng.CallRecv(cl), all.Instr.(ssa.Value), 0) && strings.Contains(p.Desc(eng.CallArgs(cl)[0]), "findSeriesIDsByExpr("), "not-subtracts-from-key-universe", an.Instr, f,
			"NOT removes the matching series from the series that carry that tag key", "")
		okd, why := eng.OkDominates(f, all.Instr, an.Instr)
		c.Check(okd, "universe-read-ok", an.Instr, f, "and only when that universe was read successfully", why)
		// the universe is that of the operand's tag key: the key travels up from the atomic filter
		uk := eng.CallArgs(all.Instr.(*ssa.Call))[0]
		c.Check(eng.DependsOn(uk, func(x ssa.Value) bool {
			cl, ok := x.(*ssa.Call)
			return ok && cl.Common().StaticCallee() == f
		}), "universe-key-from-operand", all.Instr, f, "the universe of NOT is read for the tag key the operand reported", "key "+p.Desc(uk))
		// the atomic-filter lookup: the helper getSeriesIDsByExpr, or its body written in place in the walker
		gs := p.Func("query/operator.seriesFiltering.getSeriesIDsByExpr")
		inline := gs == nil
		if inline {
			gs = f
		}
		var tv *ssa.Lookup
		for _, b := range eng.BlocksT(gs) {
			for _, in := range b.Instrs {
				if l, ok := in.(*ssa.Lookup); ok && eng.DependsOnField(l.X, "flow.StorageExecuteContext.TagFilterResult") {
					tv = l
				}
			}
		}
		if tv == nil {
			c.Undecided("TagFilterResult lookup not found in getSeriesIDsByExpr")
		}
		fromTV := func(v ssa.Value, field string) bool {
			return eng.DependsOnField(v, "flow.TagFilterResult."+field) && eng.DependsOn(v, func(x ssa.Value) bool { return x == ssa.Value(tv) })
		}
		bys := c.One(gs, invokeOn(".indexDB", "GetSeriesIDsByTagValueIDs"), "indexDB.GetSeriesIDsByTagValueIDs(key, values)")
		if !inline {
			tfc := c.One(f, eng.CallTo("query/operator.seriesFiltering.getSeriesIDsByExpr"), "op.getSeriesIDsByExpr(expr)")
			for i, r := range eng.SuccessReturns(f) {
				rv1 := eng.RetVal(r, 1)
				if eng.DependsOn(rv1, func(x ssa.Value) bool { return x == tfc.Instr.(ssa.Value) }) {
					// the key comes out of the helper call: its first result, or (on the helper's failing exit, where that result is 0) the constant 0
					k0 := eng.RetVal(r, 0)
					_, isZero := eng.ConstInt(k0)
					c.Check(isZero || eng.DependsOn(k0, func(x ssa.Value) bool { return extractIs(x, tfc.Instr.(ssa.Value), 0) }), fmt.Sprintf("atomic-filter-reports-its-key[%d]", i), r, f,
						"the atomic-filter case hands its tag key up together with its series", "returns key "+p.Desc(k0))
				}
			}
		}
		ns := 0
		for i, r := range eng.SuccessReturns(gs) {
			if inline && !eng.DependsOn(eng.RetVal(r, 1), func(x ssa.Value) bool { return x == bys.Instr.(ssa.Value) }) {
				continue // a return of the walker that does not hand up an atom's posting lists
			}
			ns++
			c.Check(fromTV(eng.RetVal(r, 0), "TagKeyID"), fmt.Sprintf("filter-key-is-the-looked-up-key[%d]", i), r, gs,
				"every successful answer of an atomic filter carries the tag key id of its lookup result (NOT needs it also when nothing matched)", "returns "+p.Desc(eng.RetVal(r, 0)))
		}
		c.Check(ns >= 1, "filter-success-exit", nil, gs, "getSeriesIDsByExpr has a success exit", "")
		ba := eng.CallArgs(bys.Instr.(*ssa.Call))
		c.Check(fromTV(ba[0], "TagKeyID") && fromTV(ba[1], "TagValueIDs"), "postings-of-the-looked-up-values", bys.Instr, gs, "the posting lists read are those of the looked-up key and value ids", p.Desc(ba[0])+", "+p.Desc(ba[1]))
		tl := c.Fn("query/operator.tagValuesLookup.findTagValueIDsByExpr")
		f2 := p.MustFacts(tl)
		orC := constOf(c, "sql/stmt", "OR")
		rec := p.Sites(tl, eng.CallTo("query/operator.tagValuesLookup.findTagValueIDsByExpr"))
		n := 0
		for _, s := range rec {
			a := eng.CallArgs(s.Instr.(*ssa.Call))[0]
			if !strings.Contains(p.Desc(a), ".Left") && !strings.Contains(p.Desc(a), ".Right") {
				continue
			}
			n++
			// reachable only when Operator is AND or OR: the rejecting edge (ne AND && ne OR) must not lead here
			rej := eng.EdgesWithFact(tl, func(ft eng.Fact) bool {
				return ft.Op == "ne" && ft.Y != nil && strings.HasSuffix(p.Desc(ft.X), ".Operator") && p.Desc(ft.Y) == fmt.Sprint(orC)
			})
			bad := false
			for _, e := range rej {
				// the edge where Operator != OR taken after Operator != AND
				fs := f2.EdgeFactsFor(e.B, e.B.Succs[e.Succ])
				if len(f2.Find(fs, "ne", eng.DescSuffix(".Operator"), isAnd)) > 0 {
					first := e.B.Succs[e.Succ].Instrs[0]
					if _, ok := eng.PathExists(eng.PathQuery{Fn: tl, After: first, Target: func(in ssa.Instruction) bool { return in == s.Instr }}); ok || first == s.Instr {
						bad = true
					}
				}
			}
			c.Check(len(rej) > 0 && !bad, fmt.Sprintf("unknown-operator-rejected[%d]", n), s.Instr, tl, "operands are looked up only for AND / OR; any other operator is an error", "")
		}
		if n < 2 {
			c.Undecided("binary operand recursion not found in tagValuesLookup")
		}
	})

	// ---- 2. every index read unions memory and persisted data --------------------------------------------------------------------------
	c.Rule("UNION", "index{memory ∪ immutable ∪ persisted}", func() {
		type rd struct {
			fn        string
			mem       eng.Matcher // the memory part (a helper call or direct reads)
			memName   string
			persisted eng.Matcher
			perName   string
			typ       string // struct whose mutable/immutable fields must be read (deep)
		}
		kvs := kvsT
		// a persisted bucket comes from a reader over the snapshot or out of the bucket cache (same content: the cache is purged with every snapshot change)
		bucketRead := eng.Any(invokeOn("", "GetBucket"), invokeOnGeneric(".bucketCache", "Get"))
		reads := []rd{
			{"index.invertedIndex.getSeriesIDs", eng.CallTo("index.invertedIndex.findSeriesIDsByKeyFromMem"), "findSeriesIDsByKeyFromMem", invokeOn("", "Load"), "snapshot.Load", "index.invertedIndex"},
			{"index.invertedIndex.findSeriesIDsByKeys", eng.CallTo("index.invertedIndex.findSeriesIDsByKeyFromMem"), "findSeriesIDsByKeyFromMem", invokeOn("", "Load"), "snapshot.Load", "index.invertedIndex"},
			{"index.forwardIndex.findSeriesIDsForTag", eng.CallTo("index.forwardIndex.loadSeriesIDsInMem"), "loadSeriesIDsInMem", invokeOn("", "FindReaders"), "snapshot.FindReaders", "index.forwardIndex"},
			{"index.forwardIndex.GetGroupingContext", eng.CallTo("index.forwardIndex.loadSeriesIDsInMem"), "loadSeriesIDsInMem", invokeOn("", "FindReaders"), "snapshot.FindReaders", "index.forwardIndex"},
			{kvs + ".GetValues", eng.CallTo(kvs + ".getValuesFromMem"), "getValuesFromMem", bucketRead, "reader.GetBucket / bucketCache.Get", kvs},
			{kvs + ".findValue", eng.CallTo(kvs + ".GetValue"), "GetValue -> getOrCreateValue (memory+persisted lookup, C09)", eng.CallTo(kvs + ".GetValue"), "GetValue", ""},
			{kvs + ".FindValuesByRegexp", eng.CallTo(kvs + ".findValuesByRegexp"), "findValuesByRegexp(mem)", bucketRead, "reader.GetBucket / bucketCache.Get", kvs},
			{kvs + ".findValuesByLike", eng.CallTo(kvs + ".findValuesByLikeFormMem"), "findValuesByLikeFormMem", bucketRead, "reader.GetBucket / bucketCache.Get", kvs},
			{kvs + ".CollectKVs", nil, "direct reads", bucketRead, "reader.GetBucket / bucketCache.Get", kvs},
			{kvs + ".Suggest", nil, "direct reads", bucketRead, "reader.GetBucket / bucketCache.Get", kvs},
			{mssT + ".GetSchema", eng.CallTo(mssT + ".getSchemaFromMem"), "getSchemaFromMem", eng.CallTo(mssT + ".getSchemaFromKV"), "getSchemaFromKV", mssT},
		}
		for _, r := range reads {
			f := p.Func(r.fn)
			if f == nil {
				c.Check(false, "reader:"+r.fn, nil, nil, "index read "+r.fn+" exists", "function not found")
				continue
			}
			// persisted part on every success path (unless an earlier tier already answered: GetSchema returns on a hit)
			per := p.SitesInl(f, r.persisted)
			c.Check(len(per) > 0, "persisted:"+r.fn, nil, f, r.fn+" consults the persisted store ("+r.perName+")", "no "+r.perName+" call")
			if r.mem != nil {
				ms := p.SitesInl(f, r.mem)
				c.Check(len(ms) > 0, "memory:"+r.fn, nil, f, r.fn+" consults the memory stores ("+r.memName+")", "no "+r.memName+" call")
				// neither part may be skipped on a path that returns a (possibly empty) success, except after a hit
				if len(ms) > 0 && len(per) > 0 && !strings.HasSuffix(r.fn, ".GetSchema") && !strings.HasSuffix(r.fn, ".findValue") {
					for i, ret := range eng.SuccessReturns(f) {
						okM := eng.DominatedBy(f, ret, ms, nil)
						okP := eng.DominatedBy(f, ret, per, nil)
						if !okM && !okP {
							// both parts run once per requested key: each sits in a loop over an iterator of the same key set
							overKeys := func(sites []eng.Site) bool {
								for _, st := range sites {
									cds, _ := eng.GuardingConds(f, st.Instr)
									for _, cd := range cds {
										if eng.DependsOn(cd, func(x ssa.Value) bool {
											cl, ok := x.(*ssa.Call)
											if !ok {
												return false
											}
											callee := cl.Common().StaticCallee()
											return callee != nil && baseName(callee.Name()) == "Iterator" && len(cl.Common().Args) > 0 && len(f.Params) > 1 && cl.Common().Args[0] == ssa.Value(f.Params[1])
										}) || eng.DependsOnField(cd, "flow.StorageExecuteContext.GroupByTagKeyIDs") {
											return true
										}
									}
								}
								return false
							}
							if overKeys(ms) && overKeys(per) {
								okM, okP = true, true
							}
						}
						c.Check(okM && okP, fmt.Sprintf("both-on-every-success-path:%s[%d]", r.fn, i), ret, f, "no success return of "+r.fn+" skips the memory part or the persisted part", fmt.Sprintf("memory %v persisted %v", okM, okP))
					}
				}
			}
			if r.typ != "" {
				for _, fld := range []string{"mutable", "immutable"} {
					deep := p.DeepSites(f, eng.TouchField(r.typ+"."+fld), 3, false)
					// closures (e.g. getValue := func(mem)) receive the field value as an argument: also accept a load in the function that builds the closure call
					c.Check(len(deep) > 0, fmt.Sprintf("reads-%s:%s", fld, r.fn), nil, f, r.fn+" reads the "+fld+" store", "no read of "+r.typ+"."+fld+" within three call levels")
				}
			}
		}
		// memory helpers read under the lock
		for _, h := range []struct{ fn, mu string }{
			{"index.invertedIndex.findSeriesIDsByKeyFromMem", "index.invertedIndex.lock"},
			{"index.forwardIndex.loadSeriesIDsInMem", "index.forwardIndex.lock"},
			{mssT + ".getSchemaFromMem", mssMu},
		} {
			f := c.Fn(h.fn)
			ls := p.Locks(f, nil)
			typ := h.mu[:strings.LastIndex(h.mu, ".")]
			for _, fld := range []string{"mutable", "immutable"} {
				for i, s := range p.Sites(f, eng.LoadField(typ+"."+fld)) {
					c.Check(ls.At(s.Instr).HasField(h.mu, false), fmt.Sprintf("locked:%s:%s[%d]", h.fn, fld, i), s.Instr, f, "the "+fld+" store is read under the store's lock", "")
				}
			}
		}
	})

	// ---- 2b. memory is read BEFORE the snapshot is picked (entries only move memory -> kv store; F9/F11) ------------------------------
	c.Rule("UNION", "flow.groupingContext.scanGroupingTags{every scanner of every tag key}", func() {
		f := c.Fn("flow.groupingContext.scanGroupingTags")
		c.One(f, invokeOn("", "GetSeriesAndTagValue"), "scanner.GetSeriesAndTagValue(highKey)")
		visitsEveryElement(c, f, "no-scanner-skipped",
			"group-by resolution asks every grouping scanner (mutable, immutable, each forward-index file) of every tag key; a scanner without the container is skipped, not the end of the scan")
	})

	c.Rule("GOC", "index.indexKVStore.createValue", func() { gocCreateValue(c) })

	c.Rule("LAYOUT", "index/v1.tagForwardReader{run of container i starts after the runs of all containers before it}", func() { forwardLookupTable(c) })
	c.Rule("PASS", "index.forwardIndex.GetGroupingContext{intersection per group-by tag key}", func() { groupingIntersectsPerTagKey(c) })
	// the condition walker combines the sets of its atoms IN PLACE (left.And(right) / left.Or(right)); every atom therefore gets a set of
	// its own from the index, never one that is kept and handed out again
	everyAtomGetsItsOwnSet(c)

	c.Rule("SYMMETRY", "index{regex lookup: persisted candidates = all keys unless the expression is anchored}", func() { regexCandidates(c) })
	c.Rule("GUARD", "index.indexKVStore.FindValuesByLike{no pattern slices out of range}", func() { likePatternSlices(c) })

	cachedBucketNotReleasedByReader(c)

	c.Rule("UNION", "index.forwardIndex.loadSeriesIDsInMem{mutable and immutable store both consulted}", func() {
		f := c.Fn("index.forwardIndex.loadSeriesIDsInMem")
		for _, fld := range []string{"mutable", "immutable"} {
			c.Check(p.MustPass(f, eng.LoadField("index.forwardIndex."+fld), 1) || mustPassT(p, f, eng.LoadField("index.forwardIndex."+fld)), "reads:"+fld, nil, f,
				"every call reads the "+fld+" store: the series of a tag key are the UNION of both memory stores (a hit in the mutable store says nothing about the store being flushed)",
				"a path returns without reading fi."+fld)
		}
	})

	c.Rule("SYMMETRY", "query/operator{atomic filter results are keyed injectively, same key on both sides}", func() {
		// injective encoders of a tag filter (a table): stmt.Marshal writes typed JSON with escaping.  Expr.Rewrite is a plain
		// concatenation — "host in (a,b)" for both in('a,b') and in('a','b'), "host=~a" for both = '~a' and =~ 'a' — and is not.
		injective := []string{"sql/stmt.Marshal"}
		w := c.Fn("query/operator.tagValuesLookup.findTagValueIDsByExpr")
		r := p.Func("query/operator.seriesFiltering.getSeriesIDsByExpr")
		if r == nil {
			r = c.Fn("query/operator.seriesFiltering.findSeriesIDsByExpr")
		}
		var keys []ssa.Value
		var at []ssa.Instruction
		for _, b := range eng.BlocksT(w) {
			for _, in := range b.Instrs {
				if mu, ok := in.(*ssa.MapUpdate); ok && eng.DependsOnField(mu.Map, "flow.StorageExecuteContext.TagFilterResult") {
					keys = append(keys, mu.Key)
					at = append(at, in)
				}
			}
		}
		nW := len(keys)
		for _, b := range eng.BlocksT(r) {
			for _, in := range b.Instrs {
				if l, ok := in.(*ssa.Lookup); ok && eng.DependsOnField(l.X, "flow.StorageExecuteContext.TagFilterResult") {
					keys = append(keys, l.Index)
					at = append(at, in)
				}
			}
		}
		c.Check(nW > 0 && len(keys) > nW, "both-sides-found", nil, nil, "the lookup stage stores and the filtering stage reads TagFilterResult", fmt.Sprintf("%d writes, %d reads", nW, len(keys)-nW))
		enc := func(k ssa.Value) string {
			name := ""
			eng.WalkExpr(k, func(x ssa.Value) bool {
				if cl, ok := x.(*ssa.Call); ok && name == "" {
					ks := p.CalleeKeys(cl)
					if len(ks) > 0 && !strings.HasPrefix(ks[0], "builtin:") {
						name = ks[0]
					}
				}
				return true
			})
			return name
		}
		first := ""
		for i, k := range keys {
			e := enc(k)
			if i == 0 {
				first = e
			}
			side := "store"
			if i >= nW {
				side = "read"
			}
			c.Check(inList(e, injective), fmt.Sprintf("injective-key:%s[%d]", side, i), at[i], at[i].Parent(),
				"the key of an atomic filter's result distinguishes every two different filters (built by an encoder from the injective table): two atoms of one condition that share a key share a result, and the selected series differ from evaluating the condition",
				"the key is built by "+e)
			c.Check(e == first, fmt.Sprintf("same-encoder-on-both-sides[%d]", i), at[i], at[i].Parent(), "store and read build the key the same way", e+" vs "+first)
		}
	})

	c.Rule("ORDER", "index{memory read < snapshot}", func() {
		// the dictionary store picks its snapshot through getSnapshot(), or reads s.snapshot in place (under the read lock)
		kvSnap := func(p *eng.Prog, in ssa.Instruction) bool {
			if eng.CallTo(kvsT+".getSnapshot")(p, in) {
				return true
			}
			return eng.LoadField(kvsT+".snapshot")(p, in) && in.Parent() != nil && p.FuncKey(in.Parent()) != kvsT+".getSnapshot"
		}
		memoryBeforeSnapshot(c, []orderedReader{
			{"index.invertedIndex.getSeriesIDs", "index.invertedIndex", invokeOn(".family", "GetSnapshot"), true},
			{"index.invertedIndex.findSeriesIDsByKeys", "index.invertedIndex", invokeOn(".family", "GetSnapshot"), true},
			{"index.forwardIndex.findSeriesIDsForTag", "index.forwardIndex", invokeOn(".family", "GetSnapshot"), true},
			{"index.forwardIndex.GetGroupingContext", "index.forwardIndex", invokeOn(".family", "GetSnapshot"), true},
			{kvsT + ".GetValues", kvsT, kvSnap, true},
			{kvsT + ".FindValuesByRegexp", kvsT, kvSnap, true},
			{kvsT + ".findValuesByLike", kvsT, kvSnap, true},
			{kvsT + ".CollectKVs", kvsT, kvSnap, true},
		})
		c.Observe("indexKVStore.Suggest (metadata suggestions, not a tag filter) still picks the snapshot before reading memory — outside C10, noticed")
	})

	// ---- cache coherence with the snapshot ---------------------------------------------------------------------------------------------
	// ---- group by: resolving value ids to names scans the persisted dictionary until the REQUESTED ids are exhausted -----------------
	// (indexKVStore.CollectKVs fills the result map from the memory stores first and passes the remaining ids: the size of the
	// result says nothing about how many of the remaining ids were found)
	c.Rule("GUARD", "index/model.TrieBucket.CollectKVs{the scan ends on the requested ids only}", func() {
		f := c.Fn("index/model.TrieBucket.CollectKVs")
		if len(f.Params) < 3 {
			c.Undecided("unresolved anchor: CollectKVs(values, result)")
		}
		values, result := ssa.Value(f.Params[1]), ssa.Value(f.Params[2])
		exits := eng.EarlyLoopExits(f)
		n := 0
		for i, e := range exits {
			if len(e.From.Instrs) == 0 {
				continue
			}
			n++
			at := e.From.Instrs[len(e.From.Instrs)-1]
			if e.To != nil && len(e.To.Instrs) > 0 {
				at = e.To.Instrs[0]
			}
			conds, _ := eng.GuardingConds(f, at)
			onResult, onValues := "", false
			for _, cd := range conds {
				if eng.DependsOn(cd, func(x ssa.Value) bool { return x == result }) {
					onResult = p.Desc(cd)
				}
				if eng.DependsOn(cd, func(x ssa.Value) bool { return x == values }) {
					onValues = true
				}
			}
			c.Check(onResult == "" && onValues, fmt.Sprintf("early-exit-decided-by-the-requested-ids[%d]", i), at, f,
				"the scan of the persisted dictionary stops early only because of the requested id set (ids found are removed from it), never because of the size of the result map the caller pre-filled", "exit conditional on "+onResult)
		}
		c.Check(true, "scan-exits", nil, f, fmt.Sprintf("%d early exit(s) examined", n), "")
	})

	kvStoreFlushSnapshotThenPurge(c)

	// ---- merge accumulators ------------------------------------------------------------------------------------------------------------------
	c.Rule("RESET", "index/v1.forwardIndexMerger.Merge{tagValueIDs per container}", func() {
		f := c.Fn("index/v1.forwardIndexMerger.Merge")
		bufferCycle(c, f, "index/v1.forwardIndexMerger.tagValueIDs", invokeOn(".flusher", "WriteTagValueIDs"), "flusher.WriteTagValueIDs")
		bufferCycleScanners(c, f)
	})
}

// bufferCycleScanners: m.scanners is rebuilt per call: reset before the first append.
func bufferCycleScanners(c *eng.Ctx, f *ssa.Function) {
	p := c.P
	var grows, resets []eng.Site
	for _, s := range p.Sites(f, eng.StoreField("index/v1.forwardIndexMerger.scanners")) {
		st := s.Instr.(*ssa.Store)
		if sl, ok := st.Val.(*ssa.Slice); ok && sl.High != nil {
			if n, ok := eng.ConstInt(sl.High); ok && n == 0 {
				resets = append(resets, s)
				continue
			}
		}
		grows = append(grows, s)
	}
	for i, g := range grows {
		c.Check(len(resets) > 0 && eng.DominatedBy(f, g.Instr, resets, nil), fmt.Sprintf("scanners-reset-per-call[%d]", i), g.Instr, f, "the scanner list of the re-used merger is reset before scanners of this call are appended", "")
	}
	sc := p.Sites(f, invokeOn(".seriesIDs", "Clear"))
	or := p.Sites(f, invokeOn(".seriesIDs", "Or"))
	for i, o := range or {
		c.Check(len(sc) > 0 && eng.DominatedBy(f, o.Instr, sc, nil), fmt.Sprintf("series-union-cleared-per-call[%d]", i), o.Instr, f, "the merged series bitmap is cleared before this call's inputs are unioned into it", "")
	}
}

// orderedReader: an index read that combines the memory stores of typ with a kv snapshot.
type orderedReader struct {
	fn      string
	typ     string      // struct with the mutable / immutable fields
	snap    eng.Matcher // where the snapshot is picked (nil: the snapshot is a parameter)
	wantMem bool        // the function itself (or its helpers, two levels) reads memory
}

// memoryBeforeSnapshot: in every listed reader no read of the mutable / immutable store (direct, or through helpers up to two
// call levels) is reachable once the snapshot was picked, and the memory read is followed by the snapshot acquisition.
// A flush moves entries from the immutable store into a NEWER snapshot and then clears the store; a reader that picks the
// snapshot first and reads memory afterwards can therefore miss entries that were written before it started.
func memoryBeforeSnapshot(c *eng.Ctx, readers []orderedReader) {
	p := c.P
	for _, r := range readers {
		f := c.Fn(r.fn)
		var mem []eng.Site
		seen := map[ssa.Instruction]bool{}
		for _, d := range p.DeepSites(f, eng.TouchField(r.typ+".mutable", r.typ+".immutable"), 3, false) {
			if top := d.Top(); !seen[top] {
				seen[top] = true
				mem = append(mem, eng.Site{Fn: f, Instr: top})
			}
		}
		if !r.wantMem {
			c.Check(len(mem) == 0, r.fn+":no-memory-read-under-a-given-snapshot", nil, f, r.fn+" works on the snapshot its caller picked and does not read the memory stores (its caller read them before picking it)", fmt.Sprintf("%d memory reads", len(mem)))
			continue
		}
		snaps := p.Sites(f, r.snap)
		c.Check(len(snaps) == 1, r.fn+":one-snapshot", nil, f, r.fn+" picks exactly one snapshot", fmt.Sprintf("%d snapshot acquisitions", len(snaps)))
		c.Check(len(mem) > 0, r.fn+":reads-memory", nil, f, r.fn+" reads the memory stores", "no read of "+r.typ+".mutable/immutable within three call levels")
		if len(snaps) != 1 || len(mem) == 0 {
			continue
		}
		for i, m := range mem {
			_, late := eng.Reaches(f, snaps[0].Instr, []eng.Site{m}, nil)
			c.Check(!late, fmt.Sprintf("%s:memory-before-snapshot[%d]", r.fn, i), m.Instr, f,
				"the memory stores are read before the snapshot is picked", "a memory read is reachable after the snapshot was picked")
		}
		_, before := eng.Reaches(f, mem[0].Instr, snaps, nil)
		c.Check(before, r.fn+":memory-read-precedes-snapshot", snaps[0].Instr, f, "the memory read is followed by the snapshot acquisition", "")
	}
}

// emptyMatchIsNotAnError (C10 + C12): the tag-value lookups return errors only when the dictionary read failed; an atom of an
// OR / NOT condition that matches nothing on this node must contribute the empty set (otherwise the node answers "not found"
// for series that satisfy the rest of the condition, and the root tolerates that answer).
func emptyMatchIsNotAnError(c *eng.Ctx) {
	p := c.P
	errorsOnlyFrom(c, "index.metricMetaDatabase.FindTagValueDsByExpr", invokeOn(".tagValue", "FindValuesByExpr"), "tagValue.FindValuesByExpr")
	errorsOnlyFrom(c, "index.metricMetaDatabase.FindTagValueIDsForTag", invokeOn(".tagValue", "GetValues"), "tagValue.GetValues")
	// the walker stores a result for every atom whose lookup did not fail
	tl := c.Fn("query/operator.tagValuesLookup.findTagValueIDsByExpr")
	look := c.One(tl, invokeOn(".metaDB", "FindTagValueDsByExpr"), "metaDB.FindTagValueDsByExpr")
	var put *ssa.MapUpdate
	for _, b := range eng.BlocksT(tl) {
		for _, in := range b.Instrs {
			if mu, ok := in.(*ssa.MapUpdate); ok && eng.DependsOnField(mu.Map, "flow.StorageExecuteContext.TagFilterResult") {
				put = mu
			}
		}
	}
	if put == nil {
		c.Undecided("TagFilterResult[...] = ... not found in tagValuesLookup")
	}
	nilE, _ := eng.ErrCheckEdges(tl, look.Instr.(ssa.Value))
	okAll := len(nilE) > 0
	for _, e := range nilE {
		first := e.B.Succs[e.Succ].Instrs[0]
		_, skip := eng.PathExists(eng.PathQuery{Fn: tl, After: first, Target: func(in ssa.Instruction) bool { _, ok := in.(*ssa.Return); return ok }, Blocked: func(in ssa.Instruction) bool { return in == ssa.Instruction(put) }})
		if skip && first != ssa.Instruction(put) {
			okAll = false
		}
	}
	c.Check(okAll, "every-successful-atom-recorded", put, tl, "every atom whose lookup succeeded (also with no match) gets its entry in TagFilterResult", "a return is reachable after a successful lookup without recording the atom")
	_ = p
}

// assertedKinds: the named types the paramIdx-th parameter of fn (an expression) is type-tested against, in fn and the
// helpers it transparently enters (sorted, unique).
func assertedKinds(fn *ssa.Function, paramIdx int) []string {
	if paramIdx >= len(fn.Params) {
		return nil
	}
	prm := ssa.Value(fn.Params[paramIdx])
	seen := map[string]bool{}
	for _, b := range eng.BlocksT(fn) {
		for _, in := range b.Instrs {
			ta, ok := in.(*ssa.TypeAssert)
			if !ok {
				continue
			}
			if ta.X != prm && !eng.DependsOn(ta.X, func(x ssa.Value) bool { return x == prm }) {
				continue
			}
			if n := namedOf(ta.AssertedType); n != nil {
				seen[n.Obj().Name()] = true
			}
		}
	}
	var out []string
	for k := range seen {
		out = append(out, k)
	}
	sort.Strings(out)
	return out
}

// forwardLookupTable: the forward-index flusher writes, after the series-id bitmap, the tag value ids of container 0,
// then of container 1, ... back to back (WriteTagValueIDs once per container, in order).  The reader addresses the run
// of container i as buf[lut[i]*4 : ...]: lut[i] must therefore be the number of series in ALL containers before i —
// a running sum of cardinalities.  Decided structurally: every non-constant store into the table built by
// NewTagForwardReader adds the container's cardinality to an accumulated value (the previous table entry, or a
// loop-carried sum).
func forwardLookupTable(c *eng.Ctx) {
	p := c.P
	// writer: one contiguous run per container
	fl := c.Fn("index.forwardIndex.flush")
	body := fl
	for _, cl := range closuresT(fl) {
		if len(p.Sites(cl, invokeOn("", "WriteTagValueIDs"))) > 0 {
			body = cl
		}
	}
	c.One(body, invokeOn("", "WriteTagValueIDs"), "flusher.WriteTagValueIDs(run of one container)")
	rd := c.Fn("index/v1.tagForwardReader.GetSeriesAndTagValue")
	usesLut := len(p.Sites(rd, eng.LoadField("index/v1.tagForwardReader.lut"))) > 0
	c.Check(usesLut, "reader-addresses-by-table", nil, rd, "the reader takes the start of a container's run from the lookup table", "")
	// the table has one entry per CONTAINER (position in the bitmap), not per high key: it is indexed by the container index the
	// bitmap reports for the high key, the same index the container itself is fetched by
	nIdx := 0
	for _, b := range eng.BlocksT(rd) {
		for _, in := range b.Instrs {
			ia, ok := in.(*ssa.IndexAddr)
			if !ok || !eng.DependsOnField(ia.X, "index/v1.tagForwardReader.lut") {
				continue
			}
			nIdx++
			fromIdx := eng.DependsOn(ia.Index, func(y ssa.Value) bool {
				cl, ok := y.(*ssa.Call)
				return ok && cl.Common().StaticCallee() != nil && cl.Common().StaticCallee().Name() == "GetContainerIndex"
			})
			c.Check(fromIdx, fmt.Sprintf("table-indexed-by-container-index[%d]", nIdx), ia, rd,
				"lut is indexed by GetContainerIndex(highKey), the position of the container in the bitmap", "index "+p.Desc(ia.Index))
		}
	}
	c.Check(nIdx >= 1, "table-index-found", nil, rd, "the reader indexes the lookup table", "")
	f := c.Fn("index/v1.NewTagForwardReader")
	var lut *ssa.MakeSlice
	for _, b := range eng.BlocksT(f) {
		for _, in := range b.Instrs {
			if ms, ok := in.(*ssa.MakeSlice); ok && strings.Contains(ms.Type().String(), "int") {
				lut = ms
			}
		}
	}
	if lut == nil {
		c.Undecided("the lookup table is not built with make([]int, …) in NewTagForwardReader")
	}
	isElemLoad := func(x ssa.Value) bool {
		u, ok := x.(*ssa.UnOp)
		if !ok || u.Op != token.MUL {
			return false
		}
		ia, ok := u.X.(*ssa.IndexAddr)
		return ok && eng.Unwrap(ia.X) == ssa.Value(lut)
	}
	var loopCarried func(x ssa.Value) bool
	loopCarried = func(x ssa.Value) bool {
		ph, ok := x.(*ssa.Phi)
		if !ok || ph.Comment == "rangeindex" {
			return false
		}
		for _, e := range ph.Edges {
			if e != ssa.Value(ph) && eng.DependsOn(e, func(y ssa.Value) bool { return y == ssa.Value(ph) }) {
				return true
			}
		}
		return false
	}
	n := 0
	for _, b := range eng.BlocksT(f) {
		for _, in := range b.Instrs {
			st, ok := in.(*ssa.Store)
			if !ok {
				continue
			}
			ia, ok := st.Addr.(*ssa.IndexAddr)
			if !ok || eng.Unwrap(ia.X) != ssa.Value(lut) {
				continue
			}
			if _, isC := st.Val.(*ssa.Const); isC {
				continue
			}
			n++
			card := eng.DependsOn(st.Val, func(y ssa.Value) bool {
				cl, ok := y.(*ssa.Call)
				return ok && cl.Common().IsInvoke() && cl.Common().Method.Name() == "GetCardinality"
			})
			acc := eng.DependsOn(st.Val, func(y ssa.Value) bool { return isElemLoad(y) || loopCarried(y) })
			c.Check(card && acc, fmt.Sprintf("table-entry-is-a-running-sum[%d]", n), st, f,
				"lut[i+1] = (series in containers 0..i): the cardinality of container i is ADDED to what was accumulated before (previous entry or a running sum); the bare cardinality is the right offset only for the second container",
				"stores "+p.Desc(st.Val))
		}
	}
	c.Check(n > 0, "table-filled", nil, f, "the lookup table is filled per container", "")
}

// regexCandidates: the in-memory dictionary lookup applies rp.Match — an unanchored search — to EVERY key of the bucket.
// The persisted lookup must select the same keys.  It may narrow the keys it visits by a key prefix only when every
// matching key provably starts with it; regexp.LiteralPrefix is a prefix of every MATCH, which is a prefix of the
// KEY only for an expression anchored at the beginning.  Necessary condition decided here: the prefix handed to the
// trie iterator does not derive from LiteralPrefix(), unless under a test of the expression's anchoring
// (its source text via rp.String(), or a regexp/syntax inspection).
func regexCandidates(c *eng.Ctx) {
	p := c.P
	mem := c.Fn("index.indexKVStore.findValuesByRegexp")
	c.Check(len(p.Sites(mem, eng.AnyCallTo("regexp.Regexp.Match", "regexp.Regexp.MatchString"))) > 0 && len(eng.EarlyLoopExits(mem)) == 0, "memory-tests-every-key", nil, mem,
		"the in-memory lookup tests every key of the bucket with rp.Match", "")
	for i, m := range p.Sites(mem, eng.AnyCallTo("regexp.Regexp.Match", "regexp.Regexp.MatchString")) {
		if m.Instr.Parent() != mem {
			continue
		}
		everyIterationPasses(c, mem, m, fmt.Sprintf("memory-no-key-skipped[%d]", i),
			"no key of the bucket is passed over before the match (a literal prefix of the expression is a prefix of every MATCH, not of every matching key)")
	}
	f := c.Fn("index/model.TrieBucket.FindValuesByRegexp")
	its := c.Some(f, eng.AnyCallTo("github.com/lindb/lindb/pkg/trie.SuccinctTrie.NewPrefixIterator", "pkg/trie.SuccinctTrie.NewPrefixIterator", "pkg/trie.trie.NewPrefixIterator"), "tree.NewPrefixIterator(prefix)")
	usesMatch := len(p.Sites(f, eng.AnyCallTo("regexp.Regexp.Match", "regexp.Regexp.MatchString"))) > 0
	for _, b := range f.Blocks {
		for _, in := range b.Instrs {
			// rp.Match handed to a scanning helper as a predicate
			if mc, ok := in.(*ssa.MakeClosure); ok {
				if g, ok := mc.Fn.(*ssa.Function); ok && strings.HasPrefix(g.Name(), "Match") && strings.Contains(g.String(), "regexp.Regexp") {
					usesMatch = true
				}
			}
		}
	}
	c.Check(usesMatch, "persisted-tests-with-match", nil, f, "the persisted lookup tests candidate keys with rp.Match", "")
	isLit := func(x ssa.Value) bool {
		cl, ok := x.(*ssa.Call)
		return ok && cl.Common().StaticCallee() != nil && cl.Common().StaticCallee().Name() == "LiteralPrefix"
	}
	isAnchorTest := func(x ssa.Value) bool {
		cl, ok := x.(*ssa.Call)
		if !ok || cl.Common().StaticCallee() == nil {
			return false
		}
		g := cl.Common().StaticCallee()
		return g.Name() == "String" && strings.Contains(g.String(), "regexp.Regexp") || g.Pkg != nil && g.Pkg.Pkg.Path() == "regexp/syntax"
	}
	for i, it := range its {
		a := eng.CallArgs(it.Instr.(*ssa.Call))
		if len(a) == 0 {
			continue
		}
		// every way the prefix can derive from LiteralPrefix must lie under an anchoring test
		bad := ""
		var visit func(v ssa.Value, seen map[ssa.Value]bool)
		visit = func(v ssa.Value, seen map[ssa.Value]bool) {
			if seen[v] {
				return
			}
			seen[v] = true
			if ph, ok := v.(*ssa.Phi); ok {
				for k, e := range ph.Edges {
					if !eng.DependsOn(e, isLit) {
						continue
					}
					pred := ph.Block().Preds[k]
					conds, _ := eng.GuardingConds(f, pred.Instrs[len(pred.Instrs)-1])
					ok := false
					for _, cd := range conds {
						if eng.DependsOn(cd, isAnchorTest) {
							ok = true
						}
					}
					if !ok {
						visit(e, seen)
					}
				}
				return
			}
			if eng.DependsOn(v, isLit) {
				at := eng.TopOf(f, it)
				if at == nil {
					at = it.Instr
				}
				conds, _ := eng.GuardingConds(f, at)
				for _, cd := range conds {
					if eng.DependsOn(cd, isAnchorTest) {
						return
					}
				}
				bad = p.Desc(v)
			}
		}
		visit(eng.Unwrap(eng.UpParamVia(f, it, a[0])), map[ssa.Value]bool{})
		c.Check(bad == "", fmt.Sprintf("prefix-narrowing-only-when-anchored[%d]", i), it.Instr, f,
			"the keys visited in a persisted bucket are narrowed to those starting with rp.LiteralPrefix() only when the expression is anchored at the beginning; for an unanchored expression every key is a candidate, as in the in-memory lookup",
			"the iterator prefix "+bad+" derives from LiteralPrefix() without an anchoring test")
	}
}

// likePatternSlices: FindValuesByLike cuts the '*' off the pattern by slicing; each slice pattern[L : len-H] needs
// len >= L+H.  What is known at the slice must imply it: a leading / trailing '*' was seen (len >= 1), and for L+H = 2
// either a length test or the exclusion of the one-character pattern "*" (the only pattern with both a leading and a
// trailing '*' that is shorter than 2).
func likePatternSlices(c *eng.Ctx) {
	p := c.P
	f := c.Fn("index.indexKVStore.FindValuesByLike")
	facts := p.MustFacts(f)
	like := ssa.Value(f.Params[2])
	n := 0
	for _, b := range eng.BlocksT(f) {
		for _, in := range b.Instrs {
			sl, ok := in.(*ssa.Slice)
			if !ok || !eng.DependsOn(sl.X, func(x ssa.Value) bool { return x == like }) {
				continue
			}
			need := int64(0)
			if sl.Low != nil {
				l, ok := eng.ConstInt(sl.Low)
				if !ok {
					continue
				}
				need += l
			}
			var lenV ssa.Value
			if sl.High != nil {
				base, k := eng.SplitConstOffset(sl.High)
				if cl, ok := eng.Unwrap(base).(*ssa.Call); ok && len(p.CalleeKeys(cl)) == 1 && p.CalleeKeys(cl)[0] == "builtin:len" {
					need += -k
					lenV = base
				} else {
					continue
				}
			}
			if need <= 0 {
				continue
			}
			n++
			fs := facts.At(sl)
			has := func(fn string) bool {
				return len(facts.Find(fs, "true", func(d string, _ ssa.Value) bool { return strings.Contains(d, fn+"(") }, nil)) > 0
			}
			numeric := false
			if lenV != nil {
				numeric = facts.Prove("le", ssa.NewConst(constant.MakeInt64(need), lenV.Type()), lenV, sl)
			}
			for _, ft := range fs {
				// a length test written on another len(...) of the same string / slice
				if (ft.Op == "le" || ft.Op == "lt") && ft.Y != nil && lenV != nil && p.Desc(ft.Y) == p.Desc(lenV) {
					if k, ok := eng.ConstInt(ft.X); ok && (ft.Op == "le" && k >= need || ft.Op == "lt" && k >= need-1) {
						numeric = true
					}
				}
			}
			okS := numeric
			switch need {
			case 1:
				okS = okS || has("HasPrefix") || has("HasSuffix")
			case 2:
				notStar := len(facts.Find(fs, "ne", func(_ string, v ssa.Value) bool { return v == like }, eng.DescIs(`"*"`))) > 0
				okS = okS || has("HasPrefix") && has("HasSuffix") && notStar
			}
			c.Check(okS, fmt.Sprintf("slice-in-range[%d]", n), sl, f,
				fmt.Sprintf("the pattern is sliced [%d : len-%d] only when its length is known to be at least %d (like '*' is a pattern, not a crash)", need-(need-int64OrZero(sl.Low)), need-int64OrZero(sl.Low), need),
				"facts: "+strings.Join(facts.Render(fs), " ; "))
		}
	}
	c.Check(n >= 3, "pattern-slices-found", nil, f, "FindValuesByLike strips the wildcards by slicing the pattern", fmt.Sprintf("%d slices", n))
}

func int64OrZero(v ssa.Value) int64 {
	if v == nil {
		return 0
	}
	k, _ := eng.ConstInt(v)
	return k
}

// mustPassT: every path from the entry of f to a return passes a site matched by m (helpers and in-place closures are
// looked through).
func mustPassT(p *eng.Prog, f *ssa.Function, m eng.Matcher) bool {
	_, skip := eng.PathExists(eng.PathQuery{Fn: f,
		Target:  func(in ssa.Instruction) bool { _, ok := in.(*ssa.Return); return ok && in.Parent() == f },
		Blocked: func(in ssa.Instruction) bool { return m(p, in) }})
	return !skip
}

func kvStoreFlushSnapshotThenPurge(c *eng.Ctx) {
	p := c.P
	_ = p
	c.Rule("ORDER", kvsT+".Flush{snapshot then purge, one hold}", func() {
		f := c.Fn(kvsT + ".Flush")
		ls := p.Locks(f, nil)
		snap := c.One(f, eng.StoreField(kvsT+".snapshot"), "s.snapshot = new")
		purge := c.One(f, invokeOnGeneric(".bucketCache", "Purge"), "bucketCache.Purge()")
		ok, why := ls.SameHold(snap.Instr, purge.Instr, kvsMu, true)
		c.Check(ok, "purge-with-snapshot-swap", purge.Instr, f, "the bucket cache is purged in the same write hold that installs the new snapshot (a cached bucket always belongs to the current snapshot)", why)
		owner(c, "call of bucketCache.Purge", invokeOnGeneric(".bucketCache", "Purge"), []string{kvsT + ".Flush"}, 1)
		c.Observe("getOrCreateValue may add a bucket read from the previous snapshot to the cache right after Flush purged it (lookup started before the swap) — a stale-cache window noticed, not armed")
	})
}

// everyAtomGetsItsOwnSet (shared by C10 and C11).
func everyAtomGetsItsOwnSet(c *eng.Ctx) {
	p := c.P
	c.Rule("PROV", "query/operator.seriesFiltering.getSeriesIDsByExpr{every atom gets its own series set}", func() {
		f := p.Func("query/operator.seriesFiltering.getSeriesIDsByExpr")
		inline := f == nil
		if inline {
			f = c.Fn("query/operator.seriesFiltering.findSeriesIDsByExpr") // the lookup written in place in the walker
		}
		load := c.One(f, invokeOn(".indexDB", "GetSeriesIDsByTagValueIDs"), "indexDB.GetSeriesIDsByTagValueIDs(key, values)")
		n := 0
		for i, r := range eng.SuccessReturns(f) {
			v := eng.RetVal(r, 1)
			if eng.IsNilConst(v) {
				continue
			}
			if inline && !eng.DependsOn(v, func(x ssa.Value) bool { return x == load.Instr.(ssa.Value) }) {
				// a return of the walker itself (a combination, or an empty set): it must not come out of a keep-and-reuse store either
				kept := eng.DependsOn(v, func(x ssa.Value) bool { _, isLookup := x.(*ssa.Lookup); return isLookup })
				c.Check(!kept, fmt.Sprintf("set-not-from-a-store[%d]", i), r, f, "no series set is taken from a map kept by the operator", "returns "+p.Desc(v))
				continue
			}
			n++
			fresh := eng.OnlyFromCall(v, load.Instr.(ssa.Value))
			c.Check(fresh, fmt.Sprintf("set-from-this-lookup[%d]", i), r, f,
				"the series set returned for an atom is the result of THIS call's index lookup: the caller intersects / unites into it in place, a set that is kept and returned again would carry the previous combination",
				"returns "+p.Desc(v))
		}
		c.Check(n >= 1, "returns-a-set", nil, f, "the atom lookup returns a series set", "")
		w := c.Fn("query/operator.seriesFiltering.findSeriesIDsByExpr")
		c.Check(len(p.Sites(w, eng.AnyCallTo("github.com/lindb/roaring.Bitmap.And", "github.com/lindb/roaring.Bitmap.Or"))) >= 2, "combined-in-place", nil, w, "the walker combines the atoms' sets in place", "")
	})
}

// cachedBucketNotReleasedByReader (shared by C10 and C09).
func cachedBucketNotReleasedByReader(c *eng.Ctx) {
	p := c.P
	c.Rule("OWNER", "index.indexKVStore{a bucket taken from the cache is not released by its reader}", func() {
		n := 0
		for _, fn := range p.AllFuncs {
			if !strings.HasPrefix(p.FuncKey(fn), "index.indexKVStore.") {
				continue
			}
			for _, b := range fn.Blocks {
				for _, in := range b.Instrs {
					var cc *ssa.CallCommon
					switch x := in.(type) {
					case *ssa.Call:
						cc = x.Common()
					case *ssa.Defer:
						cc = x.Common()
					}
					if cc == nil {
						continue
					}
					var recv ssa.Value
					if cc.IsInvoke() && cc.Method.Name() == "Release" {
						recv = cc.Value
					} else if g := cc.StaticCallee(); g != nil && baseName(g.Name()) == "Release" && len(cc.Args) > 0 {
						recv = cc.Args[0]
					}
					if recv == nil || !strings.Contains(recv.Type().String(), "TrieBucket") {
						continue
					}
					n++
					isCacheGet := func(x ssa.Value) bool {
						cl, ok := x.(*ssa.Call)
						return ok && cl.Common().IsInvoke() == false && cl.Common().StaticCallee() != nil && baseName(cl.Common().StaticCallee().Name()) == "Get" && eng.DependsOnField(eng.CallRecv(cl), "index.indexKVStore.bucketCache")
					}
					cached := eng.DependsOn(recv, isCacheGet)
					// ... or handed out by a helper of the store that may answer from the cache
					for _, src := range leafSources(recv) {
						if eng.DependsOn(src, isCacheGet) {
							cached = true
						}
					}
					c.Check(!cached, fmt.Sprintf("release@%s[%d]", p.FuncKey(fn), n), in, fn,
						"a reader releases only a bucket it loaded itself (reader.GetBucket): a bucket obtained from bucketCache stays owned by the cache — Release returns its tries to the pool while the cache (and lock-free lookups through it) still use them, and the next bucket load recycles them",
						"the released bucket can come from bucketCache.Get")
				}
			}
		}
		c.Check(n >= 3, "release-sites-found", nil, nil, "the readers release the buckets they load", fmt.Sprintf("%d sites", n))
	})
}
