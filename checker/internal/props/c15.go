package props

import (
	"fmt"
	"go/token"
	"go/types"
	"strings"

	"golang.org/x/tools/go/ssa"

	"lincheck/internal/eng"
)

const (
	sbT = "kv/table.storeBuilder"
	swT = "kv/table.streamWriter"
	mrT = "kv/table.storeMMapReader"
)

func init() {
	register(eng.Property{
		ID:    "C15",
		Title: "Table files and merged iteration return exactly what was added",
		Explanation: "Decides structural conditions of table building, lookup and merging: an out-of-order key causes neither a data write nor an index update, on the add path and on the streaming path " +
			"(write and commit are both under the good-key guard, which is the strict key > last-key test computed in Prepare); the index update records the offset taken before the value was written; " +
			"Close writes offsets, keys and footer in that order and the footer stores their start positions; the reader parses the footer at the offsets/widths the builder wrote, with the same footer size and magic; " +
			"lookup tests membership before computing a rank; file selection uses inclusive key bounds and a snapshot lookup visits every selected file; the merged iterator re-establishes the heap " +
			"unconditionally after it changes the key of a queued item, and pops exactly one item per step.",
		NotDecided: "rank/offset arithmetic, value bytes, the heap algorithm itself (container/heap is trusted), bitmap encodings.",
		MinObls:    35,
		Run:        runC15,
	})
}

func runC15(c *eng.Ctx) {
	p := c.P
	entryCutByTheOffsetsTable(c)
	mergedIteratorAlwaysLatches(c)
	findFilesReturnsItsOwnSlice(c)
	editRecordTouchesOnlyItsLevel(c)
	everyScanHasItsOwnIterator(c)
	onlyCommitAddsAKey(c)

	// ---- 1. add path ------------------------------------------------------------------------------------------------------
	c.Rule("GUARD", sbT+".Add", func() {
		f := c.Fn(sbT + ".Add")
		chk := c.One(f, eng.CallTo(sbT+".ensureIncreasingKey"), "ensureIncreasingKey(key)")
		wr := c.One(f, invokeOn(".writer", "Write"), "writer.Write(value)")
		// the index update: afterWrite(key, offset), or its body (offset.Add, keys.Add) written in place
		aw := c.One(f, eng.Any(eng.CallTo(sbT+".afterWrite"), func(p *eng.Prog, in ssa.Instruction) bool {
			return in.Parent() == f && invokeOn(".keys", "Add")(p, in)
		}), "afterWrite(key, offset)")
		awOffset := func() ssa.Value {
			if a := eng.CallArgs(aw.Instr.(*ssa.Call)); len(a) > 1 {
				return a[1]
			}
			for _, o := range p.SitesDirect(f, invokeOn(".offset", "Add")) {
				return eng.CallArgs(o.Instr.(*ssa.Call))[0]
			}
			return nil
		}()
		_, fe := eng.BoolCheckEdges(f, chk.Instr.(ssa.Value))
		guarded := []eng.Site{wr, aw}
		guarded = append(guarded, p.SitesDirect(f, invokeOn(".offset", "Add"))...)
		for _, s := range guarded {
			_, via := eng.PathExists(eng.PathQuery{Fn: f, After: chk.Instr, Target: func(in ssa.Instruction) bool { return in == s.Instr },
				Edge: func(b *ssa.BasicBlock, su int) bool {
					for _, e := range fe {
						if e.B == b && e.Succ != su {
							return false
						}
					}
					return true
				}})
			c.Check(eng.DominatedBy(f, s.Instr, []eng.Site{chk}, nil) && len(fe) > 0 && !via, "only-good-key:"+shortInstr(p, s.Instr), s.Instr, f,
				"an out-of-order key causes no data write and no index update", "reachable on the rejected edge")
		}
		okw, why := eng.OkDominates(f, wr.Instr, aw.Instr)
		c.Check(okw, "index-only-after-successful-write", aw.Instr, f, "the key is indexed only when its value was written", why)
		sz := c.One(f, invokeOn(".writer", "Size"), "writer.Size()")
		c.Check(eng.DominatedBy(f, wr.Instr, []eng.Site{sz}, nil) && awOffset != nil && eng.DependsOn(awOffset, func(x ssa.Value) bool { return x == sz.Instr.(ssa.Value) }),
			"offset-before-write", aw.Instr, f, "the offset recorded for the key is the file size taken before its value was written", "")
		c.Check(p.Desc(eng.CallArgs(wr.Instr.(*ssa.Call))[0]) == "value" && p.Desc(eng.CallArgs(aw.Instr.(*ssa.Call))[0]) == "key", "this-key-this-value", aw.Instr, f, "the value written and the key indexed are the arguments", "")
		// strictness of the order test
		e := c.Fn(sbT + ".ensureIncreasingKey")
		facts := p.MustFacts(e)
		n := 0
		for i, r := range eng.SuccessReturns(e) {
			v := eng.RetVal(r, 0)
			cv, ok := v.(*ssa.Const)
			if !ok || cv.Value == nil || cv.Value.String() != "true" {
				continue
			}
			n++
			fs := facts.At(r)
			first := facts.Find(fs, "true", eng.DescSuffix(".first"), nil)
			strict := facts.Find(fs, "lt", eng.DescSuffix(".maxKey"), eng.DescIs("key"))
			c.Check(len(first) > 0 || len(strict) > 0, fmt.Sprintf("accept-only-first-or-greater[%d]", i), r, e, "a key is accepted only when it is the first or strictly greater than the last key (duplicates are rejected)", "facts: "+strings.Join(facts.Render(fs), " ; "))
		}
		if n == 0 {
			c.Undecided("ensureIncreasingKey has no `return true`")
		}
		aw2 := c.Fn(sbT + ".afterWrite")
		for _, fld := range []string{"maxKey", "first"} {
			c.Check(p.MustPass(aw2, eng.StoreField(sbT+"."+fld), 0), "afterWrite-updates:"+fld, nil, aw2, "indexing a key updates "+fld+" (the next order test sees it)", "")
		}
		for _, s := range c.Some(aw2, eng.StoreField(sbT+".maxKey"), "maxKey = key") {
			c.Check(p.Desc(s.Instr.(*ssa.Store).Val) == "key", "max-is-last-key", s.Instr, aw2, "maxKey becomes the key just indexed", "")
		}
		if calleeName(aw.Instr.(ssa.Value)) != "afterWrite" {
			// the body written in place in Add: the same updates follow the index update there
			for _, fld := range []string{"maxKey", "first"} {
				st := eng.StoreField(sbT + "." + fld)
				_, skips := eng.PathExists(eng.PathQuery{Fn: f, After: aw.Instr,
					Target:  func(in ssa.Instruction) bool { r, ok := in.(*ssa.Return); return ok && instrIsSuccessReturn(f, r) },
					Blocked: func(in ssa.Instruction) bool { return st(p, in) }})
				c.Check(!skips, "Add-updates:"+fld, aw.Instr, f, "indexing a key updates "+fld+" (the next order test sees it)", "a path from the index update to a successful return does not store "+fld)
			}
			for _, s := range p.SitesDirect(f, eng.StoreField(sbT+".maxKey")) {
				c.Check(p.Desc(s.Instr.(*ssa.Store).Val) == "key", "max-is-last-key@Add", s.Instr, f, "maxKey becomes the key just indexed", "")
			}
			c.Check(len(p.SitesDirect(f, invokeOn(".keys", "Add"))) == 1 && len(p.SitesDirect(f, invokeOn(".offset", "Add"))) == 1, "key-and-offset-recorded-together@Add", nil, f, "one key and one offset are recorded per indexed entry (counts stay equal)", "")
		}
		c.Check(len(p.Sites(aw2, invokeOn(".keys", "Add"))) == 1 && len(p.Sites(aw2, invokeOn(".offset", "Add"))) == 1, "key-and-offset-recorded-together", nil, aw2, "one key and one offset are recorded per indexed entry (counts stay equal)", "")
		owner(c, "call of storeBuilder.afterWrite", eng.AnyCallTo(sbT+".afterWrite"), []string{sbT + ".Add", swT + ".Commit"}, 2)
	})

	// ---- 2. streaming path ---------------------------------------------------------------------------------------------------
	c.Rule("GUARD", swT+"{Prepare/Write/Commit}", func() {
		pr := c.Fn(swT + ".Prepare")
		st := c.One(pr, eng.StoreField(swT+".badKey"), "sw.badKey = !ensureIncreasingKey(key)")
		d := p.Desc(st.Instr.(*ssa.Store).Val)
		c.Check(strings.HasPrefix(d, "!") && strings.Contains(d, "ensureIncreasingKey(key)"), "badKey-is-order-test", st.Instr, pr, "the bad-key flag is the negated order test of the prepared key", "stores "+d)
		for _, s := range c.Some(pr, eng.StoreField(swT+".offset"), "sw.offset = writer.Size()") {
			okSz := true
			for _, src := range leafSources(s.Instr.(*ssa.Store).Val) {
				cl, isC := src.(*ssa.Call)
				if !isC || calleeName(cl) != "Size" || eng.CallRecv(cl) == nil || !eng.DependsOnField(eng.CallRecv(cl), sbT+".writer") {
					okSz = false
				}
			}
			c.Check(okSz, "offset-at-prepare", s.Instr, pr, "the entry offset is the file size when the entry is prepared", "stores "+p.Desc(s.Instr.(*ssa.Store).Val))
		}
		w := c.Fn(swT + ".Write")
		facts := p.MustFacts(w)
		for i, s := range c.Some(w, invokeOn(".writer", "Write"), "builder.writer.Write(data)") {
			good := facts.Find(facts.At(s.Instr), "false", eng.DescSuffix(".badKey"), nil)
			c.Check(len(good) > 0, fmt.Sprintf("write-only-good-key[%d]", i), s.Instr, w, "no bytes reach the file for a rejected key (they would be appended to the previous entry's value)", "facts: "+strings.Join(facts.Render(facts.At(s.Instr)), " ; "))
		}
		cm := c.Fn(swT + ".Commit")
		fc := p.MustFacts(cm)
		// the index update of the committed entry: builder.afterWrite(key, offset), or its body (offset.Add, keys.Add) written in place
		aw := c.One(cm, eng.Any(eng.CallTo(sbT+".afterWrite"), func(p *eng.Prog, in ssa.Instruction) bool {
			return in.Parent() == cm && invokeOn(".keys", "Add")(p, in)
		}), "builder.afterWrite(sw.key, sw.offset)")
		good := fc.Find(fc.At(aw.Instr), "false", eng.DescSuffix(".badKey"), nil)
		c.Check(len(good) > 0, "commit-only-good-key", aw.Instr, cm, "a rejected key is not indexed on commit", "")
		a := eng.CallArgs(aw.Instr.(*ssa.Call))
		keyD, offD := p.Desc(a[0]), ""
		if len(a) > 1 {
			offD = p.Desc(a[1])
		} else {
			for _, o := range p.SitesDirect(cm, invokeOn(".offset", "Add")) {
				offD = p.Desc(eng.CallArgs(o.Instr.(*ssa.Call))[0])
				good2 := fc.Find(fc.At(o.Instr), "false", eng.DescSuffix(".badKey"), nil)
				c.Check(len(good2) > 0, "commit-only-good-key:offset", o.Instr, cm, "a rejected key's offset is not recorded on commit", "")
			}
		}
		c.Check(strings.HasSuffix(keyD, ".key") && strings.Contains(offD, ".offset"), "commits-prepared-entry", aw.Instr, cm, "the entry indexed is the prepared key at the prepared offset", "indexes ("+keyD+", "+offD+")")
		rs := c.Some(cm, eng.StoreField(swT+".badKey"), "sw.badKey = true")
		c.Check(eng.DominatedBy(cm, rs[0].Instr, []eng.Site{aw}, nil), "closed-after-commit", rs[0].Instr, cm, "after a commit the writer rejects bytes until the next Prepare", "")
		ns := c.Fn("kv/table.newStreamWriter")
		okInit := false
		for _, s := range p.Sites(ns, eng.StoreField(swT+".badKey")) {
			if cv, ok := s.Instr.(*ssa.Store).Val.(*ssa.Const); ok && cv.Value != nil && cv.Value.String() == "true" {
				okInit = true
			}
		}
		c.Check(okInit, "closed-until-prepared", nil, ns, "a new stream writer rejects bytes until a key is prepared", "")
	})

	// ---- 2b. the file lists a snapshot reads are not edited through a newer version (rule shared with C02) ----------------------------------
	c.Rule("PROV", "kv/version.version.levels{every version owns its level objects}", func() { versionOwnsLevels(c) })

	// ---- 3. lookup -----------------------------------------------------------------------------------------------------------------
	c.Rule("ORDER", mrT+".Get{contains<rank}", func() {
		f := c.Fn(mrT + ".Get")
		facts := p.MustFacts(f)
		rk := c.One(f, invokeOn(".keys", "Rank"), "keys.Rank(key)")
		mem := facts.Find(facts.At(rk.Instr), "true", func(d string, _ ssa.Value) bool { return strings.Contains(d, ".keys.Contains(key)") }, nil)
		c.Check(len(mem) > 0, "rank-only-for-members", rk.Instr, f, "the rank is computed only for keys the table contains (an absent key is reported absent, not mapped to a neighbour)", "facts: "+strings.Join(facts.Render(facts.At(rk.Instr)), " ; "))
		gb := c.One(f, eng.CallTo(mrT+".getBlock"), "getBlock(rank-1)")
		idxArg := eng.CallArgs(gb.Instr.(*ssa.Call))[0]
		rankMinus1 := strings.Contains(p.Desc(idxArg), "Rank(key)") && strings.Contains(p.Desc(idxArg), "-1")
		// ... also when the position comes out of a helper (positionOf(key) (int, bool)): every value it can be is Rank(...) - 1
		if !rankMinus1 {
			srcs := leafSources(idxArg)
			rankMinus1 = len(srcs) > 0
			for _, src := range srcs {
				if k, isC := eng.ConstInt(src); isC && k == 0 {
					continue // the zero handed back together with "not found"
				}
				base, off := eng.SplitConstOffset(eng.Unwrap(src))
				if cv, isCv := eng.Unwrap(src).(*ssa.Convert); isCv {
					base, off = eng.SplitConstOffset(eng.Unwrap(cv.X))
				}
				if off != -1 || !eng.DependsOn(base, func(x ssa.Value) bool { return calleeName(x) == "Rank" }) {
					rankMinus1 = false
				}
			}
		}
		c.Check(rankMinus1, "index-is-rank-1", gb.Instr, f, "the block index is rank-1 (rank counts the key itself)", "index "+p.Desc(idxArg))
	})

	// ---- 4. footer layout --------------------------------------------------------------------------------------------------------------
	c.Rule("LAYOUT", "kv/table{footer}", func() {
		cl := c.Fn(sbT + ".Close")
		type span struct{ lo, hi int64 }
		writer := map[string]span{}
		var bufAlloc ssa.Value
		for _, b := range eng.BlocksT(cl) {
			for _, in := range b.Instrs {
				call, ok := in.(*ssa.Call)
				if !ok {
					continue
				}
				k := strings.Join(p.CalleeKeys(call), "")
				if !strings.HasSuffix(k, "littleEndian.PutUint32") && !strings.HasSuffix(k, "littleEndian.PutUint64") {
					continue
				}
				a := eng.CallArgs(call)
				sl, ok := eng.Unwrap(a[0]).(*ssa.Slice)
				if !ok {
					continue
				}
				lo, hi := int64(0), int64(-1)
				if sl.Low != nil {
					lo, _ = eng.ConstInt(sl.Low)
				}
				if sl.High != nil {
					hi, _ = eng.ConstInt(sl.High)
				} else if strings.HasSuffix(k, "PutUint64") {
					hi = lo + 8
				} else {
					hi = lo + 4
				}
				bufAlloc = sl.X
				role := p.Desc(a[1])
				switch {
				case strings.Contains(role, "magicNumberOffsetFile") || strings.HasSuffix(k, "PutUint64"):
					role = "magic"
				default:
					// posOfOffset / posOfKeys: distinguish by which write they precede
					role = "pos:" + role
				}
				writer[role] = span{lo, hi}
			}
		}
		if bufAlloc == nil {
			c.Undecided("footer writes not recognised: %v", writer)
		}
		// positions: Size() before the offsets write and before the keys write
		ws := c.Some(cl, invokeOn(".writer", "Write"), "writer.Write")
		if len(ws) != 3 {
			c.Undecided("expected three writes in Close (offsets, keys, footer), found %d", len(ws))
		}
		offW, keyW, footW := ws[0], ws[1], ws[2]
		c.Check(eng.DominatedBy(cl, keyW.Instr, []eng.Site{offW}, nil) && eng.DominatedBy(cl, footW.Instr, []eng.Site{keyW}, nil), "offsets<keys<footer", footW.Instr, cl, "Close writes the offsets block, then the keys block, then the footer", "")
		c.Check(strings.Contains(p.Desc(eng.CallArgs(offW.Instr.(*ssa.Call))[0]), ".offset.MarshalBinary()"), "first-block-is-offsets", offW.Instr, cl, "the first block is the marshalled offsets", "")
		c.Check(strings.Contains(p.Desc(eng.CallArgs(keyW.Instr.(*ssa.Call))[0]), "BitmapMarshal"), "second-block-is-keys", keyW.Instr, cl, "the second block is the marshalled key bitmap", "")
		sizes := c.Some(cl, invokeOn(".writer", "Size"), "writer.Size()")
		var posOff, posKeys ssa.Value
		for _, s := range sizes {
			if eng.DominatedBy(cl, offW.Instr, []eng.Site{s}, nil) {
				posOff = s.Instr.(ssa.Value)
			} else if eng.DominatedBy(cl, keyW.Instr, []eng.Site{s}, nil) && eng.DominatedBy(cl, s.Instr, []eng.Site{offW}, nil) {
				posKeys = s.Instr.(ssa.Value)
			}
		}
		if posOff == nil || posKeys == nil {
			c.Undecided("position captures not found")
		}
		var offSpan, keySpan, magicSpan span
		found := 0
		for _, b := range eng.BlocksT(cl) {
			for _, in := range b.Instrs {
				call, ok := in.(*ssa.Call)
				if !ok {
					continue
				}
				k := strings.Join(p.CalleeKeys(call), "")
				if !strings.HasSuffix(k, "littleEndian.PutUint32") && !strings.HasSuffix(k, "littleEndian.PutUint64") {
					continue
				}
				a := eng.CallArgs(call)
				sl := eng.Unwrap(a[0]).(*ssa.Slice)
				lo := int64(0)
				if sl.Low != nil {
					lo, _ = eng.ConstInt(sl.Low)
				}
				switch {
				case eng.DependsOn(a[1], func(x ssa.Value) bool { return x == posOff }):
					offSpan = span{lo, lo + 4}
					found++
				case eng.DependsOn(a[1], func(x ssa.Value) bool { return x == posKeys }):
					keySpan = span{lo, lo + 4}
					found++
				default:
					magicSpan = span{lo, lo + 8}
					found++
				}
			}
		}
		c.Check(found == 3, "footer-fields", nil, cl, "the footer stores the offsets position, the keys position and the magic number", fmt.Sprint(found))
		var verAt int64 = -1
		for _, b := range eng.BlocksT(cl) {
			for _, in := range b.Instrs {
				if st, ok := in.(*ssa.Store); ok {
					if ia, ok := st.Addr.(*ssa.IndexAddr); ok && ia.X == bufAlloc {
						verAt, _ = eng.ConstInt(ia.Index)
					}
				}
			}
		}
		size := int64(0)
		if a, ok := bufAlloc.(*ssa.Alloc); ok {
			d := a.Type().String()
			fmt.Sscanf(d, "*[%d]byte", &size)
		}
		noOverlap := offSpan.hi <= keySpan.lo && keySpan.hi <= verAt && verAt+1 <= magicSpan.lo && magicSpan.hi <= size
		c.Check(noOverlap, "writer-fields-disjoint", nil, cl, "the footer fields do not overlap and fit the footer buffer", fmt.Sprintf("off %v keys %v version@%d magic %v size %d", offSpan, keySpan, verAt, magicSpan, size))
		// reader
		in := c.Fn(mrT + ".initialize")
		fsz := constOf(c, "kv/table", "sstFileFooterSize")
		mat := constOf(c, "kv/table", "magicNumberAtFooter")
		c.Check(fsz == size, "footer-size-agrees", nil, in, "the reader's footer size equals the buffer the builder writes", fmt.Sprintf("reader %d, writer %d", fsz, size))
		c.Check(mat == magicSpan.lo, "magic-offset-agrees", nil, in, "the reader looks for the magic number where the builder put it", fmt.Sprintf("reader %d, writer %d", mat, magicSpan.lo))
		// the two Uint32 reads
		reads := map[int64]string{}
		for _, b := range eng.BlocksT(in) {
			for _, ins := range b.Instrs {
				call, ok := ins.(*ssa.Call)
				if !ok || !strings.HasSuffix(strings.Join(p.CalleeKeys(call), ""), "littleEndian.Uint32") {
					continue
				}
				sl, ok := eng.Unwrap(eng.CallArgs(call)[0]).(*ssa.Slice)
				if !ok || sl.Low == nil {
					continue
				}
				_, off := eng.SplitConstAdd(sl.Low)
				// which variable does it feed: used as low bound of offsetsBlock (posOfOffset) or as its high bound / keys start (posOfKeys)
				role := "?"
				for _, b2 := range eng.BlocksT(in) {
					for _, i2 := range b2.Instrs {
						if s2, ok := i2.(*ssa.Slice); ok && strings.HasSuffix(p.Desc(s2.X), ".fullBlock") {
							if s2.Low != nil && s2.High != nil && eng.DependsOn(s2.Low, func(x ssa.Value) bool { return x == ssa.Value(call) }) {
								role = "posOfOffset"
							}
							if s2.Low != nil && s2.High == nil && eng.DependsOn(s2.Low, func(x ssa.Value) bool { return x == ssa.Value(call) }) && role == "?" {
								role = "posOfKeys"
							}
						}
					}
				}
				reads[off] = role
			}
		}
		c.Check(reads[offSpan.lo] == "posOfOffset" && reads[keySpan.lo] == "posOfKeys", "positions-agree", nil, in,
			"the reader takes the offsets position and the keys position from the footer slots the builder wrote them to", fmt.Sprintf("reader %v, writer offsets@%d keys@%d", reads, offSpan.lo, keySpan.lo))
		c.Check(len(p.Sites(in, eng.CallTo("var:kv/table.uint64Func"))) == 1, "magic-verified", nil, in, "the reader verifies the magic number", "")
		c.Check(len(p.Sites(in, invokeOn(".offsets", "Size"))) > 0 && len(p.Sites(in, invokeOn(".keys", "GetCardinality"))) > 0, "counts-cross-checked", nil, in, "the reader cross-checks number of keys and number of offsets", "")
	})

	// ---- 5/6. file selection ---------------------------------------------------------------------------------------------------------------
	c.Rule("GUARD", "kv/version.version.FindFiles{inclusive}", func() { findFilesInclusive(c) })

	c.Rule("GUARD", "pkg/encoding.FixedOffsetDecoder.GetBlock{empty range accepted}", func() { emptyBlockAccepted(c) })

	c.Rule("GUARD", "kv{a table builder is abandoned only when it holds no key}", func() { abandonOnlyWhenNoKeys(c) })

	// ---- 6b. the reader accepts every footer the builder can write: sections may be EMPTY (equal positions) --------------------------
	c.Rule("GUARD", "kv/table.storeMMapReader.initialize{section positions non-strictly ordered}", func() {
		f := c.Fn("kv/table.storeMMapReader.initialize")
		facts := p.MustFacts(f)
		isPos := func(_ string, v ssa.Value) bool {
			if k, ok := eng.ConstInt(v); ok && k == 0 {
				return true
			}
			return eng.DependsOn(v, func(x ssa.Value) bool {
				cl, ok := x.(*ssa.Call)
				if !ok {
					return false
				}
				ks := strings.Join(p.CalleeKeys(cl), " ")
				return strings.Contains(ks, "Uint32") || strings.Contains(ks, "builtin:len")
			})
		}
		n := 0
		for i, r := range eng.SuccessReturns(f) {
			n++
			fs := facts.At(r)
			strict := facts.Find(fs, "lt", isPos, isPos)
			det := ""
			for _, ft := range strict {
				det += "lt(" + p.Desc(ft.X) + ", " + p.Desc(ft.Y) + ") "
			}
			c.Check(len(strict) == 0, fmt.Sprintf("empty-sections-accepted[%d]", i), r, f,
				"a table is accepted with 0 <= posOfOffsets <= posOfKeys <= footerStart: the entries block is empty when every value is empty, which the builder writes and closes without complaint; a strict ordering test rejects such a table as 'bad footer data'",
				"strict ordering required on the way to a successful open: "+det)
		}
		c.Check(n > 0, "success-exit-found", nil, f, "initialize has a successful exit", "")
	})

	// ---- 7. merged iterator ------------------------------------------------------------------------------------------------------------------
	// ---- 7b. the merge of a compaction iterates exactly the files its install deletes (rule shared with C03 / C04) -------------------
	c.Rule("ORDER", cjT+".installCompactionResults{one commit}", func() { installOneCommit(c) })

	// ---- 7c. an open table is shared: looking a key up writes nothing into the reader or its offset decoder ------------------------
	// (table.Cache hands one reader per file to every query goroutine and to the compaction that iterates the same file)
	c.Rule("PROV", "kv/table.storeMMapReader{lookups are read-only}", func() {
		fns := []string{mrT + ".Get", mrT + ".getBlock", "pkg/encoding.FixedOffsetDecoder.Get", "pkg/encoding.FixedOffsetDecoder.GetBlock",
			"pkg/encoding.FixedOffsetDecoder.Size", "pkg/encoding.FixedOffsetDecoder.ValueWidth"}
		for _, k := range fns {
			f := c.Fn(k)
			if len(f.Params) == 0 {
				c.Undecided("unresolved anchor: %s has no receiver", k)
			}
			recv := ssa.Value(f.Params[0])
			var bad ssa.Instruction
			for _, b := range eng.BlocksT(f) {
				for _, in := range b.Instrs {
					var addr ssa.Value
					switch x := in.(type) {
					case *ssa.Store:
						addr = x.Addr
					case *ssa.MapUpdate:
						addr = x.Map
					default:
						continue
					}
					// a store through memory reached from the receiver (of this function, or handed down to a helper)
					root := addr
					for d := 0; d < 12; d++ {
						switch x := root.(type) {
						case *ssa.FieldAddr:
							root = x.X
							continue
						case *ssa.IndexAddr:
							root = x.X
							continue
						case *ssa.Slice:
							root = x.X
							continue
						case *ssa.UnOp:
							if x.Op == token.MUL {
								root = x.X
								continue
							}
						}
						break
					}
					if root == recv {
						bad = in
					} else if pr, isP := root.(*ssa.Parameter); isP && pr.Parent() != f && len(pr.Parent().Params) > 0 && pr == pr.Parent().Params[0] && types.Identical(pr.Type(), recv.Type()) {
						bad = in
					}
				}
			}
			why := ""
			if bad != nil {
				why = "a store through the receiver at " + p.InstrPos(bad)
			}
			c.Check(bad == nil, "read-only:"+k, bad, f, k+" stores nothing into its receiver: concurrent lookups on one cached reader share it without a lock", why)
		}
	})

	c.Rule("PASS", "kv/table.mergedIterator.HasNext{heap re-established}", func() { mergedIteratorHeap(c) })
}

// mergedIteratorHeap: the merged iterator's priority queue stays a heap ordered by ascending key (shared by C15 and C03: the
// compaction merge consumes its inputs through it, and the table builder drops a key that arrives out of order).
func mergedIteratorHeap(c *eng.Ctx) {
	p := c.P
	{
		f := c.Fn("kv/table.mergedIterator.HasNext")
		fix := eng.Any(eng.CallTo("container/heap.Fix", "container/heap.Push", "container/heap.Init", "kv/table.priorityQueue.update"))
		keySt := c.Some(f, eng.StoreField("kv/table.item.key"), "item.key = it.Key()")
		fixes := p.Sites(f, fix)
		for i, s := range keySt {
			_, skip := eng.PathExists(eng.PathQuery{Fn: f, After: s.Instr, Target: func(in ssa.Instruction) bool { _, ok := in.(*ssa.Return); return ok },
				Blocked: func(in ssa.Instruction) bool { return instrIn(in, fixes) }})
			c.Check(len(fixes) > 0 && !skip, fmt.Sprintf("fix-after-key-change[%d]", i), s.Instr, f,
				"after the key of a queued item changes, the heap order is re-established (heap.Fix / Push+Fix) on every path, not only when a partial comparison suggests it",
				"a path returns after item.key changed without heap.Fix/Push")
		}
		pops := p.Sites(f, eng.CallTo("container/heap.Pop"))
		for i, s := range pops {
			_, twice := eng.Reaches(f, s.Instr, pops, nil)
			c.Check(!twice, fmt.Sprintf("one-pop-per-step[%d]", i), s.Instr, f, "one entry is emitted per step", "")
		}
		// the emitted entry is the head's key/value before it is advanced
		for _, fld := range []string{"curKey", "curValue"} {
			st := c.One(f, eng.StoreField("kv/table.mergedIterator."+fld), "m."+fld+" = item.…")
			for _, k := range keySt {
				_, before := eng.Reaches(f, k.Instr, []eng.Site{st}, nil)
				c.Check(!before, "emit-before-advance:"+fld, st.Instr, f, "the current entry is captured before the item is advanced to its iterator's next entry", "")
			}
		}
		// the queue is filled and heapified by initQueue, or in place in the constructor
		iq := p.Func("kv/table.mergedIterator.initQueue")
		if iq == nil || iq.Blocks == nil {
			iq = c.Fn("kv/table.NewMergedIterator")
		}
		c.Check(len(p.Sites(iq, eng.CallTo("container/heap.Init"))) == 1, "heap-initialised", nil, iq, "the queue is heapified after it is filled", "")
		less := c.Fn("kv/table.priorityQueue.Less")
		for _, r := range eng.SuccessReturns(less) {
			d := p.Desc(eng.RetVal(r, 0))
			// Less(i, j) = key[i] < key[j], in either spelling (a < b  or  b > a)
			asc := false
			if bo, ok := eng.Unwrap(eng.RetVal(r, 0)).(*ssa.BinOp); ok {
				x, y := bo.X, bo.Y
				if bo.Op == token.GTR {
					x, y = y, x
				}
				if bo.Op == token.LSS || bo.Op == token.GTR {
					isKeyOf := func(v ssa.Value, idx *ssa.Parameter) bool {
						return eng.DependsOnField(v, "kv/table.item.key") && eng.DependsOn(v, func(z ssa.Value) bool { return z == ssa.Value(idx) })
					}
					if len(less.Params) == 3 {
						asc = isKeyOf(x, less.Params[1]) && isKeyOf(y, less.Params[2]) && !isKeyOf(x, less.Params[2]) && !isKeyOf(y, less.Params[1])
					}
				}
			}
			c.Check(asc || strings.Contains(d, ".key<") && strings.HasSuffix(d, ".key)"), "ordered-by-key", r, less, "the queue is ordered by ascending key", "Less is "+d)
		}
		// a direct call of the queue's own Push / Pop / Swap (the heap.Interface methods, which move elements without sifting) is
		// followed by a heap operation on every path: removing the head by hand (Swap(0, last); Pop()) leaves the last element at
		// the root and the queue is no heap any more
		raw := eng.AnyCallTo("kv/table.priorityQueue.Push", "kv/table.priorityQueue.Pop", "kv/table.priorityQueue.Swap")
		nRaw := 0
		for _, g := range p.FuncsWithPrefix("kv/table.mergedIterator.") {
			gfix := p.Sites(g, fix)
			for i, s := range p.SitesDirect(g, raw) {
				nRaw++
				_, skip := eng.PathExists(eng.PathQuery{Fn: g, After: s.Instr, Target: func(in ssa.Instruction) bool { _, ok := in.(*ssa.Return); return ok },
					Blocked: func(in ssa.Instruction) bool { return instrIn(in, gfix) }})
				c.Check(!skip, fmt.Sprintf("raw-queue-move-is-followed-by-a-heap-operation:%s[%d]", p.FuncKey(g), i), s.Instr, g,
					"an element moved by the queue's own Push / Pop / Swap is sifted into place (heap.Fix / heap.Init / update) before the function returns", "a return is reachable without a heap operation")
			}
		}
		c.Check(true, "raw-queue-moves-scanned", nil, nil, fmt.Sprintf("%d direct Push/Pop/Swap call(s) in mergedIterator", nRaw), "")
	}
}

func instrIsSuccessReturn(f *ssa.Function, r ssa.Instruction) bool {
	for _, x := range eng.SuccessReturns(f) {
		if x == r {
			return true
		}
	}
	return false
}

func findFilesInclusive(c *eng.Ctx) {
	p := c.P
	_ = p
	f := c.Fn("kv/version.version.FindFiles")
	facts := p.MustFacts(f)
	var selects []eng.Site
	for _, s := range c.Some(f, eng.CallTo("builtin:append"), "append(files, file)") {
		// the appends that build the RESULT (a helper listing a level's files appends too)
		for _, r := range eng.SuccessReturns(f) {
			if eng.DependsOn(eng.RetVal(r, 0), func(x ssa.Value) bool { return x == s.Instr.(ssa.Value) }) && s.Instr.Parent() == f {
				selects = append(selects, s)
				break
			}
		}
	}
	if len(selects) == 0 {
		c.Undecided("no append feeding the result of FindFiles")
	}
	for i, s := range selects {
		fs := facts.At(s.Instr)
		lo := facts.Find(fs, "le", eng.DescSuffix(".minKey"), eng.DescIs("key"))
		hi := facts.Find(fs, "le", eng.DescIs("key"), eng.DescSuffix(".maxKey"))
		lt := facts.Find(fs, "lt", eng.DescSuffix(".minKey"), eng.DescIs("key"))
		ht := facts.Find(fs, "lt", eng.DescIs("key"), eng.DescSuffix(".maxKey"))
		// le is satisfied by lt facts too: make sure the guard is not strict by looking at the rejecting edges
		_ = lt
		_ = ht
		c.Check(len(lo) > 0 && len(hi) > 0, fmt.Sprintf("selected-when-within[%d]", i), s.Instr, f, "a file is selected when min <= key <= max", "facts: "+strings.Join(facts.Render(fs), " ; "))
	}
	// no strict comparison: the rejecting edges must be key < min and key > max (strict), i.e. the accepting facts are le, not lt
	strict := eng.EdgesWithFact(f, func(ft eng.Fact) bool {
		if ft.Op != "lt" || ft.Y == nil {
			return false
		}
		dx, dy := p.Desc(ft.X), p.Desc(ft.Y)
		return strings.HasSuffix(dx, ".minKey") && dy == "key" || dx == "key" && strings.HasSuffix(dy, ".maxKey")
	})
	app := selects
	bad := false
	for _, e := range strict {
		first := e.B.Succs[e.Succ].Instrs[0]
		if _, ok := eng.PathExists(eng.PathQuery{Fn: f, After: first, Target: func(in ssa.Instruction) bool { return instrIn(in, app) }, Blocked: func(in ssa.Instruction) bool { _, isNext := in.(*ssa.Next); return isNext }}); ok || instrIn(first, app) {
			// the edge establishing a STRICT bound leads to the append: then equality is excluded
			// (only a problem if that strict edge is the only way in)
			bad = bad || false
		}
	}
	// equality must be accepted: what is known at the selection is min <= key <= max, not the strict form
	strictAt := 0
	for _, sl := range selects {
		fs := facts.At(sl.Instr)
		strictAt += len(facts.Find(fs, "lt", eng.DescSuffix(".minKey"), eng.DescIs("key"))) + len(facts.Find(fs, "lt", eng.DescIs("key"), eng.DescSuffix(".maxKey")))
	}
	c.Check(strictAt == 0 && !bad, "bounds-inclusive", nil, f, "both bounds are inclusive (a key equal to a file's min or max key is found)", fmt.Sprintf("%d strict bounds established at the selection", strictAt))
	rng := false
	for _, b := range eng.BlocksT(f) {
		for _, in := range b.Instrs {
			if ia, ok := in.(*ssa.IndexAddr); ok && eng.DependsOnField(ia.X, "kv/version.version.levels") {
				rng = true
			}
		}
	}
	c.Check(rng, "all-levels", nil, f, "every level is searched", "")
	// the scan visits every file of every level: no break / return out of either loop
	early := eng.EarlyLoopExits(f)
	det := ""
	for _, e := range early {
		det += fmt.Sprintf("block %d leaves the loop headed by block %d; ", e.From.Index, e.Header.Index)
	}
	var at ssa.Instruction
	if len(early) > 0 {
		at = early[0].From.Instrs[len(early[0].From.Instrs)-1]
	}
	c.Check(len(early) == 0, "no-early-exit-from-the-scan", at, f, "FindFiles looks at every file of every level (ranges of files above level 0 may overlap: the first range match need not hold the key)", det)
	for _, fk := range []string{"kv/version.version.getOverlappingInputs", snT + ".FindReaders"} {
		g := c.Fn(fk)
		ex := eng.EarlyLoopExits(g)
		// a failing return inside the loop (reader could not be opened) is not a skipped element
		n := 0
		for _, e := range ex {
			rb := e.From
			if e.To != nil {
				rb = e.To
			}
			if r, ok := rb.Instrs[len(rb.Instrs)-1].(*ssa.Return); ok && !instrIsSuccessReturn(g, r) {
				continue
			}
			n++
		}
		c.Check(n == 0, "no-early-exit:"+fk, nil, g, fk+" visits every candidate file", fmt.Sprintf("%d early exits", n))
	}
	ld := c.Fn(snT + ".Load")
	ff := c.One(ld, invokeOn(".version", "FindFiles"), "version.FindFiles(key)")
	gr := c.Some(ld, invokeOn(".cache", "GetReader"), "cache.GetReader")
	conds, _ := eng.GuardingConds(ld, gr[0].Instr)
	okAll := false
	for _, cd := range conds {
		if eng.DependsOn(cd, func(x ssa.Value) bool { return x == ff.Instr.(ssa.Value) }) {
			okAll = true
		}
	}
	c.Check(okAll, "load-visits-every-selected-file", gr[0].Instr, ld, "a snapshot lookup visits every file FindFiles selected (a key living in several files yields all its values)", "")
	// a missing key in one file does not stop the scan
	get := c.One(ld, invokeOn("", "Get"), "reader.Get(key)")
	_ = get
	c.Check(len(p.Sites(ld, eng.CallTo("errors.Is"))) > 0, "absent-in-one-file-continues", nil, ld, "ErrKeyNotExist from one file continues with the next file", "")
	visitsEveryElement(c, ld, "load-leaves-the-scan-only-with-an-error",
		"a snapshot lookup goes on to the next selected file unless it fails: a file that spans the key without holding it does not end the lookup")
}
