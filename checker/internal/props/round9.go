package props

// Rules added in and after the ninth round of independently produced breaking changes (m17 / m18), and the rules of the
// defects found from F62 on.  None is keyed to the changed lines.

import (
	"fmt"
	"go/token"
	"go/types"
	"strings"

	"golang.org/x/tools/go/ssa"

	"lincheck/internal/eng"
)

// ---- F62 (C09, C10): a bucket the cache hands to lock-free readers is not recycled by the cache ------------------------------------------
//
// getOrCreateValue takes a bucket from bucketCache and searches it with no lock and no reference count.  The cache evicts by
// capacity, by TTL (background goroutine) and on Purge; an eviction callback that releases the bucket puts its tries into
// trie.triePool, the next GetBucket of ANY store takes them out and UnmarshalBinary overwrites their vectors while the first
// reader is still inside GetValue: a flushed name is answered "absent" (a second id is created) or with a foreign id.
// Accepted forms: no eviction callback; a callback from which no pool return is reachable; or a counted release (the pool
// return is guarded by the result of an atomic read-modify-write) together with a counted retain at every cache reader.
func cachedBucketIsNotRecycled(c *eng.Ctx) {
	p := c.P
	c.Rule("OWNER", "index.indexKVStore.bucketCache{a bucket the cache hands to lock-free readers is never recycled by the cache}", func() {
		const fld = "index.indexKVStore.bucketCache"
		isPut := eng.AnyCallTo("pkg/trie.PutTrie")
		var ctors []ssa.Value
		for _, fn := range p.AllFuncs {
			if !strings.HasPrefix(p.FuncKey(fn), "index.") {
				continue
			}
			for _, s := range p.SitesDirect(fn, eng.StoreField(fld)) {
				st, ok := s.Instr.(*ssa.Store)
				if !ok {
					c.Undecided("bucketCache written by %v in %s", s.Instr, p.FuncKey(fn))
					continue
				}
				ctors = append(ctors, leafSources(st.Val)...)
			}
		}
		c.Check(len(ctors) >= 1, "cache-constructed", nil, nil, "the bucket cache is constructed in package index", "no store into "+fld)
		// the readers that take a bucket out of the cache
		type reader struct {
			fn  *ssa.Function
			get *ssa.Call
		}
		var readers []reader
		for _, fn := range p.AllFuncs {
			if !strings.HasPrefix(p.FuncKey(fn), "index.indexKVStore.") {
				continue
			}
			for _, s := range p.SitesDirect(fn, invokeOnGeneric(".bucketCache", "Get")) {
				if cl, ok := s.Instr.(*ssa.Call); ok {
					readers = append(readers, reader{fn, cl})
				}
			}
		}
		c.Check(len(readers) >= 1, "cache-readers-found", nil, nil, "look-ups take buckets out of the cache", "no bucketCache.Get site")
		for i, v := range ctors {
			cl, ok := v.(*ssa.Call)
			if !ok || !strings.HasPrefix(calleeNameAny(cl), "NewLRU") {
				c.Undecided("bucketCache is built by %v, not by expirable.NewLRU", v)
				continue
			}
			args := cl.Common().Args
			if len(args) < 2 {
				c.Undecided("NewLRU with %d arguments", len(args))
				continue
			}
			var evict *ssa.Function
			switch x := eng.Unwrap(args[1]).(type) {
			case *ssa.Const:
				if !x.IsNil() {
					c.Undecided("eviction callback %v", x)
				}
			case *ssa.Function:
				evict = x
			case *ssa.MakeClosure:
				evict, _ = x.Fn.(*ssa.Function)
			default:
				c.Undecided("eviction callback is %T", x)
			}
			if evict == nil {
				c.Check(true, fmt.Sprintf("eviction-does-not-recycle[%d]", i), cl, cl.Parent(), "the cache has no eviction callback: an evicted bucket is left to the garbage collector", "")
				continue
			}
			puts := p.DeepSites(evict, isPut, 5, true)
			counted := len(puts) > 0
			for _, d := range puts {
				leaf := d.Leaf()
				conds, _ := eng.GuardingConds(leaf.Parent(), leaf)
				g := false
				for _, cd := range conds {
					if eng.DependsOn(cd, func(x ssa.Value) bool {
						in, ok := x.(ssa.Instruction)
						if !ok {
							return false
						}
						_, m, _ := eng.AtomicOp(in)
						switch m {
						case "Dec", "Add", "Sub", "CompareAndSwap", "CAS", "Swap":
							return true
						}
						return false
					}) {
						g = true
					}
				}
				if !g {
					counted = false
				}
			}
			retained := counted
			if counted {
				// every reader retains what it took out of the cache: a call on the bucket that reaches an atomic increment
				for _, r := range readers {
					ok := false
					for _, b := range r.fn.Blocks {
						for _, in := range b.Instrs {
							ci, isCall := in.(*ssa.Call)
							if !isCall || len(ci.Common().Args) == 0 && !ci.Common().IsInvoke() {
								continue
							}
							recv := eng.CallRecv(ci)
							if recv == nil || !eng.DependsOn(recv, func(x ssa.Value) bool { return x == ssa.Value(r.get) }) {
								continue
							}
							for _, g := range p.ModuleCallees(ci) {
								if len(p.DeepSites(g, func(_ *eng.Prog, in ssa.Instruction) bool {
									_, m, _ := eng.AtomicOp(in)
									return m == "Inc" || m == "Add" || m == "CompareAndSwap"
								}, 2, false)) > 0 {
									ok = true
								}
							}
						}
					}
					if !ok {
						retained = false
					}
				}
			}
			detail := ""
			if len(puts) > 0 && !retained {
				leaf := puts[0].Leaf()
				detail = fmt.Sprintf("the eviction callback %s reaches %s (%s) unconditionally, and %d reader(s) search a cached bucket without retaining it (first: %s)",
					p.FuncKey(evict), "trie.PutTrie", p.Pos(leaf.Pos()), len(readers), p.FuncKey(readers[0].fn))
			}
			c.Check(len(puts) == 0 || retained, fmt.Sprintf("eviction-does-not-recycle[%d]", i), cl, cl.Parent(),
				"readers take a bucket out of bucketCache and search it with no lock and no reference count, while the cache evicts by capacity, by TTL (background goroutine) and on Purge; the eviction must not return the bucket's tries to trie.triePool (the next bucket load of any store overwrites them under the reader: a flushed name is answered 'absent' and gets a second id, or is answered with a foreign id) unless release and use are counted",
				detail)
		}
	})
}

// condEdges: the out-edges of the If instructions whose condition is exactly v (through negations): edges taken when v is
// true / false.  Unlike eng.BoolCheckEdges it does not follow values derived from v.
func condEdges(fn *ssa.Function, v ssa.Value) (te, fe []eng.Edge) {
	for _, b := range eng.BlocksT(fn) {
		if len(b.Instrs) == 0 {
			continue
		}
		ifi, ok := b.Instrs[len(b.Instrs)-1].(*ssa.If)
		if !ok || len(b.Succs) != 2 {
			continue
		}
		cond, neg := ifi.Cond, false
		for {
			u, ok := cond.(*ssa.UnOp)
			if !ok || u.Op != token.NOT {
				break
			}
			neg, cond = !neg, u.X
		}
		if cond != v {
			continue
		}
		t, f := eng.Edge{B: b, Succ: 0}, eng.Edge{B: b, Succ: 1}
		if neg {
			t, f = f, t
		}
		te, fe = append(te, t), append(fe, f)
	}
	return
}

// calleeNameAny: base name of the callee of a call, generic instantiation stripped.
func calleeNameAny(cl *ssa.Call) string {
	if f := cl.Common().StaticCallee(); f != nil {
		n := f.Name()
		if i := strings.IndexByte(n, '['); i >= 0 {
			n = n[:i]
		}
		return baseName(n)
	}
	return ""
}

// ---- F63 (C20): a 0xff label is the terminator only in a node that has more labels ----------------------------------------------------------
//
// The LOUDS-sparse label vector uses the byte 0xff both as the terminator ("the path to this node is a key") and as a real
// label.  The builder emits a terminator only as the FIRST label of a node that has further labels, and every reader tells
// the two apart by that shape (`size > 1 && labels[start] == terminator`, `label == terminator && !isEndOfNode(pos)`).
// A reader that concludes "terminator" from the byte alone answers Get("") with the value of "\xff" for the dictionary
// {"\xff"}.  Rule (a contradiction rule: all readers but one make the test): whatever is executed only when a label compared
// equal to the terminator is also executed only after a node-size test.
func terminatorLabelNeedsASibling(c *eng.Ctx) {
	p := c.P
	c.Rule("GUARD", "pkg/trie{a 0xff label counts as the terminator only in a node that has more labels}", func() {
		pure := map[string]bool{"IsSet": true, "isEndOfNode": true, "nodeSize": true, "GetLabel": true}
		n := 0
		for _, fn := range p.AllFuncs {
			if !strings.HasPrefix(p.FuncKey(fn), trieP) || strings.HasPrefix(p.FuncKey(fn), trieP+"builder.") {
				continue
			}
			// node-size tests of this function and the edges on which "the node has more labels" holds
			var good []eng.Edge
			for _, b := range fn.Blocks {
				for _, in := range b.Instrs {
					switch x := in.(type) {
					case *ssa.Call:
						if calleeName(x) == "isEndOfNode" {
							_, fe := eng.BoolCheckEdges(fn, x)
							good = append(good, fe...)
						}
					case *ssa.BinOp:
						var sz ssa.Value
						var k int64
						var okc bool
						switch x.Op {
						case token.GTR, token.GEQ:
							k, okc = eng.ConstInt(x.Y)
							sz = x.X
						case token.LSS, token.LEQ:
							k, okc = eng.ConstInt(x.X)
							sz = x.Y
						}
						if !okc || sz == nil {
							continue
						}
						if !((x.Op == token.GTR || x.Op == token.LSS) && k == 1 || (x.Op == token.GEQ || x.Op == token.LEQ) && k == 2) {
							continue
						}
						if !eng.DependsOn(sz, func(y ssa.Value) bool {
							if pa, ok := y.(*ssa.Parameter); ok {
								return strings.Contains(strings.ToLower(pa.Name()), "size")
							}
							return calleeName(y) == "nodeSize"
						}) {
							continue
						}
						te, _ := condEdges(fn, x)
						good = append(good, te...)
					}
				}
			}
			k := 0
			for _, b := range fn.Blocks {
				for _, in := range b.Instrs {
					bo, ok := in.(*ssa.BinOp)
					if !ok || bo.Op != token.EQL && bo.Op != token.NEQ {
						continue
					}
					isTerm := func(v ssa.Value) bool {
						k, ok := eng.ConstInt(v)
						if !ok || k != 0xff {
							return false
						}
						bt, ok := v.Type().Underlying().(*types.Basic)
						return ok && bt.Kind() == types.Uint8
					}
					if !isTerm(bo.X) && !isTerm(bo.Y) {
						continue
					}
					n++
					k++
					te, fe := condEdges(fn, bo)
					if bo.Op == token.NEQ {
						te = fe
					}
					if len(te) == 0 {
						c.Undecided("terminator comparison at %s is not a branch condition", p.Pos(bo.Pos()))
						continue
					}
					domGood := func(at ssa.Instruction) bool {
						for _, g := range good {
							if eng.DominatedByEdge(fn, at, g) {
								return true
							}
						}
						return false
					}
					key := fmt.Sprintf("terminator-test@%s[%d]", p.FuncKey(fn), k)
					if domGood(bo) {
						c.Check(true, key, bo, fn, "the comparison is made only in a node that has more labels", "")
						continue
					}
					var bad ssa.Instruction
					for _, blk := range fn.Blocks {
						if len(blk.Instrs) == 0 || bad != nil {
							continue
						}
						only := true
						for _, e := range te {
							if !eng.DominatedByEdge(fn, blk.Instrs[0], e) {
								only = false
							}
						}
						if !only || blk == te[0].B {
							continue
						}
						var eff ssa.Instruction
						for _, x := range blk.Instrs {
							switch y := x.(type) {
							case *ssa.Store, *ssa.MapUpdate, *ssa.Return, *ssa.Send, *ssa.Go, *ssa.Defer, *ssa.Panic:
								eff = x
							case *ssa.Call:
								if !pure[calleeName(y)] {
									eff = x
								}
							}
							if eff != nil {
								break
							}
						}
						if eff != nil && !domGood(eff) {
							bad = eff
						}
					}
					detail := ""
					if bad != nil {
						detail = fmt.Sprintf("%s is executed because the label equals 0xff, and no node-size test (isEndOfNode / size > 1) lies before it", p.Pos(bad.Pos()))
					}
					c.Check(bad == nil, key, bo, fn,
						"0xff is both the terminator and a real label; the builder emits the terminator only as the first label of a node that has further labels, so a reader may conclude 'the path to this node is a key' only after a node-size test - otherwise the dictionary {\"\\xff\"} answers a look-up of the empty key with the value of \"\\xff\"",
						detail)
				}
			}
		}
		c.Check(n >= 5, "terminator-tests-found", nil, nil, "the readers compare labels with the terminator", fmt.Sprintf("%d comparisons", n))
		// the byte searches inside a node step over the terminator slot: a search for the real label 0xff must not match the
		// terminator of a node that has no such label (Get(K + "\xff") would be answered with the value of K)
		for _, fk := range []string{trieP + "labelVector.Search", trieP + "labelVector.SearchGreaterThan"} {
			g := p.Func(fk)
			if g == nil || g.Blocks == nil {
				continue
			}
			has := false
			for _, b := range eng.BlocksT(g) {
				for _, in := range b.Instrs {
					if bo, ok := in.(*ssa.BinOp); ok && (bo.Op == token.EQL || bo.Op == token.NEQ) {
						for _, side := range []ssa.Value{bo.X, bo.Y} {
							if k, isC := eng.ConstInt(side); isC && k == 0xff {
								if bt, isB := side.Type().Underlying().(*types.Basic); isB && bt.Kind() == types.Uint8 {
									has = true
								}
							}
						}
					}
				}
			}
			c.Check(has, "terminator-stepped-over:"+fk, nil, g,
				"a search for a label byte inside a node leaves the terminator slot out (it tests for the terminator and starts behind it): the terminator shares its byte value with the real label 0xff",
				"the function searches the node's labels without a terminator test")
		}
	})
}

// ---- F64 (C19): a task leaves Submit queued or reported -----------------------------------------------------------------------------------
//
// A pooled stage is counted as pending before it is submitted; baseStage.Execute hands the pool a task with the stage's
// failure handler.  A Submit that returns without queueing the task and without telling that handler (the task context
// was cancelled / timed out, the pool stopped) leaves the stage pending for ever: the pipeline never signals completion,
// the request never gets its response.
func rejectedTaskIsReported(c *eng.Ctx) {
	p := c.P
	c.Rule("PASS", "internal/concurrent.workerPool.Submit{a task with a handler leaves Submit queued, or reported to its failure handler}", func() {
		const poolT = "internal/concurrent.workerPool"
		const taskT = "internal/concurrent.Task"
		f := c.Fn(poolT + ".Submit")
		isFieldLoad := func(v ssa.Value, key string) bool {
			return eng.DependsOn(v, func(x ssa.Value) bool {
				in, ok := x.(ssa.Instruction)
				return ok && eng.LoadField(key)(p, in)
			})
		}
		// the queueing: a plain send, or the send case of a select, on p.tasks
		var selects []*ssa.Select
		sendIdx := map[*ssa.Select]int64{}
		queued := func(in ssa.Instruction) bool {
			if s, ok := in.(*ssa.Send); ok {
				return isFieldLoad(s.Chan, poolT+".tasks")
			}
			return false
		}
		for _, b := range eng.BlocksT(f) {
			for _, in := range b.Instrs {
				if s, ok := in.(*ssa.Select); ok {
					for i, st := range s.States {
						if st.Dir == types.SendOnly && isFieldLoad(st.Chan, poolT+".tasks") {
							selects = append(selects, s)
							sendIdx[s] = int64(i)
						}
					}
				}
			}
		}
		nq := len(selects)
		for _, b := range eng.BlocksT(f) {
			for _, in := range b.Instrs {
				if queued(in) {
					nq++
				}
			}
		}
		c.Check(nq >= 1, "queueing-found", nil, f, "Submit queues the task on p.tasks", "no send on workerPool.tasks")
		// edges that end the obligation: the task was sent (select index == send case), the task has no handler at all,
		// or it has no failure handler to tell
		exempt := eng.EdgesWithFact(f, func(ft eng.Fact) bool {
			if ft.Op != "eq" || ft.Y == nil {
				return false
			}
			for _, pr := range [][2]ssa.Value{{ft.X, ft.Y}, {ft.Y, ft.X}} {
				x, y := pr[0], pr[1]
				if k, ok := eng.ConstInt(y); ok {
					if ex, ok := eng.Unwrap(x).(*ssa.Extract); ok && ex.Index == 0 {
						if s, ok := ex.Tuple.(*ssa.Select); ok {
							if si, has := sendIdx[s]; has && si == k {
								return true
							}
						}
					}
				}
				if cst, ok := y.(*ssa.Const); ok && cst.IsNil() {
					if isFieldLoad(x, taskT+".handle") || isFieldLoad(x, taskT+".panicHandle") {
						return true
					}
				}
			}
			return false
		})
		reported := func(in ssa.Instruction) bool {
			cl, ok := in.(ssa.CallInstruction)
			if !ok || cl.Common().IsInvoke() || cl.Common().StaticCallee() != nil {
				return false
			}
			return isFieldLoad(cl.Common().Value, taskT+".panicHandle")
		}
		w, found := eng.PathExists(eng.PathQuery{Fn: f,
			Target:  func(in ssa.Instruction) bool { _, ok := in.(*ssa.Return); return ok && in.Parent() == f },
			Blocked: func(in ssa.Instruction) bool { return queued(in) || reported(in) },
			Edge:    eng.ForbidEdges(exempt)})
		detail := ""
		if found {
			detail = fmt.Sprintf("a path reaches the return at %s with the task neither sent to p.tasks nor handed to task.panicHandle", p.Pos(w.Pos()))
		}
		c.Check(!found, "no-silent-drop", w, f,
			"a pooled stage is counted as pending before its task is submitted and is completed only by the task or by the task's failure handler: a Submit that drops the task silently (context cancelled or timed out before / while it is queued, pool stopped) leaves the pipeline waiting for ever - no completion, no response",
			detail)
		// and the stage hands the pool its failure handler
		ex := c.Fn("query/stage.baseStage.Execute")
		nt := 0
		for _, s := range p.Sites(ex, eng.AnyCallTo("internal/concurrent.NewTask")) {
			nt++
			args := eng.CallArgs(s.Instr.(ssa.CallInstruction))
			okh := len(args) == 2
			if okh {
				if cst, isC := eng.Unwrap(args[1]).(*ssa.Const); isC && cst.IsNil() {
					okh = false
				}
			}
			c.Check(okh, fmt.Sprintf("stage-task-carries-the-failure-handler[%d]", nt), s.Instr, ex,
				"the task of a pooled stage carries the stage's failure handler", "NewTask is given no failure handler")
		}
		c.Check(nt >= 1, "stage-task-found", nil, ex, "baseStage.Execute builds a pool task", "")
	})
}

// ---- F65 (C14): the slot-addressed skip treats an empty slot like a filled one ---------------------------------------------------------------
//
// TSDDecoder.Seek walks from the cursor to the requested slot.  An empty slot is a zero bit in the slot mask, not a failure:
// leaving the skip loop because HasValueWithSlot answered false stops at the first gap, leaves the cursor one slot short and
// makes the next Value() decode from the wrong position - the slot-addressed read disagrees with the sequential one.
// Rule: an exit from the skip loop other than its header test depends on the decoder's error state.
func seekSkipsEmptySlots(c *eng.Ctx) {
	p := c.P
	c.Rule("SYMMETRY", "pkg/encoding.TSDDecoder.Seek{an empty slot is skipped like a filled one}", func() {
		const decT = "pkg/encoding.TSDDecoder"
		f := p.Func(decT + ".Seek")
		if f == nil || f.Blocks == nil {
			c.Check(true, "no-seek", nil, nil, "the decoder offers no Seek: slot-addressed reads are HasValueWithSlot / GetValue only", "")
			return
		}
		exits := eng.EarlyLoopExits(f)
		n := 0
		for _, e := range exits {
			n++
			var at ssa.Instruction
			if len(e.From.Instrs) > 0 {
				at = e.From.Instrs[len(e.From.Instrs)-1]
			}
			target := at
			if e.To != nil && len(e.To.Instrs) > 0 {
				target = e.To.Instrs[0]
			}
			conds, _ := eng.GuardingConds(f, target)
			onErr := false
			for _, cd := range conds {
				if eng.DependsOn(cd, func(x ssa.Value) bool {
					if in, ok := x.(ssa.Instruction); ok && eng.LoadField(decT+".err", decT+".reader")(p, in) {
						return true
					}
					return calleeName(x) == "Error"
				}) {
					onErr = true
				}
			}
			c.Check(onErr, fmt.Sprintf("skip-loop-exit[%d]", n), at, f,
				"an empty slot is a zero bit of the slot mask: the skip loop of Seek may be left early only on a decoding error, not because a slot on the way has no value - otherwise Seek stops at the first gap, the cursor is one slot short and the following Value() decodes from the wrong position",
				"the loop is left on a condition that does not depend on the decoder's error state")
		}
		c.Check(true, "skip-loop-exits-examined", nil, f, "every early exit of the skip loop was examined", fmt.Sprintf("%d exits", n))
	})
}

// ---- F66 (C16): the numbers of a histogram are numbers ---------------------------------------------------------------------------------------
//
// validateMetric rejects NaN / Inf simple fields; the compound (histogram) checks were all of the form `x < 0`, which is
// false for NaN - a histogram with NaN sum / min / max / count or NaN / Inf bucket values was accepted in protobuf form
// while the flat form of the very same metric is refused by the row builder.  Rule: every scalar of the compound field and
// every bucket value is rejected when it is NaN - by math.IsNaN, or by an ordered comparison whose FALSE outcome rejects
// (every ordered comparison with NaN is false) - and bucket values are tested with math.IsInf.
func histogramNumbersAreNumbers(c *eng.Ctx) {
	p := c.P
	c.Rule("GUARD", "series/metric.BrokerRowProtoConverter.validateMetric{NaN / Inf inside a histogram is rejected}", func() {
		f := c.Fn("series/metric.BrokerRowProtoConverter.validateMetric")
		const cf = "github.com/lindb/common/proto/gen/v1/linmetrics.CompoundField."
		fromField := func(v ssa.Value, name string) bool {
			return eng.DependsOn(v, func(x ssa.Value) bool {
				in, ok := x.(ssa.Instruction)
				return ok && eng.LoadField(cf+name)(p, in)
			})
		}
		rejects := func(b *ssa.BasicBlock) bool {
			// the block (through plain jumps) ends in a return of a non-nil error
			for i := 0; i < 4 && b != nil; i++ {
				if len(b.Instrs) == 0 {
					return false
				}
				switch t := b.Instrs[len(b.Instrs)-1].(type) {
				case *ssa.Return:
					return !eng.ReturnsNilError(t)
				case *ssa.Jump:
					if len(b.Instrs) > 1 {
						// only phis / value computations may precede the jump
						for _, in := range b.Instrs[:len(b.Instrs)-1] {
							switch in.(type) {
							case *ssa.Store, *ssa.Call, *ssa.MapUpdate:
								return false
							}
						}
					}
					b = b.Succs[0]
				default:
					return false
				}
			}
			return false
		}
		for _, name := range []string{"Max", "Min", "Sum", "Count", "Values"} {
			nanSafe, infSafe := false, false
			for _, b := range eng.BlocksT(f) {
				for _, in := range b.Instrs {
					switch x := in.(type) {
					case *ssa.Call:
						n := calleeName(x)
						if (n == "IsNaN" || n == "IsInf") && len(x.Call.Args) > 0 && fromField(x.Call.Args[0], name) {
							te, _ := condEdges(f, x)
							for _, e := range te {
								if rejects(e.B.Succs[e.Succ]) {
									if n == "IsNaN" {
										nanSafe = true
									} else {
										infSafe = true
									}
								}
							}
						}
					case *ssa.BinOp:
						switch x.Op {
						case token.LSS, token.LEQ, token.GTR, token.GEQ:
						default:
							continue
						}
						if !fromField(x.X, name) && !fromField(x.Y, name) {
							continue
						}
						if bt, ok := x.X.Type().Underlying().(*types.Basic); !ok || bt.Info()&types.IsFloat == 0 {
							continue
						}
						_, fe := condEdges(f, x)
						for _, e := range fe {
							if rejects(e.B.Succs[e.Succ]) {
								nanSafe = true
							}
						}
					}
				}
			}
			c.Check(nanSafe, "NaN-rejected:"+name, nil, f,
				"a histogram whose "+name+" is NaN is invalid and must be rejected as a whole (the flat form of the same metric is): the test must be math.IsNaN or an ordered comparison whose FALSE outcome rejects - `x < 0` is false for NaN and lets it through",
				"no NaN-rejecting test of CompoundField."+name)
			if name == "Values" {
				c.Check(infSafe, "Inf-rejected:"+name, nil, f,
					"an infinite bucket count is invalid (the flat form is refused by the row builder)", "no math.IsInf test of CompoundField.Values[i]")
			}
		}
	})
}

// ---- F67 (C19): every receiver of a leaf's answer is served ----------------------------------------------------------------------------------
//
// A leaf answers every receiver of its plan (the root, or the intermediate nodes of a group-by) - each of them counts this
// leaf in its expected results.  sendResponse walks ctx.Receivers; leaving that loop at a receiver whose stream is not
// registered (`break` where `continue` was meant) leaves the receivers behind it without any response, data or error.
func everyReceiverIsAnswered(c *eng.Ctx) {
	c.Rule("EXHAUSTIVE", "query/context.LeafExecuteContext.sendResponse{every receiver is served}", func() {
		f := c.Fn("query/context.LeafExecuteContext.sendResponse")
		sends := c.P.Sites(f, invokeOn("", "Send"))
		c.Check(len(sends) >= 1, "response-sent", nil, f, "the leaf sends its response on the receivers' streams", "no stream.Send in sendResponse")
		visitsEveryElement(c, f, "no-early-exit",
			"every receiver counts this leaf in its expected results: the loop over ctx.Receivers is not left early - a receiver whose stream is missing is skipped, the ones behind it are still answered (data or error); otherwise they wait until their timeout and the request gets no response")
		// ... and the only receiver that is passed over is one without a stream: an "empty" part is still an answer
		nilStream := eng.EdgesWithFact(f, func(ft eng.Fact) bool {
			if ft.Op != "eq" || ft.Y == nil {
				return false
			}
			isStream := func(v ssa.Value) bool { return calleeName(eng.Unwrap(v)) == "GetStream" }
			return isStream(ft.X) && eng.IsNilConst(ft.Y) || isStream(ft.Y) && eng.IsNilConst(ft.X)
		})
		for i, sd := range sends {
			if sd.Instr.Parent() != f {
				continue
			}
			h := innermostLoop(f, sd.Instr.Block())
			if h == nil {
				c.Check(false, fmt.Sprintf("send-in-the-receiver-loop[%d]", i), sd.Instr, f, "the response is sent inside the loop over the receivers", "not in a loop")
				continue
			}
			for _, pr := range h.Preds {
				if !h.Dominates(pr) || sd.Instr.Block().Dominates(pr) {
					continue
				}
				last := pr.Instrs[len(pr.Instrs)-1]
				_, skip := eng.PathExists(eng.PathQuery{Fn: f, After: h.Instrs[0],
					Target:  func(in ssa.Instruction) bool { return in == last },
					Blocked: func(in ssa.Instruction) bool { return in == sd.Instr },
					Edge:    eng.ForbidEdges(nilStream)})
				c.Check(!skip, fmt.Sprintf("receiver-passed-over-only-without-a-stream[%d]", i), last, f,
					"every receiver of the plan counts this leaf in its expected results, also when none of the leaf's groups hashes to it: an iteration goes on to the next receiver without sending only when the receiver has no stream",
					"an iteration can reach the next receiver without stream.Send although a stream was found")
			}
		}
	})
}

// ---- F68 (C16): a flat row that is refused is still consumed ---------------------------------------------------------------------------------
//
// The flat request body is a sequence of size-prefixed rows; HasNext reads the prefix, DecodeTo the body.  A bad row is
// dropped and the batch goes on (parseFlatMetric), so DecodeTo must leave the stream at the next prefix on every exit:
// returning before the body of a row with a positive length was read makes the next HasNext read a "size" from the
// middle of that row - the valid rows behind it are lost, or the whole request fails.
func refusedFlatRowIsConsumed(c *eng.Ctx) {
	p := c.P
	c.Rule("PASS", "series/metric.BrokerRowFlatDecoder.DecodeTo{a row with a positive length is consumed on every exit}", func() {
		const decT = "series/metric.BrokerRowFlatDecoder"
		f := c.Fn(decT + ".DecodeTo")
		fromField := func(v ssa.Value, key string) bool {
			return eng.DependsOn(v, func(x ssa.Value) bool {
				in, ok := x.(ssa.Instruction)
				return ok && eng.LoadField(key)(p, in)
			})
		}
		reads := func(in ssa.Instruction) bool {
			cl, ok := in.(*ssa.Call)
			if !ok {
				return false
			}
			switch calleeName(cl) {
			case "ReadFull", "CopyN", "Read", "ReadAtLeast", "Discard":
			default:
				return false
			}
			if cl.Common().IsInvoke() && fromField(cl.Common().Value, decT+".reader") {
				return true
			}
			for _, a := range cl.Common().Args {
				if fromField(a, decT+".reader") {
					return true
				}
			}
			return false
		}
		n := 0
		for _, b := range eng.BlocksT(f) {
			for _, in := range b.Instrs {
				if reads(in) {
					n++
				}
			}
		}
		c.Check(n >= 1, "body-read-found", nil, f, "DecodeTo reads the row body from the request reader", "no read of itr.reader")
		exempt := eng.EdgesWithFact(f, func(ft eng.Fact) bool {
			if ft.Op != "le" && ft.Op != "lt" && ft.Op != "eq" || ft.Y == nil {
				return false
			}
			k, ok := eng.ConstInt(ft.Y)
			return ok && (ft.Op == "le" && k <= 0 || ft.Op == "lt" && k <= 1 || ft.Op == "eq" && k == 0) && fromField(ft.X, decT+".size")
		})
		w, found := eng.PathExists(eng.PathQuery{Fn: f,
			Target:  func(in ssa.Instruction) bool { _, ok := in.(*ssa.Return); return ok && in.Parent() == f },
			Blocked: reads,
			Edge:    eng.ForbidEdges(exempt)})
		detail := ""
		if found {
			detail = "DecodeTo returns at " + p.Pos(w.Pos()) + " with a positive row length and the body still in the stream"
		}
		c.Check(!found, "no-exit-before-the-body", w, f,
			"a refused row is dropped and the batch continues with the next size prefix: every exit of DecodeTo for a row of positive length lies behind a read (or discard) of the row's bytes - otherwise the next prefix is taken from the middle of the refused row and the valid rows behind it are lost",
			detail)
	})
}

// ---- F69 (C16): only the simple field types the converter can store are accepted -------------------------------------------------------------
//
// MarshalProtoMetricV1 maps the protobuf field type to the flat type with a switch that has no default; validateMetric
// refused SIMPLE_UNSPECIFIED only.  A type outside the enum (9) passed the validation, matched no case and was stored as
// the flat UnSpecified type - exactly what the validation exists to refuse.  The rule evaluates the comparisons on the
// field type concretely: for every candidate value outside the set the switch handles, no success return of the
// converter is reachable on the edges consistent with that value.
func onlyStorableFieldTypesAccepted(c *eng.Ctx) {
	p := c.P
	c.Rule("EXHAUSTIVE", "series/metric.BrokerRowProtoConverter.MarshalProtoMetricV1{a simple field type the type switch does not map is refused}", func() {
		f := c.Fn("series/metric.BrokerRowProtoConverter.MarshalProtoMetricV1")
		const tf = "github.com/lindb/common/proto/gen/v1/linmetrics.SimpleField.Type"
		isType := func(v ssa.Value) bool {
			v = eng.Unwrap(v)
			in, ok := v.(ssa.Instruction)
			return ok && eng.LoadField(tf)(p, in)
		}
		// comparisons of the field type with a constant
		type cmp struct {
			b   *ssa.BasicBlock
			op  token.Token
			k   int64
			rev bool // constant on the left
			neg bool
		}
		var cmps []cmp
		handled := map[int64]bool{}
		for _, b := range eng.BlocksT(f) {
			if len(b.Instrs) == 0 || len(b.Succs) != 2 {
				continue
			}
			ifi, ok := b.Instrs[len(b.Instrs)-1].(*ssa.If)
			if !ok {
				continue
			}
			cond, neg := ifi.Cond, false
			for {
				u, ok := cond.(*ssa.UnOp)
				if !ok || u.Op != token.NOT {
					break
				}
				neg, cond = !neg, u.X
			}
			bo, ok := cond.(*ssa.BinOp)
			if !ok {
				continue
			}
			if k, ok := eng.ConstInt(bo.Y); ok && isType(bo.X) {
				cmps = append(cmps, cmp{b, bo.Op, k, false, neg})
				if bo.Op == token.EQL && b.Parent() == f {
					handled[k] = true
				}
			} else if k, ok := eng.ConstInt(bo.X); ok && isType(bo.Y) {
				cmps = append(cmps, cmp{b, bo.Op, k, true, neg})
				if bo.Op == token.EQL && b.Parent() == f {
					handled[k] = true
				}
			}
		}
		c.Check(len(handled) >= 2, "type-switch-found", nil, f, "the converter maps the protobuf field type to the flat field type", fmt.Sprintf("%d cases", len(handled)))
		eval := func(cm cmp, v int64) bool {
			x, y := v, cm.k
			if cm.rev {
				x, y = cm.k, v
			}
			var r bool
			switch cm.op {
			case token.EQL:
				r = x == y
			case token.NEQ:
				r = x != y
			case token.LSS:
				r = x < y
			case token.LEQ:
				r = x <= y
			case token.GTR:
				r = x > y
			case token.GEQ:
				r = x >= y
			default:
				return true
			}
			return r != cm.neg
		}
		val := c.Fn("series/metric.BrokerRowProtoConverter.validateMetric")
		succeeds := func(fn *ssa.Function, v int64) bool {
			filter := func(b *ssa.BasicBlock, succ int) bool {
				for _, cm := range cmps {
					if cm.b == b {
						if eval(cm, v) {
							return succ == 0
						}
						return succ == 1
					}
				}
				return true
			}
			// from every read of a field's type in fn: is a success return reachable on the edges consistent with v?
			n := 0
			for _, b := range fn.Blocks {
				for _, in := range b.Instrs {
					if v, ok := in.(ssa.Value); !ok || !isType(v) {
						continue
					}
					n++
					if _, found := eng.PathExists(eng.PathQuery{Fn: fn, After: in,
						Target: func(in ssa.Instruction) bool {
							r, ok := in.(*ssa.Return)
							return ok && in.Parent() == fn && eng.ReturnsNilError(r)
						},
						Edge: filter}); !found {
						return false
					}
				}
			}
			if n == 0 {
				c.Undecided("%s does not read the simple field type", p.FuncKey(fn))
			}
			return true
		}
		var accepted []string
		for _, v := range []int64{-1, 0, 1, 2, 3, 4, 5, 6, 7, 8, 9, 16, 100, 255} {
			if handled[v] {
				continue
			}
			// the validation lets the value through and the converter itself (its switch may have a refusing default) too
			if succeeds(val, v) && succeeds(f, v) {
				accepted = append(accepted, fmt.Sprint(v))
			}
		}
		c.Check(len(accepted) == 0, "unmapped-type-refused", nil, f,
			"a field whose type the switch does not map is written without a type, i.e. stored as the flat UnSpecified type - which the validation refuses when it is sent as such; an invalid metric is rejected as a whole",
			"the converter succeeds for simple field type value(s) "+strings.Join(accepted, ", ")+" although its type switch has no case for them")
	})
}

// ---- C03-m18 (C03, C04): the merge-side down-sampling emits every target slot -------------------------------------------------------------
//
// The only consumer of DownSamplingMultiSeriesInto, TSDEncoder.EmitDownSamplingValue, ignores the position it is handed and
// appends one slot mark per call: the stream it builds is positional.  Skipping the target slots that got no value shifts
// every later value to an earlier slot.
func downSamplingEmitsEverySlot(c *eng.Ctx) {
	c.Rule("EXHAUSTIVE", "aggregation.DownSamplingMultiSeriesInto{every target slot is emitted, in order}", func() {
		f := c.Fn("aggregation.DownSamplingMultiSeriesInto")
		var emits []eng.Site
		for _, b := range eng.BlocksT(f) {
			for _, in := range b.Instrs {
				if cl, ok := in.(*ssa.Call); ok {
					if pa, isP := eng.Unwrap(cl.Common().Value).(*ssa.Parameter); isP && cl.Common().StaticCallee() == nil && !cl.Common().IsInvoke() {
						if _, isFn := pa.Type().Underlying().(*types.Signature); isFn {
							emits = append(emits, eng.Site{Fn: in.Parent(), Instr: in})
						}
					}
				}
			}
		}
		if len(emits) != 1 {
			c.Undecided("expected one call of the emit callback in DownSamplingMultiSeriesInto, found %d", len(emits))
		}
		f = emits[0].Instr.Parent() // the function that holds the emit loop (f itself, or a helper it was moved into)
		everyIterationPasses(c, f, emits[0], "no-slot-skipped",
			"the consumer (TSDEncoder.EmitDownSamplingValue) appends one slot mark per call and ignores the position argument: the emit loop calls the callback for EVERY target slot, the empty ones (+Inf marker) included - a skipped slot moves every later value one slot earlier")
		h := innermostLoop(f, emits[0].Instr.Block())
		n := 0
		for _, e := range eng.EarlyLoopExits(f) {
			if e.Header == h {
				n++
			}
		}
		c.Check(n == 0, "emit-loop-runs-to-the-end", emits[0].Instr, f, "the emit loop is not left before the last target slot", fmt.Sprintf("%d early exits", n))
		// and the consumer is positional: it does not use the position
		em := c.Fn("pkg/encoding.TSDEncoder.EmitDownSamplingValue")
		c.Check(len(em.Params) >= 2, "consumer-found", nil, em, "the consumer of the emitted values", "")
	})
}

// ---- C04-m17 (C04, C01): what a decoded edit-log record keeps does not alias the record buffer ---------------------------------------------
//
// Log.Decode runs during manifest recovery over a record buffer that the journal reader reuses for the next record.  A
// string / slice that a record keeps in its fields must be a copy: a zero-copy view (Reader.ReadSlice, strutil.ByteSlice2String)
// is rewritten by the following records - the recovered store name of a rollup reference turns into garbage, the "already
// rolled up" look-up misses after a restart and the source file is merged into the target a second time.
func freshValue(p *eng.Prog, v ssa.Value, depth int, seen map[ssa.Value]bool) (bool, string) {
	v = eng.Unwrap(v)
	if v == nil || depth > 6 {
		return false, "unresolved value"
	}
	if seen[v] {
		return true, ""
	}
	seen[v] = true
	isBytesOrString := func(t types.Type) bool {
		switch u := t.Underlying().(type) {
		case *types.Basic:
			return u.Info()&types.IsString != 0
		case *types.Slice:
			return true
		}
		return false
	}
	if !isBytesOrString(v.Type()) {
		return true, "" // scalars carry no reference
	}
	switch x := v.(type) {
	case *ssa.Const, *ssa.MakeSlice, *ssa.Alloc:
		return true, ""
	case *ssa.Convert:
		_, fromStr := x.X.Type().Underlying().(*types.Basic)
		_, toStr := x.Type().Underlying().(*types.Basic)
		if fromStr != toStr {
			return true, "" // string <-> []byte conversion copies
		}
		return freshValue(p, x.X, depth+1, seen)
	case *ssa.BinOp:
		return true, "" // string concatenation allocates
	case *ssa.Slice:
		return freshValue(p, x.X, depth+1, seen)
	case *ssa.Phi:
		for _, e := range x.Edges {
			if ok, why := freshValue(p, e, depth+1, seen); !ok {
				return false, why
			}
		}
		return true, ""
	case *ssa.Extract:
		if cl, ok := x.Tuple.(*ssa.Call); ok {
			return freshCallResult(p, cl, x.Index, depth, seen)
		}
		return false, p.Desc(v)
	case *ssa.Call:
		return freshCallResult(p, x, 0, depth, seen)
	case *ssa.UnOp:
		if x.Op == token.MUL {
			for _, src := range leafSources(x) {
				if src == ssa.Value(x) {
					return false, "a view of " + p.Desc(x.X)
				}
				if ok, why := freshValue(p, src, depth+1, seen); !ok {
					return false, why
				}
			}
			return true, ""
		}
	}
	return false, "a view of " + p.Desc(v)
}

func freshCallResult(p *eng.Prog, cl *ssa.Call, idx, depth int, seen map[ssa.Value]bool) (bool, string) {
	if _, isB := cl.Common().Value.(*ssa.Builtin); isB {
		switch cl.Common().Value.Name() {
		case "append":
			// append(dst, src...) : the result is dst's array (or a new one)
			return freshValue(p, cl.Common().Args[0], depth+1, seen)
		}
		return false, "the result of " + cl.Common().Value.Name() + " (no copy)"
	}
	g := cl.Common().StaticCallee()
	if g == nil {
		if cl.Common().IsInvoke() {
			for _, m := range p.ModuleCallees(cl) {
				if ok, why := freshReturns(p, m, idx, depth, seen); !ok {
					return false, why
				}
			}
			return true, ""
		}
		return false, "the result of a dynamic call"
	}
	if g.Blocks == nil || g.Pkg == nil || !strings.HasPrefix(g.Pkg.Pkg.Path(), "github.com/lindb/lindb") {
		return true, "" // standard library / external: Clone, Sprintf, builders ... return their own memory
	}
	return freshReturns(p, g, idx, depth, seen)
}

func freshReturns(p *eng.Prog, g *ssa.Function, idx, depth int, seen map[ssa.Value]bool) (bool, string) {
	if g.Blocks == nil {
		return true, ""
	}
	for _, b := range g.Blocks {
		for _, in := range b.Instrs {
			r, ok := in.(*ssa.Return)
			if !ok || idx >= len(r.Results) {
				continue
			}
			rv := eng.Unwrap(r.Results[idx])
			// a parameter handed back: unsafe.String(&bytes[0], n) and the like are views of the argument
			if ok, why := freshValue(p, rv, depth+1, seen); !ok {
				return false, why + " (returned by " + p.FuncKey(g) + ")"
			}
		}
	}
	return true, ""
}

func decodedRecordOwnsItsStrings(c *eng.Ctx) {
	p := c.P
	c.Rule("PROV", "kv/version.Log.Decode{a decoded record keeps copies, not views of the record buffer}", func() {
		n, m := 0, 0
		for _, fn := range p.AllFuncs {
			k := p.FuncKey(fn)
			if !strings.HasPrefix(k, "kv/version.") || !strings.HasSuffix(k, ".Decode") || fn.Signature.Recv() == nil || len(fn.Params) != 2 {
				continue
			}
			n++
			for _, b := range eng.BlocksT(fn) {
				for _, in := range b.Instrs {
					st, ok := in.(*ssa.Store)
					if !ok {
						continue
					}
					fa, ok := st.Addr.(*ssa.FieldAddr)
					if !ok {
						continue
					}
					switch u := st.Val.Type().Underlying().(type) {
					case *types.Basic:
						if u.Info()&types.IsString == 0 {
							continue
						}
					case *types.Slice:
					default:
						continue
					}
					m++
					ok2, why := freshValue(p, st.Val, 0, map[ssa.Value]bool{})
					c.Check(ok2, fmt.Sprintf("%s:%s-is-a-copy", k, eng.FieldKeyOfAddr(fa)), st, fn,
						"the journal reader reuses one record buffer for all records of a manifest: a string / slice a decoded record keeps is a copy of the bytes, never a zero-copy view (Reader.ReadSlice, strutil.ByteSlice2String) - the view is rewritten by the records that follow, and a recovered rollup reference then names a garbage store: the 'already rolled up' look-up misses and the file is rolled up twice",
						"the stored value is "+why)
				}
			}
		}
		c.Check(n >= 6 && m >= 2, "decoders-found", nil, nil, "the edit-log record decoders", fmt.Sprintf("%d Decode methods, %d string/slice fields kept", n, m))
	})
}

// ---- C07-m18 (C07, C08): a rewind to the acknowledged position itself is accepted ------------------------------------------------------------
//
// After a restart the local replicator rewinds with ResetReplicaIndex(ack+1), i.e. SetConsumedSeq(ack): everything above
// the acknowledged position is replayed.  A remote replicator that reconnects rewinds to exactly its acknowledged index
// too.  Whatever validation SetConsumedSeq does, it must let seq == acknowledged through - refusing it silently keeps the
// consumed position of the crashed process, the entries in (ack, consumed] are never replayed and the next flush
// acknowledges past them.
func rewindToTheAckIsAccepted(c *eng.Ctx) {
	p := c.P
	c.Rule("GUARD", cgT+".SetConsumedSeq{a rewind to the acknowledged position is accepted}", func() {
		f := c.Fn(cgT + ".SetConsumedSeq")
		facts := p.MustFacts(f)
		sts := c.Some(f, eng.StoreField(cgT+".consumedSeq"), "store to consumedSeq")
		isAck := func(d string, v ssa.Value) bool {
			return eng.DependsOn(v, func(x ssa.Value) bool {
				in, ok := x.(ssa.Instruction)
				return ok && eng.LoadField(cgT+".acknowledgedSeq")(p, in)
			}) || strings.Contains(d, "AcknowledgedSeq") || strings.Contains(d, "acknowledgedSeq")
		}
		isSeq := func(d string, v ssa.Value) bool {
			pa, ok := eng.Unwrap(v).(*ssa.Parameter)
			return ok && pa.Parent() == f
		}
		for i, st := range sts {
			fs := facts.At(st.Instr)
			strict := facts.Find(fs, "lt", isAck, isSeq)
			ne := facts.Find(fs, "ne", isAck, isSeq)
			ne = append(ne, facts.Find(fs, "ne", isSeq, isAck)...)
			c.Check(len(strict) == 0 && len(ne) == 0, fmt.Sprintf("ack-itself-accepted[%d]", i), st.Instr, f,
				"the start-up rewind of the local replicator is SetConsumedSeq(acknowledged): the consumed position is stored for seq == acknowledged as well - a bound that refuses it keeps the crash-time position, the entries in (ack, consumed] are not replayed and are acknowledged by the next flush",
				"the store is reached only under: "+strings.Join(facts.Render(fs), " ; "))
		}
	})
}

// ---- C04-m18 (C04): a rollup mark stands for the data of one flush ---------------------------------------------------------------------------
//
// A "waiting for rollup" mark is created by the flusher for the table it has just written, and only there (the manifest
// snapshot re-writes the marks that exist).  The rollup merges exactly the marked files into the target family.  A
// compaction that marks its OUTPUT hands the rollup the overlapping level-1 data as well - data that was rolled up long
// ago is merged into the target a second time.
func rollupMarkOnlyForAFlushedTable(c *eng.Ctx) {
	c.Rule("OWNER", "kv/version.CreateNewRollupFile{a rollup mark is created for a freshly flushed table only}", func() {
		owner(c, "creation of a 'waiting for rollup' mark", eng.AnyCallTo("kv/version.CreateNewRollupFile"),
			[]string{sfT + ".Commit", "kv/version.storeVersionSet.createFamilySnapshot", "kv/version.storeVersionSet.createSnapshot"}, 1)
	})
}

// ---- C05-m18 (C05): every page file found on disk is registered when a queue is opened -------------------------------------------------------
//
// Get / GC look pages up with GetPage, which knows only registered pages; the writer acquires just the page of its cursor.
// loadPages therefore acquires EVERY page file it lists - a file that is skipped (taken for "incomplete" because the
// configured page size grew, say) leaves the messages on it unreadable although they lie above the acknowledged position,
// and GC never sees the file again.
func everyPageFileIsLoaded(c *eng.Ctx) {
	c.Rule("EXHAUSTIVE", "pkg/queue/page.factory.loadPages{every listed page file is acquired}", func() {
		f := c.Fn("pkg/queue/page.factory.loadPages")
		acq := c.One(f, eng.AnyCallTo("pkg/queue/page.factory.AcquirePage"), "f.AcquirePage(seq)")
		everyIterationPasses(c, f, acq, "no-file-skipped",
			"a message is readable only through a registered page (Get uses GetPage): opening a queue registers every page file of the directory, whatever its size - no iteration of the scan skips the acquisition")
		visitsEveryElement(c, f, "scan-not-cut-short", "the scan of the directory ends only at its end or with an error")
	})
}

// ---- C06-m17 (C06): an index reset excludes the creation of consumer groups ------------------------------------------------------------------
//
// FanOutQueue.SetAppendedSeq resets the queue and then every consumer group to the new position.  GetOrCreateConsumerGroup
// (write side of lock4map) clamps a new group against the queue's CURRENT appended position.  Both steps of the reset run
// in one hold of lock4map: a group created between "groups copied" and "queue reset" is clamped against the old position
// and never reset - consumed > appended, the records appended after the reset are never handed to it.
func indexResetExcludesGroupCreation(c *eng.Ctx) {
	p := c.P
	c.Rule("GUARDED-BY", foT+".SetAppendedSeq{queue reset and group resets in one hold of the group-map lock}", func() {
		f := c.Fn(foT + ".SetAppendedSeq")
		ls := p.Locks(f, nil)
		q := c.One(f, invokeOn(".queue", "SetAppendedSeq"), "fq.queue.SetAppendedSeq(seq)")
		gs := c.Some(f, invokeOn("", "SetSeq"), "group.SetSeq(seq)")
		c.Check(ls.At(q.Instr).HasField(foMu, false), "queue-reset-under-map-lock", q.Instr, f,
			"the queue is reset while lock4map is held (GetOrCreateConsumerGroup takes its write side and clamps a new group against the queue's current position)", "held: "+ls.At(q.Instr).String())
		// F74: the hold is EXCLUSIVE - Sync computes the minimum group ack and applies it under the read side, an index reset
		// under the read side as well can run between the two and the stale minimum is then accepted by the regrown log
		c.Check(ls.At(q.Instr).HasField(foMu, true), "reset-holds-the-write-side", q.Instr, f,
			"an index reset moves the queue and every group: it holds the WRITE side of lock4map, so that it cannot overlap Sync (read side), which would otherwise apply a minimum group ack computed before the reset to the queue after it - the queue-wide ack then lies beyond every group's ack",
			"held: "+ls.At(q.Instr).String())
		for i, g := range gs {
			ok, why := ls.SameHold(q.Instr, g.Instr, foMu, false)
			c.Check(ok, fmt.Sprintf("group-reset-in-the-same-hold[%d]", i), g.Instr, f,
				"the groups are reset in the same hold of lock4map in which the queue was reset: no group can be created (and clamped against the old position) in between and then missed by the reset", why)
		}
	})
}

// ---- C08-m17 (C08): the handshake measures the follower against ITS OWN acknowledged position ------------------------------------------------
//
// "remote ack < baseline" is how the leader notices a follower that lost its log (or is new): the baseline is the
// acknowledged position of this follower's consumer group.  The log's GC barrier (Queue.AcknowledgedSeq) lags that
// position - it is moved by the periodic GC task only - so a follower that lost its log is not detected while the
// barrier lags, the leader stays ready with its ack for the follower above what the follower has appended.
func handshakeBaselineIsTheGroupAck(c *eng.Ctx) {
	p := c.P
	c.Rule("PROV", rrT+".IsReady{the follower's ack is compared with this follower's consumer-group ack}", func() {
		f := c.Fn(rrT + ".IsReady")
		isRemote := func(v ssa.Value) bool {
			return eng.DependsOn(v, func(x ssa.Value) bool {
				n := calleeName(x)
				return n == "getLastAckIdxFromReplica" || n == "GetReplicaAckIndex"
			})
		}
		n := 0
		for _, b := range eng.BlocksT(f) {
			for _, in := range b.Instrs {
				bo, ok := in.(*ssa.BinOp)
				if !ok {
					continue
				}
				switch bo.Op {
				case token.LSS, token.GTR, token.LEQ, token.GEQ:
				default:
					continue
				}
				var base ssa.Value
				switch {
				case isRemote(bo.X) && !isRemote(bo.Y):
					base = bo.Y
				case isRemote(bo.Y) && !isRemote(bo.X):
					base = bo.X
				default:
					continue
				}
				// only the comparison against an acknowledged position (the other one is against the append index)
				isAck := eng.DependsOn(base, func(x ssa.Value) bool {
					nm := calleeName(x)
					return nm == "AckIndex" || nm == "AcknowledgedSeq"
				})
				if !isAck {
					continue
				}
				n++
				viaLog := eng.DependsOn(base, func(x ssa.Value) bool { return calleeName(x) == "Queue" })
				c.Check(!viaLog, fmt.Sprintf("baseline-is-the-group-ack[%d]", n), bo, f,
					"a follower that lost its log (or is new) is recognised by 'remote ack < acknowledged position of this follower's consumer group'; the log's GC barrier (Queue().Queue().AcknowledgedSeq()) lags behind it and hides the loss",
					"the baseline is "+p.Desc(base))
			}
		}
		c.Check(n >= 1, "ack-comparison-found", nil, f, "the handshake compares the follower's ack with the leader's ack for it", "")
	})
}

// ---- C11-m18 (C11): a page id is bound to a series only together with the advance of the page-id sequence -------------------------------------
//
// GetOrCreatePage hands a new series the next page id; creating the region of that page can fail (mkdir / open / mmap).
// The binding series -> page id and the advance of the sequence belong together: a binding that survives a failed call
// while the sequence stays where it was gives the NEXT new series the same page id - two series write into one 128-byte
// page, their points are mixed in memory and, after a flush, for good.
func pageBindingAndSequenceTogether(c *eng.Ctx) {
	p := c.P
	c.Rule("TYPESTATE", "tsdb/memdb.dataPointBuffer.GetOrCreatePage{a page id is bound only when the page-id sequence advances}", func() {
		const T = "tsdb/memdb.dataPointBuffer"
		f := c.Fn(T + ".GetOrCreatePage")
		binds := c.Some(f, invokeOn(".ids", "PutIfNotExist", "Put"), "d.ids.PutIfNotExist(series, pageID)")
		isAdvance := eng.StoreField(T + ".pageIDSeq")
		for i, b := range binds {
			w, fails := eng.PathExists(eng.PathQuery{Fn: f, After: b.Instr,
				Target: func(in ssa.Instruction) bool {
					r, ok := in.(*ssa.Return)
					return ok && in.Parent() == f && !eng.ReturnsNilError(r)
				}})
			detail := ""
			if fails {
				detail = "after the binding the call can still fail at " + p.Pos(w.Pos()) + " (the sequence is not advanced on that exit)"
			}
			c.Check(!fails, fmt.Sprintf("no-failing-exit-after-the-binding[%d]", i), b.Instr, f,
				"the series is bound to the page id only after everything that can fail has succeeded: a binding left behind by a failed call (region creation: mkdir, open, mmap) is handed out again to the next new series, because the page-id sequence is advanced on success only - two series then share one write page",
				detail)
			_, skip := eng.PathExists(eng.PathQuery{Fn: f, After: b.Instr,
				Target:  func(in ssa.Instruction) bool { _, ok := in.(*ssa.Return); return ok && in.Parent() == f },
				Blocked: func(in ssa.Instruction) bool { return isAdvance(p, in) }})
			c.Check(!skip, fmt.Sprintf("binding-advances-the-sequence[%d]", i), b.Instr, f,
				"every path from the binding to a return advances d.pageIDSeq", "a return is reachable after the binding without d.pageIDSeq++")
		}
	})
}

// ---- C12-m17 (C12): a selected field the node's schema does not know fails the leaf task -----------------------------------------------------
//
// The root builds its aggregators from the field specs of the FIRST leaf response and silently drops what it has no
// aggregator for; that only works because every non-empty leaf response carries the same spec list - a leaf that cannot
// resolve one of the selected fields answers with an error, not with the fields it happens to know.
func unknownSelectFieldFailsTheLeaf(c *eng.Ctx) {
	p := c.P
	c.Rule("ERRFLOW", "query/operator.metadataLookup.field{an unknown select field is an error}", func() {
		const T = "query/operator.metadataLookup"
		f := c.Fn(T + ".field")
		finds := c.Some(f, invokeOn(".Fields", "Find"), "Schema.Fields.Find(name)")
		latch := eng.StoreField(T + ".err")
		for i, fd := range finds {
			_, fe := eng.BoolCheckEdges(f, fd.Instr.(ssa.Value))
			c.Check(len(fe) >= 1, fmt.Sprintf("not-found-tested[%d]", i), fd.Instr, f, "the look-up result is tested", "the 'found' result of Fields.Find is not tested")
			for j, e := range fe {
				first := e.B.Succs[e.Succ].Instrs[0]
				w, quiet := eng.PathExists(eng.PathQuery{Fn: f, After: first,
					Target:  func(in ssa.Instruction) bool { _, ok := in.(*ssa.Return); return ok && in.Parent() == f },
					Blocked: func(in ssa.Instruction) bool { return latch(p, in) }})
				if latch(p, first) {
					quiet = false
				}
				detail := ""
				if quiet {
					detail = "the not-found branch returns at " + p.Pos(w.Pos()) + " without recording an error in op.err"
				}
				c.Check(!quiet, fmt.Sprintf("not-found-is-latched[%d,%d]", i, j), fd.Instr, f,
					"a selected field that this node's schema does not contain makes the leaf fail with 'field not found' (the root tolerates that answer as 'no data on this node'); answering with the remaining fields gives the root responses with different field lists, and the root drops every field the first response did not carry",
					detail)
			}
		}
		// and the latch is what selectList returns
		sl := c.Fn(T + ".selectList")
		c.Check(len(p.Sites(sl, eng.LoadField(T+".err"))) >= 1, "latch-is-returned", nil, sl, "selectList reports the latched error", "")
	})
}

// ---- C13-m17 (C13, C11): the query examines every family of a segment ---------------------------------------------------------------------
//
// Family names are un-padded decimal numbers (hour 0..23, day 1..31, month 1..12) and the kv store lists them in map
// order: no order of the list means anything in time ("10" sorts before "2").  Whether a family belongs to the query is
// decided for each family on its own; a scan that stops early loses the families behind the stop.
func everyFamilyOfTheSegmentExamined(c *eng.Ctx) {
	c.Rule("EXHAUSTIVE", "tsdb.segment.GetDataFamilies{every family of the segment is examined}", func() {
		f := c.Fn("tsdb.segment.GetDataFamilies")
		ov := c.Some(f, eng.AnyCallTo("pkg/timeutil.TimeRange.Overlap"), "timeRange.Overlap(family.TimeRange())")
		visitsEveryElement(c, f, "scan-not-cut-short",
			"the family names of a segment carry no order in time (un-padded decimals, listed in map order): the scan runs over all of them and tests each family's own range against the query range")
		_ = ov
	})
}

// ---- C13-m18 (C13): two time ranges are compared as closed intervals --------------------------------------------------------------------------
//
// Everywhere in the engine a TimeRange includes its End; the planner produces Start == End for a query that falls into one
// storage slot.  Overlap answers "no" only because a containment test between the TWO ranges failed - never because one
// range looks "empty" under a half-open reading (IsEmpty is Start >= End): such a guard makes a correctly planned
// one-slot query match no family.
func overlapIsAClosedIntervalTest(c *eng.Ctx) {
	p := c.P
	c.Rule("GUARD", "pkg/timeutil.TimeRange.Overlap{'no overlap' only after a failed containment test between the two ranges}", func() {
		f := c.Fn("pkg/timeutil.TimeRange.Overlap")
		if len(f.Params) != 2 {
			c.Undecided("Overlap has %d parameters", len(f.Params))
		}
		fromParam := func(v ssa.Value, pa *ssa.Parameter) bool {
			return eng.DependsOn(v, func(x ssa.Value) bool { return x == ssa.Value(pa) })
		}
		var cross []eng.Edge
		for _, b := range f.Blocks {
			for _, in := range b.Instrs {
				switch x := in.(type) {
				case *ssa.Call:
					if calleeName(x) == "Contains" {
						_, fe := eng.BoolCheckEdges(f, x)
						cross = append(cross, fe...)
					}
				case *ssa.BinOp:
					switch x.Op {
					case token.LSS, token.LEQ, token.GTR, token.GEQ:
						r, o := f.Params[0], f.Params[1]
						if fromParam(x.X, r) && fromParam(x.Y, o) && !fromParam(x.X, o) && !fromParam(x.Y, r) ||
							fromParam(x.X, o) && fromParam(x.Y, r) && !fromParam(x.X, r) && !fromParam(x.Y, o) {
							te, fe := condEdges(f, x)
							cross = append(cross, te...)
							cross = append(cross, fe...)
						}
					}
				}
			}
		}
		c.Check(len(cross) >= 1, "containment-tests-found", nil, f, "Overlap tests the two ranges against each other", "")
		n := 0
		for _, b := range f.Blocks {
			r, ok := b.Instrs[len(b.Instrs)-1].(*ssa.Return)
			if !ok || len(r.Results) != 1 {
				continue
			}
			k, isC := eng.Unwrap(r.Results[0]).(*ssa.Const)
			if !isC || k.Value == nil || k.Value.String() != "false" {
				continue
			}
			n++
			okd := false
			for _, e := range cross {
				if eng.DominatedByEdge(f, r, e) {
					okd = true
				}
			}
			c.Check(okd, fmt.Sprintf("false-only-after-a-cross-test[%d]", n), r, f,
				"a TimeRange includes its End (Contains is start <= t <= end) and a one-point range [t,t] is what the planner produces for a query inside one storage slot: Overlap says 'no' only when a test of one range against the other failed, not because a range is 'empty' in the half-open sense",
				"a constant false is returned at "+p.Pos(r.Pos())+" before any test between the two ranges")
		}
		c.Check(true, "constant-false-exits-examined", nil, f, "every constant-false exit of Overlap was examined", fmt.Sprintf("%d exits", n))
	})
}

// ---- C14-m17 (C14): the bit reader fetches a byte only when it needs bits it does not have -------------------------------------------------
//
// A packed stream ends exactly where its last value ends.  A reader that fetches the FOLLOWING byte although the value it
// is reading is already complete (the value used up the current byte exactly) runs into the end of the buffer and loses
// the last value of the block.  Rule: in the variable-width reads (everything but ReadByte, which always needs 8 bits) a
// byte is fetched only under `no unread bits are left` (count == 0) or `more bits are needed than are left`
// (count < needed, strictly).
func bitReaderFetchesOnlyWhenNeeded(c *eng.Ctx) {
	p := c.P
	c.Rule("GUARD", "pkg/bit.Reader{a byte is fetched only when the bits needed exceed the bits left}", func() {
		const T = "pkg/bit.Reader"
		isCount := func(_ string, v ssa.Value) bool {
			return eng.DependsOn(v, func(x ssa.Value) bool {
				in, ok := x.(ssa.Instruction)
				return ok && eng.LoadField(T+".count")(p, in)
			})
		}
		isZero := func(_ string, v ssa.Value) bool { k, ok := eng.ConstInt(v); return ok && k == 0 }
		any := func(string, ssa.Value) bool { return true }
		n := 0
		for _, fn := range p.AllFuncs {
			k := p.FuncKey(fn)
			if !strings.HasPrefix(k, T+".") || k == T+".ReadByte" || fn.Blocks == nil {
				continue
			}
			var facts *eng.Facts
			for _, s := range p.SitesDirect(fn, invokeOn(".buf", "GetByte")) {
				if facts == nil {
					facts = p.MustFacts(fn)
				}
				n++
				fs := facts.At(s.Instr)
				empty := append(facts.Find(fs, "eq", isCount, isZero), facts.Find(fs, "eq", isZero, isCount)...)
				empty = append(empty, facts.Find(fs, "le", isCount, isZero)...)
				short := facts.Find(fs, "lt", isCount, any)
				c.Check(len(empty) > 0 || len(short) > 0, fmt.Sprintf("%s:fetch-guarded[%d]", k, n), s.Instr, fn,
					"the next byte of the stream is fetched only when no unread bit is left (count == 0) or strictly more bits are needed than are left: a value that ends on the last byte of its block must not touch the byte behind it",
					"facts at the fetch: "+strings.Join(facts.Render(fs), " ; "))
			}
		}
		c.Check(n >= 1, "fetch-sites-found", nil, nil, "the bit reader fetches bytes from its buffer", "")
	})
}

// ---- C14-m18 (C14): the decoder demands no more bytes than the encoder writes ----------------------------------------------------------------
//
// TSDEncoder.Bytes writes 4 bytes of slot range and then one mark bit per slot (plus the values), flushed to a whole byte:
// the shortest block of n slots has 4 + ceil(n/8) bytes (all slots empty).  A length test in TSDDecoder.Reset whose bound
// depends on the slot count is evaluated as a closed form in n (the bound's expression tree: constants, + - * / and the
// difference of the two decoded slot bounds = n-1) and must not reject that shortest block for any n.
func decoderAcceptsTheShortestBlock(c *eng.Ctx) {
	p := c.P
	c.Rule("LAYOUT", "pkg/encoding.TSDDecoder.Reset{a length test rejects no block the encoder can produce}", func() {
		f := c.Fn("pkg/encoding.TSDDecoder.Reset")
		if len(f.Params) < 2 {
			c.Undecided("Reset has %d parameters", len(f.Params))
		}
		data := f.Params[1]
		fromData := func(v ssa.Value) bool {
			return eng.DependsOn(v, func(x ssa.Value) bool { return x == ssa.Value(data) })
		}
		isLen := func(v ssa.Value) bool {
			v = eng.Unwrap(v)
			for {
				cv, ok := v.(*ssa.Convert)
				if !ok {
					break
				}
				v = eng.Unwrap(cv.X)
			}
			cl, ok := v.(*ssa.Call)
			if !ok {
				return false
			}
			b, isB := cl.Common().Value.(*ssa.Builtin)
			return isB && b.Name() == "len" && len(cl.Common().Args) == 1 && eng.Unwrap(cl.Common().Args[0]) == ssa.Value(data)
		}
		var eval func(v ssa.Value, n int64, d int) (int64, bool)
		eval = func(v ssa.Value, n int64, d int) (int64, bool) {
			v = eng.Unwrap(v)
			if d > 12 {
				return 0, false
			}
			if k, ok := eng.ConstInt(v); ok {
				return k, true
			}
			switch x := v.(type) {
			case *ssa.Convert:
				return eval(x.X, n, d+1)
			case *ssa.BinOp:
				if x.Op == token.SUB && fromData(x.X) && fromData(x.Y) && !isLen(x.X) && !isLen(x.Y) {
					if _, isC := eng.ConstInt(x.Y); !isC {
						return n - 1, true // end slot - start slot
					}
				}
				a, ok1 := eval(x.X, n, d+1)
				b, ok2 := eval(x.Y, n, d+1)
				if !ok1 || !ok2 {
					return 0, false
				}
				switch x.Op {
				case token.ADD:
					return a + b, true
				case token.SUB:
					return a - b, true
				case token.MUL:
					return a * b, true
				case token.QUO:
					if b == 0 {
						return 0, false
					}
					return a / b, true
				case token.REM:
					if b == 0 {
						return 0, false
					}
					return a % b, true
				case token.SHR:
					return a >> uint(b), true
				case token.SHL:
					return a << uint(b), true
				}
			}
			return 0, false
		}
		isErrStore := eng.StoreField("pkg/encoding.TSDDecoder.err")
		latch := func(p *eng.Prog, in ssa.Instruction) bool {
			st, ok := in.(*ssa.Store)
			return ok && isErrStore(p, in) && !eng.IsNilConst(st.Val) // clearing the error is not a rejection
		}
		n := 0
		for _, b := range f.Blocks {
			for _, in := range b.Instrs {
				bo, ok := in.(*ssa.BinOp)
				if !ok {
					continue
				}
				var bound ssa.Value
				lenLeft := false
				switch {
				case isLen(bo.X):
					bound, lenLeft = bo.Y, true
				case isLen(bo.Y):
					bound = bo.X
				default:
					continue
				}
				switch bo.Op {
				case token.LSS, token.LEQ, token.GTR, token.GEQ, token.EQL, token.NEQ:
				default:
					continue
				}
				te, fe := condEdges(f, bo)
				// which outcome rejects: the edge behind which the error latch is stored before the function returns
				rejectOn := func(es []eng.Edge) bool {
					for _, e := range es {
						first := e.B.Succs[e.Succ].Instrs[0]
						if latch(p, first) {
							return true
						}
						if _, quiet := eng.PathExists(eng.PathQuery{Fn: f, After: first,
							Target:  func(x ssa.Instruction) bool { _, isR := x.(*ssa.Return); return isR && x.Parent() == f },
							Blocked: func(x ssa.Instruction) bool { return latch(p, x) }}); !quiet {
							return true
						}
					}
					return false
				}
				rejT, rejF := rejectOn(te), rejectOn(fe)
				if rejT == rejF {
					continue // not a rejection test (or both outcomes fail)
				}
				n++
				bad, evaluated := int64(-1), true
				for slots := int64(1); slots <= 4096 && bad < 0; slots++ {
					bv, ok := eval(bound, slots, 0)
					if !ok {
						evaluated = false
						break
					}
					L := 4 + (slots+7)/8
					x, y := L, bv
					if !lenLeft {
						x, y = bv, L
					}
					var r bool
					switch bo.Op {
					case token.LSS:
						r = x < y
					case token.LEQ:
						r = x <= y
					case token.GTR:
						r = x > y
					case token.GEQ:
						r = x >= y
					case token.EQL:
						r = x == y
					case token.NEQ:
						r = x != y
					}
					if r == rejT {
						bad = slots
					}
				}
				detail := ""
				if bad >= 0 {
					detail = fmt.Sprintf("the test %s rejects the %d-byte block of %d empty slots that TSDEncoder.Bytes produces", p.Desc(bo), 4+(bad+7)/8, bad)
				}
				if !evaluated {
					detail = "bound not in closed form (not evaluated): " + p.Desc(bound)
				}
				c.Check(bad < 0, fmt.Sprintf("length-test-accepts-the-shortest-block[%d]", n), bo, f,
					"the shortest block of n slots has 4 + ceil(n/8) bytes; a length test of the decoder that depends on the slot count uses the ceiling, not the floor - otherwise the all-empty block of 8, 16, 24 ... slots is refused and a pooled decoder keeps serving the previous block",
					detail)
			}
		}
		c.Check(n >= 1, "length-tests-found", nil, f, "Reset tests the length of the data", "")
	})
}

// ---- C15-m17 (C15): every reader of a table cuts an entry out of the entries block by the offsets table ----------------------------------------
//
// The offsets table - not the position where the previous entry ended - says where an entry starts: bytes of a stream
// entry that was prepared and written but never committed stay in the file in front of the next entry.  Point look-up and
// iteration are siblings and use the same cut: offsets.GetBlock(idx, entriesBlock), or a slice whose bounds both come out
// of offsets.Get.
func entryCutByTheOffsetsTable(c *eng.Ctx) {
	p := c.P
	c.Rule("SYMMETRY", "kv/table.storeMMapReader{an entry's bounds come from the offsets table}", func() {
		const T = "kv/table.storeMMapReader"
		isEntries := func(v ssa.Value) bool {
			return eng.DependsOn(v, func(x ssa.Value) bool {
				in, ok := x.(ssa.Instruction)
				return ok && eng.LoadField(T+".entriesBlock")(p, in)
			})
		}
		isOffsetsGet := func(x ssa.Value) bool {
			cl, ok := x.(*ssa.Call)
			if !ok {
				return false
			}
			nm := calleeName(cl)
			return (nm == "Get" || nm == "GetBlock") && eng.DependsOnField(eng.CallRecv(cl), T+".offsets")
		}
		n := 0
		for _, fn := range p.AllFuncs {
			if !strings.HasPrefix(p.FuncKey(fn), "kv/table.") || fn.Blocks == nil {
				continue
			}
			for _, b := range fn.Blocks {
				for _, in := range b.Instrs {
					switch x := in.(type) {
					case *ssa.Call:
						if calleeName(x) == "GetBlock" && eng.DependsOnField(eng.CallRecv(x), T+".offsets") {
							n++
							c.Check(true, fmt.Sprintf("cut-by-GetBlock@%s", p.FuncKey(fn)), x, fn, "the entry is cut by offsets.GetBlock", "")
						}
					case *ssa.Slice:
						if !isEntries(x.X) || x.Low == nil && x.High == nil {
							continue
						}
						n++
						for _, bd := range []struct {
							name string
							v    ssa.Value
						}{{"start", x.Low}, {"end", x.High}} {
							if bd.v == nil {
								continue
							}
							if _, isC := eng.ConstInt(bd.v); isC {
								continue
							}
							fromTable, isLenOfBlock, running := false, false, false
							eng.WalkExpr(bd.v, func(y ssa.Value) bool {
								if isOffsetsGet(y) {
									fromTable = true
									return false // what the table is asked for (the index) is not a bound
								}
								if cl, ok := y.(*ssa.Call); ok {
									if bi, isB := cl.Common().Value.(*ssa.Builtin); isB && bi.Name() == "len" {
										isLenOfBlock = true
										return false
									}
								}
								if _, isP := y.(*ssa.Parameter); isP {
									running = true
								}
								if fa, ok := y.(*ssa.FieldAddr); ok && !strings.HasPrefix(eng.FieldKeyOfAddr(fa), T+".") {
									running = true
								}
								return true
							})
							c.Check((fromTable || isLenOfBlock) && !running, fmt.Sprintf("%s-from-the-offsets-table@%s", bd.name, p.FuncKey(fn)), x, fn,
								"where an entry starts and ends is read from the offsets table (offsets.Get / GetBlock), exactly as the point look-up does: the end of the previous entry is not the start of the next when a stream entry was written but not committed - its bytes stay in the file and would be glued in front of the next value",
								"the "+bd.name+" of the slice is "+p.Desc(bd.v))
						}
					}
				}
			}
		}
		c.Check(n >= 1, "entry-cuts-found", nil, nil, "the table reader cuts entries out of the entries block", "")
	})
}

// ---- C15-m18 (C15): a merged iterator is always the latching iterator -------------------------------------------------------------------------
//
// The raw table iterator advances one cursor in Key() and another in Value(); the merged iterator reads both once per
// step and latches them, so its consumers may call Key() / Value() any number of times (or not at all) per HasNext.
// Handing an input iterator back as "the merged iterator of one input" gives those consumers shifted values.
func mergedIteratorAlwaysLatches(c *eng.Ctx) {
	p := c.P
	c.Rule("PROV", "kv/table.NewMergedIterator{the result is the latching merged iterator, never an input}", func() {
		f := c.Fn("kv/table.NewMergedIterator")
		n := 0
		for _, b := range f.Blocks {
			r, ok := b.Instrs[len(b.Instrs)-1].(*ssa.Return)
			if !ok || len(r.Results) != 1 {
				continue
			}
			var srcs []ssa.Value
			var flat func(v ssa.Value, d int)
			flat = func(v ssa.Value, d int) {
				if ph, ok := v.(*ssa.Phi); ok && d < 6 {
					for _, e := range ph.Edges {
						flat(e, d+1)
					}
					return
				}
				srcs = append(srcs, v)
			}
			flat(r.Results[0], 0)
			for _, src := range srcs {
				n++
				okT := false
				if mi, isMI := src.(*ssa.MakeInterface); isMI {
					okT = strings.HasSuffix(mi.X.Type().String(), "table.mergedIterator")
				} else {
					// the dynamic type behind an interface value computed elsewhere: a constructor of the package
					for _, s2 := range leafSources(src) {
						if strings.HasSuffix(s2.Type().String(), "table.mergedIterator") {
							okT = true
						}
					}
				}
				c.Check(okT, fmt.Sprintf("returns-the-merged-iterator[%d]", n), r, f,
					"Key() and Value() of a table iterator each advance a cursor of their own; only the merged iterator reads them once per step and hands out the latched pair - it is returned for every number of inputs, one included",
					"returns "+p.Desc(src))
			}
		}
		c.Check(n >= 1, "returns-found", nil, f, "NewMergedIterator returns an iterator", "")
	})
}

// ---- C16-m18 (C16): a repeated tag key of a line is resolved before the tags reach the row builder --------------------------------------------
//
// The row builder (external module) de-duplicates with an UNSTABLE sort: which of two equal keys survives depends on the
// order and the number of the tags.  The line-protocol parser therefore resolves repeated keys itself - the pairs of a
// line go through a map keyed by the tag key - and hands the builder every key once.
func lineTagsResolvedBeforeTheBuilder(c *eng.Ctx) {
	p := c.P
	c.Rule("PROV", "ingestion/influx.parseInfluxLine{the tag keys handed to the row builder are unique: they come out of a map}", func() {
		f := c.Fn("ingestion/influx.parseInfluxLine")
		adds := c.Some(f, invokeOn("", "AddTag"), "builder.AddTag(key, value)")
		isMapNext := func(x ssa.Value) bool {
			nx, ok := x.(*ssa.Next)
			if !ok || nx.IsString {
				return false
			}
			rg, ok := nx.Iter.(*ssa.Range)
			if !ok {
				return false
			}
			_, isMap := rg.X.Type().Underlying().(*types.Map)
			return isMap
		}
		// a map keyed by the tag key anywhere on the way (parseTags and the helpers entered transparently)
		viaMap := false
		for _, g := range append([]*ssa.Function{f}, closuresT(f)...) {
			for _, b := range eng.BlocksT(g) {
				for _, in := range b.Instrs {
					if mu, ok := in.(*ssa.MapUpdate); ok {
						if mt, isMap := mu.Map.Type().Underlying().(*types.Map); isMap {
							if bt, isB := mt.Key().Underlying().(*types.Basic); isB && bt.Info()&types.IsString != 0 {
								viaMap = true
							}
						}
					}
				}
			}
		}
		if pt := p.Func("ingestion/influx.parseTags"); pt != nil {
			for _, b := range pt.Blocks {
				for _, in := range b.Instrs {
					if _, ok := in.(*ssa.MapUpdate); ok {
						viaMap = true
					}
				}
			}
		}
		for i, a := range adds {
			args := eng.CallArgs(a.Instr.(ssa.CallInstruction))
			if len(args) < 1 {
				continue
			}
			fromMap := eng.DependsOn(args[0], isMapNext)
			c.Check(fromMap || viaMap, fmt.Sprintf("key-from-a-map[%d]", i), a.Instr, f,
				"the pairs of a line are collected in a map keyed by the tag key (a repeated key keeps one value, deterministically) before they are handed to the row builder; the builder's own de-duplication sorts unstably, so with 13 or more tags the surviving value - and with it the tags hash, the series identity and the shard - depends on the order of the tags in the line",
				"the key handed to AddTag is "+p.Desc(args[0])+" and no map keyed by the tag key lies on the way")
		}
	})
}

// ---- C17-m18 (C17): the reader of the wire form invents nothing --------------------------------------------------------------------------------
//
// What the root planned is what the leaf executes: UnmarshalJSON stores into the statement only what the payload carries.
// A default that the reader fills in (a namespace for a payload without one) cannot be told from a value the writer sent:
// the parser accepts an explicit empty namespace, the writer omits it, and the leaf then runs on another namespace than
// the root planned.
func wireReaderInventsNothing(c *eng.Ctx) {
	p := c.P
	c.Rule("PROV", "sql/stmt{UnmarshalJSON stores only what the payload carries}", func() {
		n := 0
		for _, fk := range []string{"sql/stmt.Query.UnmarshalJSON", "sql/stmt.MetricMetadata.UnmarshalJSON"} {
			f := c.Fn(fk)
			typ := strings.TrimSuffix(fk, ".UnmarshalJSON")
			for _, b := range eng.BlocksT(f) {
				for _, in := range b.Instrs {
					st, ok := in.(*ssa.Store)
					if !ok {
						continue
					}
					fa, ok := st.Addr.(*ssa.FieldAddr)
					if !ok || !strings.HasPrefix(eng.FieldKeyOfAddr(fa), typ+".") {
						continue
					}
					// the statement itself (the receiver, possibly handed on to a helper), not a local of the same type
					if _, isParam := eng.Unwrap(fa.X).(*ssa.Parameter); !isParam {
						continue
					}
					n++
					k, isC := eng.Unwrap(st.Val).(*ssa.Const)
					invented := isC && !k.IsNil() && k.Value != nil && k.Value.ExactString() != `""` && k.Value.ExactString() != "0" && k.Value.ExactString() != "false"
					c.Check(!invented, fmt.Sprintf("%s:%s-from-the-payload", fk, eng.FieldKeyOfAddr(fa)), st, f,
						"the statement a node reads off the wire is the statement that was written: a field is stored with what the payload carries (or left at its zero value), never with a constant the reader makes up - the writer omits empty values, so a default filled in by the reader replaces an explicit empty value of the original",
						"stores the constant "+p.Desc(st.Val))
				}
			}
		}
		c.Check(n >= 10, "field-stores-found", nil, nil, "UnmarshalJSON assigns the statement's fields", fmt.Sprintf("%d stores", n))
	})
}

// ---- C18-m17 (C18): a replica's position in the list is the order in which it was added -------------------------------------------------------
//
// shard_assign.go makes Replicas[0] the round-robin first replica (the preferred leader) purely by the ORDER of its
// AddReplica calls; the elector and the placement property read that position.  AddReplica therefore appends and does
// nothing else to the list.
func addReplicaAppends(c *eng.Ctx) {
	p := c.P
	c.Rule("LAYOUT", "models.ShardAssignment.AddReplica{the new replica goes to the end of the list; nothing is moved}", func() {
		f := c.Fn("models.ShardAssignment.AddReplica")
		const fld = "models.Replica.Replicas"
		isList := func(v ssa.Value) bool {
			return eng.DependsOn(v, func(x ssa.Value) bool {
				in, ok := x.(ssa.Instruction)
				return ok && eng.LoadField(fld)(p, in)
			})
		}
		appended := 0
		for _, b := range eng.BlocksT(f) {
			for _, in := range b.Instrs {
				switch x := in.(type) {
				case *ssa.Store:
					if fa, ok := x.Addr.(*ssa.FieldAddr); ok && eng.FieldKeyOfAddr(fa) == fld {
						isAppend := false
						if cl, ok := eng.Unwrap(x.Val).(*ssa.Call); ok {
							if bi, isB := cl.Common().Value.(*ssa.Builtin); isB && bi.Name() == "append" && len(cl.Common().Args) == 2 && isList(cl.Common().Args[0]) {
								isAppend = eng.DependsOn(cl.Common().Args[1], func(y ssa.Value) bool { pa, ok := y.(*ssa.Parameter); return ok && pa.Parent() == f })
							}
						}
						appended++
						c.Check(isAppend, fmt.Sprintf("list-grows-by-append[%d]", appended), x, f,
							"the replica list is only ever extended at its end with the node that is added", "the list is replaced by "+p.Desc(x.Val))
						continue
					}
					if ia, ok := x.Addr.(*ssa.IndexAddr); ok && isList(ia.X) {
						c.Check(false, "no-element-overwritten", x, f,
							"Replicas[0] is the first replica because it was added first (round-robin over the nodes in shard_assign.go); AddReplica does not re-order the list - a list kept sorted by node id makes the node with the smallest id first replica of every shard",
							"an element of the list is overwritten")
					}
				case *ssa.Call:
					if bi, isB := x.Common().Value.(*ssa.Builtin); isB && bi.Name() == "copy" && len(x.Common().Args) == 2 && isList(x.Common().Args[0]) {
						c.Check(false, "no-element-moved", x, f,
							"AddReplica does not move the replicas that are already in the list", "copy(...) shifts elements of the list")
					}
					if nm := calleeName(x); (nm == "Slice" || nm == "Sort" || nm == "SliceStable" || nm == "Stable") && len(x.Common().Args) > 0 && isList(x.Common().Args[0]) {
						c.Check(false, "not-sorted", x, f, "AddReplica does not sort the list", "sort."+nm+" on the replica list")
					}
				}
			}
		}
		c.Check(appended >= 1, "append-found", nil, f, "AddReplica appends the replica", "")
	})
}

// ---- C20-m17 (C20): item.index is read only where it is right -----------------------------------------------------------------------------------
//
// priorityQueue.update(item) is heap.Fix(pq, item.index).  item.index is stored by Push (the true position) and by Swap -
// which, as written, stores the two indexes crosswise (the element now at i is told it is at j), so after any sift the
// field is wrong.  The enumeration stays ordered only as long as EITHER Swap keeps the field right OR every update(item)
// comes directly behind the Push(item) that has just stored it.  (Whichever holds is enough; today it is the second.)
func heapIndexReadOnlyWhereRight(c *eng.Ctx) {
	p := c.P
	c.Rule("TYPESTATE", "index/model.priorityQueue{item.index is read only where it is the item's position}", func() {
		const pqT = "index/model.priorityQueue"
		sw := c.Fn(pqT + ".Swap")
		// (a) does Swap keep index == position ?
		maintained := false
		if len(sw.Blocks) == 1 && len(sw.Params) == 3 {
			var elemStores, idxStores []int
			right := true
			for k, in := range sw.Blocks[0].Instrs {
				st, ok := in.(*ssa.Store)
				if !ok {
					continue
				}
				if ia, isIA := st.Addr.(*ssa.IndexAddr); isIA && eng.Unwrap(ia.X) == ssa.Value(sw.Params[0]) {
					elemStores = append(elemStores, k)
					continue
				}
				fa, isFA := st.Addr.(*ssa.FieldAddr)
				if !isFA || !strings.HasSuffix(eng.FieldKeyOfAddr(fa), ".index") {
					continue
				}
				idxStores = append(idxStores, k)
				// the element whose field is stored: pq[a]
				var pos ssa.Value
				eng.WalkExpr(fa.X, func(x ssa.Value) bool {
					if ia, ok := x.(*ssa.IndexAddr); ok && pos == nil {
						pos = eng.Unwrap(ia.Index)
					}
					return true
				})
				if pos == nil || pos != eng.Unwrap(st.Val) {
					right = false
				}
			}
			after := len(elemStores) == 2 && len(idxStores) == 2 && idxStores[0] > elemStores[1]
			maintained = after && right
		}
		// (b) every update(item) directly behind Push(item)
		n := 0
		allBehindPush := true
		var firstBad ssa.Instruction
		var badFn *ssa.Function
		for _, fn := range p.AllFuncs {
			if !strings.HasPrefix(p.FuncKey(fn), "index/model.") || fn.Blocks == nil {
				continue
			}
			for _, s := range p.SitesDirect(fn, eng.AnyCallTo(pqT+".update")) {
				n++
				args := eng.CallArgs(s.Instr.(ssa.CallInstruction))
				if len(args) < 1 {
					continue
				}
				it := args[len(args)-1]
				isPush := func(in ssa.Instruction) bool {
					cl, ok := in.(*ssa.Call)
					if !ok || calleeName(cl) != "Push" {
						return false
					}
					for _, a := range cl.Common().Args {
						if eng.DependsOn(a, func(x ssa.Value) bool { return x == eng.Unwrap(it) }) {
							return true
						}
					}
					return false
				}
				isHeapOp := func(in ssa.Instruction) bool {
					cl, ok := in.(*ssa.Call)
					if !ok || isPush(in) {
						return false
					}
					g := cl.Common().StaticCallee()
					return g != nil && g.Pkg != nil && g.Pkg.Pkg.Path() == "container/heap"
				}
				// no path reaches the update without passing a Push of the same item after the last heap operation
				var pushes []eng.Site
				for _, b := range fn.Blocks {
					for _, in := range b.Instrs {
						if isPush(in) {
							pushes = append(pushes, eng.Site{Fn: fn, Instr: in})
						}
					}
				}
				ok := len(pushes) > 0 && eng.DominatedBy(fn, s.Instr, pushes, nil)
				if ok {
					// ... and no heap operation (Pop / Fix / Remove / Init: they sift, i.e. Swap) lies between that Push and the update
					for _, b := range fn.Blocks {
						for _, in := range b.Instrs {
							if !isHeapOp(in) {
								continue
							}
							if _, sifted := eng.PathExists(eng.PathQuery{Fn: fn, After: in,
								Target:  func(x ssa.Instruction) bool { return x == s.Instr },
								Blocked: isPush}); sifted {
								ok = false
							}
						}
					}
				}
				if !ok {
					allBehindPush = false
					if firstBad == nil {
						firstBad, badFn = s.Instr, fn
					}
				}
			}
		}
		detail := ""
		if !maintained && !allBehindPush {
			detail = "Swap stores the indexes crosswise (index != position after a sift) and " + p.Pos(firstBad.Pos()) + " calls update(item) for an item that was not pushed just before: heap.Fix repairs the wrong slot"
		}
		c.Check(maintained || allBehindPush, "index-right-where-read", firstBad, badFn,
			"heap.Fix(pq, item.index) re-establishes the order only when item.index is the item's position: either Swap maintains the field (pq[i].index = i after the exchange) or update(item) is only called directly behind Push(item), which stores the true position - otherwise the merged enumeration of a bucket's tries (Suggest) returns keys out of order, skips smaller keys under a limit, or indexes out of range",
			detail)
		c.Check(n >= 1, "update-sites-found", nil, nil, "the merged iterator re-orders its queue through update", "")
	})
}

// ---- C20-m18 (C20): a reused bit buffer is cleared as far as its readers look ----------------------------------------------------------------
//
// The builder's write context keeps its bit buffers from one trie to the next.  selectVector.Init counts the one-bits of the
// WHOLE buffer (`range v.bits`), distanceToNextSetBit bounds itself by len(v.bits): as long as a reader of the package
// bounds itself by the buffer's length, bitVector.Init clears the buffer in its whole length - clearing only the words
// of the current trie leaves the bits of a previous, bigger trie where those readers see them (inflated numOnes, extra
// select samples: a prefix probe behind the last key panics instead of returning nothing).
func reusedBitBufferClearedWhole(c *eng.Ctx) {
	p := c.P
	c.Rule("SYMMETRY", "pkg/trie.bitVector.Init{a reused buffer is cleared as far as its readers look}", func() {
		const T = "pkg/trie.bitVector"
		init := c.Fn(T + ".Init")
		isBits := func(v ssa.Value) bool {
			return eng.DependsOn(v, func(x ssa.Value) bool {
				in, ok := x.(ssa.Instruction)
				return ok && eng.LoadField(T+".bits")(p, in)
			})
		}
		isLenOfBits := func(x ssa.Value) bool {
			cl, ok := x.(*ssa.Call)
			if !ok {
				return false
			}
			bi, isB := cl.Common().Value.(*ssa.Builtin)
			return isB && bi.Name() == "len" && len(cl.Common().Args) == 1 && isBits(cl.Common().Args[0])
		}
		isWords := func(x ssa.Value) bool {
			in, ok := x.(ssa.Instruction)
			return ok && eng.LoadField(T+".words")(p, in)
		}
		// the clearing loop of Init
		var clear *ssa.Store
		for _, b := range eng.BlocksT(init) {
			for _, in := range b.Instrs {
				st, ok := in.(*ssa.Store)
				if !ok {
					continue
				}
				ia, isIA := st.Addr.(*ssa.IndexAddr)
				if !isIA || !isBits(ia.X) {
					continue
				}
				if k, isC := eng.ConstInt(st.Val); isC && k == 0 {
					clear = st
				}
			}
		}
		if clear == nil {
			// no clearing loop: the buffer is allocated afresh on every Init ?
			fresh := false
			for _, s := range p.SitesDirect(init, eng.StoreField(T+".bits")) {
				if _, isMk := eng.Unwrap(s.Instr.(*ssa.Store).Val).(*ssa.MakeSlice); isMk && eng.DominatedBy(init, init.Blocks[len(init.Blocks)-1].Instrs[0], []eng.Site{s}, nil) {
					fresh = true
				}
			}
			c.Check(fresh, "buffer-cleared-or-fresh", nil, init, "Init clears the reused buffer or allocates a new one", "no clearing store and the buffer is not always newly allocated")
			return
		}
		cf := clear.Parent() // Init, or the helper the clearing loop was moved into
		h := innermostLoop(cf, clear.Block())
		if h == nil {
			c.Undecided("the clearing store of bitVector.Init is not in a loop")
		}
		whole, words := false, false
		for _, b := range cf.Blocks {
			if !h.Dominates(b) && b != h {
				continue
			}
			for _, in := range b.Instrs {
				bo, ok := in.(*ssa.BinOp)
				if !ok {
					continue
				}
				switch bo.Op {
				case token.LSS, token.LEQ, token.GTR, token.GEQ:
				default:
					continue
				}
				if innermostLoop(cf, b) != h && b != h {
					continue
				}
				if eng.DependsOn(bo, isLenOfBits) {
					whole = true
				}
				if eng.DependsOn(bo, isWords) {
					words = true
				}
			}
		}
		// readers that bound themselves by the length of the buffer
		var lenReaders []string
		for _, fn := range p.AllFuncs {
			k := p.FuncKey(fn)
			if !strings.HasPrefix(k, "pkg/trie.") || fn == init || fn == cf || fn.Blocks == nil {
				continue
			}
			for _, b := range fn.Blocks {
				for _, in := range b.Instrs {
					if v, ok := in.(ssa.Value); ok && isLenOfBits(v) {
						lenReaders = append(lenReaders, k)
					}
					if rg, ok := in.(*ssa.Range); ok && isBits(rg.X) {
						lenReaders = append(lenReaders, k)
					}
				}
			}
		}
		c.Check(whole || (words && len(lenReaders) == 0), "cleared-as-far-as-read", clear, init,
			"the write context of the trie builder is reused: as long as a reader of the package bounds itself by len(v.bits) (selectVector.Init counts the ones of the whole buffer), Init clears the whole buffer - not only the v.words words of the current trie, behind which the bits of a previous, bigger trie survive",
			fmt.Sprintf("the clearing loop is bounded by v.words while %d reader(s) look at the whole buffer (%s)", len(lenReaders), strings.Join(lenReaders, ", ")))
	})
}

// ---- F70 (C08): the follower's liveness is tested AFTER the replicator marked itself suspended -----------------------------------------------
//
// The node-online handler wakes only a replicator it finds marked suspended.  A replicator that looks the follower up
// ("offline"), and only then marks itself suspended and waits, loses an online event handled in between: it sleeps while
// the follower is online, and with it the single replica loop of the partition.  Rule (check-after-mark): the wait on the
// suspend channel is reached only behind a GetLiveNode look-up that itself lies behind the mark.
func livenessRecheckedAfterTheSuspendMark(c *eng.Ctx) {
	p := c.P
	c.Rule("ORDER", rrT+".IsReady{the follower is looked up again after the suspend mark, before the wait}", func() {
		f := c.Fn(rrT + ".IsReady")
		var waits []ssa.Instruction
		for _, b := range eng.BlocksT(f) {
			for _, in := range b.Instrs {
				if u, ok := in.(*ssa.UnOp); ok && u.Op == token.ARROW && eng.DependsOnField(u.X, rrT+".suspend") {
					waits = append(waits, in)
				}
			}
		}
		if len(waits) == 0 {
			c.Check(true, "no-suspend-wait", nil, f, "IsReady does not park on the suspend channel", "")
			return
		}
		var marks []eng.Site
		for _, b := range eng.BlocksT(f) {
			for _, in := range b.Instrs {
				if fa, m, _ := eng.AtomicOp(in); fa != nil && eng.FieldKeyOfAddr(fa) == rrT+".isSuspend" && (m == "CompareAndSwap" || m == "Store" || m == "Swap" || m == "CAS") {
					marks = append(marks, eng.Site{Fn: f, Instr: in})
				}
			}
		}
		if len(marks) == 0 {
			c.Undecided("IsReady waits on the suspend channel but never marks the replicator suspended")
		}
		lookups := p.SitesT(f, invokeOn(".stateMgr", "GetLiveNode"))
		var after []eng.Site
		for _, l := range lookups {
			if eng.DominatedBy(f, l.Instr, marks, nil) {
				after = append(after, l)
			}
		}
		for i, w := range waits {
			ok := len(after) > 0 && eng.DominatedBy(f, w, after, nil)
			c.Check(ok, fmt.Sprintf("recheck-between-mark-and-wait[%d]", i), w, f,
				"the node-online handler notifies only a replicator whose suspended mark it finds set; an online event handled between IsReady's look-up ('offline') and the mark is therefore lost, unless the follower is looked up AGAIN after the mark and before the wait - otherwise the replicator, and with it the partition's single replica loop, sleeps while the follower is online",
				"the wait is reachable without a GetLiveNode look-up behind the suspended mark")
		}
	})
}

// ---- F71 (C16): the fall-back to the request's namespace is reachable ------------------------------------------------------------------------
//
// BrokerRowFlatDecoder.rebuild falls back to the request's namespace when the row names none - `if len(ns) == 0`.  The
// test is dead when ns comes from an accessor that never returns an empty value (readOnlyRow.NameSpace substitutes the
// default namespace): a flat row without a namespace sent to `?ns=prod` is stored under default-ns.  A contradiction
// rule in Engler's sense: code that tests a value for emptiness believes it can be empty.
func namespaceFallbackIsReachable(c *eng.Ctx) {
	p := c.P
	c.Rule("GUARD", "series/metric.BrokerRowFlatDecoder.rebuild{the namespace tested for emptiness can be empty}", func() {
		const T = "series/metric.BrokerRowFlatDecoder"
		f := c.Fn(T + ".rebuild")
		// the namespace handed to the builder is the row's or the request's
		add := c.One(f, invokeOn(".rowBuilder", "AddNameSpace"), "itr.rowBuilder.AddNameSpace(ns)")
		args := eng.CallArgs(add.Instr.(ssa.CallInstruction))
		var rowVals []ssa.Value
		fromReq := false
		for _, src := range leafSourcesNoInline(args[len(args)-1]) {
			if in, ok := src.(ssa.Instruction); ok && eng.LoadField(T+".namespace")(p, in) {
				fromReq = true
				continue
			}
			rowVals = append(rowVals, src)
		}
		c.Check(fromReq && len(rowVals) >= 1, "row-or-request-namespace", add.Instr, f,
			"the namespace of a rebuilt flat row is the row's own or, when it names none, the request's", fmt.Sprintf("request namespace used: %v, other sources: %d", fromReq, len(rowVals)))
		// the choice between the two is an emptiness test of the row's value
		n := 0
		for _, b := range eng.BlocksT(f) {
			for _, in := range b.Instrs {
				bo, ok := in.(*ssa.BinOp)
				if !ok {
					continue
				}
				switch bo.Op {
				case token.EQL, token.NEQ, token.GTR, token.LSS, token.LEQ, token.GEQ:
				default:
					continue
				}
				var lenCall *ssa.Call
				for _, side := range []ssa.Value{bo.X, bo.Y} {
					if cl, isCall := eng.Unwrap(side).(*ssa.Call); isCall {
						if bi, isB := cl.Common().Value.(*ssa.Builtin); isB && bi.Name() == "len" {
							lenCall = cl
						}
					}
				}
				if lenCall == nil {
					continue
				}
				tested := eng.Unwrap(lenCall.Common().Args[0])
				isRow := false
				for _, rv := range rowVals {
					if eng.Unwrap(rv) == tested {
						isRow = true
					}
				}
				if !isRow {
					continue
				}
				n++
				neverEmpty, who := false, ""
				for _, src := range leafSourcesNoInline(tested) {
					sc, ok := src.(*ssa.Call)
					if !ok {
						continue
					}
					g := sc.Common().StaticCallee()
					if g == nil || g.Blocks == nil || g.Pkg == nil || !strings.HasPrefix(g.Pkg.Pkg.Path(), "github.com/lindb/lindb") {
						continue
					}
					if !mayReturnEmpty(p, g) {
						neverEmpty, who = true, p.FuncKey(g)
					}
				}
				c.Check(!neverEmpty, fmt.Sprintf("fallback-test-is-live[%d]", n), bo, f,
					"the request's namespace is used for a row that names none: the value tested for emptiness is the row's raw namespace - an accessor that substitutes the default namespace for an empty one makes the test dead and stores such a row under default-ns whatever the request says",
					"the tested value comes from "+who+", which never returns an empty value")
			}
		}
		c.Check(n >= 1, "fallback-found", nil, f, "the choice between the row's and the request's namespace is an emptiness test of the row's", "")
	})
}

// leafSourcesNoInline: like leafSources but a call is a leaf (its callee is not looked into).
func leafSourcesNoInline(v ssa.Value) []ssa.Value {
	var out []ssa.Value
	seen := map[ssa.Value]bool{}
	var rec func(v ssa.Value, d int)
	rec = func(v ssa.Value, d int) {
		v = eng.Unwrap(v)
		if v == nil || seen[v] || d > 8 {
			return
		}
		seen[v] = true
		switch x := v.(type) {
		case *ssa.Phi:
			for _, e := range x.Edges {
				rec(e, d+1)
			}
			return
		case *ssa.Extract:
			rec(x.Tuple, d+1)
			return
		}
		out = append(out, v)
	}
	rec(v, 0)
	return out
}

// mayReturnEmpty: some return of g hands back a slice / string that is not known to be non-empty (a package-level
// variable counts as non-empty: the default values of the module; a value returned under len(v) != 0 is non-empty).
func mayReturnEmpty(p *eng.Prog, g *ssa.Function) bool {
	facts := p.MustFacts(g)
	for _, b := range g.Blocks {
		r, ok := b.Instrs[len(b.Instrs)-1].(*ssa.Return)
		if !ok || len(r.Results) == 0 {
			continue
		}
		v := eng.Unwrap(r.Results[0])
		if u, isU := v.(*ssa.UnOp); isU {
			if _, isG := u.X.(*ssa.Global); isG {
				continue
			}
		}
		fs := facts.At(r)
		isLenOfV := func(_ string, x ssa.Value) bool {
			cl, ok := eng.Unwrap(x).(*ssa.Call)
			if !ok {
				return false
			}
			bi, isB := cl.Common().Value.(*ssa.Builtin)
			return isB && bi.Name() == "len" && eng.Unwrap(cl.Common().Args[0]) == v
		}
		isZero := func(_ string, x ssa.Value) bool { k, ok := eng.ConstInt(x); return ok && k == 0 }
		if len(facts.Find(fs, "ne", isLenOfV, isZero))+len(facts.Find(fs, "ne", isZero, isLenOfV))+len(facts.Find(fs, "lt", isZero, isLenOfV)) > 0 {
			continue
		}
		return true
	}
	return false
}

// ---- F72 (C09): a failed read of a metric's postings fails the id generation -----------------------------------------------------------------
//
// createSeriesID derives the next series id of a metric from the sequence cache or, on a cold cache, from the maximum of the
// metric's postings.  When that read fails the function must not hand out an id at all: "0" is the id of the metric's first
// series, the new tag set would share it and the sequence would restart from there.
func failedPostingsReadFailsTheID(c *eng.Ctx) {
	p := c.P
	c.Rule("ERRFLOW", midT+".createSeriesID{a failed postings read yields no id}", func() {
		f := c.Fn(midT + ".createSeriesID")
		reads := c.Some(f, invokeOn(".metricInverted", "getSeriesIDs"), "metricInverted.getSeriesIDs(metric)")
		for i, rd := range reads {
			_, errEdges := eng.ErrCheckEdges(f, rd.Instr.(ssa.Value))
			c.Check(len(errEdges) >= 1, fmt.Sprintf("read-error-tested[%d]", i), rd.Instr, f, "the error of the postings read is tested", "the error result is not examined")
			for j, e := range errEdges {
				first := e.B.Succs[e.Succ].Instrs[0]
				var bad ssa.Instruction
				for _, b := range f.Blocks {
					r, ok := b.Instrs[len(b.Instrs)-1].(*ssa.Return)
					if !ok {
						continue
					}
					if _, reach := eng.PathExists(eng.PathQuery{Fn: f, After: first, Target: func(x ssa.Instruction) bool { return x == ssa.Instruction(r) }}); !reach && first != ssa.Instruction(r) {
						continue
					}
					// the exit behind the failed read reports the failure: an error result that is not the nil constant
					okErr := len(r.Results) >= 2 && !eng.ReturnsNilError(r)
					if !okErr {
						bad = r
					}
				}
				detail := ""
				if bad != nil {
					detail = "behind the failed read the function returns at " + p.Pos(bad.Pos()) + " with an id and no error"
				}
				c.Check(bad == nil, fmt.Sprintf("no-id-after-a-failed-read[%d,%d]", i, j), rd.Instr, f,
					"when the postings of the metric cannot be read there is no way to know the highest series id in use: the id generation fails (the row is not written) instead of handing out 0, which another tag set of the metric already has",
					detail)
			}
		}
		// and GenSeriesID passes the failure on to GetOrCreateValue's callback result
		g := c.Fn(midT + ".GenSeriesID")
		n := 0
		seen := map[ssa.Instruction]bool{}
		for _, cl := range closuresT(g) {
			for _, s := range p.Sites(cl, eng.AnyCallTo(midT+".createSeriesID")) {
				if seen[s.Instr] {
					continue
				}
				seen[s.Instr] = true
				n++
				h := s.Instr.Parent() // the literal itself, or a helper it hands the work to
				_, errEdges := eng.ErrCheckEdges(h, s.Instr.(ssa.Value))
				passedOn := false
				if len(errEdges) == 0 {
					// `return index.createSeriesID(metric)`: both results are handed to the caller as they are
					for _, b := range h.Blocks {
						if r, ok := b.Instrs[len(b.Instrs)-1].(*ssa.Return); ok && len(r.Results) == 2 {
							if e, isE := eng.Unwrap(r.Results[1]).(*ssa.Extract); isE && e.Tuple == s.Instr.(ssa.Value) {
								passedOn = true
							}
						}
					}
				}
				c.Check(len(errEdges) >= 1 || passedOn, fmt.Sprintf("caller-tests-the-error[%d]", n), s.Instr, h, "the caller of createSeriesID examines its error (or returns it unchanged)", "the error result is dropped")
			}
		}
		c.Check(n >= 1, "caller-found", nil, g, "GenSeriesID creates ids through createSeriesID", "")
	})
}
