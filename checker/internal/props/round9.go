package props

// Rules added in and after the ninth round of independently produced breaking changes (m17 / m18), and the rules of the
// defects found from F62 on.  None is keyed to the changed lines.

import (
	"fmt"
	"go/token"
	"go/types"
	"strings"

	"golang.org/x/tools/go/ssa"

	"lincheck/internal/eng"
)

// ---- F62 (C09, C10): a bucket the cache hands to lock-free readers is not recycled by the cache ------------------------------------------
//
// getOrCreateValue takes a bucket from bucketCache and searches it with no lock and no reference count.  The cache evicts by
// capacity, by TTL (background goroutine) and on Purge; an eviction callback that releases the bucket puts its tries into
// trie.triePool, the next GetBucket of ANY store takes them out and UnmarshalBinary overwrites their vectors while the first
// reader is still inside GetValue: a flushed name is answered "absent" (a second id is created) or with a foreign id.
// Accepted forms: no eviction callback; a callback from which no pool return is reachable; or a counted release (the pool
// return is guarded by the result of an atomic read-modify-write) together with a counted retain at every cache reader.
func cachedBucketIsNotRecycled(c *eng.Ctx) {
	p := c.P
	c.Rule("OWNER", "index.indexKVStore.bucketCache{a bucket the cache hands to lock-free readers is never recycled by the cache}", func() {
		const fld = "index.indexKVStore.bucketCache"
		isPut := eng.AnyCallTo("pkg/trie.PutTrie")
		var ctors []ssa.Value
		for _, fn := range p.AllFuncs {
			if !strings.HasPrefix(p.FuncKey(fn), "index.") {
				continue
			}
			for _, s := range p.SitesDirect(fn, eng.StoreField(fld)) {
				st, ok := s.Instr.(*ssa.Store)
				if !ok {
					c.Undecided("bucketCache written by %v in %s", s.Instr, p.FuncKey(fn))
					continue
				}
				ctors = append(ctors, leafSources(st.Val)...)
			}
		}
		c.Check(len(ctors) >= 1, "cache-constructed", nil, nil, "the bucket cache is constructed in package index", "no store into "+fld)
		// the readers that take a bucket out of the cache
		type reader struct {
			fn  *ssa.Function
			get *ssa.Call
		}
		var readers []reader
		for _, fn := range p.AllFuncs {
			if !strings.HasPrefix(p.FuncKey(fn), "index.indexKVStore.") {
				continue
			}
			for _, s := range p.SitesDirect(fn, invokeOnGeneric(".bucketCache", "Get")) {
				if cl, ok := s.Instr.(*ssa.Call); ok {
					readers = append(readers, reader{fn, cl})
				}
			}
		}
		c.Check(len(readers) >= 1, "cache-readers-found", nil, nil, "look-ups take buckets out of the cache", "no bucketCache.Get site")
		for i, v := range ctors {
			cl, ok := v.(*ssa.Call)
			if !ok || !strings.HasPrefix(calleeNameAny(cl), "NewLRU") {
				c.Undecided("bucketCache is built by %v, not by expirable.NewLRU", v)
				continue
			}
			args := cl.Common().Args
			if len(args) < 2 {
				c.Undecided("NewLRU with %d arguments", len(args))
				continue
			}
			var evict *ssa.Function
			switch x := eng.Unwrap(args[1]).(type) {
			case *ssa.Const:
				if !x.IsNil() {
					c.Undecided("eviction callback %v", x)
				}
			case *ssa.Function:
				evict = x
			case *ssa.MakeClosure:
				evict, _ = x.Fn.(*ssa.Function)
			default:
				c.Undecided("eviction callback is %T", x)
			}
			if evict == nil {
				c.Check(true, fmt.Sprintf("eviction-does-not-recycle[%d]", i), cl, cl.Parent(), "the cache has no eviction callback: an evicted bucket is left to the garbage collector", "")
				continue
			}
			puts := p.DeepSites(evict, isPut, 5, true)
			counted := len(puts) > 0
			for _, d := range puts {
				leaf := d.Leaf()
				conds, _ := eng.GuardingConds(leaf.Parent(), leaf)
				g := false
				for _, cd := range conds {
					if eng.DependsOn(cd, func(x ssa.Value) bool {
						in, ok := x.(ssa.Instruction)
						if !ok {
							return false
						}
						_, m, _ := eng.AtomicOp(in)
						switch m {
						case "Dec", "Add", "Sub", "CompareAndSwap", "CAS", "Swap":
							return true
						}
						return false
					}) {
						g = true
					}
				}
				if !g {
					counted = false
				}
			}
			retained := counted
			if counted {
				// every reader retains what it took out of the cache: a call on the bucket that reaches an atomic increment
				for _, r := range readers {
					ok := false
					for _, b := range r.fn.Blocks {
						for _, in := range b.Instrs {
							ci, isCall := in.(*ssa.Call)
							if !isCall || len(ci.Common().Args) == 0 && !ci.Common().IsInvoke() {
								continue
							}
							recv := eng.CallRecv(ci)
							if recv == nil || !eng.DependsOn(recv, func(x ssa.Value) bool { return x == ssa.Value(r.get) }) {
								continue
							}
							for _, g := range p.ModuleCallees(ci) {
								if len(p.DeepSites(g, func(_ *eng.Prog, in ssa.Instruction) bool {
									_, m, _ := eng.AtomicOp(in)
									return m == "Inc" || m == "Add" || m == "CompareAndSwap"
								}, 2, false)) > 0 {
									ok = true
								}
							}
						}
					}
					if !ok {
						retained = false
					}
				}
			}
			detail := ""
			if len(puts) > 0 && !retained {
				leaf := puts[0].Leaf()
				detail = fmt.Sprintf("the eviction callback %s reaches %s (%s) unconditionally, and %d reader(s) search a cached bucket without retaining it (first: %s)",
					p.FuncKey(evict), "trie.PutTrie", p.Pos(leaf.Pos()), len(readers), p.FuncKey(readers[0].fn))
			}
			c.Check(len(puts) == 0 || retained, fmt.Sprintf("eviction-does-not-recycle[%d]", i), cl, cl.Parent(),
				"readers take a bucket out of bucketCache and search it with no lock and no reference count, while the cache evicts by capacity, by TTL (background goroutine) and on Purge; the eviction must not return the bucket's tries to trie.triePool (the next bucket load of any store overwrites them under the reader: a flushed name is answered 'absent' and gets a second id, or is answered with a foreign id) unless release and use are counted",
				detail)
		}
	})
}

// condEdges: the out-edges of the If instructions whose condition is exactly v (through negations): edges taken when v is
// true / false.  Unlike eng.BoolCheckEdges it does not follow values derived from v.
func condEdges(fn *ssa.Function, v ssa.Value) (te, fe []eng.Edge) {
	for _, b := range eng.BlocksT(fn) {
		if len(b.Instrs) == 0 {
			continue
		}
		ifi, ok := b.Instrs[len(b.Instrs)-1].(*ssa.If)
		if !ok || len(b.Succs) != 2 {
			continue
		}
		cond, neg := ifi.Cond, false
		for {
			u, ok := cond.(*ssa.UnOp)
			if !ok || u.Op != token.NOT {
				break
			}
			neg, cond = !neg, u.X
		}
		if cond != v {
			continue
		}
		t, f := eng.Edge{B: b, Succ: 0}, eng.Edge{B: b, Succ: 1}
		if neg {
			t, f = f, t
		}
		te, fe = append(te, t), append(fe, f)
	}
	return
}

// calleeNameAny: base name of the callee of a call, generic instantiation stripped.
func calleeNameAny(cl *ssa.Call) string {
	if f := cl.Common().StaticCallee(); f != nil {
		n := f.Name()
		if i := strings.IndexByte(n, '['); i >= 0 {
			n = n[:i]
		}
		return baseName(n)
	}
	return ""
}

// ---- F63 (C20): a 0xff label is the terminator only in a node that has more labels ----------------------------------------------------------
//
// The LOUDS-sparse label vector uses the byte 0xff both as the terminator ("the path to this node is a key") and as a real
// label.  The builder emits a terminator only as the FIRST label of a node that has further labels, and every reader tells
// the two apart by that shape (`size > 1 && labels[start] == terminator`, `label == terminator && !isEndOfNode(pos)`).
// A reader that concludes "terminator" from the byte alone answers Get("") with the value of "\xff" for the dictionary
// {"\xff"}.  Rule (a contradiction rule: all readers but one make the test): whatever is executed only when a label compared
// equal to the terminator is also executed only after a node-size test.
func terminatorLabelNeedsASibling(c *eng.Ctx) {
	p := c.P
	c.Rule("GUARD", "pkg/trie{a 0xff label counts as the terminator only in a node that has more labels}", func() {
		pure := map[string]bool{"IsSet": true, "isEndOfNode": true, "nodeSize": true, "GetLabel": true}
		n := 0
		for _, fn := range p.AllFuncs {
			if !strings.HasPrefix(p.FuncKey(fn), trieP) || strings.HasPrefix(p.FuncKey(fn), trieP+"builder.") {
				continue
			}
			// node-size tests of this function and the edges on which "the node has more labels" holds
			var good []eng.Edge
			for _, b := range fn.Blocks {
				for _, in := range b.Instrs {
					switch x := in.(type) {
					case *ssa.Call:
						if calleeName(x) == "isEndOfNode" {
							_, fe := eng.BoolCheckEdges(fn, x)
							good = append(good, fe...)
						}
					case *ssa.BinOp:
						var sz ssa.Value
						var k int64
						var okc bool
						switch x.Op {
						case token.GTR, token.GEQ:
							k, okc = eng.ConstInt(x.Y)
							sz = x.X
						case token.LSS, token.LEQ:
							k, okc = eng.ConstInt(x.X)
							sz = x.Y
						}
						if !okc || sz == nil {
							continue
						}
						if !((x.Op == token.GTR || x.Op == token.LSS) && k == 1 || (x.Op == token.GEQ || x.Op == token.LEQ) && k == 2) {
							continue
						}
						if !eng.DependsOn(sz, func(y ssa.Value) bool {
							if pa, ok := y.(*ssa.Parameter); ok {
								return strings.Contains(strings.ToLower(pa.Name()), "size")
							}
							return calleeName(y) == "nodeSize"
						}) {
							continue
						}
						te, _ := condEdges(fn, x)
						good = append(good, te...)
					}
				}
			}
			k := 0
			for _, b := range fn.Blocks {
				for _, in := range b.Instrs {
					bo, ok := in.(*ssa.BinOp)
					if !ok || bo.Op != token.EQL && bo.Op != token.NEQ {
						continue
					}
					isTerm := func(v ssa.Value) bool {
						k, ok := eng.ConstInt(v)
						if !ok || k != 0xff {
							return false
						}
						bt, ok := v.Type().Underlying().(*types.Basic)
						return ok && bt.Kind() == types.Uint8
					}
					if !isTerm(bo.X) && !isTerm(bo.Y) {
						continue
					}
					n++
					k++
					te, fe := condEdges(fn, bo)
					if bo.Op == token.NEQ {
						te = fe
					}
					if len(te) == 0 {
						c.Undecided("terminator comparison at %s is not a branch condition", p.Pos(bo.Pos()))
						continue
					}
					domGood := func(at ssa.Instruction) bool {
						for _, g := range good {
							if eng.DominatedByEdge(fn, at, g) {
								return true
							}
						}
						return false
					}
					key := fmt.Sprintf("terminator-test@%s[%d]", p.FuncKey(fn), k)
					if domGood(bo) {
						c.Check(true, key, bo, fn, "the comparison is made only in a node that has more labels", "")
						continue
					}
					var bad ssa.Instruction
					for _, blk := range fn.Blocks {
						if len(blk.Instrs) == 0 || bad != nil {
							continue
						}
						only := true
						for _, e := range te {
							if !eng.DominatedByEdge(fn, blk.Instrs[0], e) {
								only = false
							}
						}
						if !only || blk == te[0].B {
							continue
						}
						var eff ssa.Instruction
						for _, x := range blk.Instrs {
							switch y := x.(type) {
							case *ssa.Store, *ssa.MapUpdate, *ssa.Return, *ssa.Send, *ssa.Go, *ssa.Defer, *ssa.Panic:
								eff = x
							case *ssa.Call:
								if !pure[calleeName(y)] {
									eff = x
								}
							}
							if eff != nil {
								break
							}
						}
						if eff != nil && !domGood(eff) {
							bad = eff
						}
					}
					detail := ""
					if bad != nil {
						detail = fmt.Sprintf("%s is executed because the label equals 0xff, and no node-size test (isEndOfNode / size > 1) lies before it", p.Pos(bad.Pos()))
					}
					c.Check(bad == nil, key, bo, fn,
						"0xff is both the terminator and a real label; the builder emits the terminator only as the first label of a node that has further labels, so a reader may conclude 'the path to this node is a key' only after a node-size test - otherwise the dictionary {\"\\xff\"} answers a look-up of the empty key with the value of \"\\xff\"",
						detail)
				}
			}
		}
		c.Check(n >= 5, "terminator-tests-found", nil, nil, "the readers compare labels with the terminator", fmt.Sprintf("%d comparisons", n))
	})
}

// ---- F64 (C19): a task leaves Submit queued or reported -----------------------------------------------------------------------------------
//
// A pooled stage is counted as pending before it is submitted; baseStage.Execute hands the pool a task with the stage's
// failure handler.  A Submit that returns without queueing the task and without telling that handler (the task context
// was cancelled / timed out, the pool stopped) leaves the stage pending for ever: the pipeline never signals completion,
// the request never gets its response.
func rejectedTaskIsReported(c *eng.Ctx) {
	p := c.P
	c.Rule("PASS", "internal/concurrent.workerPool.Submit{a task with a handler leaves Submit queued, or reported to its failure handler}", func() {
		const poolT = "internal/concurrent.workerPool"
		const taskT = "internal/concurrent.Task"
		f := c.Fn(poolT + ".Submit")
		isFieldLoad := func(v ssa.Value, key string) bool {
			return eng.DependsOn(v, func(x ssa.Value) bool {
				in, ok := x.(ssa.Instruction)
				return ok && eng.LoadField(key)(p, in)
			})
		}
		// the queueing: a plain send, or the send case of a select, on p.tasks
		var selects []*ssa.Select
		sendIdx := map[*ssa.Select]int64{}
		queued := func(in ssa.Instruction) bool {
			if s, ok := in.(*ssa.Send); ok {
				return isFieldLoad(s.Chan, poolT+".tasks")
			}
			return false
		}
		for _, b := range eng.BlocksT(f) {
			for _, in := range b.Instrs {
				if s, ok := in.(*ssa.Select); ok {
					for i, st := range s.States {
						if st.Dir == types.SendOnly && isFieldLoad(st.Chan, poolT+".tasks") {
							selects = append(selects, s)
							sendIdx[s] = int64(i)
						}
					}
				}
			}
		}
		nq := len(selects)
		for _, b := range eng.BlocksT(f) {
			for _, in := range b.Instrs {
				if queued(in) {
					nq++
				}
			}
		}
		c.Check(nq >= 1, "queueing-found", nil, f, "Submit queues the task on p.tasks", "no send on workerPool.tasks")
		// edges that end the obligation: the task was sent (select index == send case), the task has no handler at all,
		// or it has no failure handler to tell
		exempt := eng.EdgesWithFact(f, func(ft eng.Fact) bool {
			if ft.Op != "eq" || ft.Y == nil {
				return false
			}
			for _, pr := range [][2]ssa.Value{{ft.X, ft.Y}, {ft.Y, ft.X}} {
				x, y := pr[0], pr[1]
				if k, ok := eng.ConstInt(y); ok {
					if ex, ok := eng.Unwrap(x).(*ssa.Extract); ok && ex.Index == 0 {
						if s, ok := ex.Tuple.(*ssa.Select); ok {
							if si, has := sendIdx[s]; has && si == k {
								return true
							}
						}
					}
				}
				if cst, ok := y.(*ssa.Const); ok && cst.IsNil() {
					if isFieldLoad(x, taskT+".handle") || isFieldLoad(x, taskT+".panicHandle") {
						return true
					}
				}
			}
			return false
		})
		reported := func(in ssa.Instruction) bool {
			cl, ok := in.(ssa.CallInstruction)
			if !ok || cl.Common().IsInvoke() || cl.Common().StaticCallee() != nil {
				return false
			}
			return isFieldLoad(cl.Common().Value, taskT+".panicHandle")
		}
		w, found := eng.PathExists(eng.PathQuery{Fn: f,
			Target:  func(in ssa.Instruction) bool { _, ok := in.(*ssa.Return); return ok && in.Parent() == f },
			Blocked: func(in ssa.Instruction) bool { return queued(in) || reported(in) },
			Edge:    eng.ForbidEdges(exempt)})
		detail := ""
		if found {
			detail = fmt.Sprintf("a path reaches the return at %s with the task neither sent to p.tasks nor handed to task.panicHandle", p.Pos(w.Pos()))
		}
		c.Check(!found, "no-silent-drop", w, f,
			"a pooled stage is counted as pending before its task is submitted and is completed only by the task or by the task's failure handler: a Submit that drops the task silently (context cancelled or timed out before / while it is queued, pool stopped) leaves the pipeline waiting for ever - no completion, no response",
			detail)
		// and the stage hands the pool its failure handler
		ex := c.Fn("query/stage.baseStage.Execute")
		nt := 0
		for _, s := range p.Sites(ex, eng.AnyCallTo("internal/concurrent.NewTask")) {
			nt++
			args := eng.CallArgs(s.Instr.(ssa.CallInstruction))
			okh := len(args) == 2
			if okh {
				if cst, isC := eng.Unwrap(args[1]).(*ssa.Const); isC && cst.IsNil() {
					okh = false
				}
			}
			c.Check(okh, fmt.Sprintf("stage-task-carries-the-failure-handler[%d]", nt), s.Instr, ex,
				"the task of a pooled stage carries the stage's failure handler", "NewTask is given no failure handler")
		}
		c.Check(nt >= 1, "stage-task-found", nil, ex, "baseStage.Execute builds a pool task", "")
	})
}

// ---- F65 (C14): the slot-addressed skip treats an empty slot like a filled one ---------------------------------------------------------------
//
// TSDDecoder.Seek walks from the cursor to the requested slot.  An empty slot is a zero bit in the slot mask, not a failure:
// leaving the skip loop because HasValueWithSlot answered false stops at the first gap, leaves the cursor one slot short and
// makes the next Value() decode from the wrong position - the slot-addressed read disagrees with the sequential one.
// Rule: an exit from the skip loop other than its header test depends on the decoder's error state.
func seekSkipsEmptySlots(c *eng.Ctx) {
	p := c.P
	c.Rule("SYMMETRY", "pkg/encoding.TSDDecoder.Seek{an empty slot is skipped like a filled one}", func() {
		const decT = "pkg/encoding.TSDDecoder"
		f := p.Func(decT + ".Seek")
		if f == nil || f.Blocks == nil {
			c.Check(true, "no-seek", nil, nil, "the decoder offers no Seek: slot-addressed reads are HasValueWithSlot / GetValue only", "")
			return
		}
		exits := eng.EarlyLoopExits(f)
		n := 0
		for _, e := range exits {
			n++
			var at ssa.Instruction
			if len(e.From.Instrs) > 0 {
				at = e.From.Instrs[len(e.From.Instrs)-1]
			}
			target := at
			if e.To != nil && len(e.To.Instrs) > 0 {
				target = e.To.Instrs[0]
			}
			conds, _ := eng.GuardingConds(f, target)
			onErr := false
			for _, cd := range conds {
				if eng.DependsOn(cd, func(x ssa.Value) bool {
					if in, ok := x.(ssa.Instruction); ok && eng.LoadField(decT+".err", decT+".reader")(p, in) {
						return true
					}
					return calleeName(x) == "Error"
				}) {
					onErr = true
				}
			}
			c.Check(onErr, fmt.Sprintf("skip-loop-exit[%d]", n), at, f,
				"an empty slot is a zero bit of the slot mask: the skip loop of Seek may be left early only on a decoding error, not because a slot on the way has no value - otherwise Seek stops at the first gap, the cursor is one slot short and the following Value() decodes from the wrong position",
				"the loop is left on a condition that does not depend on the decoder's error state")
		}
		c.Check(true, "skip-loop-exits-examined", nil, f, "every early exit of the skip loop was examined", fmt.Sprintf("%d exits", n))
	})
}

// ---- F66 (C16): the numbers of a histogram are numbers ---------------------------------------------------------------------------------------
//
// validateMetric rejects NaN / Inf simple fields; the compound (histogram) checks were all of the form `x < 0`, which is
// false for NaN - a histogram with NaN sum / min / max / count or NaN / Inf bucket values was accepted in protobuf form
// while the flat form of the very same metric is refused by the row builder.  Rule: every scalar of the compound field and
// every bucket value is rejected when it is NaN - by math.IsNaN, or by an ordered comparison whose FALSE outcome rejects
// (every ordered comparison with NaN is false) - and bucket values are tested with math.IsInf.
func histogramNumbersAreNumbers(c *eng.Ctx) {
	p := c.P
	c.Rule("GUARD", "series/metric.BrokerRowProtoConverter.validateMetric{NaN / Inf inside a histogram is rejected}", func() {
		f := c.Fn("series/metric.BrokerRowProtoConverter.validateMetric")
		const cf = "github.com/lindb/common/proto/gen/v1/linmetrics.CompoundField."
		fromField := func(v ssa.Value, name string) bool {
			return eng.DependsOn(v, func(x ssa.Value) bool {
				in, ok := x.(ssa.Instruction)
				return ok && eng.LoadField(cf+name)(p, in)
			})
		}
		rejects := func(b *ssa.BasicBlock) bool {
			// the block (through plain jumps) ends in a return of a non-nil error
			for i := 0; i < 4 && b != nil; i++ {
				if len(b.Instrs) == 0 {
					return false
				}
				switch t := b.Instrs[len(b.Instrs)-1].(type) {
				case *ssa.Return:
					return !eng.ReturnsNilError(t)
				case *ssa.Jump:
					if len(b.Instrs) > 1 {
						// only phis / value computations may precede the jump
						for _, in := range b.Instrs[:len(b.Instrs)-1] {
							switch in.(type) {
							case *ssa.Store, *ssa.Call, *ssa.MapUpdate:
								return false
							}
						}
					}
					b = b.Succs[0]
				default:
					return false
				}
			}
			return false
		}
		for _, name := range []string{"Max", "Min", "Sum", "Count", "Values"} {
			nanSafe, infSafe := false, false
			for _, b := range eng.BlocksT(f) {
				for _, in := range b.Instrs {
					switch x := in.(type) {
					case *ssa.Call:
						n := calleeName(x)
						if (n == "IsNaN" || n == "IsInf") && len(x.Call.Args) > 0 && fromField(x.Call.Args[0], name) {
							te, _ := condEdges(f, x)
							for _, e := range te {
								if rejects(e.B.Succs[e.Succ]) {
									if n == "IsNaN" {
										nanSafe = true
									} else {
										infSafe = true
									}
								}
							}
						}
					case *ssa.BinOp:
						switch x.Op {
						case token.LSS, token.LEQ, token.GTR, token.GEQ:
						default:
							continue
						}
						if !fromField(x.X, name) && !fromField(x.Y, name) {
							continue
						}
						if bt, ok := x.X.Type().Underlying().(*types.Basic); !ok || bt.Info()&types.IsFloat == 0 {
							continue
						}
						_, fe := condEdges(f, x)
						for _, e := range fe {
							if rejects(e.B.Succs[e.Succ]) {
								nanSafe = true
							}
						}
					}
				}
			}
			c.Check(nanSafe, "NaN-rejected:"+name, nil, f,
				"a histogram whose "+name+" is NaN is invalid and must be rejected as a whole (the flat form of the same metric is): the test must be math.IsNaN or an ordered comparison whose FALSE outcome rejects - `x < 0` is false for NaN and lets it through",
				"no NaN-rejecting test of CompoundField."+name)
			if name == "Values" {
				c.Check(infSafe, "Inf-rejected:"+name, nil, f,
					"an infinite bucket count is invalid (the flat form is refused by the row builder)", "no math.IsInf test of CompoundField.Values[i]")
			}
		}
	})
}

// ---- F67 (C19): every receiver of a leaf's answer is served ----------------------------------------------------------------------------------
//
// A leaf answers every receiver of its plan (the root, or the intermediate nodes of a group-by) - each of them counts this
// leaf in its expected results.  sendResponse walks ctx.Receivers; leaving that loop at a receiver whose stream is not
// registered (`break` where `continue` was meant) leaves the receivers behind it without any response, data or error.
func everyReceiverIsAnswered(c *eng.Ctx) {
	c.Rule("EXHAUSTIVE", "query/context.LeafExecuteContext.sendResponse{every receiver is served}", func() {
		f := c.Fn("query/context.LeafExecuteContext.sendResponse")
		sends := c.P.Sites(f, invokeOn("", "Send"))
		c.Check(len(sends) >= 1, "response-sent", nil, f, "the leaf sends its response on the receivers' streams", "no stream.Send in sendResponse")
		visitsEveryElement(c, f, "no-early-exit",
			"every receiver counts this leaf in its expected results: the loop over ctx.Receivers is not left early - a receiver whose stream is missing is skipped, the ones behind it are still answered (data or error); otherwise they wait until their timeout and the request gets no response")
	})
}

// ---- F68 (C16): a flat row that is refused is still consumed ---------------------------------------------------------------------------------
//
// The flat request body is a sequence of size-prefixed rows; HasNext reads the prefix, DecodeTo the body.  A bad row is
// dropped and the batch goes on (parseFlatMetric), so DecodeTo must leave the stream at the next prefix on every exit:
// returning before the body of a row with a positive length was read makes the next HasNext read a "size" from the
// middle of that row - the valid rows behind it are lost, or the whole request fails.
func refusedFlatRowIsConsumed(c *eng.Ctx) {
	p := c.P
	c.Rule("PASS", "series/metric.BrokerRowFlatDecoder.DecodeTo{a row with a positive length is consumed on every exit}", func() {
		const decT = "series/metric.BrokerRowFlatDecoder"
		f := c.Fn(decT + ".DecodeTo")
		fromField := func(v ssa.Value, key string) bool {
			return eng.DependsOn(v, func(x ssa.Value) bool {
				in, ok := x.(ssa.Instruction)
				return ok && eng.LoadField(key)(p, in)
			})
		}
		reads := func(in ssa.Instruction) bool {
			cl, ok := in.(*ssa.Call)
			if !ok {
				return false
			}
			switch calleeName(cl) {
			case "ReadFull", "CopyN", "Read", "ReadAtLeast", "Discard":
			default:
				return false
			}
			if cl.Common().IsInvoke() && fromField(cl.Common().Value, decT+".reader") {
				return true
			}
			for _, a := range cl.Common().Args {
				if fromField(a, decT+".reader") {
					return true
				}
			}
			return false
		}
		n := 0
		for _, b := range eng.BlocksT(f) {
			for _, in := range b.Instrs {
				if reads(in) {
					n++
				}
			}
		}
		c.Check(n >= 1, "body-read-found", nil, f, "DecodeTo reads the row body from the request reader", "no read of itr.reader")
		exempt := eng.EdgesWithFact(f, func(ft eng.Fact) bool {
			if ft.Op != "le" && ft.Op != "lt" && ft.Op != "eq" || ft.Y == nil {
				return false
			}
			k, ok := eng.ConstInt(ft.Y)
			return ok && (ft.Op == "le" && k <= 0 || ft.Op == "lt" && k <= 1 || ft.Op == "eq" && k == 0) && fromField(ft.X, decT+".size")
		})
		w, found := eng.PathExists(eng.PathQuery{Fn: f,
			Target:  func(in ssa.Instruction) bool { _, ok := in.(*ssa.Return); return ok && in.Parent() == f },
			Blocked: reads,
			Edge:    eng.ForbidEdges(exempt)})
		detail := ""
		if found {
			detail = "DecodeTo returns at " + p.Pos(w.Pos()) + " with a positive row length and the body still in the stream"
		}
		c.Check(!found, "no-exit-before-the-body", w, f,
			"a refused row is dropped and the batch continues with the next size prefix: every exit of DecodeTo for a row of positive length lies behind a read (or discard) of the row's bytes - otherwise the next prefix is taken from the middle of the refused row and the valid rows behind it are lost",
			detail)
	})
}

// ---- F69 (C16): only the simple field types the converter can store are accepted -------------------------------------------------------------
//
// MarshalProtoMetricV1 maps the protobuf field type to the flat type with a switch that has no default; validateMetric
// refused SIMPLE_UNSPECIFIED only.  A type outside the enum (9) passed the validation, matched no case and was stored as
// the flat UnSpecified type - exactly what the validation exists to refuse.  The rule evaluates the comparisons on the
// field type concretely: for every candidate value outside the set the switch handles, no success return of the
// converter is reachable on the edges consistent with that value.
func onlyStorableFieldTypesAccepted(c *eng.Ctx) {
	p := c.P
	c.Rule("EXHAUSTIVE", "series/metric.BrokerRowProtoConverter.MarshalProtoMetricV1{a simple field type the type switch does not map is refused}", func() {
		f := c.Fn("series/metric.BrokerRowProtoConverter.MarshalProtoMetricV1")
		const tf = "github.com/lindb/common/proto/gen/v1/linmetrics.SimpleField.Type"
		isType := func(v ssa.Value) bool {
			v = eng.Unwrap(v)
			in, ok := v.(ssa.Instruction)
			return ok && eng.LoadField(tf)(p, in)
		}
		// comparisons of the field type with a constant
		type cmp struct {
			b   *ssa.BasicBlock
			op  token.Token
			k   int64
			rev bool // constant on the left
			neg bool
		}
		var cmps []cmp
		handled := map[int64]bool{}
		for _, b := range eng.BlocksT(f) {
			if len(b.Instrs) == 0 || len(b.Succs) != 2 {
				continue
			}
			ifi, ok := b.Instrs[len(b.Instrs)-1].(*ssa.If)
			if !ok {
				continue
			}
			cond, neg := ifi.Cond, false
			for {
				u, ok := cond.(*ssa.UnOp)
				if !ok || u.Op != token.NOT {
					break
				}
				neg, cond = !neg, u.X
			}
			bo, ok := cond.(*ssa.BinOp)
			if !ok {
				continue
			}
			if k, ok := eng.ConstInt(bo.Y); ok && isType(bo.X) {
				cmps = append(cmps, cmp{b, bo.Op, k, false, neg})
				if bo.Op == token.EQL && b.Parent() == f {
					handled[k] = true
				}
			} else if k, ok := eng.ConstInt(bo.X); ok && isType(bo.Y) {
				cmps = append(cmps, cmp{b, bo.Op, k, true, neg})
				if bo.Op == token.EQL && b.Parent() == f {
					handled[k] = true
				}
			}
		}
		c.Check(len(handled) >= 2, "type-switch-found", nil, f, "the converter maps the protobuf field type to the flat field type", fmt.Sprintf("%d cases", len(handled)))
		eval := func(cm cmp, v int64) bool {
			x, y := v, cm.k
			if cm.rev {
				x, y = cm.k, v
			}
			var r bool
			switch cm.op {
			case token.EQL:
				r = x == y
			case token.NEQ:
				r = x != y
			case token.LSS:
				r = x < y
			case token.LEQ:
				r = x <= y
			case token.GTR:
				r = x > y
			case token.GEQ:
				r = x >= y
			default:
				return true
			}
			return r != cm.neg
		}
		val := c.Fn("series/metric.BrokerRowProtoConverter.validateMetric")
		succeeds := func(fn *ssa.Function, v int64) bool {
			filter := func(b *ssa.BasicBlock, succ int) bool {
				for _, cm := range cmps {
					if cm.b == b {
						if eval(cm, v) {
							return succ == 0
						}
						return succ == 1
					}
				}
				return true
			}
			// from every read of a field's type in fn: is a success return reachable on the edges consistent with v?
			n := 0
			for _, b := range fn.Blocks {
				for _, in := range b.Instrs {
					if v, ok := in.(ssa.Value); !ok || !isType(v) {
						continue
					}
					n++
					if _, found := eng.PathExists(eng.PathQuery{Fn: fn, After: in,
						Target: func(in ssa.Instruction) bool {
							r, ok := in.(*ssa.Return)
							return ok && in.Parent() == fn && eng.ReturnsNilError(r)
						},
						Edge: filter}); !found {
						return false
					}
				}
			}
			if n == 0 {
				c.Undecided("%s does not read the simple field type", p.FuncKey(fn))
			}
			return true
		}
		var accepted []string
		for _, v := range []int64{-1, 0, 1, 2, 3, 4, 5, 6, 7, 8, 9, 16, 100, 255} {
			if handled[v] {
				continue
			}
			// the validation lets the value through and the converter itself (its switch may have a refusing default) too
			if succeeds(val, v) && succeeds(f, v) {
				accepted = append(accepted, fmt.Sprint(v))
			}
		}
		c.Check(len(accepted) == 0, "unmapped-type-refused", nil, f,
			"a field whose type the switch does not map is written without a type, i.e. stored as the flat UnSpecified type - which the validation refuses when it is sent as such; an invalid metric is rejected as a whole",
			"the converter succeeds for simple field type value(s) "+strings.Join(accepted, ", ")+" although its type switch has no case for them")
	})
}
