package props

import (
	"fmt"
	"go/token"
	"strings"

	"golang.org/x/tools/go/ssa"

	"lincheck/internal/eng"
)

const (
	cgT  = "pkg/queue.consumerGroup"
	cgMu = cgT + ".lock4headSeq"
	foT  = "pkg/queue.fanOutQueue"
	foMu = foT + ".lock4map"
)

func init() {
	register(eng.Property{
		ID:    "C06",
		Title: "WAL consumer groups: ordered positions, GC never outruns an unacked reader",
		Explanation: "Closes the set of stores to every position (group consumed/ack, queue ack) by ownership and decides for each store " +
			"site the guard or pairing that keeps ack <= consumed <= appended and queue-ack <= min(group acks) <= appended: guarded stores carry the " +
			"comparison facts on every path inside one lock hold; reset stores write both positions from one value in one hold; the constructor's " +
			"initial pair is proved ordered (phi-aware); Sync's argument is proved to be a running minimum over EVERY group and the appended " +
			"position; page truncation removes strictly below the ack's page and only from GC; every in-memory store is persisted to the agreed " +
			"meta-page offset in the same hold.",
		NotDecided: "that surviving messages are byte-readable (mmap contents); schedules across different lock domains beyond the per-store guards; liveness.",
		MinObls:    45,
		Run:        runC06,
	})
}

// storesUnder checks that a store site lies under a hold of `mu` and returns the lock state.
func heldAt(c *eng.Ctx, fn *ssa.Function, in ssa.Instruction, mu string, write bool, sub string) {
	ls := c.P.Locks(fn, nil)
	mode := "read or write"
	if write {
		mode = "write"
	}
	c.Check(ls.At(in).HasField(mu, write), sub, in, fn, "the position is stored while "+mu+" is held ("+mode+")", "held: "+ls.At(in).String())
}

func runC06(c *eng.Ctx) {
	p := c.P
	pageFileRemovedOnlyByTruncation(c)
	everyPersistedGroupLoaded(c)
	indexResetExcludesGroupCreation(c)
	c.Rule("PROV", "pkg/queue.consumerGroup.IsEmpty{appended <= acknowledged}", func() { groupEmptyMeansAcknowledged(c) })
	isLoadOf := func(field string) func(string, ssa.Value) bool {
		return func(d string, v ssa.Value) bool { return strings.HasSuffix(d, "."+field) }
	}

	// ---- queue.SetAcknowledgedSeq -------------------------------------------------------------
	c.Rule("GUARD", qT+".SetAcknowledgedSeq", func() { queueAckGuard(c) })

	// ---- resets: both positions from one value in one write hold ------------------------------
	reset := func(fnKey, mu string, fields []string, src string) { resetInOneHold(c, fnKey, mu, fields, src) }
	reset(qT+".SetAppendedSeq", qMu, []string{qT + ".appendedSeq", qT + ".acknowledgedSeq"}, "seq")
	reset(cgT+".SetSeq", cgMu, []string{cgT + ".consumedSeq", cgT + ".acknowledgedSeq"}, "seq")
	reset(cgT+".SetConsumedSeq", cgMu, []string{cgT + ".consumedSeq"}, "seq")

	// ---- consumerGroup.consume ---------------------------------------------------------------
	// ---- 1b. a failed page acquisition leaves the write cursor where it was (rule shared with C05): a retried append must not
	// overwrite messages a group has not acknowledged ---------------------------------------------------------------------------------
	c.Rule("GUARD", "pkg/queue.queue{failed page acquisition leaves the cursor}", func() { failedAcquireLeavesCursor(c) })

	c.Rule("GUARD", cgT+".consume", func() {
		f := c.Fn(cgT + ".consume")
		st := c.One(f, eng.StoreField(cgT+".consumedSeq"), "store to consumedSeq")
		v, _ := storedValue(st.Instr)
		d := p.Desc(v)
		c.Check(strings.HasSuffix(d, ".consumedSeq+1)") || strings.HasPrefix(d, "(1+"), "next", st.Instr, f,
			"consume hands out consumed+1 (consecutive sequences)", "stores "+d)
		facts := p.MustFacts(f)
		fs := facts.At(st.Instr)
		cap := facts.Find(fs, "le", func(_ string, x ssa.Value) bool { return x == v }, eng.DescSuffix("AppendedSeq()"))
		c.Check(len(cap) > 0, "not-beyond-appended", st.Instr, f, "consumed advances only under head <= queue appended", "facts: "+strings.Join(facts.Render(fs), " ; "))
		heldAt(c, f, st.Instr, cgMu, true, "locked")
		// the load of consumedSeq is in the same hold
		eng.WalkExpr(v, func(x ssa.Value) bool {
			if in, ok := x.(ssa.Instruction); ok && eng.LoadField(cgT+".consumedSeq")(p, in) {
				ok2, why := p.Locks(f, nil).SameHold(in, st.Instr, cgMu, true)
				c.Check(ok2, "read-and-store-one-hold", in, f, "consumed is read and advanced in one write hold", why)
			}
			return true
		})
		// returned value is the stored head on that path
		metaFollows(c, f, st.Instr, v, ".metaPage", cgMu)
	})

	// ---- consumerGroup.Ack -------------------------------------------------------------------
	c.Rule("GUARD", cgT+".Ack", func() {
		f := c.Fn(cgT + ".Ack")
		st := c.One(f, eng.StoreField(cgT+".acknowledgedSeq"), "store to acknowledgedSeq")
		v, _ := storedValue(st.Instr)
		c.Check(p.Desc(v) == "ackSeq", "value", st.Instr, f, "the stored ack is the requested sequence", "stores "+p.Desc(v))
		facts := p.MustFacts(f)
		fs := facts.At(st.Instr)
		lo := facts.Find(fs, "le", isLoadOf("acknowledgedSeq"), eng.DescIs("ackSeq"))
		hi := facts.Find(fs, "le", eng.DescIs("ackSeq"), isLoadOf("consumedSeq"))
		c.Check(len(lo) > 0, "not-backwards", st.Instr, f, "an ack below the current ack is ignored", "facts: "+strings.Join(facts.Render(fs), " ; "))
		c.Check(len(hi) > 0, "not-beyond-consumed", st.Instr, f, "an ack above consumed is ignored (ack <= consumed)", "facts: "+strings.Join(facts.Render(fs), " ; "))
		heldAt(c, f, st.Instr, cgMu, false, "locked")
		// consumed must be read under the lock that excludes consume/SetConsumedSeq (writers take it in W mode)
		for _, ff := range hi {
			if in, ok := ff.Y.(ssa.Instruction); ok {
				ok2, why := p.Locks(f, nil).SameHold(in, st.Instr, cgMu, false)
				c.Check(ok2, "consumed-read-in-hold", in, f, "consumed is read in the same hold as the ack store", why)
			}
		}
		metaFollows(c, f, st.Instr, v, ".metaPage", cgMu)
	})

	// ---- NewConsumerGroup: initial pair ---------------------------------------------------------
	c.Rule("GUARD", "pkg/queue.NewConsumerGroup{initial-pair}", func() {
		f := c.Fn("pkg/queue.NewConsumerGroup")
		facts := p.MustFacts(f)
		// the values handed to atomic.NewInt64 for the two fields
		var consumed, ack ssa.Value
		var at ssa.Instruction
		for _, s := range p.Sites(f, eng.StoreField(cgT+".consumedSeq", cgT+".acknowledgedSeq")) {
			st, ok := s.Instr.(*ssa.Store)
			if !ok {
				continue
			}
			call, ok := st.Val.(*ssa.Call)
			if !ok || len(call.Common().Args) != 1 {
				c.Undecided("initial value of a position is not atomic.NewInt64(v): %s", p.Desc(st.Val))
			}
			fa := st.Addr.(*ssa.FieldAddr)
			if strings.HasSuffix(eng.FieldKeyOfAddr(fa), ".consumedSeq") {
				consumed = call.Common().Args[0]
			} else {
				ack = call.Common().Args[0]
			}
			at = s.Instr
		}
		if consumed == nil || ack == nil {
			c.Undecided("could not find the initial values of consumedSeq/acknowledgedSeq")
		}
		c.Check(facts.Prove("le", ack, consumed, at), "ack<=consumed", at, f,
			"a (re)created group starts with ack <= consumed on every path (fresh: both -1; loaded: after the clamps)",
			"cannot prove "+p.Desc(ack)+" <= "+p.Desc(consumed)+" from the branch facts")
		// on the loaded path the ack is at least the queue-wide ack
		qa := p.Sites(f, func(p *eng.Prog, in ssa.Instruction) bool {
			cl, ok := in.(*ssa.Call)
			return ok && cl.Common().IsInvoke() && cl.Common().Method.Name() == "AcknowledgedSeq"
		})
		if len(qa) != 1 {
			c.Undecided("expected one read of the queue-wide ack in NewConsumerGroup, found %d", len(qa))
		}
		qv := qa[0].Instr.(*ssa.Call)
		// find the loaded-path value of ack: the edge value of the final phi that is not the constant
		loaded := ack
		if ph, ok := ack.(*ssa.Phi); ok {
			for _, e := range ph.Edges {
				if _, isC := e.(*ssa.Const); !isC {
					loaded = e
				}
			}
		}
		// the queue's own invariant acknowledged <= appended (rules SetAcknowledgedSeq / SetAppendedSeq) may be assumed for the
		// values read here: a position capped at AppendedSeq() is still >= the queue-wide ack
		var inv []eng.Fact
		for _, a := range p.Sites(f, func(p *eng.Prog, in ssa.Instruction) bool {
			cl, ok := in.(*ssa.Call)
			return ok && cl.Common().IsInvoke() && cl.Common().Method.Name() == "AppendedSeq"
		}) {
			inv = append(inv, eng.Fact{Op: "le", X: qv, Y: a.Instr.(ssa.Value)})
		}
		c.Check(facts.Prove("le", qv, loaded, at) || facts.ProveWith("le", qv, loaded, at, inv...), "loaded-ack>=queue-ack", qv, f,
			"a group loaded from disk never starts below the queue-wide ack (messages at or below it may be collected)",
			"cannot prove "+p.Desc(qv)+" <= "+p.Desc(loaded))
		// F35: on the loaded path neither position exceeds the queue's appended sequence (the log may have been reset backwards
		// while the group was stopped: fanOutQueue.SetAppendedSeq only reaches the groups that are in the map)
		app := p.Sites(f, func(p *eng.Prog, in ssa.Instruction) bool {
			cl, ok := in.(*ssa.Call)
			return ok && cl.Common().IsInvoke() && cl.Common().Method.Name() == "AppendedSeq"
		})
		loadedC := consumed
		if ph, ok := consumed.(*ssa.Phi); ok {
			for _, e := range ph.Edges {
				if _, isC := e.(*ssa.Const); !isC {
					loadedC = e
				}
			}
		}
		okApp := false
		for _, a := range app {
			if facts.Prove("le", loadedC, a.Instr.(ssa.Value), at) {
				okApp = true
			}
		}
		c.Check(okApp, "loaded-consumed<=appended", at, f,
			"a group loaded from disk never starts beyond the queue's appended sequence: its positions are capped at AppendedSeq() (a backward index reset while the group was stopped leaves larger positions on disk)",
			fmt.Sprintf("cannot prove %s <= queue.AppendedSeq() (%d reads of the appended sequence)", p.Desc(loadedC), len(app)))
		// both values persisted
		for _, s := range c.Some(f, invokeOn("", "PutUint64"), "meta page writes") {
			args := eng.CallArgs(s.Instr.(*ssa.Call))
			off, _ := eng.ConstInt(args[1])
			want := consumed
			role := "consumed"
			if off == 8 {
				want, role = ack, "ack"
			}
			c.Check(eng.DependsOn(args[0], func(x ssa.Value) bool { return x == want }), "persist:"+role, s.Instr, f,
				"the initial "+role+" position is persisted at its meta offset", "writes "+p.Desc(args[0])+" at "+fmt.Sprint(off))
		}
	})

	// ---- a group is opened and registered in one write hold of the map lock (Sync reads the map under the same lock) ------------------
	c.Rule("ATOMIC", foT+".GetOrCreateConsumerGroup{open+register}", func() {
		f := c.Fn(foT + ".GetOrCreateConsumerGroup")
		mu := foT + ".lock4map"
		ls := p.Locks(f, nil)
		open := c.One(f, eng.AnyCallTo("var:pkg/queue.newConsumerGroupFunc", "pkg/queue.NewConsumerGroup"), "newConsumerGroupFunc(dir, name, fq)")
		reg := c.Some(f, eng.MapUpdateOf(foT+".consumerGroups"), "fq.consumerGroups[name] = group")
		for i, r := range reg {
			ok, why := ls.SameHold(open.Instr, r.Instr, mu, true)
			c.Check(ok, fmt.Sprintf("open-and-register-in-one-hold[%d]", i), r.Instr, f,
				"NewConsumerGroup lifts the loaded positions to the queue-wide acknowledged sequence it reads at that moment; the group is put into the map in the same write hold of lock4map, so no Sync (which computes the queue-wide ack as the minimum over the REGISTERED groups, under the read lock) can run between the two",
				why)
		}
		sy := c.Fn(foT + ".Sync")
		lsy := p.Locks(sy, nil)
		for i, s := range c.Some(sy, invokeOn(".queue", "SetAcknowledgedSeq"), "queue.SetAcknowledgedSeq(min)") {
			c.Check(lsy.At(s.Instr).HasField(mu, false), fmt.Sprintf("sync-under-map-lock[%d]", i), s.Instr, sy, "Sync moves the queue-wide ack while it holds lock4map", "held: "+lsy.At(s.Instr).String())
		}
	})

	c.Rule("PASS", qT+".SetAppendedSeq{appended = acknowledged = seq on every path}", func() { resetLeavesEmptyQueue(c) })
	// an index reset pulls the queue back first: consume() hands out consumed+1 only while it is <= Queue.AppendedSeq(), so a group
	// that a running consumer moves during the reset cannot pass the new position
	c.Rule("ORDER", foT+".SetAppendedSeq{queue before groups}", func() {
		f := c.Fn(foT + ".SetAppendedSeq")
		orderInFn(c, f, invokeOn(".queue", "SetAppendedSeq"), invokeOn("", "SetSeq"), "queue.SetAppendedSeq", "group.SetSeq")
		neverBefore(c, f, invokeOn(".queue", "SetAppendedSeq"), invokeOn("", "SetSeq"), "queue.SetAppendedSeq", "group.SetSeq")
	})

	c.Rule("GUARD", "pkg/queue.queue.persistMetaOfMessage{cached index page = page of the sequence}", func() { cachedIndexPageRule(c) })
	c.Rule("ORDER", "pkg/queue.NewConsumerGroup{meta probed before the page is created}", func() { existenceProbedBeforeCreate(c, "pkg/queue.NewConsumerGroup", "") })
	c.Rule("SYMMETRY", "pkg/queue.queue{page = s / N, slot = s % N for one s}", func() { pageSlotOfOneSequence(c) })

	// ---- group meta page layout -----------------------------------------------------------------
	c.Rule("LAYOUT", "pkg/queue.consumer-group-meta", func() {
		offs := map[string]map[int64]bool{"consumed": {}, "ack": {}}
		n := 0
		seenW := map[ssa.Instruction]bool{}
		for _, f0 := range p.FuncsWithPrefix(cgT + ".") {
			// counted per method that performs the write (itself or through a helper it enters); classified once per site
			for _, s := range p.Sites(f0, invokeOn(".metaPage", "PutUint64")) {
				f := s.Instr.Parent()
				if seenW[s.Instr] {
					n++
					continue
				}
				seenW[s.Instr] = true
				args := eng.CallArgs(s.Instr.(*ssa.Call))
				off, ok := eng.ConstInt(args[1])
				d := p.Desc(args[0])
				role := ""
				switch {
				case strings.Contains(d, "consumedSeq") || d == "headSeq" || strings.Contains(d, "ConsumedSeq"):
					role = "consumed"
				case strings.Contains(d, "acknowledgedSeq") || strings.Contains(d, "AcknowledgedSeq") || d == "ackSeq":
					role = "ack"
				}
				if role == "" || !ok {
					c.Check(false, "classify:"+p.FuncKey(f), s.Instr, f, "every group meta write stores consumed or ack at a constant offset", "value "+d)
					continue
				}
				offs[role][off] = true
				n++
				c.Check(true, "write:"+p.FuncKey(f)+":"+role, s.Instr, f, "group meta write classified ("+role+")", "")
			}
		}
		if n < 6 {
			c.Undecided("expected >= 6 group meta writes, found %d", n)
		}
		c.Check(len(offs["consumed"]) == 1 && len(offs["ack"]) == 1 && !offs["consumed"][8] == !offs["ack"][0], "offsets", nil, nil,
			"all writers agree: consumed at one offset, ack at another", fmt.Sprintf("%v", offs))
		f := c.Fn("pkg/queue.NewConsumerGroup")
		reads := p.Sites(f, invokeOn("", "ReadUint64"))
		if len(reads) != 2 {
			c.Undecided("expected two meta reads in NewConsumerGroup, found %d", len(reads))
		}
		var co, ao int64 = -1, -1
		for k := range offs["consumed"] {
			co = k
		}
		for k := range offs["ack"] {
			ao = k
		}
		// each read flows (through the clamps) into the matching initial position
		for _, r := range reads {
			cl := r.Instr.(*ssa.Call)
			off, _ := eng.ConstInt(eng.CallArgs(cl)[0])
			role := "?"
			if off == co {
				role = "consumedSeq"
			} else if off == ao {
				role = "acknowledgedSeq"
			}
			okFlow := false
			for _, s := range p.Sites(f, eng.StoreField(cgT+"."+role)) {
				if st, ok := s.Instr.(*ssa.Store); ok {
					if eng.DependsOn(st.Val, func(x ssa.Value) bool { return x == ssa.Value(cl) }) {
						okFlow = true
					}
				}
			}
			c.Check(okFlow, "restore:"+role, r.Instr, f, "reopen restores each position from the offset its writers use", fmt.Sprintf("read at %d does not reach %s", off, role))
		}
	})

	// ---- fanOutQueue.Sync -------------------------------------------------------------------------
	c.Rule("PROV", foT+".Sync{min-over-all-groups}", func() { syncRule(c) })

	// ---- truncation -------------------------------------------------------------------------------
	c.Rule("GUARD", "pkg/queue/page.factory.TruncatePages", func() {
		f := c.Fn("pkg/queue/page.factory.TruncatePages")
		facts := p.MustFacts(f)
		destr := eng.Any(invokeOn("", "Close"), eng.CallTo("var:pkg/queue/page.removeFileFunc"), eng.CallTo("builtin:delete"))
		sites := c.Some(f, destr, "close/remove/delete of a page")
		if len(sites) < 3 {
			c.Undecided("expected close, remove and delete in TruncatePages, found %d", len(sites))
		}
		for i, s := range sites {
			fs := facts.At(s.Instr)
			lt := facts.Find(fs, "lt", func(d string, _ ssa.Value) bool {
				return strings.Contains(d, "pageID") || strings.HasPrefix(d, "next") || strings.Contains(d, "#1")
			},
				eng.DescIs("index"))
			c.Check(len(lt) > 0, fmt.Sprintf("strictly-below[%d]", i), s.Instr, f,
				"a page is closed/removed/forgotten only under pageID < index (strict: the page holding the ack position stays)",
				"facts: "+strings.Join(facts.Render(fs), " ; "))
		}
	})
	c.Rule("PROV", qT+".GC", func() { gcBoundFromAck(c) })

	// ---- OWNER: who may store positions / truncate ---------------------------------------------
	c.Rule("OWNER", "pkg/queue.positions", func() {
		owner(c, "store to consumerGroup.consumedSeq", eng.StoreField(cgT+".consumedSeq"),
			[]string{cgT + ".consume", cgT + ".SetConsumedSeq", cgT + ".SetSeq", "pkg/queue.NewConsumerGroup"}, 4)
		owner(c, "store to consumerGroup.acknowledgedSeq", eng.StoreField(cgT+".acknowledgedSeq"),
			[]string{cgT + ".Ack", cgT + ".SetSeq", "pkg/queue.NewConsumerGroup"}, 3)
		owner(c, "store to queue.acknowledgedSeq", eng.StoreField(qT+".acknowledgedSeq"),
			[]string{qT + ".SetAcknowledgedSeq", qT + ".SetAppendedSeq", qT + ".initSequence", "pkg/queue.NewQueue"}, 4)
		owner(c, "call of Queue.SetAcknowledgedSeq", eng.AnyCallTo(qT+".SetAcknowledgedSeq", "pkg/queue.Queue.SetAcknowledgedSeq"),
			[]string{foT + ".Sync"}, 1)
		owner(c, "call of TruncatePages", eng.AnyCallTo("pkg/queue/page.Factory.TruncatePages", "pkg/queue/page.factory.TruncatePages"),
			[]string{qT + ".GC"}, 2)
		owner(c, "call of ConsumerGroup.SetSeq", eng.AnyCallTo(cgT+".SetSeq", "pkg/queue.ConsumerGroup.SetSeq"),
			[]string{foT + ".SetAppendedSeq"}, 1)
		owner(c, "call of ConsumerGroup.SetConsumedSeq (explicit index reset)", eng.AnyCallTo(cgT+".SetConsumedSeq", "pkg/queue.ConsumerGroup.SetConsumedSeq"),
			[]string{"replica.replicator.ResetReplicaIndex"}, 1)
		owner(c, "call of SetAppendedSeq (explicit index reset)", eng.AnyCallTo(foT+".SetAppendedSeq", "pkg/queue.FanOutQueue.SetAppendedSeq", qT+".SetAppendedSeq", "pkg/queue.Queue.SetAppendedSeq"),
			[]string{foT + ".SetAppendedSeq", "replica.replicator.ResetAppendIndex", "replica.partition.ResetReplicaIndex"}, 3)
	})
}

func zeroLike(v ssa.Value) ssa.Value { return ssa.NewConst(constantZero, v.Type()) }

// metaFollows: after the in-memory store `st` of value v, on every path to the function's exit a
// PutUint64 of the same value on the meta page happens inside the same hold.
func metaFollows(c *eng.Ctx, f *ssa.Function, st ssa.Instruction, v ssa.Value, recvSuffix, mu string) {
	p := c.P
	sfx := ""
	if fld := fieldOfStore(p, st); fld != "" {
		sfx = ":" + fld
	}
	puts := p.Sites(f, invokeOn(recvSuffix, "PutUint64"))
	var same []eng.Site
	for _, s := range puts {
		a := eng.CallArgs(s.Instr.(*ssa.Call))[0]
		d := p.Desc(a)
		if eng.DependsOn(a, func(x ssa.Value) bool { return x == v }) || (v != nil && fieldOfStore(p, st) != "" && strings.HasSuffix(d, "."+fieldOfStore(p, st))) {
			same = append(same, s)
		}
	}
	if len(same) == 0 {
		c.Check(false, "persisted"+sfx, st, f, "the stored position is also written to the meta page", "no meta page write of the stored value found")
		return
	}
	// every path from the store to a return passes one of them
	_, escapes := eng.PathExists(eng.PathQuery{Fn: f, After: st,
		Target:  func(in ssa.Instruction) bool { _, ok := in.(*ssa.Return); return ok },
		Blocked: func(in ssa.Instruction) bool { return instrIn(in, same) }})
	c.Check(!escapes, "persisted"+sfx, st, f, "on every path after the in-memory store the same value is written to the meta page before returning", "a path returns without persisting the position")
	ls := p.Locks(f, nil)
	mode := mu != cgMu || true
	_ = mode
	for _, s := range same {
		held := ls.At(s.Instr).HasField(mu, false)
		c.Check(held, "persist-in-hold"+sfx, s.Instr, f, "the meta page write happens in the same hold as the store", "held: "+ls.At(s.Instr).String())
	}
}

func fieldOfStore(p *eng.Prog, st ssa.Instruction) string {
	if fa, _, _ := eng.AtomicOp(st); fa != nil {
		k := eng.FieldKeyOfAddr(fa)
		return k[strings.LastIndex(k, ".")+1:]
	}
	if s, ok := st.(*ssa.Store); ok {
		if fa, ok := s.Addr.(*ssa.FieldAddr); ok {
			k := eng.FieldKeyOfAddr(fa)
			return k[strings.LastIndex(k, ".")+1:]
		}
	}
	return ""
}

func instrIn(in ssa.Instruction, l []eng.Site) bool {
	for _, s := range l {
		if s.Instr == in {
			return true
		}
	}
	return false
}

func syncRule(c *eng.Ctx) {
	p := c.P
	f := c.Fn(foT + ".Sync")
	call := c.One(f, invokeOn(".queue", "SetAcknowledgedSeq"), "queue.SetAcknowledgedSeq call").Instr.(*ssa.Call)
	arg := eng.CallArgs(call)[0]
	facts := p.MustFacts(f)
	ls := p.Locks(f, nil)
	c.Check(ls.At(call).HasField(foMu, false), "locked", call, f, "the group set cannot change while the minimum is computed and stored", "held: "+ls.At(call).String())
	c.Check(facts.Prove("le", zeroLike(arg), arg, call), "non-negative", call, f, "the queue ack is only set to a non-negative sequence", "facts: "+strings.Join(facts.Render(facts.At(call)), " ; "))

	// the loop over fq.consumerGroups
	var next *ssa.Next
	for _, b := range eng.BlocksT(f) {
		for _, in := range b.Instrs {
			if n, ok := in.(*ssa.Next); ok {
				if r, ok := n.Iter.(*ssa.Range); ok && strings.HasSuffix(p.Desc(r.X), ".consumerGroups") {
					next = n
				}
			}
		}
	}
	if next == nil {
		c.Undecided("no range loop over fq.consumerGroups found in Sync")
	}
	h := next.Block()
	if lf := next.Parent(); lf != f {
		// the minimum is computed in a helper: the loop is analysed there (its lock context comes from the call site)
		facts = p.MustFacts(lf)
		arg = eng.ThroughHelper(arg)
	}
	ph, ok := arg.(*ssa.Phi)
	if !ok || ph.Block() != h {
		c.Undecided("the argument of SetAcknowledgedSeq is not the loop-carried minimum (got %s)", p.Desc(arg))
	}
	// loop membership: blocks from which h is reachable and which are reachable from h's loop-body successor
	var init ssa.Value
	nBack := 0
	for i, pred := range h.Preds {
		e := ph.Edges[i]
		if !reachesBlock(h, pred) { // entry edge
			init = e
			continue
		}
		nBack++
		ectxOK := facts.Prove("le", e, ph, pred.Instrs[len(pred.Instrs)-1])
		_ = ectxOK
		// monotone: new value <= carried value
		mono := proveAtEdge(facts, "le", e, ph, pred, h)
		c.Check(mono, fmt.Sprintf("monotone[%d]", nBack), pred.Instrs[len(pred.Instrs)-1], f,
			"each iteration can only lower the running value (so it stays <= the appended position it started from)",
			"cannot prove "+p.Desc(e)+" <= "+p.Desc(ph))
		// find the group's ack read in the loop body
		var ts *ssa.Call
		for _, b := range eng.BlocksT(f) {
			if !reachesBlock(h, b) || !reachesBlock(b, h) {
				continue
			}
			for _, in := range b.Instrs {
				if cl, ok := in.(*ssa.Call); ok && cl.Common().IsInvoke() && cl.Common().Method.Name() == "AcknowledgedSeq" {
					// receiver must be the element of this iteration
					if eng.DependsOn(cl.Common().Value, func(x ssa.Value) bool { return x == ssa.Value(next) }) {
						ts = cl
					}
				}
			}
		}
		if ts == nil {
			c.Check(false, fmt.Sprintf("reads-group-ack[%d]", nBack), next, f, "each iteration reads the ack of the group it visits", "no AcknowledgedSeq() on the loop element")
			continue
		}
		c.Check(proveAtEdge(facts, "le", e, ts, pred, h), fmt.Sprintf("<=group-ack[%d]", nBack), ts, f,
			"after visiting a group the running value is <= that group's ack", "cannot prove "+p.Desc(e)+" <= "+p.Desc(ts))
		// no group is skipped: every path from the loop body entry back to the header passes the read
		body := h.Succs[0]
		if len(h.Instrs) > 0 {
			if _, isIf := h.Instrs[len(h.Instrs)-1].(*ssa.If); !isIf {
				c.Undecided("unexpected loop header shape")
			}
		}
		_, skip := eng.PathExists(eng.PathQuery{Fn: next.Parent(), After: body.Instrs[0],
			Target:  func(in ssa.Instruction) bool { return in == ssa.Instruction(next) },
			Blocked: func(in ssa.Instruction) bool { return in == ssa.Instruction(ts) }})
		// body.Instrs[0] itself could be the read
		if body.Instrs[0] == ssa.Instruction(ts) {
			skip = false
		}
		c.Check(!skip, fmt.Sprintf("no-group-skipped[%d]", nBack), ts, f,
			"no iteration reaches the next group without having compared this group's ack (every existing group bounds the queue ack)",
			"a path through the loop body skips the comparison (continue/filter)")
	}
	if init == nil || nBack == 0 {
		c.Undecided("loop shape not recognised (init %v, back edges %d)", init, nBack)
	}
	c.Check(strings.HasSuffix(p.DescUp(init), "AppendedSeq()"), "starts-at-appended", call, f,
		"the running minimum starts from the queue's appended position", "starts from "+p.DescUp(init))
	// the map ranged over is read under the lock
	c.Check(ls.At(next).HasField(foMu, false), "range-locked", next, f, "the group map is iterated under lock4map", "held: "+ls.At(next).String())
}

func reachesBlock(from, to *ssa.BasicBlock) bool {
	seen := map[*ssa.BasicBlock]bool{}
	work := []*ssa.BasicBlock{from}
	for len(work) > 0 {
		b := work[len(work)-1]
		work = work[:len(work)-1]
		for _, s := range b.Succs {
			if s == to {
				return true
			}
			if !seen[s] {
				seen[s] = true
				work = append(work, s)
			}
		}
	}
	return false
}

func proveAtEdge(fs *eng.Facts, op string, x, y ssa.Value, pred, succ *ssa.BasicBlock) bool {
	return fs.ProveOnEdge(op, x, y, pred, succ)
}

// resetInOneHold (shared by C05 and C06): an explicit reset stores the requested value into every position under one write hold and persists it in that hold.
func resetInOneHold(c *eng.Ctx, fnKey, mu string, fields []string, src string) {
	p := c.P
	c.Rule("ATOMIC", fnKey+"{reset}", func() {
		f := c.Fn(fnKey)
		ls := p.Locks(f, nil)
		var first ssa.Instruction
		for _, fld := range fields {
			st := c.One(f, eng.StoreField(fld), "store to "+fld)
			v, _ := storedValue(st.Instr)
			c.Check(p.Desc(v) == src, "value:"+fld, st.Instr, f, "an explicit reset stores the same requested value into every position it touches", "stores "+p.Desc(v))
			if first == nil {
				first = st.Instr
				c.Check(ls.At(first).HasField(mu, true), "locked", first, f, "reset happens under the write lock "+mu, "held: "+ls.At(first).String())
			} else {
				ok, why := ls.SameHold(first, st.Instr, mu, true)
				c.Check(ok, "one-hold:"+fld, st.Instr, f, "all positions are reset in one write hold", why)
			}
			c.Check(p.MustPass(f, eng.StoreField(fld), 0), "always-reset:"+fld, st.Instr, f,
				"an explicit reset moves this position on every path: the queue-wide positions have already been moved to the requested value, a group position left behind would be overtaken by them", "the store is conditional")
			// a reset position is persisted like any other position change (a reopen restores the pair that was reset)
			metaFollows(c, f, st.Instr, v, ".metaPage", mu)
		}
	})
}

func gcBoundFromAck(c *eng.Ctx) {
	p := c.P
	_ = p
	f := c.Fn(qT + ".GC")
	ack := c.One(f, eng.Any(eng.CallTo(qT+".AcknowledgedSeq"), func(_ *eng.Prog, in ssa.Instruction) bool {
		fa, method, _ := eng.AtomicOp(in)
		return fa != nil && method == "Load" && eng.FieldKeyOfAddr(fa) == qT+".acknowledgedSeq"
	}), "read of the queue ack").Instr.(*ssa.Call)
	facts := p.MustFacts(f)
	for i, s := range c.Some(f, invokeOn("", "TruncatePages"), "TruncatePages calls") {
		arg := eng.CallArgs(s.Instr.(*ssa.Call))[0]
		c.Check(eng.DependsOn(arg, func(x ssa.Value) bool { return x == ssa.Value(ack) }), fmt.Sprintf("from-ack[%d]", i), s.Instr, f,
			"the truncation bound derives from the queue's acknowledged sequence", "bound "+p.Desc(arg))
		// … and from nothing the WRITER moves: the ack was read in an earlier lock hold, appends may have happened since; the
		// writer's current page is ahead of every message appended in between
		c.Check(!eng.DependsOnField(arg, qT+".dataPageIndex", qT+".messageOffset", qT+".appendedSeq"), fmt.Sprintf("not-from-the-write-cursor[%d]", i), s.Instr, f,
			"the truncation bound is the page named by the acknowledged message's index entry, never the writer's current page / position", "bound "+p.Desc(arg))
		c.Check(facts.Prove("le", zeroLike(ack), ack, s.Instr), fmt.Sprintf("ack>=0[%d]", i), s.Instr, f,
			"nothing is truncated while the ack is negative (empty queue)", "facts: "+strings.Join(facts.Render(facts.At(s.Instr)), " ; "))
	}
	// the index page bound is ack / entries-per-page with the same constant the writer uses
	ip := c.One(f, invokeOn(".indexPageFct", "TruncatePages"), "indexPageFct.TruncatePages").Instr.(*ssa.Call)
	bound := eng.Unwrap(eng.ThroughHelper(eng.CallArgs(ip)[0]))
	nv, _ := p.ConstInt64("pkg/queue", "indexItemsPerPage")
	okB := false
	if bo, isB := bound.(*ssa.BinOp); isB && bo.Op == token.QUO {
		if k, isC := eng.ConstInt(bo.Y); isC && k == nv {
			okB = eng.DependsOn(bo.X, func(x ssa.Value) bool { return x == ssa.Value(ack) })
		}
	}
	c.Check(okB, "index-page-bound", ip, f, "index pages are truncated strictly below the page holding the ack entry (ack / entries-per-page)", "bound "+p.Desc(bound))
}

func queueAckGuard(c *eng.Ctx) {
	p := c.P
	isLoadOf := func(field string) func(string, ssa.Value) bool {
		return func(d string, v ssa.Value) bool { return strings.HasSuffix(d, "."+field) }
	}
	f := c.Fn(qT + ".SetAcknowledgedSeq")
	st := c.One(f, eng.StoreField(qT+".acknowledgedSeq"), "store to acknowledgedSeq")
	v, _ := storedValue(st.Instr)
	c.Check(p.Desc(v) == "seq", "value", st.Instr, f, "the stored queue ack is the requested sequence", "stores "+p.Desc(v))
	facts := p.MustFacts(f)
	fs := facts.At(st.Instr)
	fwd := facts.Find(fs, "lt", isLoadOf("acknowledgedSeq"), eng.DescIs("seq"))
	cap := facts.Find(fs, "le", eng.DescIs("seq"), isLoadOf("appendedSeq"))
	c.Check(len(fwd) > 0, "forward-only", st.Instr, f, "queue ack is stored only under seq > current ack (moves only forward)", "facts: "+strings.Join(facts.Render(fs), " ; "))
	c.Check(len(cap) > 0, "not-beyond-appended", st.Instr, f, "queue ack is stored only under seq <= appended", "facts: "+strings.Join(facts.Render(fs), " ; "))
	ls := p.Locks(f, nil)
	for _, ff := range append(fwd, cap...) {
		for _, x := range []ssa.Value{ff.X, ff.Y} {
			if in, ok := x.(ssa.Instruction); ok && eng.LoadField(qT+".acknowledgedSeq", qT+".appendedSeq")(p, in) {
				ok2, why := ls.SameHold(in, st.Instr, qMu, true)
				c.Check(ok2, "guard-and-store-one-hold:"+p.Desc(x), in, f, "the compared position is read in the same write hold as the store", why)
			}
		}
	}
	metaFollows(c, f, st.Instr, v, ".metaPage", qMu)
}
