package props

import (
	"fmt"
	"go/ast"
	"go/types"
	"sort"
	"strings"

	"lincheck/internal/eng"
)

// Discovery cross-checks (thorough tier): scans of the whole module whose results must all be
// classified in the tables below, so that new code of a kind a property cares about is triaged
// instead of being silently uncovered.

// every sync.Pool of the module: which property's RESET/PROV instance covers the pooled type, or why it is not relevant.
var poolTable = map[string]string{
	"pkg/encoding.encoderPool":               "C14: TSDEncoder (RESET + pool getter)",
	"pkg/encoding.decoderPool":               "C14: TSDDecoder (RESET + reset-before-use at call sites)",
	"pkg/encoding.fixedOffsetDecoderPool":    "C14: FixedOffsetDecoder (RESET + reset-before-use)",
	"series/metric.brokerBatchRowsPool":      "C16: BrokerBatchRows / BrokerRow (RESET)",
	"series/metric.brokerRowFlatDecoderPool": "C16: BrokerRowFlatDecoder (RESET)",
	"series/metric.rowConverterPool":         "C16: BrokerRowProtoConverter (RESET)",
	"aggregation.float64Pool":                "C03: down-sampling target buffer (filled before use)",
	"series/tag.slicePool":                   "not armed: scratch byte slice for the tags hash, fully overwritten by copy before hashing (value property of the hash)",
	"ingestion/influx.chunkReaderPool":       "not armed: line-protocol chunk reader, Reset(reader) on acquisition; format parsing is outside the structural clauses of C16",
	"sql.lexerPool":                          "not relevant: ANTLR lexer (external type), SetInputStream on reuse",
	"sql.parserPool":                         "not relevant: ANTLR parser (external type), SetInputStream on reuse",
	"ingestion/common.bufioReaderPool":       "not relevant: bufio.Reader, Reset(r) by the standard library",
	"ingestion/common.gzipReaderPool":        "not relevant: gzip.Reader, Reset(r) by the standard library",
	"internal/concurrent.timerPool":          "not relevant: timers",
	"pkg/bufpool.bufferPool":                 "not relevant: generic bytes.Buffer pool, Reset on Get",
	"pkg/trie.triePool":                      "C20 (not applicable): trie objects",
}

// functions of package index that read a field named `immutable`: covered by a UNION/flush rule or exempt.
var immutableReaders = map[string]string{
	"index.indexKVStore.PrepareFlush": "C09 prepare-flush guard", "index.indexKVStore.needFlush": "flush decision", "index.indexKVStore.Flush": "C09 flush order",
	"index.indexKVStore.GetValueFromMem": "C09/C10 union", "index.indexKVStore.createValue": "C09 GOC", "index.indexKVStore.GetValues": "C10 union",
	"index.indexKVStore.FindValuesByRegexp": "C10 union", "index.indexKVStore.findValuesByLike": "C10 union", "index.indexKVStore.CollectKVs": "C10 union", "index.indexKVStore.Suggest": "C10 union",
	"index.metricSchemaStore.PrepareFlush": "C09", "index.metricSchemaStore.needFlush": "flush decision", "index.metricSchemaStore.Flush": "C09",
	"index.metricSchemaStore.getSchemaFromMem": "C10 union", "index.metricSchemaStore.getOrCreateSchemaUnderLock": "C09 GOC",
	"index.invertedIndex.findSeriesIDsByKeyFromMem": "C10 union", "index.invertedIndex.prepareFlush": "C09", "index.invertedIndex.needFlush": "flush decision", "index.invertedIndex.flush": "C09",
	"index.forwardIndex.loadSeriesIDsInMem": "C10 union", "index.forwardIndex.prepareFlush": "C09", "index.forwardIndex.needFlush": "flush decision", "index.forwardIndex.flush": "C09",
}

// type switches over stmt.Expr / stmt.TagFilter values anywhere in the module.
var exprSwitches = map[string]string{
	"sql/stmt.Marshal": "C17 exhaustive",
	"query/operator.tagValuesLookup.findTagValueIDsByExpr": "C10 walker",
	"query/operator.seriesFiltering.findSeriesIDsByExpr":   "C10 walker",
	"index.indexKVStore.FindValuesByExpr":                  "C10 dictionary lookup",
	// discovered by this scan, read, and classified as outside the structural clauses:
	"aggregation.expression.eval":                  "not armed: evaluates select expressions over values (numeric, C11 not-decided part)",
	"query/context.RootMetricContext.buildOrderBy": "not armed: order-by planning on the root (result ordering is outside C10/C17's clauses)",
	"query/operator.metadataLookup.field":          "not armed: select-item planning (which fields to load); numeric/semantic part of C11",
	"sql.Calc.calcExpr":                            "not armed: constant folding of arithmetic in the parser (value property)",
	"sql.Calc.calcEquation":                        "not armed: constant folding of arithmetic in the parser (value property)",
	"sql.baseStmtParser.setTagFilterExprValue":     "not armed: parser filling the value of a tag filter it just created (construction, not traversal)",
	"sql.queryStmtParser.check":                    "not armed: statement validation (rejects, never rewrites)",
	"sql.isIncompleteExpr":                         "C17 operands-present guard (F33/F37): tests the operands of a paren / binary node for nil, never rewrites",
}

func init() {
	thoroughExtra["C14"] = func(c *eng.Ctx) {
		c.Rule("DISCOVERY", "module{sync.Pool}", func() {
			p := c.P
			var found []string
			for _, pk := range p.Pkgs {
				if !strings.HasPrefix(pk.PkgPath, strings.TrimSuffix(eng.ModPrefix, "/")) {
					continue
				}
				sc := pk.Types.Scope()
				for _, n := range sc.Names() {
					v, ok := sc.Lookup(n).(*types.Var)
					if !ok {
						continue
					}
					t := v.Type()
					if pt, ok := t.(*types.Pointer); ok {
						t = pt.Elem()
					}
					if nt, ok := t.(*types.Named); ok && nt.Obj().Pkg() != nil && nt.Obj().Pkg().Path() == "sync" && nt.Obj().Name() == "Pool" {
						found = append(found, eng.ShortPkg(pk.PkgPath)+"."+n)
					}
				}
			}
			sort.Strings(found)
			for _, f := range found {
				why, ok := poolTable[f]
				c.Check(ok, "pool:"+f, nil, nil, "every object pool of the module is classified (covered by a RESET/PROV instance, or listed as not property-relevant with a reason): "+why, "unclassified sync.Pool "+f+": decide whether reuse history matters for a property")
			}
			if len(found) < 10 {
				c.Undecided("expected >= 10 sync.Pool variables, found %d", len(found))
			}
		})
	}
	thoroughExtra["C10"] = func(c *eng.Ctx) {
		c.Rule("DISCOVERY", "index{readers of immutable stores}", func() {
			p := c.P
			n := 0
			seen := map[string]bool{}
			for _, fn := range p.FuncsWithPrefix("index.") {
				for _, typ := range []string{kvsT, mssT, "index.invertedIndex", "index.forwardIndex"} {
					if len(p.SitesDirect(fn, eng.TouchField(typ+".immutable"))) == 0 {
						continue
					}
					k := topFunc(c, fn)
					if seen[k] {
						continue
					}
					seen[k] = true
					n++
					why, ok := immutableReaders[k]
					c.Check(ok, "reader:"+k, nil, fn, "every function that touches an index store's immutable part is covered by a rule or classified: "+why, "unclassified access to "+typ+".immutable in "+k)
				}
			}
			if n < 15 {
				c.Undecided("expected >= 15 functions touching immutable stores, found %d", n)
			}
		})
		exprSwitchScan(c)
	}
	thoroughExtra["C17"] = func(c *eng.Ctx) { exprSwitchScan(c) }
	thoroughExtra["C01"] = func(c *eng.Ctx) { deferredErrScan(c, []string{"kv.", "kv/"}, 1) }
	thoroughExtra["C05"] = func(c *eng.Ctx) { deferredErrScan(c, []string{"pkg/queue.", "pkg/queue/"}, 0) }
	thoroughExtra["C09"] = func(c *eng.Ctx) { deferredErrScan(c, []string{"index.", "index/"}, 0) }
}

func exprSwitchScan(c *eng.Ctx) {
	c.Rule("DISCOVERY", "module{type switches over stmt.Expr}", func() {
		p := c.P
		exprT := p.LookupType("sql/stmt", "Expr")
		tfT := p.LookupType("sql/stmt", "TagFilter")
		if exprT == nil || tfT == nil {
			c.Undecided("stmt.Expr / stmt.TagFilter not found")
		}
		n := 0
		for _, pk := range p.Pkgs {
			if !strings.HasPrefix(pk.PkgPath, strings.TrimSuffix(eng.ModPrefix, "/")) {
				continue
			}
			for _, file := range pk.Syntax {
				for _, d := range file.Decls {
					fd, ok := d.(*ast.FuncDecl)
					if !ok || fd.Body == nil {
						continue
					}
					ast.Inspect(fd.Body, func(x ast.Node) bool {
						ts, ok := x.(*ast.TypeSwitchStmt)
						if !ok {
							return true
						}
						var tag ast.Expr
						switch a := ts.Assign.(type) {
						case *ast.AssignStmt:
							if ta, ok := a.Rhs[0].(*ast.TypeAssertExpr); ok {
								tag = ta.X
							}
						case *ast.ExprStmt:
							if ta, ok := a.X.(*ast.TypeAssertExpr); ok {
								tag = ta.X
							}
						}
						if tag == nil {
							return true
						}
						t := pk.TypesInfo.TypeOf(tag)
						if t == nil || !(types.Identical(t, exprT) || types.Identical(t, tfT)) {
							return true
						}
						n++
						key := eng.ShortPkg(pk.PkgPath) + "."
						if fd.Recv != nil && len(fd.Recv.List) == 1 {
							rt := fd.Recv.List[0].Type
							if s, ok := rt.(*ast.StarExpr); ok {
								rt = s.X
							}
							if id, ok := rt.(*ast.Ident); ok {
								key += id.Name + "."
							}
						}
						key += fd.Name.Name
						why, known := exprSwitches[key]
						c.Check(known, "switch:"+key, nil, nil, "every type switch over a statement expression is covered by an exhaustiveness rule or classified: "+why, "unclassified type switch over stmt.Expr/TagFilter in "+key)
						return true
					})
				}
			}
		}
		if n < 4 {
			c.Undecided("expected >= 4 type switches over stmt.Expr/TagFilter, found %d", n)
		}
	})
}

// deferredErrScan (thorough): in the given packages every error assigned inside a deferred function literal to a variable of
// the enclosing function targets a NAMED RESULT; an assignment to an ordinary local is dead (the result was already evaluated)
// and silently drops the error of the deferred cleanup (close / sync / release).
func deferredErrScan(c *eng.Ctx, prefixes []string, min int) {
	c.Rule("DISCOVERY", "deferred error assignments reach a named result{"+strings.Join(prefixes, ",")+"}", func() {
		p := c.P
		n := 0
		for _, fn := range p.AllFuncs {
			k := p.FuncKey(fn)
			in := false
			for _, pre := range prefixes {
				if strings.HasPrefix(k, pre) {
					in = true
				}
			}
			if !in {
				continue
			}
			for i, d := range deferredErrStores(fn) {
				n++
				c.Check(d.Named, fmt.Sprintf("%s[%d]", k, i), d.Store, fn, "an error assigned inside a deferred function is assigned to a named result of "+k, "assigned to the ordinary local `"+d.Var+"` (dead store: the error of the deferred cleanup is dropped)")
			}
		}
		if n < min {
			c.Undecided("expected >= %d deferred error assignments, found %d", min, n)
		}
		c.Check(true, "scanned", nil, nil, fmt.Sprintf("%d deferred error assignments scanned", n), "")
	})
}
