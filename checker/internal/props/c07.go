package props

import (
	"fmt"
	"go/token"
	"strings"

	"golang.org/x/tools/go/ssa"

	"lincheck/internal/eng"
)

const (
	dfT  = "tsdb.dataFamily"
	dfMu = dfT + ".mutex"
	lrT  = "replica.localReplicator"
	rpT  = "replica.replicator"
)

func init() {
	register(eng.Property{
		ID:    "C07",
		Title: "Node crash recovery loses no logged write, never replays a persisted one",
		Explanation: "Decides the durable-before-ack chain and the order of the three flushes: log acknowledgements are issued only from the post-commit callback, with the " +
			"sequence that was committed in the same edit log as the table (or, at registration, with the recovered persisted sequence); the memory database and the " +
			"sequences it covers are frozen in one critical section and exactly that capture is committed and later becomes the persisted sequence; a replayed entry is applied " +
			"only under a strict sequence check and its sequence is committed after the rows; recovered families start both sequence maps from the manifest; the replicator " +
			"resumes at ack+1; acks reach the consumer group only through the callback and a guarded ignore; every call chain that reaches a data flush is closed by ownership " +
			"and establishes meta flush -> wait -> index flush -> wait -> data flush; and the memory database must be frozen before the metadata flush that is supposed to cover " +
			"it (violated on today's tree on one chain: known finding F8).",
		NotDecided: "query results after recovery, contents of replayed entries, mmap write-back of the consumer-group page, the shutdown chain database.Close beyond its flush order.",
		MinObls:    55,
		Run:        runC07,
	})
}

func calleeIs(p *eng.Prog, in ssa.Instruction, keys ...string) bool {
	c, ok := in.(ssa.CallInstruction)
	if !ok {
		return false
	}
	return inList(strings.Join(p.CalleeKeys(c), ""), keys)
}

func runC07(c *eng.Ctx) {
	p := c.P
	eventLoopPreparesBeforeFlush(c) // C07-m21: shared with C09
	writtenMetricStaysActive(c)
	pendingOutputClaimOrder(c)
	walRegistryReplacedInOneHold(c)
	logDirRemovedOnlyForAnExpiredPartition(c)
	writableMemDBOnlyReplacedByANewOne(c)
	rewindToTheAckIsAccepted(c)
	closeFlushesOldestFirst(c)

	// ---- 1. commit before ack, same sequences -----------------------------------------------------------
	c.Rule("ORDER", dfT+".flushMemoryDatabase{sequence<commit<ack}", func() {
		f := c.Fn(dfT + ".flushMemoryDatabase")
		seqs := c.Some(f, invokeOn("", "Sequence"), "flusher.Sequence(leader, seq)")
		commit := c.One(f, invokeOn("memDB", "FlushFamilyTo"), "memDB.FlushFamilyTo")
		acks := c.Some(f, func(p *eng.Prog, in ssa.Instruction) bool {
			cl, ok := in.(*ssa.Call)
			if !ok || cl.Common().IsInvoke() || cl.Common().StaticCallee() != nil {
				return false
			}
			return eng.DependsOnField(cl.Common().Value, dfT+".callbacks")
		}, "ack callback invocation fn(seq)")
		for i, a := range acks {
			ok, why := eng.OkDominates(f, commit.Instr, a.Instr)
			c.Check(ok, fmt.Sprintf("ack-only-after-commit[%d]", i), a.Instr, f, "an ack callback runs only after the flush (table + sequences) committed successfully", why)
			arg := a.Instr.(*ssa.Call).Common().Args[0]
			c.Check(eng.DependsOn(arg, func(x ssa.Value) bool { return x == ssa.Value(f.Params[1]) }), fmt.Sprintf("ack-value-from-committed-map[%d]", i), a.Instr, f,
				"the acknowledged sequence is taken from the very map whose sequences were committed", "arg "+p.Desc(arg))
		}
		for i, s := range seqs {
			args := eng.CallArgs(s.Instr.(*ssa.Call))
			c.Check(eng.DependsOn(args[1], func(x ssa.Value) bool { return x == ssa.Value(f.Params[1]) }), fmt.Sprintf("sequence-from-map[%d]", i), s.Instr, f,
				"the sequences registered with the flusher come from the sequences argument", "arg "+p.Desc(args[1]))
			_, late := eng.Reaches(f, commit.Instr, []eng.Site{s}, nil)
			c.Check(!late, fmt.Sprintf("sequence-before-commit[%d]", i), s.Instr, f, "sequences are registered before the commit, never after", "flusher.Sequence reachable after FlushFamilyTo")
		}
		// the loop that registers sequences is not skippable: commit is dominated by the range over sequences
		var rng ssa.Instruction
		for _, b := range eng.BlocksT(f) {
			for _, in := range b.Instrs {
				if r, ok := in.(*ssa.Range); ok && r.X == ssa.Value(f.Params[1]) && rng == nil {
					rng = in
				}
			}
		}
		c.Check(rng != nil && eng.DominatedBy(f, commit.Instr, []eng.Site{{Fn: f, Instr: rng}}, nil), "all-sequences-registered", commit.Instr, f,
			"the commit is preceded by the loop over all sequences of the capture", "")
		// same kv flusher object carries sequences and table
		nf := c.One(f, invokeOn(".family", "NewFlusher"), "family.NewFlusher()")
		mk := c.One(f, eng.CallTo("var:tsdb.newMetricDataFlusher"), "newMetricDataFlusher(flusher)")
		c.Check(eng.OnlyFromCall(eng.CallArgs(mk.Instr.(*ssa.Call))[0], nf.Instr.(ssa.Value)), "same-flusher:data", mk.Instr, f, "the table is written through the flusher that carries the sequences", "")
		for i, s := range seqs {
			c.Check(eng.OnlyFromCall(eng.CallRecv(s.Instr.(*ssa.Call)), nf.Instr.(ssa.Value)), fmt.Sprintf("same-flusher:seq[%d]", i), s.Instr, f, "sequences go to the same kv flusher", "")
		}
		arg := eng.CallArgs(commit.Instr.(*ssa.Call))[0]
		c.Check(eng.DerivesFromCall(arg, mk.Instr.(ssa.Value), 0), "commit-through-that-flusher", commit.Instr, f, "FlushFamilyTo receives that data flusher", "arg "+p.Desc(arg))
		owner(c, "invocation of dataFamily.callbacks", func(p *eng.Prog, in ssa.Instruction) bool {
			cl, ok := in.(ssa.CallInstruction)
			if !ok || cl.Common().IsInvoke() || cl.Common().StaticCallee() != nil || cl.Common().Value == nil {
				return false
			}
			return eng.DependsOnField(cl.Common().Value, dfT+".callbacks")
		}, []string{dfT + ".flushMemoryDatabase"}, 1)
	})

	// ---- 1b. a family log is garbage-collected only when every consumer ACKNOWLEDGED (= flushed) everything appended -----------------
	// ---- 1c. the durable sequences live in the manifest records of a kv family, which the replay routes by family id: two families
	// of one store never share an id, also after a restart (rule shared with C01) --------------------------------------------------
	c.Rule("PROV", "kv.store.CreateFamily{id of a new family = next value of the store's sequence}", func() { familyIDFromSequence(c) })

	c.Rule("PROV", "pkg/queue.consumerGroup.IsEmpty{appended <= acknowledged}", func() { groupEmptyMeansAcknowledged(c) })

	// ---- 2. the data flusher's Close is the kv commit ------------------------------------------------------
	c.Rule("PASS", "tsdb/memdb.memoryDatabase.FlushFamilyTo{success->Commit}", func() {
		f := c.Fn("tsdb/memdb.memoryDatabase.FlushFamilyTo")
		cl := c.Some(f, invokeOn("flusher", "Close"), "flusher.Close()")
		for i, r := range eng.SuccessReturns(f) {
			ret := eng.RetVal(r, 0)
			from := false
			for _, x := range cl {
				if eng.DerivesFromCall(ret, x.Instr.(ssa.Value), 0) {
					from = true
				}
			}
			c.Check(from || eng.IsNilConst(ret) && eng.DominatedBy(f, r, cl, nil), fmt.Sprintf("success-is-close-result[%d]", i), r, f,
				"FlushFamilyTo reports success only with the result of flusher.Close() (the commit)", "returns "+p.Desc(ret))
		}
		wf := c.One(f, invokeOn(".writeCondition", "Wait"), "writeCondition.Wait()")
		for _, s := range c.Some(f, invokeOn("", "GetMetricIDs", "PrepareMetric"), "first reads of the memory database") {
			c.Check(eng.DominatedBy(f, s.Instr, []eng.Site{wf}, nil), "wait-writers-first:"+shortInstr(p, s.Instr), s.Instr, f, "in-flight writers are waited for before the memory database is read for flushing", "")
		}
		g := c.Fn("tsdb/tblstore/metricsdata.flusher.Close")
		cm := c.One(g, invokeOn(".kvFlusher", "Commit"), "kvFlusher.Commit()")
		for i, r := range eng.SuccessReturns(g) {
			c.Check(eng.DerivesFromCall(eng.RetVal(r, 0), cm.Instr.(ssa.Value), 0), fmt.Sprintf("close-returns-commit[%d]", i), r, g,
				"the data flusher's Close returns the kv commit's result", "")
		}
	})

	// ---- 3. registration acks with the persisted sequence; recovery initialises both maps ----------------------
	c.Rule("PROV", dfT+".AckSequence{persisted}", func() {
		f := c.Fn(dfT + ".AckSequence")
		calls := c.Some(f, eng.CallTo("param:fn"), "immediate fn(seq)")
		for i, s := range calls {
			arg := s.Instr.(*ssa.Call).Common().Args[0]
			d := p.Desc(arg)
			fromPersist := eng.DependsOn(arg, func(x ssa.Value) bool { return strings.HasSuffix(p.Desc(x), ".persistSeq") })
			fromSeq := eng.DependsOn(arg, func(x ssa.Value) bool { return strings.HasSuffix(p.Desc(x), "f.seq") })
			c.Check(fromPersist && !fromSeq, fmt.Sprintf("ack-persisted[%d]", i), s.Instr, f,
				"a newly registered callback is told the sequence persisted with flushed data, never the in-memory replica sequence", "arg "+d)
		}
		ls := p.Locks(f, nil)
		for _, s := range c.Some(f, eng.MapUpdateOf(dfT+".callbacks"), "callbacks registration") {
			c.Check(ls.At(s.Instr).HasField(dfMu, true), "register-locked", s.Instr, f, "callbacks are registered under the family mutex", "")
		}
		n := c.Fn("tsdb.newDataFamily")
		src := c.One(n, invokeOn("", "GetSequences"), "GetSequences()")
		for _, fld := range []string{"seq", "persistSeq"} {
			ups := p.Sites(n, eng.MapUpdateOf(dfT+"."+fld))
			okk := len(ups) > 0
			for _, u := range ups {
				mu := u.Instr.(*ssa.MapUpdate)
				if !eng.DependsOn(mu.Value, func(x ssa.Value) bool {
					n, ok := x.(*ssa.Next)
					return ok && eng.DependsOn(n.Iter.(*ssa.Range).X, func(y ssa.Value) bool { return y == src.Instr.(ssa.Value) })
				}) {
					okk = false
				}
			}
			c.Check(okk, "recovered:"+fld, src.Instr, n, "a recovered family starts its "+fld+" map from the sequences stored in the manifest", "no initialisation of f."+fld+" from GetSequences()")
		}
		cur := c.One(n, invokeOn("", "GetCurrent"), "snapshot.GetCurrent()")
		c.Check(eng.DependsOn(eng.CallRecv(src.Instr.(*ssa.Call)), func(x ssa.Value) bool { return x == cur.Instr.(ssa.Value) }), "from-current-version", src.Instr, n, "the sequences come from the current version", "")
	})

	// ---- 4/5. freeze + capture atomic; persisted := capture after commit ------------------------------------------
	c.Rule("ATOMIC", dfT+".Flush{freeze+capture}", func() {
		f := c.Fn(dfT + ".Flush")
		ls := p.Locks(f, nil)
		var freeze, clearMut, clearImm ssa.Instruction
		for _, s := range p.Sites(f, eng.StoreField(dfT+".immutableMemDB")) {
			if eng.IsNilConst(s.Instr.(*ssa.Store).Val) {
				clearImm = s.Instr
			} else {
				freeze = s.Instr
			}
		}
		for _, s := range p.Sites(f, eng.StoreField(dfT+".mutableMemDB")) {
			if eng.IsNilConst(s.Instr.(*ssa.Store).Val) {
				clearMut = s.Instr
			}
		}
		if freeze == nil || clearMut == nil || clearImm == nil {
			c.Undecided("freeze (immutableMemDB = mutableMemDB; mutableMemDB = nil) or clear (immutableMemDB = nil) not found in Flush")
		}
		frozen := freeze.(*ssa.Store).Val
		c.Check(strings.HasSuffix(p.Desc(frozen), ".mutableMemDB"), "freeze-value", freeze, f, "the immutable database is the previous mutable one", "stores "+p.Desc(frozen))
		ok, why := ls.SameHold(freeze, clearMut, dfMu, true)
		c.Check(ok, "freeze-atomic", clearMut, f, "immutable := mutable and mutable := nil are one critical section", why)
		// capture of f.seq in the same hold
		var capLoad []ssa.Instruction
		for _, b := range eng.BlocksT(f) {
			for _, in := range b.Instrs {
				if r, ok := in.(*ssa.Range); ok && strings.HasSuffix(p.Desc(r.X), "f.seq") {
					capLoad = append(capLoad, in)
				}
			}
		}
		if len(capLoad) != 1 {
			c.Undecided("expected one capture loop over f.seq in Flush, found %d", len(capLoad))
		}
		ok, why = ls.SameHold(freeze, capLoad[0], dfMu, true)
		c.Check(ok, "capture-with-freeze", capLoad[0], f, "the sequences covered by the frozen database are captured in the same hold as the freeze (no replicated row can fall between)", why)
		// what is flushed is that capture and that database
		fl := c.One(f, eng.CallTo(dfT+".flushMemoryDatabase"), "flushMemoryDatabase(capture, frozen)")
		args := eng.CallArgs(fl.Instr.(*ssa.Call))
		capMap := eng.ThroughHelperValue(args[0]) // the map may be built by a helper called in the same hold
		okCap := false
		for _, ref := range *capMap.Referrers() {
			if mu, ok := ref.(*ssa.MapUpdate); ok && mu.Map == capMap {
				if eng.DependsOn(mu.Value, func(x ssa.Value) bool {
					n, ok := x.(*ssa.Next)
					return ok && n.Iter == ssa.Value(capLoad[0].(*ssa.Range))
				}) {
					okCap = true
				}
			}
		}
		c.Check(okCap, "flushes-the-capture", fl.Instr, f, "the sequences handed to the flush are the captured ones", "sequences argument is "+p.Desc(capMap))
		// the capture is recorded next to the frozen database, in the freezing hold: Close() retries a frozen database that a failed
		// flush left behind with the sequences recorded here - without them the retry commits the table with no sequence record
		// and acknowledges nothing, and the entries it holds are replayed on top of it after a restart
		recorded := false
		for _, s := range p.Sites(f, eng.StoreField(dfT+".immutableSeq")) {
			v := s.Instr.(*ssa.Store).Val
			if eng.IsNilConst(v) {
				continue
			}
			if eng.ThroughHelperValue(v) != capMap && v != args[0] {
				continue
			}
			if okh, _ := ls.SameHold(freeze, s.Instr, dfMu, true); okh {
				recorded = true
			}
		}
		c.Check(recorded, "capture-recorded-with-the-frozen-db", freeze, f, "the captured sequences are stored in f.immutableSeq in the hold that freezes the database (the pair Close() retries with)", "no store of the capture to immutableSeq in the freezing hold")
		cf := c.Fn(dfT + ".Close")
		for i, s := range p.Sites(cf, eng.CallTo(dfT+".flushMemoryDatabase")) {
			a := eng.CallArgs(s.Instr.(*ssa.Call))
			if !eng.DependsOnField(a[1], dfT+".immutableMemDB") {
				continue // the flush of the mutable database
			}
			c.Check(eng.DependsOnField(a[0], dfT+".immutableSeq"), fmt.Sprintf("retry-uses-the-recorded-pair[%d]", i), s.Instr, cf, "Close() retries the frozen database with the sequences recorded at its freeze", "sequences argument is "+p.Desc(a[0]))
		}
		sameDB := args[1] == frozen || eng.SameValue(args[1], frozen) || eng.SameValue(eng.ThroughHelperValue(args[1]), frozen)
		if !sameDB {
			// read back from f.immutableMemDB inside the freezing hold, with no store to it in between
			if in, ok := args[1].(ssa.Instruction); ok && eng.LoadField(dfT+".immutableMemDB")(p, in) {
				okh, _ := ls.SameHold(freeze, in, dfMu, true)
				_, restored := eng.Reaches(f, freeze, p.Sites(f, eng.StoreField(dfT+".immutableMemDB")), []eng.Site{{Fn: f, Instr: in}})
				sameDB = okh && !restored && eng.DominatedBy(f, in, []eng.Site{{Fn: f, Instr: freeze}}, nil)
			}
		}
		c.Check(sameDB, "flushes-the-frozen-db", fl.Instr, f, "the database handed to the flush is the frozen one", "db argument is "+p.Desc(args[1]))
		// after a successful flush: persistSeq := capture, immutable cleared, both in one hold
		okd, whyd := eng.OkDominates(f, fl.Instr, clearImm)
		c.Check(okd, "clear-only-after-commit", clearImm, f, "the immutable database is dropped only after its flush committed", whyd)
		for i, s := range c.Some(f, eng.MapUpdateOf(dfT+".persistSeq"), "persistSeq update") {
			okp, whyp := eng.OkDominates(f, fl.Instr, s.Instr)
			c.Check(okp, fmt.Sprintf("persist-only-after-commit[%d]", i), s.Instr, f, "persistSeq advances only after the flush committed", whyp)
			mu := s.Instr.(*ssa.MapUpdate)
			fromCap := eng.DependsOn(mu.Value, func(x ssa.Value) bool {
				n, ok := x.(*ssa.Next)
				return ok && (n.Iter.(*ssa.Range).X == args[0] || eng.ThroughHelperValue(n.Iter.(*ssa.Range).X) == capMap)
			})
			c.Check(fromCap, fmt.Sprintf("persist-is-capture[%d]", i), s.Instr, f, "persistSeq becomes the captured (committed) sequence, not a later in-memory one", "value "+p.Desc(mu.Value))
			c.Check(ls.At(s.Instr).HasField(dfMu, true), fmt.Sprintf("persist-locked[%d]", i), s.Instr, f, "persistSeq is updated under the family mutex", "")
		}
		owner(c, "update of dataFamily.persistSeq", eng.MapUpdateOf(dfT+".persistSeq"), []string{dfT + ".Flush", "tsdb.newDataFamily"}, 2)
		owner(c, "update of dataFamily.seq", eng.MapUpdateOf(dfT+".seq"), []string{dfT + ".CommitSequence", "tsdb.newDataFamily"}, 2)
	})

	// ---- 6. replay: validate -> write -> commit -----------------------------------------------------------------------
	c.Rule("ORDER", lrT+".Replica{validate<write<commit}", func() {
		f := c.Fn(lrT + ".Replica")
		val := c.One(f, invokeOn(".family", "ValidateSequence"), "family.ValidateSequence")
		wr := c.Some(f, invokeOn(".family", "WriteRows"), "family.WriteRows")
		_, fe := eng.BoolCheckEdges(f, val.Instr.(ssa.Value))
		for i, w := range wr {
			_, bypass := eng.PathExists(eng.PathQuery{Fn: f, Target: func(in ssa.Instruction) bool { return in == w.Instr }, Edge: eng.ForbidEdges(nil)})
			_ = bypass
			_, viaFalse := eng.PathExists(eng.PathQuery{Fn: f, After: val.Instr, Target: func(in ssa.Instruction) bool { return in == w.Instr },
				Edge: func(b *ssa.BasicBlock, s int) bool {
					for _, e := range fe {
						if e.B == b && e.Succ != s { // only allow the FALSE outcome
							return false
						}
					}
					return true
				}})
			c.Check(eng.DominatedBy(f, w.Instr, []eng.Site{val}, nil) && len(fe) > 0 && !viaFalse, fmt.Sprintf("write-only-if-valid[%d]", i), w.Instr, f,
				"rows are applied only when ValidateSequence accepted the sequence", "WriteRows reachable on the rejected edge or without validation")
			a := eng.CallArgs(val.Instr.(*ssa.Call))
			c.Check(p.Desc(a[1]) == "sequence" && strings.HasSuffix(p.Desc(a[0]), ".leader"), "validates-this-entry", val.Instr, f, "the validated pair is (leader, this entry's sequence)", "")
		}
		// CommitSequence in the deferred closure, with the same sequence; the defer is installed after the validation
		var cm eng.Site
		var cmFn *ssa.Function
		for _, cl := range closuresT(f) {
			if cl == f {
				continue
			}
			for _, s := range p.Sites(cl, invokeOn(".family", "CommitSequence")) {
				cm, cmFn = s, cl
			}
		}
		if cmFn == nil {
			c.Undecided("CommitSequence not found in a deferred closure of Replica")
		}
		c.Check(p.MustPass(cmFn, invokeOn(".family", "CommitSequence"), 0), "commit-on-every-exit", cm.Instr, cmFn, "every exit after validation commits the sequence (applied or deliberately ignored entries are not replayed)", "")
		d := c.Some(f, func(p *eng.Prog, in ssa.Instruction) bool {
			df, ok := in.(*ssa.Defer)
			if !ok {
				return false
			}
			mc, ok := df.Call.Value.(*ssa.MakeClosure)
			return ok && mc.Fn == ssa.Value(cmFn)
		}, "defer of the commit closure")
		for _, w := range wr {
			c.Check(eng.DominatedBy(f, w.Instr, d, nil), "commit-after-write", w.Instr, f, "the sequence commit is deferred, so it happens after the rows were written", "")
		}
		c.Check(eng.DominatedBy(f, d[0].Instr, []eng.Site{val}, nil), "commit-only-validated", d[0].Instr, f, "a rejected (already applied) sequence is not committed again", "")
		a := eng.CallArgs(cm.Instr.(*ssa.Call))
		c.Check(p.Desc(a[1]) == "sequence", "commits-this-sequence", cm.Instr, cmFn, "the committed sequence is this entry's", "arg "+p.Desc(a[1]))
		// strictness of the validation
		v := c.Fn(dfT + ".ValidateSequence")
		okStrict := false
		for _, r := range eng.SuccessReturns(v) {
			ret := eng.RetVal(r, 0)
			if bo, ok := ret.(*ssa.BinOp); ok {
				d1 := p.Desc(bo)
				if (bo.Op.String() == ">" && p.Desc(bo.X) == "seq") || (bo.Op.String() == "<" && p.Desc(bo.Y) == "seq") {
					okStrict = true
				} else {
					c.Check(false, "strict", r, v, "ValidateSequence accepts only seq > last applied sequence (strict)", "returns "+d1)
				}
			}
		}
		c.Check(okStrict, "strict-compare-present", nil, v, "ValidateSequence compares seq strictly greater than the leader's last sequence", "no strict comparison found")
		cs := c.Fn(dfT + ".CommitSequence")
		ls := p.Locks(cs, nil)
		for _, s := range c.Some(cs, eng.MapUpdateOf(dfT+".seq"), "f.seq[leader] = …") {
			c.Check(ls.At(s.Instr).HasField(dfMu, true), "commit-locked", s.Instr, cs, "the replica sequence is stored under the family mutex", "")
		}
	})

	// ---- 7. replicator resumes at ack+1 ----------------------------------------------------------------------------------
	c.Rule("ORDER", "replica.NewLocalReplicator{register<reset}", func() {
		f := c.Fn("replica.NewLocalReplicator")
		reg := c.One(f, invokeOn("family", "AckSequence"), "family.AckSequence(cb)")
		rs := c.One(f, eng.CallTo(rpT+".ResetReplicaIndex"), "ResetReplicaIndex")
		c.Check(eng.DominatedBy(f, rs.Instr, []eng.Site{reg}, nil), "ack-callback-first", rs.Instr, f, "the persisted sequence is acknowledged (callback registration) before the replay position is derived from the ack", "")
		d := p.Desc(eng.CallArgs(rs.Instr.(*ssa.Call))[0])
		c.Check(strings.HasSuffix(d, ".acknowledgedSeq+1)") || strings.Contains(d, "AcknowledgedSeq()+1") || strings.Contains(d, "AckIndex()+1"), "resume-at-ack+1", rs.Instr, f,
			"replay resumes at the first unacknowledged entry", "resets to "+d)
		// the callback acks exactly the sequence it is given
		a := eng.CallArgs(reg.Instr.(*ssa.Call))
		cb := eng.FuncOfValue(a[1]) // a function literal or a method value
		if cb == nil || cb.Blocks == nil {
			c.Undecided("ack callback not found (registered value %s)", p.Desc(a[1]))
		}
		s := c.One(cb, eng.CallTo(rpT+".SetAckIndex"), "SetAckIndex(seq)")
		seqParam := cb.Params[len(cb.Params)-1] // func(seq) literal, or method (recv, seq)
		c.Check(eng.CallArgs(s.Instr.(*ssa.Call))[0] == ssa.Value(seqParam), "callback-acks-its-argument", s.Instr, cb, "the callback acknowledges the sequence the family reports as persisted", "")
		c.Check(true, "callback-registered", reg.Instr, f, "the function that acknowledges is what the family calls after a flush", "")
	})

	// ---- 8. who may ack the log -----------------------------------------------------------------------------------------------
	// ---- sequences are per LEADER log: the key of a local replicator is the leader of its channel, and a flusher records every
	// sequence it is given (0 is a sequence: the first entry of a log) ------------------------------------------------------------------
	c.Rule("PROV", "replica.NewLocalReplicator{sequence key = leader} / kv.storeFlusher.Sequence{always recorded}", func() {
		f := c.Fn("replica.NewLocalReplicator")
		st := c.One(f, eng.StoreField(lrT+".leader"), "lr.leader = int32(channel.State.Leader)")
		v := st.Instr.(*ssa.Store).Val
		c.Check(eng.DependsOnField(v, "models.ReplicaState.Leader") && !eng.DependsOnField(v, "models.ReplicaState.Follower"), "keyed-by-the-leader", st.Instr, f,
			"the family's applied / persisted sequences and acknowledgements of a local replicator are filed under the LEADER whose log it replays (each leader numbers its log from 0): after a leader change two logs reach the same family, and under one key the new log's entries would be rejected as already persisted",
			"the key is "+p.Desc(v))
		g := c.Fn("kv.storeFlusher.Sequence")
		mu := func(p *eng.Prog, in ssa.Instruction) bool {
			m, ok := in.(*ssa.MapUpdate)
			return ok && eng.DependsOnField(m.Map, "kv.storeFlusher.sequences") && m.Value == ssa.Value(g.Params[2]) && m.Key == ssa.Value(g.Params[1])
		}
		_, skip := eng.PathExists(eng.PathQuery{Fn: g,
			Target:  func(in ssa.Instruction) bool { _, ok := in.(*ssa.Return); return ok && in.Parent() == g },
			Blocked: func(in ssa.Instruction) bool { return mu(p, in) }})
		c.Check(!skip, "sequence-recorded-on-every-path", nil, g,
			"storeFlusher.Sequence(leader, seq) records sequences[leader] = seq unconditionally: a guard against the map's zero value drops sequence 0, and the table that contains entry 0 is committed without it (the entry is replayed and applied twice after a crash)",
			"a path returns without sequences[leader] = seq")
	})

	c.Rule("OWNER", "replica{SetAckIndex}", func() { setAckIndexOwner(c) })
	c.Rule("PROV", "pkg/queue.fanOutQueue.Sync{min-over-all-groups}", func() { syncRule(c) })

	// ---- 9. every chain that reaches a data flush establishes meta -> index -> data ---------------------------------------------
	// F42: the identity under which a memory database files its slot ranges in the shard-level index
	c.Rule("PROV", "tsdb/memdb.memoryDatabase.createdTime{unique per memory database}", func() { memdbIdentityUnique(c) })
	c.Rule("ORDER", "index.metricMetaDatabase.Flush{counters<dictionaries}", func() { metaFlushCountersFirst(c) })
	c.Rule("ORDER", midT+".Flush{postings<series-dictionary}", func() { indexFlushSeriesLast(c) })
	c.Rule("ORDER", dfT+".WriteRows{acquire<write<complete} / FlushFamilyTo{wait}", func() { writeBracketRule(c) })

	c.Rule("ORDER", "tsdb{flush-chains}", func() {
		owner(c, "call of dataFamily.flushMemoryDatabase", eng.AnyCallTo(dfT+".flushMemoryDatabase"), []string{dfT + ".Flush", dfT + ".Close"}, 3)
		owner(c, "call of DataFamily.Flush", eng.AnyCallTo(dfT+".Flush", "tsdb.DataFamily.Flush"), []string{"tsdb.dataFlushChecker.flushShard"}, 1)
		owner(c, "call of dataFlushChecker.flushShard", eng.AnyCallTo("tsdb.dataFlushChecker.flushShard"), []string{"tsdb.dataFlushChecker.doFlush"}, 1)
		owner(c, "call of dataFlushChecker.doFlush", eng.AnyCallTo("tsdb.dataFlushChecker.doFlush"), []string{"tsdb.dataFlushChecker.flushWorker"}, 1)
		owner(c, "call of DataFamily.Close", eng.AnyCallTo(dfT+".Close", "tsdb.DataFamily.Close"), []string{"tsdb.segment.Close", "tsdb.closeFamily"}, 2)
		owner(c, "reference to closeFamily", eng.RefersTo("tsdb.closeFamily"), []string{"tsdb.init", "tsdb.closeFamily"}, 0)
		owner(c, "call of closeFamilyFunc", eng.AnyCallTo("var:tsdb.closeFamilyFunc"), []string{dfT + ".Evict"}, 1)
		owner(c, "call of Segment.Close", eng.AnyCallTo("tsdb.segment.Close", "tsdb.Segment.Close"),
			[]string{"tsdb.shard.Close", "tsdb.intervalSegment.Close", "tsdb.intervalSegment.EvictSegment", "tsdb.intervalSegment.dropSegment"}, 3)
		owner(c, "call of IntervalSegment.Close", eng.AnyCallTo("tsdb.intervalSegment.Close", "tsdb.IntervalSegment.Close"), []string{"tsdb.shard.Close"}, 1)

		fs := c.Fn("tsdb.dataFlushChecker.flushShard")
		okOrderInFn(c, fs, invokeOn(".shard", "FlushIndex"), invokeOn("", "Flush"), "shard.FlushIndex", "family.Flush")
		orderInFn(c, fs, invokeOn(".shard", "WaitFlushIndexCompleted"), invokeOn("", "Flush"), "shard.WaitFlushIndexCompleted", "family.Flush")
		orderInFn(c, fs, invokeOn(".shard", "FlushIndex"), invokeOn(".shard", "WaitFlushIndexCompleted"), "shard.FlushIndex", "shard.WaitFlushIndexCompleted")
		df := c.Fn("tsdb.dataFlushChecker.doFlush")
		okOrderInFn(c, df, invokeOn(".db", "FlushMeta"), eng.CallTo("tsdb.dataFlushChecker.flushShard"), "db.FlushMeta", "flushShard")
		orderInFn(c, df, invokeOn(".db", "WaitFlushMetaCompleted"), eng.CallTo("tsdb.dataFlushChecker.flushShard"), "db.WaitFlushMetaCompleted", "flushShard")
		orderInFn(c, df, invokeOn(".db", "FlushMeta"), invokeOn(".db", "WaitFlushMetaCompleted"), "db.FlushMeta", "db.WaitFlushMetaCompleted")

		// closing chains
		sc := c.Fn("tsdb.shard.Close")
		{
			fi := c.One(sc, eng.CallTo("tsdb.shard.flushIndex"), "shard.flushIndex")
			_, errEdges := eng.ErrCheckEdges(sc, fi.Instr.(ssa.Value))
			for i, s := range c.Some(sc, invokeOn(".segment", "Close"), "segment.Close") {
				// with an index memory database present, segments are closed only after its flush succeeded
				_, bypass := eng.PathExists(eng.PathQuery{Fn: sc, Target: func(in ssa.Instruction) bool { return in == s.Instr },
					Blocked: func(in ssa.Instruction) bool { return in == fi.Instr },
					Edge:    func(b *ssa.BasicBlock, su int) bool { return !isNilFieldEdge(p, b, su, ".memIndexDB") }})
				_, viaErr := eng.PathExists(eng.PathQuery{Fn: sc, After: fi.Instr, Target: func(in ssa.Instruction) bool { return in == s.Instr },
					Edge: func(b *ssa.BasicBlock, su int) bool {
						for _, e := range errEdges {
							if e.B == b && e.Succ != su {
								return false
							}
						}
						return true
					}})
				c.Check(!bypass && len(errEdges) > 0 && !viaErr, fmt.Sprintf("flushIndex(ok)<segment.Close[%d]", i), s.Instr, sc,
					"when the shard has an index memory database, its flush succeeded before any segment (and its families) is closed", "segment.Close reachable without / despite a failed flushIndex")
			}
		}
		orderInFn(c, sc, eng.CallTo("tsdb.shard.WaitFlushIndexCompleted"), eng.CallTo("tsdb.shard.flushIndex"), "WaitFlushIndexCompleted", "shard.flushIndex")
		dc := c.Fn("tsdb.database.Close")
		okOrderInFn(c, dc, eng.CallTo("tsdb.database.flushMeta"), invokeOn("", "Close"), "db.flushMeta", "any Close in database.Close")
		orderInFn(c, dc, eng.CallTo("tsdb.database.WaitFlushMetaCompleted"), eng.CallTo("tsdb.database.flushMeta"), "WaitFlushMetaCompleted", "db.flushMeta")
		owner(c, "call of Shard.Close", eng.AnyCallTo("tsdb.shard.Close", "tsdb.Shard.Close"), []string{"tsdb.database.Close", "tsdb.newShard"}, 2)

		// Evict: closing a family flushes nothing
		ev := c.Fn(dfT + ".Evict")
		cl := c.One(ev, eng.CallTo("var:tsdb.closeFamilyFunc"), "closeFamilyFunc(f)")
		facts := p.MustFacts(ev)
		fcts := facts.At(cl.Instr)
		m := facts.Find(fcts, "eq", eng.DescSuffix(".mutableMemDB"), eng.DescIs("nil"))
		im := facts.Find(fcts, "eq", eng.DescSuffix(".immutableMemDB"), eng.DescIs("nil"))
		c.Check(len(m) > 0 && len(im) > 0, "evict-flushes-nothing", cl.Instr, ev, "a family is closed by Evict only when it holds no memory database (nothing is flushed outside the ordered chains)", "facts: "+strings.Join(facts.Render(fcts), " ; "))
		// EvictSegment: only segments without families
		es := c.Fn("tsdb.intervalSegment.EvictSegment")
		ne := c.One(es, invokeOn("", "NeedEvict"), "segment.NeedEvict()")
		for _, s := range c.Some(es, invokeOn("", "Close"), "segment.Close()") {
			te, _ := eng.BoolCheckEdges(es, ne.Instr.(ssa.Value))
			_, via := eng.PathExists(eng.PathQuery{Fn: es, After: ne.Instr, Target: func(in ssa.Instruction) bool { return in == s.Instr }, Edge: eng.ForbidEdges(te)})
			c.Check(len(te) > 0 && !via, "evict-segment-empty-only", s.Instr, es, "a segment is closed by eviction only when NeedEvict() (no families) holds", "")
		}
		// the two meta flush implementations run prepare+flush+wait
		fm := c.Fn("tsdb.database.flushMeta")
		c.Check(len(p.Sites(fm, invokeOn("", "Notify"))) > 0, "flushMeta-notifies", nil, fm, "database.flushMeta hands a flush event to the metadata goroutine", "")
	})

	// ---- 11. freeze before the metadata flush ------------------------------------------------------------------------------------
	freezeOrderRule(c)
	sequenceInsideWriteBracket(c)
}

// freezeOrderRule (C07#11, also C09#11): on every call chain, the store that freezes a family's
// memory database must not come after a metadata flush was started for the same flush round —
// otherwise a name created between the metadata flush and the freeze gets its data file and log
// ack durable while its dictionary entry and ID counter are not.
func freezeOrderRule(c *eng.Ctx) {
	p := c.P
	c.Rule("ORDER-freeze", "tsdb{freeze<metadata-flush}", func() {
		// FREEZE sites: non-nil stores to dataFamily.immutableMemDB
		var freezeFns []*ssa.Function
		for _, s := range p.SitesInProgram(eng.StoreField(dfT + ".immutableMemDB")) {
			if st, ok := s.Instr.(*ssa.Store); ok && !eng.IsNilConst(st.Val) {
				dup := false
				for _, f := range freezeFns {
					if f == s.Fn {
						dup = true
					}
				}
				if !dup {
					freezeFns = append(freezeFns, s.Fn)
				}
			}
		}
		if len(freezeFns) == 0 {
			c.Undecided("no freeze site (store of a non-nil dataFamily.immutableMemDB) found")
		}
		metaFlush := eng.Any(eng.CallTo("tsdb.database.FlushMeta", "tsdb.Database.FlushMeta", "tsdb.database.flushMeta"),
			invokeOn("", "PrepareFlush"))
		// walk callers upward from each freeze function (static + interface), depth 4
		var walk func(fn *ssa.Function, chain []link, depth int)
		seen := map[string]bool{}
		walk = func(fn *ssa.Function, chain []link, depth int) {
			if depth == 0 {
				return
			}
			for _, cs := range callersOf(c, fn) {
				l := link{cs.Fn, cs.Instr, fn}
				nc := append([]link{l}, chain...)
				// does a metadata flush precede this call inside cs.Fn ?
				pre := p.Sites(cs.Fn, metaFlush)
				before := false
				var w ssa.Instruction
				for _, m := range pre {
					if _, ok := eng.Reaches(cs.Fn, m.Instr, []eng.Site{{Fn: cs.Fn, Instr: cs.Instr}}, nil); ok {
						before = true
						w = m.Instr
					}
				}
				last := nc[len(nc)-1]
				key := p.FuncKey(last.caller) + "->" + p.FuncKey(last.callee)
				id := p.FuncKey(cs.Fn) + "|" + key
				if before && !seen[id] {
					seen[id] = true
					// report keyed by the innermost link (the call that performs the freeze)
					o := c.Prop + "/ORDER-freeze/" + key
					c.Obls = append(c.Obls, eng.Obligation{Key: o, Rule: "ORDER-freeze", Site: p.InstrPos(last.call), Func: p.FuncKey(last.caller),
						Want:   "the memory database is frozen before the metadata flush that must cover the names it contains",
						Status: "violated", Config: p.Config,
						Detail: fmt.Sprintf("in %s the metadata flush at %s precedes the call chain %s that freezes the memory database only afterwards", p.FuncKey(cs.Fn), p.InstrPos(w), chainString(p, nc))})
				}
				walk(cs.Fn, nc, depth-1)
			}
		}
		for _, f := range freezeFns {
			top := liftTransparent(p, f)
			walk(top, nil, 4)
			c.Check(true, "freeze-site:"+p.FuncKey(top), nil, top, "freeze site enumerated; its call chains were examined for a preceding metadata flush", "")
		}
	})
}

// sequenceInsideWriteBracket (F28): dataFamily.Flush freezes the memory database and captures f.seq in one hold of the family
// mutex, and memoryDatabase.FlushFamilyTo then WAITS for the writers that are still inside their AcquireWrite..CompleteWrite
// bracket — so the rows of an entry whose WriteRows is in flight at the freeze end up in the flushed table.  The sequence of
// that entry is therefore part of the flushed state only if it is committed BEFORE the bracket is left; a CommitSequence
// that runs after WriteRows returned (= after CompleteWrite) lets the table contain entry N while the manifest stores N-1:
// after a crash entry N is replayed and applied a second time.  Decided per call site of CommitSequence.
func sequenceInsideWriteBracket(c *eng.Ctx) {
	p := c.P
	c.Rule("ORDER-bracket", "tsdb{sequence committed inside the write bracket}", func() {
		isCommit := func(p *eng.Prog, in ssa.Instruction) bool {
			cl, ok := in.(ssa.CallInstruction)
			if !ok {
				return false
			}
			cc := cl.Common()
			if cc.IsInvoke() {
				return cc.Method.Name() == "CommitSequence" && strings.Contains(cc.Value.Type().String(), "DataFamily")
			}
			return cc.StaticCallee() != nil && p.FuncKey(cc.StaticCallee()) == dfT+".CommitSequence"
		}
		n := 0
		for _, s := range p.SitesInProgram(isCommit) {
			top := s.Fn
			for top.Parent() != nil {
				top = top.Parent()
			}
			if !eng.InModule(top) || strings.HasSuffix(p.FuncKey(top), "_mock") {
				continue
			}
			n++
			// inside a bracket: the same function acquired the write claim before and completes it afterwards
			acq := p.Sites(s.Fn, invokeOn("", "AcquireWrite"))
			inside := len(acq) > 0 && eng.DominatedBy(s.Fn, s.Instr, acq, nil)
			if inside {
				c.Check(true, "commit-in-bracket:"+p.FuncKey(top), s.Instr, s.Fn, "the sequence is committed while the entry's write claim is still held", "")
				continue
			}
			// a function that was split keeps its name: the unexported tail with one transparent caller stands for that caller
			top = liftTransparent(p, top)
			key := c.Prop + "/ORDER-bracket/" + p.FuncKey(top) + "->" + dfT + ".CommitSequence"
			c.Obls = append(c.Obls, eng.Obligation{Key: key, Rule: "ORDER-bracket", Site: p.InstrPos(s.Instr), Func: p.FuncKey(s.Fn),
				Want:   "an entry's sequence is committed inside the AcquireWrite..CompleteWrite bracket of its rows (the flush waits for open brackets and captures the sequences at the freeze)",
				Status: "violated", Config: p.Config,
				Detail: "CommitSequence is called in " + p.FuncKey(top) + " after WriteRows returned, i.e. after the write bracket was left: a flush that freezes the memory database while WriteRows is in flight stores the table with the previous sequence"})
		}
		c.Check(n > 0, "commit-sites-found", nil, nil, "the call sites of CommitSequence were examined", "")
	})
}

type link struct {
	caller *ssa.Function
	call   ssa.Instruction
	callee *ssa.Function
}

func chainString(p *eng.Prog, ch []link) string {
	var s []string
	for _, l := range ch {
		s = append(s, p.FuncKey(l.caller))
	}
	if len(ch) > 0 {
		s = append(s, p.FuncKey(ch[len(ch)-1].callee))
	}
	return strings.Join(s, " -> ")
}

// callersOf returns static callers plus interface-call sites whose method is implemented by fn.
func callersOf(c *eng.Ctx, fn *ssa.Function) []eng.CallSite {
	p := c.P
	out := append([]eng.CallSite{}, p.StaticCallers(fn)...)
	if fn.Signature.Recv() == nil {
		return out
	}
	name := fn.Name()
	for _, f := range p.AllFuncs {
		if !strings.HasPrefix(p.FuncKey(f), "tsdb.") {
			continue
		}
		for _, b := range f.Blocks {
			for _, in := range b.Instrs {
				cl, ok := in.(ssa.CallInstruction)
				if !ok || !cl.Common().IsInvoke() || cl.Common().Method.Name() != name {
					continue
				}
				for _, impl := range p.Implementers(cl.Common().Method) {
					if impl == fn {
						out = append(out, eng.CallSite{Fn: f, Instr: cl})
					}
				}
			}
		}
	}
	return out
}

func setAckIndexOwner(c *eng.Ctx) {
	p := c.P
	_ = p
	owner(c, "call of ConsumerGroup.Ack", eng.AnyCallTo("pkg/queue.ConsumerGroup.Ack", cgT+".Ack"), []string{rpT + ".SetAckIndex"}, 1)
	owner(c, "call of replicator.SetAckIndex", eng.AnyCallTo(rpT+".SetAckIndex", "replica.Replicator.SetAckIndex"),
		[]string{"replica.NewLocalReplicator", rpT + ".IgnoreMessage", "replica.remoteReplicator.Replica", "replica.remoteReplicator.IsReady"}, 3)
	f := c.Fn(rpT + ".IgnoreMessage")
	s := c.One(f, eng.CallTo(rpT+".SetAckIndex"), "SetAckIndex")
	facts := p.MustFacts(f)
	fs := facts.At(s.Instr)
	eq := facts.Find(fs, "eq", func(d string, _ ssa.Value) bool {
		return strings.HasSuffix(d, "+1)") && (strings.Contains(d, "acknowledgedSeq") || strings.Contains(d, "AckIndex") || strings.Contains(d, "AcknowledgedSeq"))
	}, eng.DescIs("replicaIdx"))
	c.Check(len(eq) > 0, "ignore-only-next", s.Instr, f, "an undeliverable entry is acknowledged only when it is exactly ack+1 (never skipping unpersisted entries)", "facts: "+strings.Join(facts.Render(fs), " ; "))
	c.Check(p.Desc(eng.CallArgs(s.Instr.(*ssa.Call))[0]) == "replicaIdx", "ignore-acks-that-entry", s.Instr, f, "the ignored entry's own index is acknowledged", "")
}

func groupEmptyMeansAcknowledged(c *eng.Ctx) {
	p := c.P
	_ = p
	f := c.Fn("pkg/queue.consumerGroup.IsEmpty")
	isCall := func(name string) func(ssa.Value) bool {
		return func(x ssa.Value) bool {
			cl, ok := x.(*ssa.Call)
			if !ok {
				return false
			}
			if cl.Common().IsInvoke() {
				return cl.Common().Method.Name() == name
			}
			return cl.Common().StaticCallee() != nil && baseName(cl.Common().StaticCallee().Name()) == name
		}
	}
	n := 0
	for i, r := range eng.SuccessReturns(f) {
		rv := eng.RetVal(r, 0)
		n++
		c.Check(eng.DependsOn(rv, isCall("AppendedSeq")) && eng.DependsOn(rv, isCall("AcknowledgedSeq")), fmt.Sprintf("compares-appended-with-acknowledged[%d]", i), r, f,
			"a consumer group is empty when the queue's appended sequence is not beyond the group's ACKNOWLEDGED sequence (local replication acknowledges only after the flush committed)", "returns "+p.Desc(rv))
		c.Check(!eng.DependsOn(rv, isCall("ConsumedSeq")) && !eng.DependsOnField(rv, cgT+".consumedSeq"), fmt.Sprintf("not-the-consumed-position[%d]", i), r, f,
			"the consumed position plays no part: consumed-but-unflushed entries still need the log", "returns "+p.Desc(rv))
		bo, isB := eng.Unwrap(rv).(*ssa.BinOp)
		okDir := isB && (bo.Op == token.LEQ && eng.DependsOn(bo.X, isCall("AppendedSeq")) && eng.DependsOn(bo.Y, isCall("AcknowledgedSeq")) ||
			bo.Op == token.GEQ && eng.DependsOn(bo.Y, isCall("AppendedSeq")) && eng.DependsOn(bo.X, isCall("AcknowledgedSeq")))
		c.Check(okDir, fmt.Sprintf("direction[%d]", i), r, f, "the test is appended <= acknowledged", "returns "+p.Desc(rv))
	}
	c.Check(n == 1, "one-exit", nil, f, "IsEmpty has one result expression", fmt.Sprintf("%d", n))
	// the expiry decision of a partition consults every consumer group
	ie := c.Fn("replica.partition.IsExpire")
	em := c.One(ie, invokeOn("", "IsEmpty"), "consumerGroup.IsEmpty()")
	names := c.One(ie, invokeOn(".log", "ConsumerGroupNames"), "log.ConsumerGroupNames()")
	c.Check(eng.DependsOn(eng.CallRecv(em.Instr.(*ssa.Call)), func(x ssa.Value) bool { return x == names.Instr.(ssa.Value) }), "every-group-asked", em.Instr, ie, "each consumer group of the log is asked", "")
	early := 0
	for _, e := range eng.EarlyLoopExits(ie) {
		_ = e
		early++
	}
	c.Check(early == 0, "no-group-skipped", nil, ie, "the loop over the consumer groups has no early exit", fmt.Sprintf("%d early exits", early))
	expiryNeedsEveryGroupDrained(c)
	for i, r := range eng.SuccessReturns(ie) {
		rv := eng.RetVal(r, 0)
		if k, isC := rv.(*ssa.Const); isC && k.Value != nil && k.Value.String() == "false" {
			continue
		}
		c.Check(eng.DominatedBy(ie, r, []eng.Site{names}, nil), fmt.Sprintf("expired-only-after-asking[%d]", i), r, ie, "a partition is reported expired only after its consumer groups were examined", "")
	}
}

// memdbIdentityUnique (F42, shared by C07 and C11): every memory database of a shard files the slot range of a metric under the key
// md.createdTime in the shard-level time series index, and Cleanup after a flush deletes the entry under that key. Two memory
// databases with one key lose each other's range: the rows of the second become invisible and its flush acknowledges them
// without writing them. A clock value (fasttime has a 5 ms tick) is not unique; the key must come out of an atomic
// read-modify-write (counter, or a CAS loop that forces the clock value to be strictly increasing).
func memdbIdentityUnique(c *eng.Ctx) {
	p := c.P
	const fld = "tsdb/memdb.memoryDatabase.createdTime"
	isRMW := func(in ssa.Instruction) bool {
		fa, m, _ := eng.AtomicOp(in)
		if fa == nil && m == "" {
			// package-level atomic variable
			if cl, ok := in.(*ssa.Call); ok {
				if g := cl.Common().StaticCallee(); g != nil && g.Pkg != nil && (strings.HasSuffix(g.Pkg.Pkg.Path(), "sync/atomic") || strings.HasSuffix(g.Pkg.Pkg.Path(), "go.uber.org/atomic")) {
					m = g.Name()
				}
			}
		}
		switch m {
		case "Add", "Inc", "CompareAndSwap", "CAS", "Swap", "AddInt64", "CompareAndSwapInt64", "AddUint64":
			return true
		}
		return false
	}
	var hasRMW func(g *ssa.Function, depth int) bool
	hasRMW = func(g *ssa.Function, depth int) bool {
		if g == nil || g.Blocks == nil || depth > 2 {
			return false
		}
		for _, b := range g.Blocks {
			for _, in := range b.Instrs {
				if isRMW(in) {
					return true
				}
				if cl, ok := in.(*ssa.Call); ok {
					if h := cl.Common().StaticCallee(); h != nil && eng.InModule(h) && hasRMW(h, depth+1) {
						return true
					}
				}
			}
		}
		return false
	}
	n := 0
	for _, fn := range p.FuncsWithPrefix("tsdb/memdb.") {
		for _, s := range p.SitesDirect(fn, eng.StoreField(fld)) {
			n++
			v := s.Instr.(*ssa.Store).Val
			unique := eng.DependsOn(v, func(x ssa.Value) bool {
				in, ok := x.(ssa.Instruction)
				if !ok {
					return false
				}
				if isRMW(in) {
					return true
				}
				if cl, ok := x.(*ssa.Call); ok {
					if g := cl.Common().StaticCallee(); g != nil && eng.InModule(g) {
						return hasRMW(g, 0)
					}
				}
				return false
			})
			c.Check(unique, fmt.Sprintf("key-from-an-atomic-update[%d]", n), s.Instr, fn,
				"the key of a memory database in the shard-level index is produced by an atomic read-modify-write (a counter, or a CAS loop that makes the clock value strictly increasing): two databases never share it",
				"the key is "+p.Desc(v)+": a clock reading, equal for every database created within one tick")
		}
	}
	c.Check(n >= 1, "key-assigned", nil, nil, "NewMemoryDatabase assigns createdTime", fmt.Sprintf("%d stores", n))
	// and it IS the key: ranges are stored and read under it
	used := 0
	for _, fn := range p.FuncsWithPrefix("tsdb/memdb.memoryDatabase.") {
		for _, s := range p.SitesDirect(fn, invokeOn("", "StoreTimeRange", "GetTimeRange")) {
			if eng.DependsOnField(eng.CallArgs(s.Instr.(ssa.CallInstruction))[0], fld) {
				used++
			}
		}
	}
	c.Check(used >= 2, "key-used", nil, nil, "the slot range of a metric is stored and read under md.createdTime", fmt.Sprintf("%d sites", used))
}
