package props

import (
	"fmt"
	"go/constant"
	"go/token"
	"strings"

	"golang.org/x/tools/go/ssa"

	"lincheck/internal/eng"
)

// C13 (narrow).  The property is arithmetic over timestamps and the local calendar; what is decided here is only the
// STRUCTURE that the tiling / inverse clauses rest on, each a necessary condition:
//   - the three calculators are built from one calendar skeleton (which components of a timestamp survive into the segment
//     start, which single component is the family, that the family start puts the family number back into that very
//     component and the family end is the next value of it, one location, one ms<->s conversion);
//   - a segment's name is parsed with the layout it was formatted with, and the layout is as fine as the segment unit;
//   - CalcFamily(ts, segmentTime) is only applied to a timestamp known to lie in that segment (F49);
//   - the family objects of a segment get their range from the calculator of the segment's own interval and are filed under
//     the family number that range was computed from;
//   - the planner stores an interval the database lists, a query interval that is that interval times an integer >= 1, and
//     measures the range after aligning it.
func init() {
	register(eng.Property{
		ID:    "C13",
		Title: "Time bucketing partitions the time axis consistently",
		Explanation: "Decides structural necessary conditions of consistent bucketing, not the arithmetic itself: (1) every calculator is built from one calendar skeleton - CalcSegmentTime keeps the leading calendar components " +
			"of the timestamp and floors the rest, CalcFamily returns exactly the first floored component (or, for the linear calculator, the offset from the segment start divided by one unit), CalcFamilyStartTime puts the family number " +
			"back into that component on top of the segment's kept components, CalcFamilyEndTime is the start of the next value of that component minus one millisecond; all calendar calls use one location and zero time-of-day, every " +
			"ms->time and time->ms conversion uses the same factor; the linear calculator uses one unit constant in family, start, end and slot; (2) a segment name is parsed with the layout it was formatted with and the layout is exactly " +
			"as fine as the segment unit; (3) CalcFamily(ts, segmentTime) is applied only where ts is established to lie in that segment (segmentTime = CalcSegmentTime(ts), or a CalcSegmentTime(ts) == segmentTime guard, or a family start " +
			"of that very segment); (4) a segment files each family under the number its range was computed from, with the calculator of the segment's own interval, range = [CalcFamilyStartTime, CalcFamilyEndTime(that start)]; " +
			"(5) the planner stores a storage interval taken from the database's own list, a query interval = storage interval x integer ratio with ratio >= 1, both range ends truncated by that storage interval before the range is measured; " +
			"(6) every interval type has its own calculator, no slot wrap-around inside a family, family end computed like family start (rules shared with C04 / C12 / C16).",
		NotDecided: "the calendar arithmetic itself: that time.Date tiles the axis (DST, leap days), slot*interval + family start within one interval below the timestamp, the auto-interval table, rounding of CalcTimeWindows - numeric, over all timestamps.",
		MinObls:    60,
		Run:        runC13,
	})
}

const tuPkg = "pkg/timeutil."

func runC13(c *eng.Ctx) {
	everyFamilyOfTheSegmentExamined(c)
	overlapIsAClosedIntervalTest(c)
	familyTimeComposedOfTheCalendarFunctions(c)
	acceptedIntervalsArePositive(c)
	rowsInsideFirstRowsFamilyRange(c)
	rollupSlotBaseIsTheFamilyStart(c)
	calendarSkeleton(c)
	segmentNameRoundTrip(c)
	calcFamilyInsideItsSegment(c)
	segmentFamilyIdentity(c)
	plannerWholeMultiple(c)
	calculatorExhaustive(c)
	calcSlotNoWrap(c)
	familyEndLikeStart(c)
	rangeAlignedBeforeMeasured(c)
}

// ---- calendar components ------------------------------------------------------------------------------------------------------

type calComp struct {
	kind  string // keep | next | const | param | other
	comp  int    // for keep/next: 0 year, 1 month, 2 day
	src   string // for keep/next: the parameter the time value was built from; for param: its name
	value int64  // for const
}

func (k calComp) String() string {
	names := []string{"Year", "Month", "Day"}
	switch k.kind {
	case "keep":
		return names[k.comp] + "(" + k.src + ")"
	case "next":
		return names[k.comp] + "(" + k.src + ")+1"
	case "const":
		return fmt.Sprintf("%d", k.value)
	case "param":
		return "param " + k.src
	}
	return "?"
}

// msParamOfTime: the int64 parameter p such that t is time.Unix(p/1000, 0) or time.UnixMilli(p); "" when t is anything else.
func msParamOfTime(t ssa.Value) (string, bool) {
	cl, ok := eng.Unwrap(t).(*ssa.Call)
	if !ok || cl.Common().StaticCallee() == nil {
		return "", false
	}
	// a small helper of the package that does the conversion (timeOfMillis(x) = time.Unix(x/1000, 0)): what the helper does with
	// its parameter, applied to the argument
	if h := eng.TransparentCallee(cl); h != nil && len(h.Params) == 1 && len(cl.Common().Args) == 1 {
		var inner string
		okAll, n := true, 0
		for _, b := range h.Blocks {
			for _, in := range b.Instrs {
				if r, isR := in.(*ssa.Return); isR && len(r.Results) == 1 {
					n++
					pn, ok2 := msParamOfTime(r.Results[0])
					if !ok2 || pn != eng.ParamName(h.Params[0]) {
						okAll = false
					}
					inner = pn
				}
			}
		}
		if okAll && n > 0 && inner != "" {
			if pr, isP := eng.Unwrap(cl.Common().Args[0]).(*ssa.Parameter); isP {
				return eng.ParamName(pr), true
			}
		}
		return "", false
	}
	if cl.Common().StaticCallee().Pkg == nil || cl.Common().StaticCallee().Pkg.Pkg.Path() != "time" {
		return "", false
	}
	a := cl.Common().Args
	switch cl.Common().StaticCallee().Name() {
	case "Unix":
		if len(a) != 2 {
			return "", false
		}
		if ns, isC := eng.ConstInt(a[1]); !isC || ns != 0 {
			return "", false
		}
		bo, ok := eng.Unwrap(a[0]).(*ssa.BinOp)
		if !ok || bo.Op != token.QUO {
			return "", false
		}
		if k, isC := eng.ConstInt(bo.Y); !isC || k != 1000 {
			return "", false
		}
		if pr, ok := eng.Unwrap(bo.X).(*ssa.Parameter); ok {
			return eng.ParamName(pr), true
		}
	case "UnixMilli":
		if len(a) == 1 {
			if pr, ok := eng.Unwrap(a[0]).(*ssa.Parameter); ok {
				return eng.ParamName(pr), true
			}
		}
	}
	return "", false
}

func classifyCal(v ssa.Value) calComp {
	v = eng.Unwrap(v)
	if k, ok := eng.ConstInt(v); ok {
		return calComp{kind: "const", value: k}
	}
	if pr, ok := v.(*ssa.Parameter); ok {
		return calComp{kind: "param", src: eng.ParamName(pr)}
	}
	if bo, ok := v.(*ssa.BinOp); ok && bo.Op == token.ADD {
		x, y := bo.X, bo.Y
		if _, isC := eng.ConstInt(x); isC {
			x, y = y, x
		}
		if k, isC := eng.ConstInt(y); isC && k == 1 {
			in := classifyCal(x)
			if in.kind == "keep" {
				in.kind = "next"
				return in
			}
		}
		return calComp{kind: "other"}
	}
	comp := -1
	var recv ssa.Value
	switch x := v.(type) {
	case *ssa.Call:
		if f := x.Common().StaticCallee(); f != nil && f.Signature.Recv() != nil && f.Pkg != nil && f.Pkg.Pkg.Path() == "time" && len(x.Common().Args) == 1 {
			switch f.Name() {
			case "Year":
				comp = 0
			case "Month":
				comp = 1
			case "Day":
				comp = 2
			}
			recv = x.Common().Args[0]
		}
	case *ssa.Extract:
		if cl, ok := x.Tuple.(*ssa.Call); ok {
			if f := cl.Common().StaticCallee(); f != nil && f.Pkg != nil && f.Pkg.Pkg.Path() == "time" && f.Name() == "Date" && f.Signature.Recv() != nil {
				comp = x.Index
				recv = cl.Common().Args[0]
			}
		}
	}
	if comp < 0 {
		return calComp{kind: "other"}
	}
	src, ok := msParamOfTime(recv)
	if !ok {
		return calComp{kind: "other"}
	}
	return calComp{kind: "keep", comp: comp, src: src}
}

// dateArg: argument i of the calendar call d found in root; when d is written in a helper root enters, the value root passes for it.
func dateArg(root *ssa.Function, d *ssa.Call, i int) ssa.Value {
	return eng.UpParamVia(root, eng.Site{Fn: d.Parent(), Instr: d}, d.Common().Args[i])
}

// dateCalls: the calls of the package function time.Date in fn.
func dateCalls(p *eng.Prog, fn *ssa.Function) []*ssa.Call {
	var out []*ssa.Call
	for _, s := range p.Sites(fn, eng.CallTo("time.Date")) {
		out = append(out, s.Instr.(*ssa.Call))
	}
	return out
}

func calendarSkeleton(c *eng.Ctx) {
	p := c.P
	c.Rule("SYMMETRY", "pkg/timeutil.{day,month,year}{one calendar skeleton: segment keeps, family is the first floored component, start puts it back, end is its next value}", func() {
		found := 0
		levels := map[string]int{}
		for _, t := range []string{"day", "month", "year"} {
			seg := p.Func(tuPkg + t + ".CalcSegmentTime")
			fam := p.Func(tuPkg + t + ".CalcFamily")
			st := p.Func(tuPkg + t + ".CalcFamilyStartTime")
			en := p.Func(tuPkg + t + ".CalcFamilyEndTime")
			if seg == nil || fam == nil || st == nil || en == nil {
				continue
			}
			found++
			// -- every calendar call of the calculator: zero time of day, the one location; every conversion by the same factor
			for _, m := range []string{"CalcSegmentTime", "CalcFamily", "CalcFamilyStartTime", "CalcFamilyEndTime", "CalcTimeWindows"} {
				f := p.Func(tuPkg + t + "." + m)
				if f == nil {
					continue
				}
				for i, d := range dateCalls(p, f) {
					a := d.Common().Args
					zero := true
					for _, x := range a[3:7] {
						if k, isC := eng.ConstInt(x); !isC || k != 0 {
							zero = false
						}
					}
					c.Check(zero, fmt.Sprintf("%s.%s:midnight[%d]", t, m, i), d, f, "a calendar boundary is built at 00:00:00.000", "time of day is not the constant zero")
					loc := false
					if u, ok := eng.Unwrap(a[7]).(*ssa.UnOp); ok && u.Op == token.MUL {
						if g, ok := u.X.(*ssa.Global); ok && g.Pkg.Pkg.Path() == "time" && g.Name() == "Local" {
							loc = true
						}
					}
					c.Check(loc, fmt.Sprintf("%s.%s:location[%d]", t, m, i), d, f, "every calendar boundary of every calculator is taken in one location (time.Local): boundaries taken in two locations do not tile", "location is "+p.Desc(a[7]))
				}
				for i, s := range p.Sites(f, eng.CallTo("time.Unix")) {
					_, ok := msParamOfTime(s.Instr.(*ssa.Call))
					c.Check(ok, fmt.Sprintf("%s.%s:ms-to-time[%d]", t, m, i), s.Instr, f, "a millisecond timestamp enters the calendar as time.Unix(ms/1000, 0)", "")
				}
				for i, s := range p.Sites(f, eng.AnyCallTo("time.Time.UnixNano")) {
					ok := false
					for _, r := range *s.Instr.(ssa.Value).Referrers() {
						if bo, isB := r.(*ssa.BinOp); isB && bo.Op == token.QUO {
							if k, isC := eng.ConstInt(bo.Y); isC && k == 1000000 {
								ok = true
							}
						}
					}
					c.Check(ok, fmt.Sprintf("%s.%s:time-to-ms[%d]", t, m, i), s.Instr, f, "a calendar boundary leaves as UnixNano()/1000000 (milliseconds)", "")
				}
			}
			sd := dateCalls(p, seg)
			if len(sd) != 1 {
				c.Check(false, t+":segment-start-is-one-calendar-boundary", nil, seg, "CalcSegmentTime builds exactly one calendar boundary", fmt.Sprintf("%d time.Date calls", len(sd)))
				continue
			}
			// -- the segment start keeps the first k components of ITS timestamp and floors the others
			k := 0
			shape := true
			var segDesc []string
			for i := 0; i < 3; i++ {
				cc := classifyCal(dateArg(seg, sd[0], i))
				segDesc = append(segDesc, cc.String())
				switch {
				case cc.kind == "keep" && cc.comp == i && cc.src == "timestamp" && k == i:
					k++
				case cc.kind == "const" && cc.value == 1 && k <= i:
				default:
					shape = false
				}
			}
			c.Check(shape && k >= 1, t+":segment-keeps-a-prefix", sd[0], seg, "the segment start keeps a leading run of (year, month, day) of the timestamp, each in its own position, and floors the rest to 1", "time.Date("+strings.Join(segDesc, ", ")+", …)")
			if !shape || k < 1 {
				continue
			}
			levels[t] = k
			if k == 3 {
				// linear calculator: the family is the offset from the segment start in units of one constant
				unit := int64(0)
				ok := false
				for _, r := range retValues(fam) {
					if bo, isB := eng.Unwrap(r).(*ssa.BinOp); isB && bo.Op == token.QUO {
						if u, isC := eng.ConstInt(bo.Y); isC {
							if sub, isS := eng.Unwrap(bo.X).(*ssa.BinOp); isS && sub.Op == token.SUB && isParam(sub.X, "timestamp") && isParam(sub.Y, "segmentTime") {
								unit, ok = u, true
							}
						}
					}
				}
				c.Check(ok, t+":family-is-the-offset-in-units", nil, fam, "the family of the linear calculator is (timestamp - segment start) / unit", "")
				okS := false
				for _, r := range retValues(st) {
					base, _ := eng.SplitConstOffset(r)
					if bo, isB := eng.Unwrap(base).(*ssa.BinOp); isB && bo.Op == token.ADD {
						x, y := bo.X, bo.Y
						if !isParam(x, "segmentTime") {
							x, y = y, x
						}
						if mu, isM := eng.Unwrap(y).(*ssa.BinOp); isM && mu.Op == token.MUL && isParam(x, "segmentTime") {
							a, b := mu.X, mu.Y
							if _, isC := eng.ConstInt(a); isC {
								a, b = b, a
							}
							if u, isC := eng.ConstInt(b); isC && u == unit && isParam(a, "familyTime") {
								okS = true
							}
						}
					}
				}
				c.Check(okS, t+":start-puts-the-family-back", nil, st, "the family start is segment start + family * the SAME unit: the family computed from the start of family n is n", fmt.Sprintf("unit of CalcFamily: %d", unit))
				okE := false
				for _, r := range retValues(en) {
					base, off := eng.SplitConstOffset(r)
					if isParam(base, "familyStartTime") && off == unit-1 {
						okE = true
					}
				}
				c.Check(okE, t+":end-is-the-next-start-minus-one", nil, en, "the family end is family start + unit - 1 ms (the millisecond before the next family starts)", fmt.Sprintf("unit of CalcFamily: %d", unit))
				continue
			}
			// -- calendar calculator: the family is component k of the timestamp
			okF := false
			var famDesc []string
			for _, r := range retValues(fam) {
				cc := classifyCal(r)
				famDesc = append(famDesc, cc.String())
				if cc.kind == "keep" && cc.comp == k && cc.src == "timestamp" {
					okF = true
				} else {
					okF = false
					break
				}
			}
			c.Check(okF, t+":family-is-the-first-floored-component", nil, fam, "CalcFamily returns the first calendar component the segment start floors (the day of the month for a month segment, the month for a year segment)", "returns "+strings.Join(famDesc, ", "))
			// -- the family start: the segment's kept components, the family number in position k, the rest floored
			for _, which := range []struct {
				f     *ssa.Function
				name  string
				from  string
				atK   string
				minus int64
			}{{st, "start", "segmentTime", "param", 0}, {en, "end", "familyStartTime", "next", 1}} {
				ds := dateCalls(p, which.f)
				if len(ds) != 1 {
					c.Check(false, t+":"+which.name+"-is-one-calendar-boundary", nil, which.f, "the family "+which.name+" builds exactly one calendar boundary", fmt.Sprintf("%d time.Date calls", len(ds)))
					continue
				}
				good := true
				var desc []string
				for i := 0; i < 3; i++ {
					cc := classifyCal(dateArg(which.f, ds[0], i))
					desc = append(desc, cc.String())
					switch {
					case i < k:
						good = good && cc.kind == "keep" && cc.comp == i && cc.src == which.from
					case i == k && which.atK == "param":
						good = good && cc.kind == "param" && cc.src == "familyTime"
					case i == k:
						good = good && cc.kind == "next" && cc.comp == k && cc.src == which.from
					default:
						good = good && cc.kind == "const" && cc.value == 1
					}
				}
				want := "the family start keeps the segment's leading components, puts the family number into the component CalcFamily reads and floors the rest: the family computed from any instant of family n is n"
				if which.name == "end" {
					want = "the family end is built from the family start by advancing the very component CalcFamily reads by one (and flooring the rest), minus one millisecond"
				}
				c.Check(good, t+":"+which.name+"-puts-the-family-back", ds[0], which.f, want, "time.Date("+strings.Join(desc, ", ")+", …)")
				if which.minus != 0 {
					okM := false
					for _, r := range retValues(which.f) {
						_, off := eng.SplitConstOffset(r)
						if off == -which.minus {
							okM = true
						}
					}
					c.Check(okM, t+":end-is-one-ms-before-the-next-start", nil, which.f, "the family end is exactly one millisecond before the next family's start (closed ranges that tile)", "")
				}
			}
		}
		if found < 3 {
			c.Undecided("unresolved anchor: expected the day, month and year calculators, found %d", found)
		}
		// the three calculators sit on three different levels (day / month / year segments)
		seen := map[int]string{}
		for t, k := range levels {
			if o, dup := seen[k]; dup {
				c.Check(false, "levels-distinct:"+t, nil, nil, "each calculator has its own segment unit", t+" and "+o+" keep the same components")
			}
			seen[k] = t
		}
		c.Check(len(levels) == 3, "three-levels", nil, nil, "day, month and year calculators keep 3, 2 and 1 calendar components", fmt.Sprintf("%v", levels))
	})
}

func isParam(v ssa.Value, name string) bool {
	pr, ok := eng.Unwrap(v).(*ssa.Parameter)
	return ok && eng.ParamName(pr) == name
}

// retValues: the first result of every return of fn (phis expanded one level).
func retValues(fn *ssa.Function) []ssa.Value {
	var out []ssa.Value
	for _, b := range fn.Blocks {
		for _, in := range b.Instrs {
			if r, ok := in.(*ssa.Return); ok && len(r.Results) > 0 {
				v := r.Results[0]
				if ph, ok := eng.Unwrap(v).(*ssa.Phi); ok {
					out = append(out, ph.Edges...)
				} else {
					out = append(out, v)
				}
			}
		}
	}
	return out
}

// ---- segment names ---------------------------------------------------------------------------------------------------------------

func layoutArg(p *eng.Prog, fn *ssa.Function, callee string) (string, ssa.Instruction, bool) {
	for _, b := range eng.BlocksT(fn) {
		for _, in := range b.Instrs {
			cl, ok := in.(*ssa.Call)
			if !ok || cl.Common().StaticCallee() == nil || cl.Common().StaticCallee().Name() != callee {
				continue
			}
			for _, a := range cl.Common().Args {
				if k, ok := a.(*ssa.Const); ok && k.Value != nil && k.Value.Kind() == constant.String {
					return constant.StringVal(k.Value), in, true
				}
				// a variadic layout list: the constants stored into the argument array
				if sl, ok := a.(*ssa.Slice); ok {
					if al, ok := sl.X.(*ssa.Alloc); ok {
						var consts []string
						for _, r := range *al.Referrers() {
							ia, ok := r.(*ssa.IndexAddr)
							if !ok {
								continue
							}
							for _, r2 := range *ia.Referrers() {
								if st, ok := r2.(*ssa.Store); ok {
									if k, ok := st.Val.(*ssa.Const); ok && k.Value != nil && k.Value.Kind() == constant.String {
										consts = append(consts, constant.StringVal(k.Value))
									}
								}
							}
						}
						if len(consts) == 1 {
							return consts[0], in, true
						}
					}
				}
			}
		}
	}
	return "", nil, false
}

func segmentNameRoundTrip(c *eng.Ctx) {
	p := c.P
	c.Rule("LAYOUT", "pkg/timeutil.{day,month,year}{a segment name is parsed with the layout it was written with, as fine as the segment unit}", func() {
		n := 0
		for _, t := range []string{"day", "month", "year"} {
			g := p.Func(tuPkg + t + ".GetSegment")
			ps := p.Func(tuPkg + t + ".ParseSegmentTime")
			seg := p.Func(tuPkg + t + ".CalcSegmentTime")
			if g == nil || ps == nil || seg == nil {
				continue
			}
			n++
			wl, wi, ok1 := layoutArg(p, g, "FormatTimestamp")
			rl, _, ok2 := layoutArg(p, ps, "ParseTimestamp")
			if !ok1 || !ok2 {
				c.Check(false, t+":layouts-found", nil, g, "GetSegment formats and ParseSegmentTime parses with a constant layout", "layout constant not found")
				continue
			}
			c.Check(wl == rl, t+":same-layout", wi, g, "the base time of a segment is parsed from its directory name with the layout the name was formatted with", fmt.Sprintf("formats with %q, parses with %q", wl, rl))
			// granularity: the number of calendar components the segment start keeps
			k := 0
			if ds := dateCalls(p, seg); len(ds) == 1 {
				for i := 0; i < 3; i++ {
					if cc := classifyCal(dateArg(seg, ds[0], i)); cc.kind == "keep" {
						k++
					}
				}
			}
			has := func(s string) bool { return strings.Contains(wl, s) }
			rest := strings.NewReplacer("2006", "", "01", "", "02", "").Replace(wl)
			fine := has("2006") && has("01") == (k >= 2) && has("02") == (k >= 3) && strings.Trim(rest, "-_/") == ""
			c.Check(k >= 1 && fine, t+":layout-as-fine-as-the-unit", wi, g,
				"the name distinguishes exactly the calendar components the segment start keeps: a coarser name files two segments under one directory, a finer one splits a segment", fmt.Sprintf("layout %q, segment start keeps %d component(s)", wl, k))
		}
		if n < 3 {
			c.Undecided("unresolved anchor: expected the day, month and year calculators, found %d", n)
		}
	})
}

// ---- CalcFamily only inside the segment ------------------------------------------------------------------------------------------

func isCalcCall(in ssa.Instruction, method string) (*ssa.Call, bool) {
	cl, ok := in.(*ssa.Call)
	if !ok {
		return nil, false
	}
	cc := cl.Common()
	if cc.IsInvoke() {
		if cc.Method.Name() != method || cc.Method.Pkg() == nil || !strings.HasSuffix(cc.Method.Pkg().Path(), "/pkg/timeutil") {
			return nil, false
		}
		return cl, true
	}
	if f := cc.StaticCallee(); f != nil && f.Signature.Recv() != nil && f.Name() == method && f.Pkg != nil && strings.HasSuffix(f.Pkg.Pkg.Path(), "/pkg/timeutil") {
		return cl, true
	}
	return nil, false
}

func calcFamilyInsideItsSegment(c *eng.Ctx) {
	p := c.P
	c.Rule("GUARD", "pkg/timeutil.IntervalCalculator.CalcFamily{the timestamp lies in the segment whose start is passed}", func() {
		// exemption, checked: a family start handed back to the segment that created the family
		exempt := map[string]string{
			"tsdb.segment.EvictFamily": "the argument is the start time of a family of this very segment (dataFamily.familyTime, stored from the range initDataFamily computed with s.baseTime); checked below at every caller",
		}
		n := 0
		for _, f := range p.AllFuncs {
			for _, b := range f.Blocks {
				for _, in := range b.Instrs {
					cl, ok := isCalcCall(in, "CalcFamily")
					if !ok {
						continue
					}
					n++
					a := eng.CallArgs(cl)
					ts, seg := a[0], a[1]
					fk := p.FuncKey(f)
					sub := fmt.Sprintf("%s[%d]", fk, ordinalIn(f, in, "CalcFamily"))
					// (a) the segment start is computed from the same timestamp
					okA := false
					eng.WalkExpr(seg, func(x ssa.Value) bool {
						if xi, isI := x.(ssa.Instruction); isI {
							if sc, isS := isCalcCall(xi, "CalcSegmentTime"); isS && eng.SameValue(eng.CallArgs(sc)[0], ts) {
								okA = true
							}
						}
						return !okA
					})
					// (b) guarded by CalcSegmentTime(ts) == seg
					okB := false
					if !okA {
						for _, bb := range eng.BlocksT(topFn(p, f)) {
							for _, i2 := range bb.Instrs {
								sc, isS := isCalcCall(i2, "CalcSegmentTime")
								if !isS || !eng.SameValue(eng.CallArgs(sc)[0], ts) {
									continue
								}
								for _, r := range *sc.Referrers() {
									bo, isB := r.(*ssa.BinOp)
									if !isB || bo.Op != token.EQL && bo.Op != token.NEQ {
										continue
									}
									other := bo.X
									if eng.Unwrap(other) == ssa.Value(sc) {
										other = bo.Y
									}
									if !eng.SameValue(other, seg) && p.Desc(other) != p.Desc(seg) {
										continue
									}
									te, fe := eng.BoolCheckEdges(f, bo)
									edges := te
									if bo.Op == token.NEQ {
										edges = fe
									}
									for _, e := range edges {
										if eng.DominatedByEdge(f, in, e) {
											okB = true
										}
									}
								}
							}
						}
					}
					_, okC := exempt[fk]
					c.Check(okA || okB || okC, sub, in, f,
						"CalcFamily(ts, segmentStart) is the calendar component (or offset) of ts alone; it names a family of THAT segment only when ts lies in it: the start passed is CalcSegmentTime(ts), or the call is guarded by CalcSegmentTime(ts) == start, or ts is a family start of that segment. Applied to the bound of a query range that crosses the segment, the day / month of another segment is filed under this one and families inside the range are passed over (F49)",
						"neither derived from CalcSegmentTime("+p.Desc(ts)+") nor guarded by it: start = "+p.Desc(seg))
				}
			}
		}
		c.Check(n >= 5, "call-sites-found", nil, nil, "CalcFamily call sites found", fmt.Sprintf("%d", n))
		// the exemption's premise
		for i, s := range p.SitesInProgram(invokeOn("", "EvictFamily")) {
			a := eng.CallArgs(s.Instr.(*ssa.Call))
			ok := len(a) == 1 && eng.DependsOnField(a[0], "tsdb.dataFamily.familyTime") && strings.HasSuffix(p.Desc(eng.CallRecv(s.Instr.(*ssa.Call))), ".segment")
			c.Check(ok, fmt.Sprintf("evicted-family-is-the-segments-own[%d]", i), s.Instr, s.Fn, "EvictFamily is handed the family's own start time by the family, on the segment it belongs to", "argument "+p.Desc(a[0]))
		}
	})
}

// ordinalIn: the index of `in` among the calls of method `name` in fn (keys obligations by construct, not by line).
func ordinalIn(fn *ssa.Function, in ssa.Instruction, name string) int {
	n := 0
	for _, b := range fn.Blocks {
		for _, x := range b.Instrs {
			if x == in {
				return n
			}
			if _, ok := isCalcCall(x, name); ok {
				n++
			}
		}
	}
	return n
}

// ---- a segment's families -------------------------------------------------------------------------------------------------------

func segmentFamilyIdentity(c *eng.Ctx) {
	p := c.P
	c.Rule("PROV", "tsdb.segment{a family is filed under the number its range was computed from, with the segment's own calculator}", func() {
		// every calculator a method of segment uses is the one of the segment's interval
		nCalc := 0
		for _, f := range p.AllFuncs {
			if !strings.HasPrefix(p.FuncKey(f), "tsdb.segment.") {
				continue
			}
			for _, s := range p.SitesDirect(f, eng.AnyCallTo("pkg/timeutil.Interval.Calculator")) {
				nCalc++
				r := eng.CallRecv(s.Instr.(*ssa.Call))
				c.Check(eng.DependsOnField(r, "tsdb.segment.interval"), fmt.Sprintf("own-calculator:%s[%d]", p.FuncKey(f), nCalc), s.Instr, f, "a segment computes families with the calculator of its own interval", "calculator of "+p.Desc(r))
			}
		}
		c.Check(nCalc >= 2, "calculators-found", nil, nil, "segment methods obtain a calculator", fmt.Sprintf("%d", nCalc))

		for _, fk := range []string{"tsdb.segment.initDataFamily", "series/metric.BrokerBatchShardFamilyIterator.timeRangeOfTimestamp"} {
			f := c.Fn(fk)
			var st, en *ssa.Call
			for _, b := range eng.BlocksT(f) {
				for _, in := range b.Instrs {
					if cl, ok := isCalcCall(in, "CalcFamilyStartTime"); ok {
						st = cl
					}
					if cl, ok := isCalcCall(in, "CalcFamilyEndTime"); ok {
						en = cl
					}
				}
			}
			if st == nil || en == nil {
				c.Undecided("unresolved anchor: CalcFamilyStartTime / CalcFamilyEndTime in %s", fk)
			}
			c.Check(eng.SameValue(eng.CallArgs(en)[0], st), fk+":end-of-that-start", en, f, "the family range ends where the family that starts at the computed start ends", "CalcFamilyEndTime("+p.Desc(eng.CallArgs(en)[0])+")")
			// the range handed out is [that start, that end]
			okS, okE := false, false
			for _, b := range eng.BlocksT(f) {
				for _, in := range b.Instrs {
					sto, ok := in.(*ssa.Store)
					if !ok {
						continue
					}
					fa, ok := sto.Addr.(*ssa.FieldAddr)
					if !ok {
						continue
					}
					switch eng.FieldKeyOfAddr(fa) {
					case "pkg/timeutil.TimeRange.Start":
						okS = okS || eng.SameValue(sto.Val, st)
					case "pkg/timeutil.TimeRange.End":
						okE = okE || eng.SameValue(sto.Val, en)
					}
				}
			}
			c.Check(okS && okE, fk+":range-is-start-to-end", st, f, "the family's time range is [CalcFamilyStartTime, CalcFamilyEndTime(that start)]", fmt.Sprintf("start stored: %v, end stored: %v", okS, okE))
		}
		// initDataFamily: start from (s.baseTime, familyTime) and filed under familyTime
		f := c.Fn("tsdb.segment.initDataFamily")
		for _, b := range eng.BlocksT(f) {
			for _, in := range b.Instrs {
				if cl, ok := isCalcCall(in, "CalcFamilyStartTime"); ok {
					a := eng.CallArgs(cl)
					c.Check(eng.DependsOnField(a[0], "tsdb.segment.baseTime") && isParam(a[1], "familyTime"), "start-from-own-base-and-number", cl, f, "the family start is computed from the segment's own base time and the family number", p.Desc(a[0])+", "+p.Desc(a[1]))
				}
				if mu, ok := in.(*ssa.MapUpdate); ok && eng.DependsOnField(mu.Map, "tsdb.segment.families") {
					c.Check(isParam(mu.Key, "familyTime"), "filed-under-its-number", mu, f, "the family object is filed under the number its range was computed from", "key "+p.Desc(mu.Key))
				}
			}
		}
		// GetOrCreateDataFamily: looked up, named and initialised under CalcFamily(timestamp, s.baseTime)
		g := c.Fn("tsdb.segment.GetOrCreateDataFamily")
		var fam *ssa.Call
		for _, b := range eng.BlocksT(g) {
			for _, in := range b.Instrs {
				if cl, ok := isCalcCall(in, "CalcFamily"); ok {
					fam = cl
				}
			}
		}
		if fam == nil {
			c.Undecided("unresolved anchor: CalcFamily in tsdb.segment.GetOrCreateDataFamily")
		}
		a := eng.CallArgs(fam)
		c.Check(isParam(a[0], "timestamp") && eng.DependsOnField(a[1], "tsdb.segment.baseTime"), "number-of-the-written-timestamp", fam, g, "the family number is CalcFamily(timestamp, the segment's base time)", p.Desc(a[0])+", "+p.Desc(a[1]))
		fromFam := func(v ssa.Value) bool { return eng.DependsOn(v, func(x ssa.Value) bool { return x == ssa.Value(fam) }) }
		n := 0
		for _, b := range eng.BlocksT(g) {
			for _, in := range b.Instrs {
				switch x := in.(type) {
				case *ssa.Lookup:
					if eng.DependsOnField(x.X, "tsdb.segment.families") {
						n++
						c.Check(fromFam(x.Index), fmt.Sprintf("looked-up-under-that-number[%d]", n), x, g, "the family is looked up under the number computed from the timestamp", "index "+p.Desc(x.Index))
					}
				case *ssa.Call:
					if cal := x.Common().StaticCallee(); cal != nil && cal.Name() == "initDataFamily" {
						n++
						c.Check(fromFam(eng.CallArgs(x)[0]), fmt.Sprintf("created-under-that-number[%d]", n), x, g, "the family is created under the number computed from the timestamp", "")
					}
				}
			}
		}
		c.Check(n >= 2, "lookup-and-create-found", nil, g, "lookup and creation found", fmt.Sprintf("%d", n))
	})
}

// ---- the planner ------------------------------------------------------------------------------------------------------------------

func plannerWholeMultiple(c *eng.Ctx) {
	p := c.P
	c.Rule("PROV", "query/context.calcTimeRangeAndInterval{storage interval from the database's list; query interval = storage interval x integer ratio >= 1}", func() {
		f := c.Fn("query/context.calcTimeRangeAndInterval")
		find := c.One(f, eng.AnyCallTo("pkg/option.DatabaseOption.FindMatchSmallestInterval"), "option.FindMatchSmallestInterval(interval)")
		ratio := c.One(f, eng.CallTo("pkg/timeutil.CalIntervalRatio"), "timeutil.CalIntervalRatio(query, storage)")
		fv, rv := find.Instr.(ssa.Value), ratio.Instr.(ssa.Value)
		dep := func(v, on ssa.Value) bool { return eng.DependsOn(v, func(x ssa.Value) bool { return x == on }) }
		for i, s := range c.Some(f, eng.StoreField("sql/stmt.Query.StorageInterval"), "statement.StorageInterval = …") {
			c.Check(eng.SameValue(s.Instr.(*ssa.Store).Val, fv), fmt.Sprintf("storage-interval-is-the-matched-one[%d]", i), s.Instr, f, "the storage interval the leaves read is the one FindMatchSmallestInterval picked from the database's list", "stores "+p.Desc(s.Instr.(*ssa.Store).Val))
		}
		for i, s := range c.Some(f, eng.StoreField("sql/stmt.Query.IntervalRatio"), "statement.IntervalRatio = …") {
			c.Check(eng.SameValue(s.Instr.(*ssa.Store).Val, rv), fmt.Sprintf("ratio-is-the-computed-one[%d]", i), s.Instr, f, "the stored ratio is the one the interval was multiplied with", "stores "+p.Desc(s.Instr.(*ssa.Store).Val))
		}
		a := eng.CallArgs(ratio.Instr.(*ssa.Call))
		c.Check(len(a) == 2 && dep(a[1], fv), "ratio-against-the-storage-interval", ratio.Instr, f, "the ratio is taken against the chosen storage interval", "")
		// the final value of statement.Interval
		stores := c.Some(f, eng.StoreField("sql/stmt.Query.Interval"), "statement.Interval = …")
		final := 0
		for i, s := range stores {
			if _, again := eng.Reaches(f, s.Instr, stores, nil); again {
				continue
			}
			final++
			v := eng.Unwrap(s.Instr.(*ssa.Store).Val)
			ok := false
			if mu, isM := v.(*ssa.BinOp); isM && mu.Op == token.MUL {
				x, y := mu.X, mu.Y
				if !onlyConversions(x, fv) {
					x, y = y, x
				}
				// one factor is the storage interval itself, the other the integer ratio itself
				ok = onlyConversions(x, fv) && onlyConversions(y, rv)
			}
			c.Check(ok, fmt.Sprintf("query-interval-is-storage-x-ratio[%d]", i), s.Instr, f,
				"the query interval the statement leaves with is the storage interval multiplied by the integer ratio - a whole multiple by construction", "stores "+p.Desc(v))
		}
		c.Check(final >= 1, "final-interval-store-found", nil, f, "a last store of statement.Interval exists", "")
		// both ends truncated by the chosen storage interval
		for _, fld := range []string{"Start", "End"} {
			okT := false
			for _, b := range eng.BlocksT(f) {
				for _, in := range b.Instrs {
					sto, isS := in.(*ssa.Store)
					if !isS {
						continue
					}
					fa, isF := sto.Addr.(*ssa.FieldAddr)
					if !isF || eng.FieldKeyOfAddr(fa) != "pkg/timeutil.TimeRange."+fld {
						continue
					}
					for _, tr := range p.CallsIn(sto.Val, "pkg/timeutil.Truncate") {
						ta := eng.CallArgs(tr)
						if len(ta) == 2 && dep(ta[1], fv) && eng.DependsOnField(ta[0], "pkg/timeutil.TimeRange."+fld) {
							okT = true
						}
					}
				}
			}
			c.Check(okT, "aligned-to-the-storage-interval:"+fld, nil, f, "the range "+fld+" is truncated to a multiple of the chosen storage interval", "")
		}
	})

	c.Rule("GUARD", "pkg/timeutil.CalIntervalRatio{an integer ratio of at least one}", func() {
		f := c.Fn("pkg/timeutil.CalIntervalRatio")
		n := 0
		for _, b := range f.Blocks {
			for _, in := range b.Instrs {
				r, ok := in.(*ssa.Return)
				if !ok {
					continue
				}
				vals := []ssa.Value{r.Results[0]}
				if ph, isP := eng.Unwrap(r.Results[0]).(*ssa.Phi); isP {
					vals = ph.Edges
				}
				for _, v := range vals {
					n++
					if k, isC := eng.ConstInt(v); isC {
						c.Check(k >= 1, fmt.Sprintf("at-least-one[%d]", n), r, f, "a constant ratio is at least 1", fmt.Sprintf("%d", k))
						continue
					}
					q, isQ := eng.Unwrap(v).(*ssa.BinOp)
					if !isQ || q.Op != token.QUO || !isParam(q.X, "queryInterval") || !isParam(q.Y, "storageInterval") {
						c.Check(false, fmt.Sprintf("at-least-one[%d]", n), r, f, "the ratio is queryInterval / storageInterval", "returns "+c.P.Desc(v))
						continue
					}
					// the division is reached only with storage != 0 and query >= storage
					geq, nz := false, false
					at := ssa.Instruction(q)
					for _, bb := range f.Blocks {
						ifi, isIf := bb.Instrs[len(bb.Instrs)-1].(*ssa.If)
						if !isIf {
							continue
						}
						bo, isB := eng.Unwrap(ifi.Cond).(*ssa.BinOp)
						if !isB {
							continue
						}
						for succ := 0; succ < 2; succ++ {
							if !eng.DominatedByEdge(f, at, eng.Edge{B: bb, Succ: succ}) {
								continue
							}
							holds := succ == 0
							op, x, y := bo.Op, bo.X, bo.Y
							if isParam(y, "queryInterval") && isParam(x, "storageInterval") {
								x, y = y, x
								op = map[token.Token]token.Token{token.LSS: token.GTR, token.GTR: token.LSS, token.LEQ: token.GEQ, token.GEQ: token.LEQ, token.EQL: token.EQL, token.NEQ: token.NEQ}[op]
							}
							if isParam(x, "queryInterval") && isParam(y, "storageInterval") {
								if op == token.LSS && !holds || op == token.GEQ && holds {
									geq = true
								}
							}
							if k, isC := eng.ConstInt(y); isC && k == 0 && isParam(x, "storageInterval") {
								if op == token.EQL && !holds || op == token.NEQ && holds || op == token.GTR && holds || op == token.LEQ && !holds {
									nz = true
								}
							}
						}
					}
					c.Check(geq && nz, fmt.Sprintf("at-least-one[%d]", n), r, f, "the quotient is returned only when the storage interval is not zero and the query interval is not smaller: ratio >= 1", fmt.Sprintf("query>=storage established: %v, storage!=0 established: %v", geq, nz))
				}
			}
		}
		c.Check(n >= 2, "returns-found", nil, f, "returns found", "")
	})

	c.Rule("PROV", "pkg/option.DatabaseOption.FindMatchSmallestInterval{returns an interval of the database's own list}", func() {
		f := c.Fn("pkg/option.DatabaseOption.FindMatchSmallestInterval")
		fromList := func(v ssa.Value) bool {
			u, ok := eng.Unwrap(v).(*ssa.UnOp)
			if !ok || u.Op != token.MUL {
				return false
			}
			fa, ok := u.X.(*ssa.FieldAddr)
			return ok && eng.FieldKeyOfAddr(fa) == "pkg/option.Interval.Interval" && eng.DependsOnField(fa.X, "pkg/option.DatabaseOption.Intervals")
		}
		// local slices of this function and what is stored into their elements
		sliceRoot := func(v ssa.Value) ssa.Value {
			v = eng.Unwrap(v)
			if u, ok := v.(*ssa.UnOp); ok && u.Op == token.MUL {
				if al, ok := u.X.(*ssa.Alloc); ok {
					for _, r := range *al.Referrers() {
						if st, ok := r.(*ssa.Store); ok && st.Addr == ssa.Value(al) {
							if _, isMk := eng.Unwrap(st.Val).(*ssa.MakeSlice); !isMk {
								return nil
							}
						}
					}
					return al
				}
			}
			if mk, ok := v.(*ssa.MakeSlice); ok {
				return mk
			}
			return nil
		}
		localOK := func(v ssa.Value) bool {
			u, ok := eng.Unwrap(v).(*ssa.UnOp)
			if !ok || u.Op != token.MUL {
				return false
			}
			ia, ok := u.X.(*ssa.IndexAddr)
			if !ok {
				return false
			}
			root := sliceRoot(ia.X)
			if root == nil {
				return false
			}
			stores := 0
			for _, b := range f.Blocks {
				for _, in := range b.Instrs {
					sto, isS := in.(*ssa.Store)
					if !isS {
						continue
					}
					if ia2, isI := sto.Addr.(*ssa.IndexAddr); isI && sliceRoot(ia2.X) == root {
						stores++
						if !fromList(sto.Val) {
							return false
						}
					}
				}
			}
			return stores > 0
		}
		n := 0
		var visit func(v ssa.Value, d int) bool
		seen := map[ssa.Value]bool{}
		visit = func(v ssa.Value, d int) bool {
			v = eng.Unwrap(v)
			if seen[v] || d > 8 {
				return true
			}
			seen[v] = true
			if ph, ok := v.(*ssa.Phi); ok {
				for _, e := range ph.Edges {
					if !visit(e, d+1) {
						return false
					}
				}
				return true
			}
			return fromList(v) || localOK(v)
		}
		for _, b := range f.Blocks {
			for _, in := range b.Instrs {
				if r, ok := in.(*ssa.Return); ok {
					n++
					c.Check(visit(r.Results[0], 0), fmt.Sprintf("from-the-list[%d]", n), r, f, "every interval FindMatchSmallestInterval can return is an element of the database's Intervals (directly or through the function's own sorted copy)", "returns "+p.Desc(r.Results[0]))
				}
			}
		}
		c.Check(n >= 1, "returns-found", nil, f, "returns found", "")
	})
}

// onlyConversions: v is `of` possibly wrapped in conversions and accessor calls (Int64()), nothing that changes the value.
func onlyConversions(v, of ssa.Value) bool {
	for d := 0; d < 6; d++ {
		v = eng.Unwrap(v)
		if v == of {
			return true
		}
		cl, ok := v.(*ssa.Call)
		if !ok {
			return false
		}
		f := cl.Common().StaticCallee()
		if f == nil || f.Name() != "Int64" || len(cl.Common().Args) != 1 {
			return false
		}
		v = cl.Common().Args[0]
	}
	return false
}
