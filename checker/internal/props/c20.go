package props

import (
	"fmt"
	"go/token"
	"go/types"
	"strings"

	"golang.org/x/tools/go/ssa"

	"lincheck/internal/eng"
)

// C20 (narrow).  Map-equivalence of the succinct trie is a value property of rank/select arithmetic and is NOT decided.
// What is decided is the structure around the trie that the statement's other clauses rest on:
//   - a key obtained from a trie iterator is only valid until the iterator moves: whoever keeps it copies it (F50);
//   - the serialised form: the builder writes the sections in the order the loaded trie reads them and sizes the record as the
//     sum of exactly those sections; the bucket record is [u32 LE size][trie] on both sides and a re-emitted raw record
//     includes its header;
//   - a pooled trie is completely re-initialised when it is loaded;
//   - a bucket is the union of its tries: every look-up consults every trie, the merger loads every input and writes every
//     trie (raw or re-built from ALL its pairs), keys and ids are sorted together before a trie is built and the reused
//     builder is reset per block.
func init() {
	register(eng.Property{
		ID:    "C20",
		Title: "The on-disk string dictionary behaves like a sorted map",
		Explanation: "Decides structural necessary conditions around the succinct trie, not its rank/select arithmetic: (1) a key handed out by a trie iterator (its reused buffer) is stored in a longer-lived place only as a copy - the ordered prefix " +
			"enumeration over the tries of a bucket kept the raw slice in its heap and advanced the iterator (F50, fixed); (2) the trie builder writes totalKeys, height and the label / has-child / louds / prefix / suffix / value sections in the " +
			"order UnmarshalBinary reads them, MarshalSize adds exactly those sections; (3) a bucket record is a 4-byte little-endian size followed by that many trie bytes on the writing and the reading side, and the raw record a merge re-emits " +
			"starts at the header; (4) a pooled trie has every field re-assigned by UnmarshalBinary; (5) every look-up of a bucket (exact, all values, by id, regexp, like, suggest) visits every trie of the bucket and every key of the iteration it " +
			"starts, leaving early only with its answer; the merger unmarshals every input bucket, returns their errors, writes between Prepare and Commit, and TrieBucket.Write emits every trie raw or feeds every pair of every pending trie to the " +
			"builder; (6) keys and ids are swapped together by the sort that precedes Build, the builder is Reset before every Build, the size header is the MarshalSize of the trie written next.",
		NotDecided: "that the LOUDS-sparse trie answers Get / Seek / iteration like a sorted map for every key set (rank/select, prefix and suffix compression, terminator handling) - a value property of the data structure; the block split arithmetic; regular-expression and like matching themselves.",
		MinObls:    40,
		Run:        runC20,
	})
}

const (
	trieP  = "pkg/trie."
	modelP = "index/model."
)

func runC20(c *eng.Ctx) {
	iteratorKeyIsCopiedWhenKept(c)
	trieSectionsAgree(c)
	bucketRecordLayout(c)
	pooledTrieReloaded(c)
	bucketIsTheUnionOfItsTries(c)
	sortedTogetherAndReset(c)
	terminatorLabelNeedsASibling(c)
	heapIndexReadOnlyWhereRight(c)
	reusedBitBufferClearedWhole(c)
	trieVectorsOwnTheirMemory(c)
}

// ---- (1) iterator keys -----------------------------------------------------------------------------------------------------------

func isIterKeyCall(p *eng.Prog, v ssa.Value) bool {
	cl, ok := v.(*ssa.Call)
	if !ok {
		return false
	}
	f := cl.Common().StaticCallee()
	if f == nil || f.Name() != "Key" || f.Signature.Recv() == nil {
		return false
	}
	k := p.FuncKey(f)
	return k == trieP+"PrefixIterator.Key" || k == trieP+"Iterator.Key"
}

func iteratorKeyIsCopiedWhenKept(c *eng.Ctx) {
	p := c.P
	c.Rule("PROV", "pkg/trie.Iterator.Key{a key kept beyond the iterator's next step is a copy}", func() {
		calls, kept := 0, 0
		for _, f := range p.AllFuncs {
			fk := p.FuncKey(f)
			if strings.HasPrefix(fk, trieP) {
				continue // the iterator's own buffering (PrefixIterator.key is dropped by Next)
			}
			for _, b := range f.Blocks {
				for _, in := range b.Instrs {
					v, isV := in.(ssa.Value)
					if !isV || !isIterKeyCall(p, v) {
						continue
					}
					calls++
					// aliases of the returned slice: the value itself, re-slices, phis, conversions that do not copy
					alias := map[ssa.Value]bool{v: true}
					work := []ssa.Value{v}
					var escapes []ssa.Instruction
					for len(work) > 0 {
						x := work[0]
						work = work[1:]
						refs := x.Referrers()
						if refs == nil {
							continue
						}
						for _, r := range *refs {
							switch y := r.(type) {
							case *ssa.Slice:
								if y.X == x && !alias[y] {
									alias[y] = true
									work = append(work, y)
								}
							case *ssa.Phi:
								if !alias[y] {
									alias[y] = true
									work = append(work, y)
								}
							case *ssa.ChangeType:
								if !alias[y] {
									alias[y] = true
									work = append(work, y)
								}
							case *ssa.Store:
								if y.Val != x {
									continue
								}
								switch a := y.Addr.(type) {
								case *ssa.FieldAddr:
									escapes = append(escapes, y)
								case *ssa.IndexAddr:
									// an element of a longer-lived container; the argument array of a variadic call is one too
									// when the callee is append (append(keys, k) keeps the slice header, not the bytes)
									if al, isA := a.X.(*ssa.Alloc); isA && al.Comment == "varargs" {
										if !varargsOnlyFeedsNonAppend(al) {
											escapes = append(escapes, y)
										}
									} else {
										escapes = append(escapes, y)
									}
								case *ssa.Global:
									escapes = append(escapes, y)
								case *ssa.Alloc:
									if a.Heap { // a captured or escaping local cell
										escapes = append(escapes, y)
									}
								}
							case *ssa.MapUpdate:
								if y.Value == x {
									escapes = append(escapes, y)
								}
							case *ssa.Send:
								escapes = append(escapes, y)
							}
						}
					}
					kept += len(escapes)
					sub := fmt.Sprintf("%s[%d]", fk, ordinalOfValue(f, v, func(x ssa.Value) bool { return isIterKeyCall(p, x) }))
					det := ""
					if len(escapes) > 0 {
						det = "the slice returned by Key() is stored at " + p.InstrPos(escapes[0]) + " without being copied; the iterator rewrites that buffer on its next step"
					}
					c.Check(len(escapes) == 0, sub, in, f,
						"Key() of a trie iterator returns the iterator's own buffer, which Next() rewrites in place: a key that is kept (field, element, map value, channel) beyond the next step is a copy (append(dst[:0], k...), copy, string(k))", det)
				}
			}
		}
		c.Check(calls >= 5, "key-calls-found", nil, nil, "uses of trie iterator keys found", fmt.Sprintf("%d", calls))
	})
}

// varargsOnlyFeedsNonAppend: the variadic argument array is handed to a call that is not the append builtin.
func varargsOnlyFeedsNonAppend(al *ssa.Alloc) bool {
	for _, r := range *al.Referrers() {
		sl, ok := r.(*ssa.Slice)
		if !ok {
			continue
		}
		for _, r2 := range *sl.Referrers() {
			if cl, ok := r2.(*ssa.Call); ok {
				if b, isB := cl.Common().Value.(*ssa.Builtin); isB && b.Name() == "append" {
					return false
				}
			}
		}
	}
	return true
}

func ordinalOfValue(fn *ssa.Function, v ssa.Value, m func(ssa.Value) bool) int {
	n := 0
	for _, b := range fn.Blocks {
		for _, in := range b.Instrs {
			x, ok := in.(ssa.Value)
			if !ok {
				continue
			}
			if x == v {
				return n
			}
			if m(x) {
				n++
			}
		}
	}
	return n
}

// ---- (2) trie sections -----------------------------------------------------------------------------------------------------------

// outerFieldOf: the field of recvType that the address a lies in (a itself, or the struct it is a sub-field of: methods promoted
// from an embedded vector are called on &recv.field.embedded).
func outerFieldOf(a ssa.Value, recvType string) (string, bool) {
	for d := 0; d < 4; d++ {
		fa, ok := a.(*ssa.FieldAddr)
		if !ok {
			return "", false
		}
		if k := eng.FieldKeyOfAddr(fa); strings.HasPrefix(k, recvType+".") {
			return k[len(recvType)+1:], true
		}
		a = fa.X
	}
	return "", false
}

// sectionCalls: the ordered list of receiver FIELD names on which `method` is called in fn (fields of fn's receiver).
func sectionCalls(p *eng.Prog, fn *ssa.Function, recvType string, method string) []string {
	var out []string
	for _, b := range eng.BlocksT(fn) { // block order = source order for these straight-line codecs (checked by the caller through dominance)
		for _, in := range b.Instrs {
			cl, ok := in.(*ssa.Call)
			if !ok {
				continue
			}
			f := cl.Common().StaticCallee()
			if f == nil || f.Name() != method || f.Signature.Recv() == nil || len(cl.Common().Args) == 0 {
				continue
			}
			if n, ok := outerFieldOf(cl.Common().Args[0], recvType); ok {
				out = append(out, n)
			}
		}
	}
	return out
}

func inDominanceOrder(fn *ssa.Function, method, recvType string) bool {
	var calls []ssa.Instruction
	for _, b := range eng.BlocksT(fn) {
		for _, in := range b.Instrs {
			if cl, ok := in.(*ssa.Call); ok {
				if f := cl.Common().StaticCallee(); f != nil && f.Name() == method && f.Signature.Recv() != nil && len(cl.Common().Args) > 0 {
					if _, ok := outerFieldOf(cl.Common().Args[0], recvType); ok {
						calls = append(calls, in)
					}
				}
			}
		}
	}
	for i := 1; i < len(calls); i++ {
		g := calls[i].Parent()
		a, b := calls[i-1], calls[i]
		if a.Parent() != g { // one of the two sits in a helper: judged at the helpers' calls in fn
			g = fn
			if t := eng.TopOf(fn, eng.Site{Fn: a.Parent(), Instr: a}); t != nil {
				a = t
			}
			if t := eng.TopOf(fn, eng.Site{Fn: b.Parent(), Instr: b}); t != nil {
				b = t
			}
		}
		if !eng.DominatedBy(g, b, []eng.Site{{Fn: g, Instr: a}}, nil) {
			return false
		}
	}
	return true
}

func trieSectionsAgree(c *eng.Ctx) {
	p := c.P
	c.Rule("LAYOUT", "pkg/trie.builder.Write<->trie.UnmarshalBinary{sections in one order; MarshalSize adds exactly them}", func() {
		w := c.Fn(trieP + "builder.Write")
		r := c.Fn(trieP + "trie.UnmarshalBinary")
		ms := c.Fn(trieP + "builder.MarshalSize")
		ws := sectionCalls(p, w, trieP+"builder", "Write")
		rs := sectionCalls(p, r, trieP+"trie", "Unmarshal")
		ss := sectionCalls(p, ms, trieP+"builder", "MarshalSize")
		c.Check(len(ws) >= 5 && inDominanceOrder(w, "Write", trieP+"builder"), "writer-sections-ordered", nil, w, "the builder writes its sections one after the other", strings.Join(ws, ","))
		c.Check(inDominanceOrder(r, "Unmarshal", trieP+"trie"), "reader-sections-ordered", nil, r, "the trie reads its sections one after the other", strings.Join(rs, ","))
		// the value section has no vector object on the writing side (the levels' values are written in a loop): the reader's
		// trailing `values` is matched by the writer's value loop, which must come after the last section
		rsNoVal := rs
		if n := len(rs); n > 0 && rs[n-1] == "values" {
			rsNoVal = rs[:n-1]
		}
		c.Check(strings.Join(ws, ",") == strings.Join(rsNoVal, ","), "same-section-order", nil, r, "sections are read in the order they were written (fields of the same name on both sides)", fmt.Sprintf("written: %v, read: %v", ws, rs))
		c.Check(len(rs) > 0 && rs[len(rs)-1] == "values", "values-last-on-the-reading-side", nil, r, "the values are read last", strings.Join(rs, ","))
		// writer: every write of level values is after the last section write
		var lastSec ssa.Instruction
		for _, b := range w.Blocks {
			for _, in := range b.Instrs {
				if cl, ok := in.(*ssa.Call); ok {
					if f := cl.Common().StaticCallee(); f != nil && f.Name() == "Write" && f.Signature.Recv() != nil && len(cl.Common().Args) > 0 {
						if _, ok := outerFieldOf(cl.Common().Args[0], trieP+"builder"); ok {
							lastSec = in
						}
					}
				}
			}
		}
		valWrites := p.Sites(w, func(p *eng.Prog, in ssa.Instruction) bool {
			cl, ok := in.(*ssa.Call)
			return ok && cl.Common().IsInvoke() && cl.Common().Method.Name() == "Write" && eng.DependsOn(cl.Common().Args[0], func(x ssa.Value) bool {
				fa, ok := x.(*ssa.FieldAddr)
				return ok && eng.FieldKeyOfAddr(fa) == trieP+"Level.values"
			})
		})
		okV := len(valWrites) > 0 && lastSec != nil
		for _, vw := range valWrites {
			okV = okV && eng.DominatedBy(w, vw.Instr, []eng.Site{{Fn: w, Instr: lastSec}}, nil)
		}
		c.Check(okV, "values-last-on-the-writing-side", nil, w, "the level values are written after the last vector section", fmt.Sprintf("%d value writes", len(valWrites)))
		// header: two u32 on both sides, totalKeys/totalCount first
		hdrW := 0
		for _, s := range p.Sites(w, eng.AnyCallTo("encoding/binary.littleEndian.PutUint32", "encoding/binary.ByteOrder.PutUint32", "encoding/binary.bigEndian.PutUint32")) {
			_ = s
			hdrW++
		}
		hdrR := len(p.Sites(r, eng.AnyCallTo("encoding/binary.littleEndian.Uint32", "encoding/binary.ByteOrder.Uint32", "encoding/binary.bigEndian.Uint32")))
		c.Check(hdrW == 2 && hdrR == 2, "two-header-words", nil, w, "the record starts with two 32-bit words (keys, height) on both sides", fmt.Sprintf("written %d, read %d", hdrW, hdrR))
		// first header word is the key count on both sides
		firstW, firstR := "", ""
		for _, s := range p.Sites(w, eng.AnyCallTo("encoding/binary.littleEndian.PutUint32", "encoding/binary.ByteOrder.PutUint32", "encoding/binary.bigEndian.PutUint32")) {
			a := eng.CallArgs(s.Instr.(*ssa.Call))
			if firstW == "" {
				switch {
				case eng.DependsOnField(a[len(a)-1], trieP+"builder.totalCount"):
					firstW = "keys"
				case eng.DependsOnField(a[len(a)-1], trieP+"builder.height"):
					firstW = "height"
				}
			}
		}
		for _, b := range r.Blocks {
			for _, in := range b.Instrs {
				if st, ok := in.(*ssa.Store); ok && firstR == "" {
					if fa, ok := st.Addr.(*ssa.FieldAddr); ok {
						switch eng.FieldKeyOfAddr(fa) {
						case trieP + "trie.totalKeys":
							firstR = "keys"
						case trieP + "trie.height":
							firstR = "height"
						}
					}
				}
			}
		}
		c.Check(firstW == "keys" && firstR == "keys", "key-count-first", nil, w, "the key count is the first header word on both sides", "written first: "+firstW+", read first: "+firstR)
		// MarshalSize: the same section set, each once
		cnt := map[string]int{}
		for _, s := range ss {
			cnt[s]++
		}
		okS := len(ss) == len(ws)
		for _, s := range ws {
			okS = okS && cnt[s] == 1
		}
		c.Check(okS, "size-adds-each-section-once", nil, ms, "MarshalSize adds the size of every written section exactly once", fmt.Sprintf("sized: %v, written: %v", ss, ws))
	})
}

// ---- (3) bucket record -----------------------------------------------------------------------------------------------------------

func bucketRecordLayout(c *eng.Ctx) {
	p := c.P
	c.Rule("LAYOUT", "index/model.TrieBucketBuilder.Write<->TrieBucket.Unmarshal{u32 little-endian size, then the trie}", func() {
		w := c.Fn(modelP + "TrieBucketBuilder.Write")
		r := c.Fn(modelP + "TrieBucket.Unmarshal")
		put := c.One(w, eng.AnyCallTo("encoding/binary.littleEndian.PutUint32", "encoding/binary.bigEndian.PutUint32", "encoding/binary.ByteOrder.PutUint32"), "binary.…PutUint32(sizeBuf, size)")
		get := c.One(r, eng.AnyCallTo("encoding/binary.littleEndian.Uint32", "encoding/binary.bigEndian.Uint32", "encoding/binary.ByteOrder.Uint32"), "binary.…Uint32(block[:4])")
		wk, rk := strings.Join(p.CalleeKeys(put.Instr.(*ssa.Call)), ""), strings.Join(p.CalleeKeys(get.Instr.(*ssa.Call)), "")
		c.Check(strings.Contains(wk, "littleEndian") == strings.Contains(rk, "littleEndian") && strings.Contains(wk, "bigEndian") == strings.Contains(rk, "bigEndian"), "same-byte-order", put.Instr, w, "the size header is read in the byte order it was written in", wk+" vs "+rk)
		// the size written is the MarshalSize of the builder whose Write follows
		msz := c.One(w, invokeOn("", "MarshalSize"), "b.builder.MarshalSize()")
		a := eng.CallArgs(put.Instr.(*ssa.Call))
		c.Check(eng.DependsOn(a[len(a)-1], func(x ssa.Value) bool { return x == msz.Instr.(ssa.Value) }), "header-is-the-size-of-the-trie", put.Instr, w, "the header holds MarshalSize() of the trie that is written next", p.Desc(a[len(a)-1]))
		var trieWrite eng.Site
		for _, s := range p.Sites(w, invokeOn("", "Write")) {
			if cl := s.Instr.(*ssa.Call); strings.HasSuffix(p.Desc(eng.CallRecv(cl)), ".builder") {
				trieWrite = s
			}
		}
		if trieWrite.Instr == nil {
			c.Undecided("unresolved anchor: b.builder.Write(b.writer) in TrieBucketBuilder.Write")
		}
		var hdrWrite eng.Site
		for _, s := range p.Sites(w, invokeOn("", "Write")) {
			cl := s.Instr.(*ssa.Call)
			if cl.Common().IsInvoke() && len(cl.Common().Args) == 1 && eng.DependsOnField(cl.Common().Args[0], modelP+"TrieBucketBuilder.sizeBuf") {
				hdrWrite = s
			}
		}
		if hdrWrite.Instr == nil {
			c.Undecided("unresolved anchor: b.writer.Write(b.sizeBuf) in TrieBucketBuilder.Write")
		}
		okH, _ := eng.OkDominates(w, hdrWrite.Instr, trieWrite.Instr)
		c.Check(okH && eng.DominatedBy(w, hdrWrite.Instr, []eng.Site{put}, nil) && eng.DominatedBy(w, put.Instr, []eng.Site{msz}, nil), "size-then-header-then-trie", trieWrite.Instr, w, "MarshalSize -> header bytes -> header written (ok) -> trie written", "")
		// header width: the buffer handed to the writer is 4 bytes (made with 4, or sliced [0:4])
		okW := false
		for _, b := range eng.BlocksT(c.Fn(modelP + "NewTrieBucketBuilder")) {
			for _, in := range b.Instrs {
				if mk, ok := in.(*ssa.MakeSlice); ok {
					if k, isC := eng.ConstInt(mk.Len); isC && k == 4 {
						okW = true
					}
				}
				if al, ok := in.(*ssa.Alloc); ok { // make([]byte, 4) with a constant length is an array cell that is sliced
					if arr, isArr := al.Type().Underlying().(*types.Pointer).Elem().Underlying().(*types.Array); isArr && arr.Len() == 4 {
						okW = true
					}
				}
			}
		}
		c.Check(okW, "header-is-four-bytes", nil, w, "the size buffer written as the header is 4 bytes long", "")
		// reader: trie = block[4 : 4+size], entry buffer = block[:4+size], rest = block[4+size:]
		sizeV := get.Instr.(ssa.Value)
		um := c.One(r, invokeOn("", "UnmarshalBinary"), "tree.UnmarshalBinary(block[4:end])")
		ua := eng.CallArgs(um.Instr.(*ssa.Call))
		sl, isSl := eng.Unwrap(ua[0]).(*ssa.Slice)
		okT := false
		if isSl && sl.Low != nil && sl.High != nil {
			lo, isC := eng.ConstInt(sl.Low)
			hb, hoff := eng.SplitConstOffset(sl.High)
			okT = isC && lo == 4 && hoff == 4 && eng.DependsOn(hb, func(x ssa.Value) bool { return x == sizeV }) || isC && lo == 4 && sumOfFourAndSize(sl.High, sizeV)
		}
		c.Check(okT, "trie-is-the-size-bytes-after-the-header", um.Instr, r, "the trie is decoded from exactly `size` bytes after the 4-byte header", "")
		okB, okRest := false, false
		for _, b := range r.Blocks {
			for _, in := range b.Instrs {
				s2, ok := in.(*ssa.Slice)
				if !ok {
					continue
				}
				if s2.Low == nil && s2.High != nil && sumOfFourAndSize(s2.High, sizeV) {
					for _, ref := range *s2.Referrers() {
						if st, isSt := ref.(*ssa.Store); isSt {
							if fa, isF := st.Addr.(*ssa.FieldAddr); isF && eng.FieldKeyOfAddr(fa) == modelP+"trieEntry.buf" {
								okB = true
							}
						}
					}
				}
				if s2.High == nil && s2.Low != nil && sumOfFourAndSize(s2.Low, sizeV) {
					okRest = true
				}
			}
		}
		c.Check(okB, "kept-record-starts-at-the-header", nil, r, "the raw record kept for re-emission (trieEntry.buf) is block[:4+size]: it includes the size header, because TrieBucket.Write re-emits it as a whole record", "")
		c.Check(okRest, "next-record-after-this-one", nil, r, "the next record starts right after this one (block[4+size:])", "")
		// Write re-emits raw records only through trieEntry.buf
		tw := c.Fn(modelP + "TrieBucket.Write")
		raw := 0
		for i, s := range p.Sites(tw, invokeOn("", "Write")) {
			cl := s.Instr.(*ssa.Call)
			if !cl.Common().IsInvoke() || len(cl.Common().Args) != 1 {
				continue
			}
			raw++
			c.Check(eng.DependsOnField(cl.Common().Args[0], modelP+"trieEntry.buf"), fmt.Sprintf("raw-record-is-the-kept-one[%d]", i), s.Instr, tw, "a trie that is not re-built is written as the record it was read from", p.Desc(cl.Common().Args[0]))
		}
		c.Check(raw >= 1, "raw-writes-found", nil, tw, "raw re-emission found", "")
	})
}

// sumOfFourAndSize: v is 4 + size (in either order, through conversions / a local).
func sumOfFourAndSize(v ssa.Value, size ssa.Value) bool {
	base, off := eng.SplitConstOffset(v)
	if off == 4 && base != nil && eng.DependsOn(base, func(x ssa.Value) bool { return x == size }) {
		if _, isB := eng.Unwrap(base).(*ssa.BinOp); !isB {
			return true
		}
	}
	return false
}

// ---- (4) pooled trie ------------------------------------------------------------------------------------------------------------

func pooledTrieReloaded(c *eng.Ctx) {
	p := c.P
	c.Rule("RESET", "pkg/trie.trie.UnmarshalBinary{a pooled trie is completely re-loaded}", func() {
		f := c.Fn(trieP + "trie.UnmarshalBinary")
		pk := p.Package("pkg/trie")
		if pk == nil {
			c.Undecided("pkg/trie not loaded")
		}
		obj := pk.Types.Scope().Lookup("trie")
		if obj == nil {
			c.Undecided("type trie not found")
		}
		st, ok := obj.Type().Underlying().(*types.Struct)
		if !ok {
			c.Undecided("trie is not a struct")
		}
		assigned := map[string]bool{}
		for _, b := range eng.BlocksT(f) {
			for _, in := range b.Instrs {
				switch x := in.(type) {
				case *ssa.Store:
					if fa, ok := x.Addr.(*ssa.FieldAddr); ok && strings.HasPrefix(eng.FieldKeyOfAddr(fa), trieP+"trie.") {
						assigned[strings.TrimPrefix(eng.FieldKeyOfAddr(fa), trieP+"trie.")] = true
					}
				case *ssa.Call:
					if g := x.Common().StaticCallee(); g != nil && g.Name() == "Unmarshal" && len(x.Common().Args) > 0 {
						if n, ok := outerFieldOf(x.Common().Args[0], trieP+"trie"); ok {
							assigned[n] = true
						}
					}
				}
			}
		}
		for i := 0; i < st.NumFields(); i++ {
			n := st.Field(i).Name()
			c.Check(assigned[n], "reloaded:"+n, nil, f, "UnmarshalBinary assigns (or unmarshals into) every field of the trie: tries come from a pool and carry the previous dictionary", "field "+n+" keeps its old content")
		}
		// the pool hands tries only to callers that load them
		gets := p.SitesInProgram(eng.AnyCallTo(trieP+"GetTrie", "var:index/model.getTrieFn"))
		for i, g := range gets {
			if strings.HasPrefix(p.FuncKey(g.Fn), trieP) {
				continue
			}
			v := g.Instr.(ssa.Value)
			loaded := false
			for _, r := range *v.Referrers() {
				if cl, ok := r.(*ssa.Call); ok && cl.Common().IsInvoke() && cl.Common().Method.Name() == "UnmarshalBinary" {
					loaded = true
				}
			}
			c.Check(loaded, fmt.Sprintf("pooled-trie-loaded-before-use[%d]", i), g.Instr, g.Fn, "a trie taken from the pool is loaded with UnmarshalBinary by the function that took it", "")
		}
		c.Check(len(gets) >= 1, "pool-users-found", nil, nil, "users of the trie pool found", "")
	})
}

// ---- (5) a bucket is the union of its tries -----------------------------------------------------------------------------------------

func bucketIsTheUnionOfItsTries(c *eng.Ctx) {
	p := c.P
	c.Rule("UNION", "index/model.TrieBucket{every look-up consults every trie of the bucket}", func() {
		for _, m := range []string{"GetValues", "FindValuesByRegexp", "FindValuesByLike", "Write"} {
			f := c.Fn(modelP + "TrieBucket." + m)
			c.Check(len(p.Sites(f, eng.LoadField(modelP+"TrieBucket.kvs"))) > 0, m+":reads-the-trie-list", nil, f, m+" ranges over the bucket's tries", "")
			visitsEveryElement(c, f, m+":no-trie-or-key-passed-over", m+" leaves none of its loops (over the tries, over the keys of a trie) early except with an error: a trie or a key that is passed over is a pair the dictionary holds and does not answer with")
		}
		// GetValue: leaves the loop only with the found value
		gv := c.Fn(modelP + "TrieBucket.GetValue")
		get := c.One(gv, invokeOn("", "Get"), "kvs.tree.Get(key)")
		okv := get.Instr.(ssa.Value)
		found, _ := eng.BoolCheckEdges(gv, okv)
		hdr := innermostLoop(gv, get.Instr.Block())
		if hdr == nil {
			c.Undecided("unrecognised shape: tree.Get is not inside a loop over the tries")
		}
		w, early := eng.PathExists(eng.PathQuery{Fn: gv, After: get.Instr,
			Target:  func(x ssa.Instruction) bool { _, isR := x.(*ssa.Return); return isR },
			Blocked: func(x ssa.Instruction) bool { return x.Block() == hdr && x == hdr.Instrs[0] },
			Edge:    eng.ForbidEdges(found)})
		det := ""
		if early {
			det = "the return at " + p.InstrPos(w) + " is reachable from a look-up that did not find the key, without trying the next trie"
		}
		c.Check(len(found) > 0 && !early, "GetValue:leaves-only-when-found", get.Instr, gv, "the exact look-up stops at the first trie that HAS the key; a miss moves on to the next trie", det)
		c.Check(len(p.Sites(gv, eng.LoadField(modelP+"TrieBucket.kvs"))) > 0, "GetValue:reads-the-trie-list", nil, gv, "GetValue ranges over the bucket's tries", "")
		// Suggest: one iterator per trie, all handed to the merged iterator
		sg := c.Fn(modelP + "TrieBucket.Suggest")
		mk := c.One(sg, invokeOn("", "NewPrefixIterator"), "kv.tree.NewPrefixIterator(prefix)")
		everyIterationPasses(c, sg, mk, "Suggest:an-iterator-per-trie", "every trie of the bucket contributes an iterator to the ordered enumeration")
		mi := c.One(sg, eng.CallTo(modelP+"NewMergedIterator"), "NewMergedIterator(its)")
		_ = mi
		// initQueue: every valid iterator is queued
		iq := c.Fn(modelP + "mergedIterator.initQueue")
		visitsEveryElement(c, iq, "initQueue:no-iterator-passed-over", "every iterator that has a key enters the queue")
	})

	c.Rule("UNION", "index/v1.indexKVMerger.Merge / indexKVReader.GetBucket{every input record is loaded, written between Prepare and Commit}", func() {
		mg := c.Fn("index/v1.indexKVMerger.Merge")
		um := c.One(mg, eng.AnyCallTo(modelP+"TrieBucket.Unmarshal"), "trieBucket.Unmarshal(bucket)")
		everyIterationPasses(c, mg, um, "merge:every-input-unmarshalled", "every input bucket of the merge is loaded into the merged bucket")
		visitsEveryElement(c, mg, "merge:no-input-passed-over", "the loop over the inputs is left early only with an error")
		wr := c.One(mg, eng.AnyCallTo(modelP+"TrieBucket.Write"), "trieBucket.Write(m.kvWriter)")
		pr := c.One(mg, invokeOn("", "Prepare"), "m.kvWriter.Prepare(bucketID)")
		cm := c.One(mg, invokeOn("", "Commit"), "m.kvWriter.Commit()")
		okW, why := eng.OkDominates(mg, wr.Instr, cm.Instr)
		c.Check(okW, "merge:commit-only-after-a-successful-write", cm.Instr, mg, "the merged bucket is committed only after it was written without error", why)
		_, late := eng.Reaches(mg, wr.Instr, []eng.Site{um}, nil)
		c.Check(eng.DominatedBy(mg, wr.Instr, []eng.Site{pr}, nil) && !late, "merge:load<prepare<write", wr.Instr, mg, "the inputs are loaded before the write, and Prepare(bucket) precedes it", "")
		c.Check(isParam(eng.CallArgs(pr.Instr.(*ssa.Call))[0], "bucketID"), "merge:prepared-under-the-merged-key", pr.Instr, mg, "the merged bucket is written under the key being merged", "")
		errorsReturned(c, mg, um, "merge:load-error-returned")
		// the reader: every value the snapshot hands over is unmarshalled into the one bucket
		gb := c.Fn("index/v1.indexKVReader.GetBucket")
		cnt := 0
		for _, cf := range closuresT(gb) {
			for _, s := range p.SitesDirect(cf, eng.AnyCallTo(modelP+"TrieBucket.Unmarshal")) {
				cnt++
				ok := true
				for _, e := range eng.SuccessReturns(cf) {
					if !eng.DominatedBy(cf, e, []eng.Site{s}, nil) {
						ok = false
					}
				}
				c.Check(ok, fmt.Sprintf("reader:every-value-loaded[%d]", cnt), s.Instr, cf, "every stored value of the bucket (one per table file) is loaded into the bucket before the callback reports success", "")
			}
		}
		c.Check(cnt >= 1, "reader:load-callback-found", nil, gb, "the load callback unmarshals", "")
	})

	c.Rule("UNION", "index/model.TrieBucket.Write{every trie is written raw or re-built from all its pairs}", func() {
		f := c.Fn(modelP + "TrieBucket.Write")
		// each iteration over b.kvs either writes the record or appends the trie to the pending list
		var pend []eng.Site
		for _, b := range eng.BlocksT(f) {
			for _, in := range b.Instrs {
				if cl, ok := in.(*ssa.Call); ok {
					if bi, isB := cl.Common().Value.(*ssa.Builtin); isB && bi.Name() == "append" && strings.Contains(cl.Type().String(), "tries") {
						pend = append(pend, eng.Site{Fn: f, Instr: in})
					}
				}
			}
		}
		raws := p.Sites(f, func(p *eng.Prog, in ssa.Instruction) bool {
			cl, ok := in.(*ssa.Call)
			return ok && cl.Common().IsInvoke() && cl.Common().Method.Name() == "Write" && len(cl.Common().Args) == 1 && eng.DependsOnField(cl.Common().Args[0], modelP+"trieEntry.buf")
		})
		c.Check(len(pend) >= 1 && len(raws) >= 1, "raw-or-pending", nil, f, "a trie is either written raw or put on the pending list", fmt.Sprintf("%d pending appends, %d raw writes", len(pend), len(raws)))
		// in the first loop: from the loop's size test, the next iteration is reached only through a raw write or the append
		for i, sz := range p.Sites(f, invokeOn(".tree", "Size")) {
			if innermostLoop(f, sz.Instr.Block()) == nil {
				continue
			}
			hdr := innermostLoop(f, sz.Instr.Block())
			skip := false
			_, found := eng.PathExists(eng.PathQuery{Fn: f, After: sz.Instr,
				Target:  func(x ssa.Instruction) bool { return x.Block() == hdr && x == hdr.Instrs[0] },
				Blocked: func(x ssa.Instruction) bool { return inSites(x, pend) || inSites(x, raws) }})
			skip = found
			c.Check(!skip, fmt.Sprintf("no-trie-dropped[%d]", i), sz.Instr, f, "no trie of the bucket reaches the next iteration without having been written or queued for the re-build", "a path from the size test to the next iteration passes neither the raw write nor the pending append")
		}
		// the re-build takes key AND value of every position of every pending trie
		k := c.One(f, eng.AnyCallTo(trieP+"PrefixIterator.Key"), "itr.Key()")
		v := c.One(f, eng.AnyCallTo(trieP+"PrefixIterator.Value"), "itr.Value()")
		// (the collecting loop may sit in a helper of Write: each site is judged in the function it is written in)
		everyIterationPasses(c, k.Instr.Parent(), k, "rebuild:every-key-taken", "every key of a pending trie goes into the re-built trie")
		everyIterationPasses(c, v.Instr.Parent(), v, "rebuild:every-id-taken", "every id of a pending trie goes into the re-built trie, in step with its key")
		bw := c.One(f, eng.AnyCallTo(modelP+"TrieBucketBuilder.Write"), "builder.Write(keys, ids)")
		okR := false
		for _, r := range eng.SuccessReturns(f) {
			_ = r
		}
		// the result of the re-build is the result of Write
		for _, b := range f.Blocks {
			for _, in := range b.Instrs {
				if r, ok := in.(*ssa.Return); ok && len(r.Results) == 1 && eng.DependsOn(r.Results[0], func(x ssa.Value) bool { return x == bw.Instr.(ssa.Value) }) {
					okR = true
				}
			}
		}
		c.Check(okR, "rebuild:error-returned", bw.Instr, f, "a failed re-build fails the write", "")
	})
}

func inSites(x ssa.Instruction, ss []eng.Site) bool {
	for _, s := range ss {
		if s.Instr == x {
			return true
		}
	}
	return false
}

// errorsReturned: the error result of call site s is returned by fn on its non-nil edge.
func errorsReturned(c *eng.Ctx, fn *ssa.Function, s eng.Site, sub string) {
	v, ok := s.Instr.(ssa.Value)
	if !ok {
		c.Check(false, sub, s.Instr, fn, "the error is returned", "not a value")
		return
	}
	_, errEdges := eng.ErrCheckEdges(fn, v)
	okE := len(errEdges) > 0
	for _, e := range errEdges {
		succ := e.B.Succs[e.Succ]
		r, isR := succ.Instrs[len(succ.Instrs)-1].(*ssa.Return)
		if !isR || eng.ReturnsNilError(r) {
			okE = false
		}
	}
	c.Check(okE, sub, s.Instr, fn, "a failed load fails the operation (the error edge returns a non-nil error)", fmt.Sprintf("%d error edges", len(errEdges)))
}

// ---- (6) sorted together, builder reset ------------------------------------------------------------------------------------------

func sortedTogetherAndReset(c *eng.Ctx) {
	p := c.P
	c.Rule("SYMMETRY", "index/model.KVs.Swap{keys and ids move together} / TrieBucketBuilder.Write{sorted, reset, built}", func() {
		sw := c.Fn(modelP + "KVs.Swap")
		// every element store in Swap: into Keys[i] comes Keys[j] and vice versa; same for IDs
		type es struct{ fld, idx, srcFld, srcIdx string }
		var stores []es
		for _, b := range sw.Blocks {
			for _, in := range b.Instrs {
				st, ok := in.(*ssa.Store)
				if !ok {
					continue
				}
				ia, ok := st.Addr.(*ssa.IndexAddr)
				if !ok {
					continue
				}
				fld := ""
				switch {
				case eng.DependsOnField(ia.X, modelP+"KVs.Keys"):
					fld = "Keys"
				case eng.DependsOnField(ia.X, modelP+"KVs.IDs"):
					fld = "IDs"
				}
				src := ""
				srcIdx := ""
				if u, ok := eng.Unwrap(st.Val).(*ssa.UnOp); ok && u.Op == token.MUL {
					if ia2, ok := u.X.(*ssa.IndexAddr); ok {
						switch {
						case eng.DependsOnField(ia2.X, modelP+"KVs.Keys"):
							src = "Keys"
						case eng.DependsOnField(ia2.X, modelP+"KVs.IDs"):
							src = "IDs"
						}
						srcIdx = p.Desc(ia2.Index)
					}
				}
				stores = append(stores, es{fld, p.Desc(ia.Index), src, srcIdx})
			}
		}
		pairs := map[string]bool{}
		okSw := len(stores) == 4
		for _, s := range stores {
			okSw = okSw && s.fld != "" && s.fld == s.srcFld && s.idx != s.srcIdx
			pairs[s.fld+":"+s.idx+"<-"+s.srcIdx] = true
		}
		okSw = okSw && len(pairs) == 4
		c.Check(okSw, "swap-exchanges-both-slices", nil, sw, "Swap(i, j) exchanges Keys[i] with Keys[j] AND IDs[i] with IDs[j]: sorting the keys alone would hand every key the id of another", fmt.Sprintf("%v", stores))
		ls := c.Fn(modelP + "KVs.Less")
		c.Check(len(p.Sites(ls, eng.CallTo("bytes.Compare"))) == 1, "less-is-bytewise", nil, ls, "keys are ordered bytewise (the order the trie builder expects)", "")

		w := c.Fn(modelP + "TrieBucketBuilder.Write")
		srt := c.One(w, eng.CallTo("sort.Sort"), "sort.Sort(kvs)")
		rs := c.One(w, invokeOn(".builder", "Reset"), "b.builder.Reset()")
		bd := c.One(w, invokeOn(".builder", "Build"), "b.builder.Build(keys, ids)")
		c.Check(eng.DominatedBy(w, bd.Instr, []eng.Site{srt}, nil), "sorted-before-built", bd.Instr, w, "the pairs are sorted before any trie is built from them", "")
		_, stale := eng.Reaches(w, bd.Instr, []eng.Site{bd}, []eng.Site{rs})
		c.Check(eng.DominatedBy(w, bd.Instr, []eng.Site{rs}, nil) && !stale, "reset-before-every-build", bd.Instr, w, "the reused trie builder is reset before every block is built (no levels of the previous block survive)", "")
		// Build gets the same window of keys and ids
		a := eng.CallArgs(bd.Instr.(*ssa.Call))
		okWin := false
		if s1, ok := eng.Unwrap(a[0]).(*ssa.Slice); ok {
			if s2, ok := eng.Unwrap(a[1]).(*ssa.Slice); ok {
				okWin = s1.Low != nil && s2.Low != nil && s1.High != nil && s2.High != nil && eng.SameValue(s1.Low, s2.Low) && eng.SameValue(s1.High, s2.High) &&
					eng.DependsOnField(s1.X, modelP+"KVs.Keys") && eng.DependsOnField(s2.X, modelP+"KVs.IDs")
			}
		}
		c.Check(okWin, "same-window-of-keys-and-ids", bd.Instr, w, "a block is built from the same index window of the sorted keys and of the sorted ids", "")
		// the windows cover every key: each window ends at its start plus the stride the NEXT window starts from (contiguous), and
		// the end is bounded by the number of keys (the last block is cut at len(keys), never short of it)
		if s1, ok := eng.Unwrap(a[0]).(*ssa.Slice); ok && s1.Low != nil && s1.High != nil {
			lenBound := false
			var strideEnd []ssa.Value
			for _, src := range leafSources(s1.High) {
				if cl, isC := src.(*ssa.Call); isC {
					if bi, isB := cl.Common().Value.(*ssa.Builtin); isB && bi.Name() == "len" {
						lenBound = true
						continue
					}
					if bi, isB := cl.Common().Value.(*ssa.Builtin); isB && bi.Name() == "min" {
						for _, ma := range cl.Common().Args {
							if lc, isL := eng.Unwrap(ma).(*ssa.Call); isL {
								if lb, isLB := lc.Common().Value.(*ssa.Builtin); isLB && lb.Name() == "len" {
									lenBound = true
									continue
								}
							}
							strideEnd = append(strideEnd, ma)
						}
						continue
					}
				}
				strideEnd = append(strideEnd, src)
			}
			c.Check(lenBound, "last-block-reaches-the-last-key", bd.Instr, w,
				"the end of a block's window is cut at len(keys): with a window size that does not divide the key count the last keys are otherwise in no block - they are the LARGEST keys of the bucket and are silently not written",
				"the window end never takes the value len(keys): "+p.Desc(s1.High))
			// contiguity: end = start + S where start = i * S (or start advances by S)
			contiguous := len(strideEnd) > 0
			for _, e := range strideEnd {
				bo, isB := eng.Unwrap(e).(*ssa.BinOp)
				if !isB || bo.Op != token.ADD {
					contiguous = false
					continue
				}
				st, sz := bo.X, bo.Y
				if !eng.SameValue(st, s1.Low) {
					st, sz = sz, st
				}
				if !eng.SameValue(st, s1.Low) {
					contiguous = false
					continue
				}
				// the start is i * S' with S' the same size (same constant / same field), or a counter advanced by it
				okStride := false
				if mu, isM := eng.Unwrap(s1.Low).(*ssa.BinOp); isM && mu.Op == token.MUL {
					for _, f2 := range []ssa.Value{mu.X, mu.Y} {
						if eng.SameValue(f2, sz) || p.Desc(f2) == p.Desc(sz) && p.Desc(sz) != "?" {
							okStride = true
						}
					}
				}
				if ph, isP := eng.Unwrap(s1.Low).(*ssa.Phi); isP {
					for _, pe := range ph.Edges {
						if b2, isB2 := eng.Unwrap(pe).(*ssa.BinOp); isB2 && b2.Op == token.ADD && (p.Desc(b2.Y) == p.Desc(sz) || p.Desc(b2.X) == p.Desc(sz)) {
							okStride = true
						}
						if eng.SameValue(pe, s1.High) {
							okStride = true // next start = this end
						}
					}
				}
				if !okStride {
					contiguous = false
				}
			}
			c.Check(contiguous, "windows-are-contiguous", bd.Instr, w,
				"a window is [start, start+S) and the next window starts S further (one size for stride and length): no key between two blocks is skipped", "window "+p.Desc(s1.Low)+" .. "+p.Desc(s1.High))
		}
	})
}
