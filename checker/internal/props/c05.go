package props

import (
	"fmt"
	"go/constant"
	"go/token"
	"sort"
	"strings"

	"golang.org/x/tools/go/ssa"

	"lincheck/internal/eng"
)

const (
	qT       = "pkg/queue.queue"
	qMu      = qT + ".rwMutex"
	qPut     = qT + ".Put"
	qAlloc   = qT + ".alloc"
	qPersist = qT + ".persistMetaOfMessage"
	pgIface  = "pkg/queue/page.MappedPage"
)

func init() {
	register(eng.Property{
		ID:    "C05",
		Title: "WAL queue: an appended message keeps its sequence and its bytes",
		Explanation: "Decides the structural conditions the append protocol of pkg/queue rests on: (1) the cursor advance, data write, " +
			"index entry, meta page write and sequence publication of one Put lie in ONE uninterrupted write hold of queue.rwMutex; " +
			"(2) on every path data bytes are written before the index entry, the index entry before the meta page, the meta page before " +
			"appendedSeq is published and consumers are signalled; (3) the published sequence is appendedSeq+1 read in that hold, and the " +
			"index slot/meta value are computed from the same value; (4) writer and all readers of an index entry and of the meta page use the " +
			"same (offset,width) for the same role, same stride and modulus; (5) the reopen cursor derives from the entry of appendedSeq; " +
			"(6) Get touches pages only after validateSequence succeeded, whose success implies ack < seq <= appended; (7) the cursor and " +
			"sequence fields are written only by the append path, the constructor path and the explicit reset.",
		NotDecided: "byte equality of what is read back, mmap/OS durability, page roll-over arithmetic, behaviour of a torn page after a crash.",
		MinObls:    40,
		Run:        runC05,
	})
}

func runC05(c *eng.Ctx) {
	p := c.P
	c.Rule("GUARD", qT+".SetAcknowledgedSeq", func() { queueAckGuard(c) }) // C05-m21: shared with C06
	pageFileRemovedOnlyByTruncation(c)
	getRefusesNothingTheAppendAdmitted(c)
	everyPageFileIsLoaded(c)
	replicaLogTestAndAppendAtomic(c)

	// ---- 1. ATOMIC: one critical section for the whole append -------------------------------
	c.Rule("ATOMIC", qPut+"{cursor,data,index,meta,publish}", func() {
		put := c.Fn(qPut)
		ls := p.Locks(put, nil)
		effects := eng.Any(
			eng.StoreField(qT+".messageOffset", qT+".dataPageIndex", qT+".dataPage", qT+".indexPage", qT+".indexPageIndex", qT+".appendedSeq"),
			invokeOn(".dataPage", "WriteBytes"), invokeOn("#1", "WriteBytes"), // data bytes (page value returned by alloc)
			invokeOn(".indexPage", "PutUint64", "PutUint32"),
			invokeOn(".metaPage", "PutUint64"),
		)
		ds := p.DeepSites(put, effects, 3, false)
		if len(ds) < 8 {
			c.Undecided("expected >= 8 append effects reachable from Put, found %d", len(ds))
		}
		// also the WriteBytes call on the page handed out by alloc, whatever its descriptor
		wb := c.Some(put, func(p *eng.Prog, in ssa.Instruction) bool {
			cl, ok := in.(*ssa.Call)
			return ok && cl.Common().IsInvoke() && cl.Common().Method.Name() == "WriteBytes"
		}, "WriteBytes of the message data")
		tops := map[ssa.Instruction]bool{}
		var first ssa.Instruction
		for _, d := range ds {
			if !tops[d.Top()] {
				tops[d.Top()] = true
			}
		}
		for _, s := range wb {
			tops[s.Instr] = true
		}
		// every pair of effects lies in one uninterrupted hold (the effects need not be ordered by dominance: with the page
		// roll-over written in place the first cursor store sits on a branch)
		_ = first
		var list []ssa.Instruction
		for t := range tops {
			list = append(list, t)
		}
		sort.Slice(list, func(i, j int) bool {
			return p.InstrPos(list[i])+shortInstr(p, list[i]) < p.InstrPos(list[j])+shortInstr(p, list[j])
		})
		for _, t := range list {
			ok, why := ls.At(t).HasField(qMu, true), "queue.rwMutex is not held (write) at this effect"
			for _, o := range list {
				if !ok {
					break
				}
				if o == t {
					continue
				}
				if same, w := ls.SameHold(t, o, qMu, true); !same {
					ok, why = false, w
				}
			}
			c.Check(ok, "effect:"+shortInstr(p, t), t, put,
				"every effect of one append (cursor advance, data write, index entry, meta write, sequence publication) happens inside one uninterrupted write hold of queue.rwMutex taken in Put",
				why)
		}
		// helpers on the path must not release the lock themselves
		seen := map[*ssa.Function]bool{}
		for _, d := range ds {
			for _, in := range d.Chain[1:] {
				f := in.Parent()
				if seen[f] {
					continue
				}
				seen[f] = true
				rel := false
				for _, op := range p.Locks(f, nil).Ops() {
					if op.Field == qMu {
						rel = true
					}
				}
				c.Check(!rel, "helper-keeps-lock:"+p.FuncKey(f), nil, f,
					"a helper of the append path does not lock/unlock queue.rwMutex itself (the caller's hold spans it)",
					"the helper operates queue.rwMutex, so the append is split into several holds (or self-deadlocks)")
				ok, why, n := p.HeldAtAllCallers(f, qMu, true, 2)
				c.Check(ok, "helper-called-locked:"+p.FuncKey(f), nil, f,
					"every caller of the append helper holds queue.rwMutex in write mode", fmt.Sprintf("%s (%d callers ok)", why, n))
			}
		}
	})

	// ---- 2. ORDER: data -> index entry -> meta page -> publish -> signal ---------------------
	putPublicationOrder(c)

	// ---- 3. PROV: dense sequence, one value for slot / meta / publication ---------------------
	c.Rule("PROV", qPut+"{seq=appendedSeq+1}", func() {
		put := c.Fn(qPut)
		pubs := p.DeepSites(put, eng.StoreField(qT+".appendedSeq"), 3, false)
		if len(pubs) != 1 {
			c.Undecided("expected exactly one publication of appendedSeq under Put, found %d", len(pubs))
		}
		pub := pubs[0].Leaf()
		fn := pub.Parent()
		v, how := storedValue(pub)
		var seqDesc string
		var same []ssa.Value
		isSeq := func(x ssa.Value) bool {
			for _, y := range same {
				if x == y {
					return true
				}
			}
			return false
		}
		switch how {
		case "Inc":
			seqDesc = ""
			c.Check(true, "publish", pub, fn, "sequence advanced by exactly one (Inc)", "")
		case "Add":
			n, ok := eng.ConstInt(v)
			c.Check(ok && n == 1, "publish", pub, fn, "sequence advanced by exactly one", "Add with a value other than the constant 1")
		default:
			// the publication written in a helper that is handed the sequence: judged on the value its one caller passes
			same = []ssa.Value{v}
			for hop := 0; hop < 3; hop++ {
				pa, isP := eng.Unwrap(v).(*ssa.Parameter)
				if !isP {
					break
				}
				callers := p.StaticCallers(pa.Parent())
				if len(callers) != 1 {
					break
				}
				cl, isCall := callers[0].Instr.(*ssa.Call)
				idx := -1
				for i, q := range pa.Parent().Params {
					if q == pa {
						idx = i
					}
				}
				if !isCall || idx < 0 || idx >= len(cl.Call.Args) {
					break
				}
				v = cl.Call.Args[idx]
				fn = cl.Parent()
				same = append(same, v)
			}
			d := p.Desc(v)
			seqDesc = d
			okd := strings.HasSuffix(d, ".appendedSeq+1)") && strings.HasPrefix(d, "(") || strings.HasPrefix(d, "(1+") && strings.HasSuffix(d, ".appendedSeq)")
			c.Check(okd, "publish", pub, fn,
				"the published sequence is appendedSeq+1 (dense, grows by one per successful append)",
				"the stored value is "+d)
			// freshness: the load of appendedSeq it derives from is not followed by another store before the publication
			var load ssa.Instruction
			eng.WalkExpr(v, func(x ssa.Value) bool {
				if in, ok := x.(ssa.Instruction); ok && eng.LoadField(qT+".appendedSeq")(p, in) {
					load = in
				}
				return true
			})
			if load != nil {
				others := p.Sites(fn, eng.StoreField(qT+".appendedSeq"))
				var between []eng.Site
				for _, o := range others {
					if o.Instr != pub {
						between = append(between, o)
					}
				}
				_, found := eng.Reaches(fn, load, between, []eng.Site{{Fn: fn, Instr: pub}})
				c.Check(!found, "publish-fresh", load, fn, "no other store to appendedSeq between its read and the publication", "appendedSeq is stored between the read and the publication")
			}
		}
		if seqDesc != "" {
			// index slot and meta value computed from the same value
			for i, s := range p.Sites(fn, invokeOn(".indexPage", "PutUint64", "PutUint32")) {
				args := eng.CallArgs(s.Instr.(*ssa.Call))
				dep := eng.DependsOn(args[1], isSeq)
				c.Check(dep, fmt.Sprintf("index-slot-from-seq[%d]", i), s.Instr, fn,
					"the index slot written is computed from the very sequence value that is published", "offset is "+p.Desc(args[1]))
			}
			for i, s := range p.Sites(fn, invokeOn(".metaPage", "PutUint64")) {
				args := eng.CallArgs(s.Instr.(*ssa.Call))
				dep := eng.DependsOn(args[0], isSeq)
				c.Check(dep, fmt.Sprintf("meta-value-is-seq[%d]", i), s.Instr, fn,
					"the appended sequence persisted in the meta page is the value that is published", "value is "+p.Desc(args[0]))
			}
		}
		// the data-page cursor returned by alloc is the pre-advance offset and the advance is by dataLen
		alloc := allocBody(c)
		adv := c.Some(alloc, eng.StoreField(qT+".messageOffset"), "store to messageOffset")
		okAdv := false
		for _, s := range adv {
			if st, ok := s.Instr.(*ssa.Store); ok {
				if bo, isB := eng.Unwrap(st.Val).(*ssa.BinOp); isB && bo.Op == token.ADD {
					x, y := bo.X, bo.Y
					if !eng.DependsOnField(x, qT+".messageOffset") {
						x, y = y, x
					}
					// the amount: the length parameter of alloc, or len(data) where the logic is written in Put
					_, isParam := eng.Unwrap(y).(*ssa.Parameter)
					isLen := eng.DependsOn(y, func(z ssa.Value) bool {
						cl, ok := z.(*ssa.Call)
						if !ok {
							return false
						}
						b, ok := cl.Common().Value.(*ssa.Builtin)
						return ok && b.Name() == "len"
					})
					if eng.DependsOnField(x, qT+".messageOffset") && (isParam || isLen) {
						okAdv = true
					}
				}
			}
		}
		c.Check(okAdv, "cursor-advance", adv[len(adv)-1].Instr, alloc, "the data cursor advances by the message length", "no store messageOffset = … + dataLen found")
	})

	// ---- 3b. a failed page roll-over leaves the write cursor where it was ------------------------------------------
	c.Rule("GUARD", "pkg/queue.queue{failed page acquisition leaves the cursor}", func() { failedAcquireLeavesCursor(c) })

	// ---- 3c. index page number and in-page slot are computed from the same sequence --------------------------------
	c.Rule("SYMMETRY", "pkg/queue.queue{page = s / N, slot = s % N for one s}", func() { pageSlotOfOneSequence(c) })

	// ---- 3d. the cached index page is the page of the sequence being written ----------------------------------------------------------
	c.Rule("GUARD", qPersist+"{cached index page = page of the sequence}", func() { cachedIndexPageRule(c) })

	// ---- 3e. a mapped data page is at least as large as the position at which alloc rolls over -------------------------------------
	c.Rule("GUARD", "pkg/queue.NewQueue{data page size >= roll-over threshold}", func() {
		dps, ok := p.ConstInt64("pkg/queue", "dataPageSize")
		if !ok {
			c.Undecided("constant pkg/queue.dataPageSize not found")
		}
		// the threshold alloc and Put are written against is that constant
		for _, g := range []*ssa.Function{allocBody(c), c.Fn(qPut)} {
			fk := p.FuncKey(g)
			n := 0
			for _, b := range eng.BlocksT(g) {
				for _, in := range b.Instrs {
					if bo, ok := in.(*ssa.BinOp); ok && (bo.Op == token.GTR || bo.Op == token.LSS || bo.Op == token.GEQ || bo.Op == token.LEQ) {
						if k, isC := eng.ConstInt(bo.Y); isC && k == dps {
							n++
						}
						if k, isC := eng.ConstInt(bo.X); isC && k == dps {
							n++
						}
					}
				}
			}
			c.Check(n > 0, fk+":limit-is-dataPageSize", nil, g, fk+" bounds a message / the write cursor by the constant dataPageSize", "no comparison with dataPageSize found")
		}
		f := c.Fn("pkg/queue.NewQueue")
		var mk *ssa.Call
		for _, s := range c.Some(f, eng.CallTo("var:pkg/queue.newPageFactoryFunc"), "newPageFactoryFunc(dir, size)") {
			a := eng.CallArgs(s.Instr.(*ssa.Call))
			if eng.DependsOn(a[0], func(x ssa.Value) bool {
				k, ok := x.(*ssa.Const)
				return ok && k.Value != nil && strings.Trim(k.Value.ExactString(), "\"") == "data"
			}) {
				mk = s.Instr.(*ssa.Call)
			}
		}
		if mk == nil {
			c.Undecided("the data page factory (directory \"data\") is not created in NewQueue")
		}
		size := eng.Unwrap(eng.CallArgs(mk)[1])
		for {
			if cv, ok := size.(*ssa.Convert); ok {
				size = eng.Unwrap(cv.X)
				continue
			}
			break
		}
		if k, isC := eng.ConstInt(size); isC {
			c.Check(k >= dps, "mapped-size-covers-the-threshold", mk, f, "data pages are mapped with at least dataPageSize bytes", fmt.Sprintf("constant %d", k))
			return
		}
		isLoad := func(v ssa.Value) bool {
			in, ok := eng.Unwrap(v).(ssa.Instruction)
			return ok && eng.LoadField(qT+".pageSize")(p, in)
		}
		isK := func(v ssa.Value) bool { k, ok := eng.ConstInt(v); return ok && k >= dps }
		if isLoad(size) {
			// the field holds the configured value; it is raised to the constant unless it was compared not-smaller
			okEdges := eng.EdgesWithFact(f, func(ft eng.Fact) bool {
				return (ft.Op == "le" || ft.Op == "lt" || ft.Op == "eq") && isK(ft.X) && isLoad(ft.Y) || ft.Op == "eq" && isK(ft.Y) && isLoad(ft.X)
			})
			var raise, other []eng.Site
			for _, st := range p.Sites(f, eng.StoreField(qT+".pageSize")) {
				if isK(st.Instr.(*ssa.Store).Val) {
					raise = append(raise, st)
				} else {
					other = append(other, st)
				}
			}
			_, small := eng.PathExists(eng.PathQuery{Fn: f, Target: func(in ssa.Instruction) bool { return in == ssa.Instruction(mk) },
				Blocked: func(in ssa.Instruction) bool { return instrIn(in, raise) }, Edge: eng.ForbidEdges(okEdges)})
			late := false
			for _, o := range other {
				for _, r := range raise {
					if _, again := eng.Reaches(f, r.Instr, []eng.Site{o}, nil); again {
						late = true
					}
				}
			}
			c.Check(!small && !late, "mapped-size-covers-the-threshold", mk, f,
				"data pages are mapped with the CLAMPED page size (>= dataPageSize): alloc keeps writing into a page up to dataPageSize whatever size was configured",
				"a path reaches the creation of the data page factory with q.pageSize neither raised to dataPageSize nor compared >= dataPageSize")
			return
		}
		facts := p.MustFacts(f)
		kc := ssa.NewConst(constant.MakeInt64(dps), size.Type())
		c.Check(facts.Prove("le", kc, size, mk), "mapped-size-covers-the-threshold", mk, f,
			"data pages are mapped with a size that is provably >= dataPageSize: alloc keeps writing into a page up to dataPageSize whatever size was configured",
			"size argument "+p.Desc(size)+" is not provably >= dataPageSize; facts: "+strings.Join(facts.Render(facts.At(mk)), " ; "))
	})

	// ---- 3f. an explicit reset leaves an EMPTY queue at the new position: appended and acknowledged both become seq --------------------
	c.Rule("PASS", qT+".SetAppendedSeq{appended = acknowledged = seq on every path}", func() { resetLeavesEmptyQueue(c) })
	resetInOneHold(c, qT+".SetAppendedSeq", qMu, []string{qT + ".appendedSeq", qT + ".acknowledgedSeq"}, "seq")
	c.Rule("PROV", qT+".GC", func() { gcBoundFromAck(c) })
	c.Rule("ORDER", "pkg/queue.NewQueue{meta probed before the page is created}", func() { existenceProbedBeforeCreate(c, "pkg/queue.NewQueue", ".metaPageFct") })

	// ---- 4. LAYOUT: index entry and meta page, writer/reader agreement -----------------------
	c.Rule("LAYOUT", "pkg/queue.index-entry", func() { layoutIndexEntry(c) })
	c.Rule("LAYOUT", "pkg/queue.meta-page", func() { layoutQueueMeta(c) })

	// ---- 6. GUARD: Get reads only validated sequences ---------------------------------------
	c.Rule("GUARD", qT+".Get", func() {
		get := c.Fn(qT + ".Get")
		reads := c.Some(get, eng.Any(invokeOn("", "ReadUint64", "ReadUint32", "ReadBytes", "GetPage")), "page reads")
		seq := ssa.Value(get.Params[1])
		isSeq := func(v ssa.Value) bool {
			return v == seq || eng.DependsOn(v, func(x ssa.Value) bool { return x == seq }) && !eng.DependsOn(v, func(x ssa.Value) bool { _, isCall := x.(*ssa.Call); return isCall })
		}
		isPos := func(v ssa.Value, field string) bool {
			return eng.DependsOn(v, func(x ssa.Value) bool {
				in, ok := x.(ssa.Instruction)
				return ok && eng.LoadField(qT+"."+field)(p, in)
			})
		}
		// edges on which the requested sequence is known to be out of range: sequence > appended, or sequence <= acknowledged
		beyond := eng.EdgesWithFact(get, func(ft eng.Fact) bool {
			return ft.Y != nil && (ft.Op == "lt" && isPos(ft.X, "appendedSeq") && isSeq(ft.Y))
		})
		behind := eng.EdgesWithFact(get, func(ft eng.Fact) bool {
			return ft.Y != nil && (ft.Op == "le" && isSeq(ft.X) && isPos(ft.Y, "acknowledgedSeq"))
		})
		c.Check(len(beyond) > 0, "tests-appended", nil, get, "Get compares the requested sequence with the appended position", "no branch on sequence > appendedSeq")
		c.Check(len(behind) > 0, "tests-acknowledged", nil, get, "Get compares the requested sequence with the acknowledged position", "no branch on sequence <= acknowledgedSeq")
		for i, r := range reads {
			bad := ""
			for _, e := range append(append([]eng.Edge{}, beyond...), behind...) {
				first := e.B.Succs[e.Succ].Instrs[0]
				if _, ok := eng.PathExists(eng.PathQuery{Fn: get, After: first, Target: func(in ssa.Instruction) bool { return in == r.Instr }}); ok || first == r.Instr {
					bad = "reachable after the out-of-range outcome at " + p.InstrPos(first)
				}
			}
			c.Check(bad == "", fmt.Sprintf("read[%d]", i), r.Instr, get, "pages are touched only for acknowledged < sequence <= appended: no page read is reachable once the sequence was found out of range", bad)
			// and the tests are not skippable: every path to a read passes both tests
			for _, set := range [][]eng.Edge{beyond, behind} {
				var tests []eng.Site
				for _, e := range set {
					tests = append(tests, eng.Site{Fn: e.B.Parent(), Instr: e.B.Instrs[len(e.B.Instrs)-1]})
				}
				c.Check(len(tests) > 0 && eng.DominatedBy(get, r.Instr, tests, nil), fmt.Sprintf("read-tested[%d]", i), r.Instr, get, "every path to a page read passes the range tests", "a read is reachable without the range test")
			}
		}
		ls := p.Locks(get, nil)
		for i, s := range c.Some(get, eng.LoadField(qT+".appendedSeq", qT+".acknowledgedSeq"), "position reads in Get") {
			c.Check(ls.At(s.Instr).HasField(qMu, false), fmt.Sprintf("validate-locked[%d]", i), s.Instr, get, "positions are read under queue.rwMutex", "read without the lock")
		}
	})

	// ---- 7. OWNER of the cursor and the sequence ----------------------------------------------
	c.Rule("OWNER", "pkg/queue.queue.cursor-fields", func() {
		owner(c, "store to queue.{messageOffset,dataPageIndex,dataPage}",
			eng.StoreField(qT+".messageOffset", qT+".dataPageIndex", qT+".dataPage"),
			[]string{qAlloc, qPut, qT + ".initDataPageIndex"}, 6)
		owner(c, "store to queue.{indexPageIndex,indexPage}",
			eng.StoreField(qT+".indexPageIndex", qT+".indexPage"),
			[]string{qPersist, qPut, qT + ".initDataPageIndex"}, 4)
		owner(c, "store to queue.appendedSeq", eng.StoreField(qT+".appendedSeq"),
			[]string{qPersist, qPut, qT + ".initSequence", "pkg/queue.NewQueue", qT + ".SetAppendedSeq"}, 4)
		owner(c, "call of queue.initSequence/initDataPageIndex", eng.AnyCallTo(qT+".initSequence", qT+".initDataPageIndex"),
			[]string{"pkg/queue.NewQueue"}, 2)
	})

	// ---- 5. PROV: reopen cursor from the entry of appendedSeq ----------------------------------
	c.Rule("PROV", qT+".initDataPageIndex", func() {
		f := c.Fn(qT + ".initDataPageIndex")
		fromAppended := func(v ssa.Value) bool {
			return eng.DependsOn(v, func(x ssa.Value) bool {
				in, ok := x.(ssa.Instruction)
				return ok && eng.LoadField(qT+".appendedSeq")(p, in)
			})
		}
		for i, s := range p.Sites(f, invokeOn(".indexPage", "ReadUint64", "ReadUint32")) {
			args := eng.CallArgs(s.Instr.(*ssa.Call))
			c.Check(fromAppended(args[0]), fmt.Sprintf("entry-of-appended[%d]", i), s.Instr, f,
				"the entry read on reopen is the entry of the last appended sequence", "offset "+p.Desc(args[0])+" does not derive from appendedSeq")
		}
		for _, s := range c.Some(f, eng.StoreField(qT+".indexPageIndex"), "store indexPageIndex") {
			v, _ := storedValue(s.Instr)
			c.Check(fromAppended(v), "index-page-of-appended", s.Instr, f, "the index page opened on reopen is the page of the last appended sequence", "value "+p.Desc(v))
		}
	})
}

func shortInstr(p *eng.Prog, in ssa.Instruction) string {
	switch x := in.(type) {
	case ssa.CallInstruction:
		k := strings.Join(p.CalleeKeys(x), "|")
		if i := strings.LastIndex(k, "."); i >= 0 {
			k = k[i+1:]
		}
		if r := eng.CallRecv(x); r != nil {
			return p.Desc(r) + "." + k
		}
		return k
	case *ssa.Store:
		return "store " + p.Desc(x.Addr)
	}
	return in.String()
}

// readRole finds, in the expression tree of v, the page read calls and returns (width,offsetConst,base desc).
type pageAccess struct {
	width int
	off   int64
	base  string
	call  *ssa.Call
}

func pageReadsIn(c *eng.Ctx, v ssa.Value) []pageAccess {
	var out []pageAccess
	eng.WalkExpr(v, func(x ssa.Value) bool {
		cl, ok := x.(*ssa.Call)
		if !ok || !cl.Common().IsInvoke() {
			return true
		}
		w := 0
		switch cl.Common().Method.Name() {
		case "ReadUint64":
			w = 8
		case "ReadUint32":
			w = 4
		default:
			return true
		}
		base, off := eng.SplitConstAdd(cl.Common().Args[0])
		b := ""
		if base != nil {
			b = c.P.Desc(base)
		}
		out = append(out, pageAccess{w, off, b, cl})
		return false
	})
	return out
}

func layoutIndexEntry(c *eng.Ctx) {
	p := c.P
	w := c.Fn(qPersist)
	// writer table: role (descriptor of the written value) -> (width, offset)
	type wo struct {
		width int
		off   int64
	}
	writer := map[string]wo{}
	var stride, modulus int64
	strideOf := func(base ssa.Value) (int64, int64) {
		// base = int((seq % M) * S)
		var s, m int64
		eng.WalkExpr(base, func(x ssa.Value) bool {
			if b, ok := x.(*ssa.BinOp); ok {
				if b.Op.String() == "*" {
					if n, ok := eng.ConstInt(b.Y); ok {
						s = n
					} else if n, ok := eng.ConstInt(b.X); ok {
						s = n
					}
				}
				if b.Op.String() == "%" {
					if n, ok := eng.ConstInt(b.Y); ok {
						m = n
					}
				}
			}
			return true
		})
		return s, m
	}
	for _, s := range c.Some(w, invokeOn(".indexPage", "PutUint64", "PutUint32"), "index entry writes") {
		cl := s.Instr.(*ssa.Call)
		args := eng.CallArgs(cl)
		width := 8
		if cl.Common().Method.Name() == "PutUint32" {
			width = 4
		}
		base, off := eng.SplitConstAdd(args[1])
		role := p.Desc(args[0])
		writer[role] = wo{width, off}
		if base != nil {
			stride, modulus = strideOf(base)
		}
	}
	need := []string{"dataPageIndex", "messageOffset", "dataLen"}
	for _, r := range need {
		if _, ok := writer[r]; !ok {
			c.Undecided("index entry writer does not write role %s (roles found: %v)", r, writer)
		}
	}
	// extents do not overlap and fit the stride
	var extent int64
	okNoOverlap := true
	for r1, a := range writer {
		if a.off+int64(a.width) > extent {
			extent = a.off + int64(a.width)
		}
		for r2, b := range writer {
			if r1 < r2 && a.off < b.off+int64(b.width) && b.off < a.off+int64(a.width) {
				okNoOverlap = false
			}
		}
	}
	c.Check(okNoOverlap && stride >= extent && stride > 0, "writer-extent", nil, w,
		"the three fields of an index entry do not overlap and fit inside the entry stride",
		fmt.Sprintf("fields %v, stride %d, extent %d", writer, stride, extent))

	// bind the writer's roles to their meaning at the call in Put
	put := c.Fn(qPut)
	call := c.One(put, eng.CallTo(qPersist), "call of persistMetaOfMessage").Instr.(*ssa.Call)
	// the cursor values of this append: results of alloc, or - where alloc's body is written in Put - the fields / the local read there
	var alloc *ssa.Call
	if p.Func(qAlloc) != nil && len(p.Func(qAlloc).Blocks) > 0 {
		alloc = c.One(put, eng.CallTo(qAlloc), "call of alloc").Instr.(*ssa.Call)
	}
	wbs := c.Some(put, func(p *eng.Prog, in ssa.Instruction) bool {
		cl, ok := in.(*ssa.Call)
		return ok && cl.Common().IsInvoke() && cl.Common().Method.Name() == "WriteBytes"
	}, "WriteBytes")
	wb := wbs[0].Instr.(*ssa.Call)
	pargs := eng.CallArgs(call)
	// params of persistMetaOfMessage: (dataPageIndex, dataLen, messageOffset) by name
	names := map[string]ssa.Value{}
	for i, prm := range w.Params[1:] {
		names[eng.ParamName(prm)] = pargs[i]
	}
	isExtract := func(v ssa.Value, idx int) bool {
		if alloc == nil {
			// in-place form: the current page index / page are the queue's fields, the offset is the cursor read before its advance
			switch idx {
			case 0:
				return eng.DependsOnField(v, qT+".dataPageIndex")
			case 1:
				return eng.DependsOnField(v, qT+".dataPage")
			default:
				u, ok := eng.Unwrap(v).(*ssa.UnOp)
				if !ok || !eng.LoadField(qT+".messageOffset")(p, u) {
					return false
				}
				adv := p.Sites(put, eng.StoreField(qT+".messageOffset"))
				_, late := eng.Reaches(put, u, adv, nil)
				return late // read before (at least one of) the advancing stores
			}
		}
		e, ok := v.(*ssa.Extract)
		return ok && e.Tuple == ssa.Value(alloc) && e.Index == idx
	}
	c.Check(isExtract(names["dataPageIndex"], 0), "role:dataPageIndex", call, put,
		"the page id recorded in the index entry is the page alloc handed out", "got "+p.Desc(names["dataPageIndex"]))
	c.Check(names["messageOffset"] == eng.CallArgs(wb)[1] && isExtract(names["messageOffset"], 2), "role:messageOffset", call, put,
		"the offset recorded in the index entry is the offset the bytes were written at (alloc's result)", "got "+p.Desc(names["messageOffset"]))
	dl := p.DescUp(eng.Unwrap(names["dataLen"]))
	c.Check(dl == "len(data)" || strings.Contains(dl, "len(data)"), "role:dataLen", call, put,
		"the length recorded in the index entry is len(data)", "got "+dl)
	c.Check(p.Desc(eng.CallArgs(wb)[0]) == "data" && isExtract(eng.CallRecv(wb), 1), "data-written-to-allocated-page", wb, put,
		"the message bytes are written into the page alloc handed out", "WriteBytes("+p.Desc(eng.CallArgs(wb)[0])+") on "+p.Desc(eng.CallRecv(wb)))
	// alloc returns (dataPageIndex, dataPage, pre-advance offset)
	if alloc != nil {
		al := c.Fn(qAlloc)
		for i, r := range eng.SuccessReturns(al) {
			ret := r.(*ssa.Return)
			if len(ret.Results) != 4 {
				continue
			}
			d0, d1 := p.Desc(ret.Results[0]), p.Desc(ret.Results[1])
			c.Check(strings.HasSuffix(d0, ".dataPageIndex") && strings.HasSuffix(d1, ".dataPage"), fmt.Sprintf("alloc-returns-current-page[%d]", i), r, al,
				"alloc returns the current data page and its index", "returns ("+d0+", "+d1+")")
		}
	}

	// readers
	check := func(fnKey, what string, v ssa.Value, at ssa.Instruction, fn *ssa.Function, roles ...string) {
		reads := pageReadsIn(c, v)
		if len(reads) != len(roles) {
			c.Check(false, fnKey+":"+what, at, fn, what+" is computed from the index entry fields "+strings.Join(roles, "+"),
				fmt.Sprintf("found %d page reads in %s", len(reads), p.Desc(v)))
			return
		}
		// multiset compare
		used := map[int]bool{}
		okAll := true
		for _, r := range roles {
			found := false
			for i, rd := range reads {
				if !used[i] && rd.width == writer[r].width && rd.off == writer[r].off {
					used[i] = true
					found = true
					s, m := strideOfDesc(rd.call)
					if s != stride || m != modulus {
						okAll = false
					}
					break
				}
			}
			if !found {
				okAll = false
			}
		}
		var got []string
		for _, rd := range reads {
			got = append(got, fmt.Sprintf("%dB@+%d", rd.width, rd.off))
		}
		c.Check(okAll, fnKey+":"+what, at, fn,
			fmt.Sprintf("%s reads the entry field(s) %s exactly where the writer put them (stride %d, %d entries per page)", what, strings.Join(roles, "+"), stride, modulus),
			fmt.Sprintf("reader uses %s; writer table %v", strings.Join(got, ","), writer))
	}
	// Get
	get := c.Fn(qT + ".Get")
	rb := c.One(get, invokeOn("", "ReadBytes"), "ReadBytes").Instr.(*ssa.Call)
	check("Get", "message offset", eng.CallArgs(rb)[0], rb, get, "messageOffset")
	check("Get", "message length", eng.CallArgs(rb)[1], rb, get, "dataLen")
	gp := c.One(get, invokeOn(".dataPageFct", "GetPage"), "dataPageFct.GetPage").Instr.(*ssa.Call)
	check("Get", "data page id", eng.CallArgs(gp)[0], gp, get, "dataPageIndex")
	c.Check(func() bool {
		e, ok := eng.CallRecv(rb).(*ssa.Extract)
		return ok && e.Tuple == ssa.Value(gp)
	}(), "Get:bytes-from-that-page", rb, get, "the bytes are read from the page named by the entry", "ReadBytes receiver is "+p.Desc(eng.CallRecv(rb)))
	// GC
	gc := c.Fn(qT + ".GC")
	tp := c.One(gc, invokeOn(".dataPageFct", "TruncatePages"), "dataPageFct.TruncatePages").Instr.(*ssa.Call)
	check("GC", "data page id", eng.CallArgs(tp)[0], tp, gc, "dataPageIndex")
	// reopen
	in := c.Fn(qT + ".initDataPageIndex")
	for _, s := range c.Some(in, eng.StoreField(qT+".dataPageIndex"), "store dataPageIndex") {
		v, _ := storedValue(s.Instr)
		if n, ok := eng.ConstInt(v); ok && n == 0 {
			continue // empty queue branch
		}
		check("initDataPageIndex", "data page id", v, s.Instr, in, "dataPageIndex")
	}
	for _, s := range c.Some(in, eng.StoreField(qT+".messageOffset"), "store messageOffset") {
		v, _ := storedValue(s.Instr)
		if n, ok := eng.ConstInt(v); ok && n == 0 {
			continue
		}
		check("initDataPageIndex", "next message offset", v, s.Instr, in, "messageOffset", "dataLen")
		// must be the sum
		d := p.Desc(v)
		c.Check(strings.Contains(d, "+"), "initDataPageIndex:cursor-is-offset+length", s.Instr, in, "the reopen cursor is offset+length of the last entry", "value "+d)
	}
}

func strideOfDesc(cl *ssa.Call) (int64, int64) {
	var s, m int64
	eng.WalkExpr(cl.Common().Args[0], func(x ssa.Value) bool {
		if b, ok := x.(*ssa.BinOp); ok {
			if b.Op.String() == "*" {
				if n, ok := eng.ConstInt(b.Y); ok {
					s = n
				} else if n, ok := eng.ConstInt(b.X); ok {
					s = n
				}
			}
			if b.Op.String() == "%" {
				if n, ok := eng.ConstInt(b.Y); ok {
					m = n
				}
			}
		}
		return true
	})
	return s, m
}

func layoutQueueMeta(c *eng.Ctx) {
	p := c.P
	// every metaPage.PutUint64(v, off) in package queue on a *queue receiver: classify v
	offs := map[string]map[int64]bool{"appended": {}, "ack": {}}
	eitherOffs := map[int64]bool{}
	n := 0
	for _, f := range p.FuncsWithPrefix("pkg/queue.") {
		if !strings.HasPrefix(p.FuncKey(f), qT+".") && p.FuncKey(f) != "pkg/queue.NewQueue" {
			continue
		}
		for _, s := range p.SitesDirect(f, invokeOn(".metaPage", "PutUint64")) {
			cl := s.Instr.(*ssa.Call)
			args := eng.CallArgs(cl)
			off, ok := eng.ConstInt(args[1])
			if !ok {
				c.Check(false, "meta-write-const-offset", s.Instr, f, "meta page offsets are constants", "offset "+p.Desc(args[1]))
				continue
			}
			d := p.Desc(args[0])
			role := ""
			switch {
			case strings.Contains(d, "appendedSeq") || strings.Contains(d, "AppendedSeq"):
				role = "appended"
			case strings.Contains(d, "acknowledgedSeq") || strings.Contains(d, "AcknowledgedSeq"):
				role = "ack"
			case d == "seq" && p.FuncKey(f) == qT+".SetAcknowledgedSeq":
				role = "ack"
			default:
				// value published as appendedSeq in the same function?
				for _, st := range p.Sites(f, eng.StoreField(qT+".appendedSeq")) {
					if v, _ := storedValue(st.Instr); v != nil && eng.DependsOn(args[0], func(x ssa.Value) bool { return x == v }) {
						role = "appended"
					}
				}
			}
			// a reset stores ONE value into both positions: a write of that value may go to either slot (which one is decided by
			// the other writers); it is counted, not classified
			if both := sameValueIntoBothPositions(p, f); both != nil && eng.DependsOn(args[0], func(x ssa.Value) bool { return x == both }) &&
				!strings.Contains(d, "appendedSeq") && !strings.Contains(d, "acknowledgedSeq") {
				eitherOffs[off] = true
				n++
				c.Check(true, fmt.Sprintf("meta-write:%s:both@%d", p.FuncKey(f), off), s.Instr, f, "meta page write of a value stored into both positions", "")
				continue
			}
			if role == "" {
				c.Check(false, "meta-write-role:"+p.FuncKey(f), s.Instr, f, "every meta page write stores the appended or the acknowledged sequence", "unclassified value "+d)
				continue
			}
			offs[role][off] = true
			n++
			c.Check(true, fmt.Sprintf("meta-write:%s:%s", p.FuncKey(f), role), s.Instr, f, "meta page write classified ("+role+")", "")
		}
	}
	if n < 5 {
		c.Undecided("expected >= 5 meta page writes in pkg/queue.queue, found %d", n)
	}
	one := func(m map[int64]bool) (int64, bool) {
		if len(m) != 1 {
			return 0, false
		}
		for k := range m {
			return k, true
		}
		return 0, false
	}
	ao, ok1 := one(offs["appended"])
	ko, ok2 := one(offs["ack"])
	for o := range eitherOffs {
		c.Check(ok1 && ok2 && (o == ao || o == ko), fmt.Sprintf("reset-writes-a-known-slot@%d", o), nil, nil, "a reset writes its value into the appended slot and the acknowledged slot", fmt.Sprintf("offset %d is neither %d nor %d", o, ao, ko))
	}
	if len(eitherOffs) > 0 {
		c.Check(len(eitherOffs) == 2, "reset-writes-both-slots", nil, nil, "a reset of both positions writes both slots", fmt.Sprintf("%v", eitherOffs))
	}
	c.Check(ok1 && ok2 && (ao+8 <= ko || ko+8 <= ao), "meta-offsets-disjoint", nil, nil,
		"all writers put the appended sequence at one offset and the ack at another, 8 bytes apart at least",
		fmt.Sprintf("appended offsets %v, ack offsets %v", offs["appended"], offs["ack"]))
	// reader
	is := p.Func(qT + ".initSequence")
	if is == nil {
		is = c.Fn("pkg/queue.NewQueue") // the restore written in place in the constructor
	}
	for _, s := range c.Some(is, eng.StoreField(qT+".appendedSeq", qT+".acknowledgedSeq"), "sequence restores") {
		fa, _, _ := eng.AtomicOp(s.Instr)
		v, _ := storedValue(s.Instr)
		if _, isConst := eng.Unwrap(v).(*ssa.Const); isConst {
			continue // the initial value of a new queue
		}
		reads := pageReadsIn(c, v)
		want := ao
		role := "appended"
		if fa != nil && strings.HasSuffix(eng.FieldKeyOfAddr(fa), ".acknowledgedSeq") {
			want, role = ko, "ack"
		}
		c.Check(len(reads) == 1 && reads[0].width == 8 && reads[0].off == want && reads[0].base == "", "restore:"+role, s.Instr, is,
			"reopen restores the "+role+" sequence from the offset the writers use", fmt.Sprintf("reads %v, writers use %d", reads, want))
	}
}

// sameValueIntoBothPositions: f stores one and the same value into queue.appendedSeq and queue.acknowledgedSeq (a reset);
// returns that value.
func sameValueIntoBothPositions(p *eng.Prog, f *ssa.Function) ssa.Value {
	var va, vk ssa.Value
	for _, st := range p.Sites(f, eng.StoreField(qT+".appendedSeq")) {
		va, _ = storedValue(st.Instr)
	}
	for _, st := range p.Sites(f, eng.StoreField(qT+".acknowledgedSeq")) {
		vk, _ = storedValue(st.Instr)
	}
	if va != nil && vk != nil && va == vk {
		return va
	}
	return nil
}

// resetLeavesEmptyQueue: queue.SetAppendedSeq(seq) is the index reset of the replication handshake: everything at or below
// seq counts as processed, nothing above it exists.  On every path both atomics are stored with the parameter itself;
// a conditional store (only lowering, only raising) leaves acknowledged != appended, and a reopen then restores the write
// cursor from an index entry that was never written.
func resetLeavesEmptyQueue(c *eng.Ctx) {
	p := c.P
	f := c.Fn(qT + ".SetAppendedSeq")
	seq := ssa.Value(f.Params[1])
	for _, fld := range []string{"appendedSeq", "acknowledgedSeq"} {
		m := func(p *eng.Prog, in ssa.Instruction) bool {
			fa, method, call := eng.AtomicOp(in)
			if fa == nil || method != "Store" || eng.FieldKeyOfAddr(fa) != qT+"."+fld {
				return false
			}
			a := eng.CallArgs(call)
			return len(a) == 1 && eng.Unwrap(a[0]) == seq
		}
		_, skip := eng.PathExists(eng.PathQuery{Fn: f,
			Target:  func(in ssa.Instruction) bool { _, ok := in.(*ssa.Return); return ok && in.Parent() == f },
			Blocked: func(in ssa.Instruction) bool { return m(p, in) }})
		c.Check(!skip, "always-stored:"+fld, nil, f,
			"SetAppendedSeq stores seq into "+fld+" on every path (unconditionally): after the reset acknowledged == appended == seq",
			"a path returns without "+fld+".Store(seq)")
	}
}

func cachedIndexPageRule(c *eng.Ctx) {
	p := c.P
	_ = p
	nv, ok := p.ConstInt64("pkg/queue", "indexItemsPerPage")
	if !ok {
		c.Undecided("constant pkg/queue.indexItemsPerPage not found")
	}
	f := c.Fn(qPersist)
	isPage := func(v ssa.Value) bool {
		bo, ok := eng.Unwrap(eng.UpParam(v)).(*ssa.BinOp)
		if !ok || bo.Op != token.QUO {
			return false
		}
		k, isC := eng.ConstInt(bo.Y)
		return isC && k == nv
	}
	isCached := func(v ssa.Value) bool {
		in, ok := eng.Unwrap(v).(ssa.Instruction)
		return ok && eng.LoadField(qT+".indexPageIndex")(p, in)
	}
	same := eng.EdgesWithFact(f, func(ft eng.Fact) bool {
		return ft.Op == "eq" && (isPage(ft.X) && isCached(ft.Y) || isPage(ft.Y) && isCached(ft.X))
	})
	var sw []eng.Site
	for _, st := range p.Sites(f, eng.StoreField(qT+".indexPageIndex")) {
		if isPage(st.Instr.(*ssa.Store).Val) {
			sw = append(sw, st)
		}
	}
	puts := c.Some(f, invokeOn(".indexPage", "PutUint64", "PutUint32"), "q.indexPage.PutUintNN(entry)")
	for i, pu := range puts {
		_, stale := eng.PathExists(eng.PathQuery{Fn: f, Target: func(in ssa.Instruction) bool { return in == pu.Instr },
			Blocked: func(in ssa.Instruction) bool { return instrIn(in, sw) }, Edge: eng.ForbidEdges(same)})
		c.Check(!stale, fmt.Sprintf("entry-into-the-page-of-its-sequence[%d]", i), pu.Instr, f,
			"an index entry is written into the cached index page only when the cached page index EQUALS seq / indexItemsPerPage, or right after the cache was switched to that page (the appended sequence can also move backwards: SetAppendedSeq)",
			"a path reaches the write with a cached page that was neither compared equal to the page of the sequence nor switched to it")
	}
}

func pageSlotOfOneSequence(c *eng.Ctx) {
	p := c.P
	_ = p
	nv, ok := p.ConstInt64("pkg/queue", "indexItemsPerPage")
	if !ok {
		c.Undecided("constant pkg/queue.indexItemsPerPage not found")
	}
	total := 0
	for _, fk := range []string{qT + ".Get", qT + ".GC", qPersist, qT + ".initDataPageIndex"} {
		f := c.Fn(fk)
		var quo, rem []*ssa.BinOp
		for _, b := range eng.BlocksT(f) {
			for _, in := range b.Instrs {
				bo, ok := in.(*ssa.BinOp)
				if !ok {
					continue
				}
				if k, isC := eng.ConstInt(bo.Y); !isC || k != nv {
					continue
				}
				switch bo.Op {
				case token.QUO:
					quo = append(quo, bo)
				case token.REM:
					rem = append(rem, bo)
				}
			}
		}
		c.Check(len(quo) >= 1 && len(rem) >= 1, fk+":page-and-slot-computed", nil, f, fk+" computes an index page (s / indexItemsPerPage) and a slot (s % indexItemsPerPage)", fmt.Sprintf("%d divisions, %d remainders", len(quo), len(rem)))
		for i, qd := range quo {
			for j, rm := range rem {
				total++
				if fk == qT+".initDataPageIndex" {
					base, k := eng.SplitConstOffset(qd.X)
					isApp := eng.DependsOn(base, func(x ssa.Value) bool {
						in, ok := x.(ssa.Instruction)
						return ok && eng.LoadField(qT+".appendedSeq")(p, in)
					})
					c.Check(isApp && k == 0, fmt.Sprintf("%s:entry-of-exactly-appended[%d]", fk, i), qd, f, "on reopen the cursor is restored from the entry of the last appended sequence itself (not a neighbour)", fmt.Sprintf("uses %s (+%d)", p.Desc(base), k))
				}
				// an operand computed in a helper (indexOffsetOf(seq)) stands for what this function passes to it
				up := func(bo *ssa.BinOp) ssa.Value {
					if bo.Parent() != f {
						if v := eng.UpParamVia(f, eng.Site{Fn: bo.Parent(), Instr: bo}, eng.Unwrap(bo.X)); v != nil {
							return v
						}
					}
					return bo.X
				}
				qx, rx := up(qd), up(rm)
				c.Check(eng.SameValue(qx, rx) || p.Desc(qx) == p.Desc(rx) && p.Desc(qx) != "?", fmt.Sprintf("%s:same-sequence[%d,%d]", fk, i, j), rm, f,
					"the index page and the slot inside it are computed from the same sequence value (an entry is read from / written to the page that holds it)",
					"page of "+p.Desc(qx)+" but slot of "+p.Desc(rx))
			}
		}
	}
	if total < 4 {
		c.Undecided("expected >= 4 page/slot pairs, found %d", total)
	}
	// the readers take the entry from the page they looked up for s / N - not from whatever index page the writer has cached
	for _, fk := range []string{qT + ".Get", qT + ".GC", qT + ".initDataPageIndex"} {
		f := c.Fn(fk)
		var rem []ssa.Value
		for _, b := range eng.BlocksT(f) {
			for _, in := range b.Instrs {
				if bo, ok := in.(*ssa.BinOp); ok && bo.Op == token.REM {
					if k, isC := eng.ConstInt(bo.Y); isC && k == nv {
						rem = append(rem, bo)
					}
				}
			}
		}
		stores := p.SitesT(f, eng.StoreField(qT+".indexPage"))
		n := 0
		for _, b := range eng.BlocksT(f) {
			for _, in := range b.Instrs {
				cl, ok := in.(*ssa.Call)
				if !ok || !cl.Common().IsInvoke() || !strings.HasPrefix(cl.Common().Method.Name(), "Read") || len(cl.Common().Args) == 0 {
					continue
				}
				if !eng.DependsOn(cl.Common().Args[0], func(x ssa.Value) bool {
					for _, r := range rem {
						if x == r {
							return true
						}
					}
					return false
				}) {
					continue
				}
				n++
				okPage, what := true, ""
				for _, src := range leafSources(cl.Common().Value) {
					src = eng.Unwrap(src)
					if ex, isEx := src.(*ssa.Extract); isEx {
						src = ex.Tuple
					}
					if sc, isCall := src.(*ssa.Call); isCall && (calleeName(sc) == "GetPage" || calleeName(sc) == "AcquirePage") {
						continue // a page looked up here: its number is checked by the same-sequence clauses above
					}
					if in2, isIn := src.(ssa.Instruction); isIn && eng.LoadField(qT+".indexPage")(p, in2) {
						if len(stores) > 0 && eng.DominatedBy(f, cl, stores, nil) {
							continue // the cached page was (re)acquired by this function before the read
						}
						okPage, what = false, "q.indexPage (the writer's cached page), which "+fk+" did not acquire before the read"
						continue
					}
					okPage, what = false, p.Desc(src)
				}
				c.Check(okPage, fmt.Sprintf("%s:entry-read-from-the-looked-up-page[%d]", fk, n), cl, f,
					"an index entry is read from the page that was looked up (or acquired) for s / indexItemsPerPage in this function: the writer's cached index page holds the entries of the sequences being appended, a lagging acknowledged or requested sequence lives in an earlier page",
					"the entry is read from "+what)
			}
		}
		c.Check(n >= 1, fk+":entry-reads-found", nil, f, fk+" reads an index entry", "")
	}
}

func failedAcquireLeavesCursor(c *eng.Ctx) {
	p := c.P
	_ = p
	for _, x := range []struct {
		fn     string
		fields []string
	}{
		{qAlloc, []string{qT + ".messageOffset", qT + ".dataPageIndex", qT + ".dataPage"}},
		{qPersist, []string{qT + ".indexPageIndex", qT + ".indexPage"}},
	} {
		f := c.P.Func(x.fn)
		fct := ".indexPageFct"
		if x.fn == qAlloc {
			f, fct = allocBody(c), ".dataPageFct"
		}
		if f == nil {
			f = c.Fn(x.fn)
		}
		acq := c.Some(f, invokeOn(fct, "AcquirePage"), "AcquirePage(next)")
		// the exits that report a failed acquisition: what the error edge of the AcquirePage call leads to
		var fails []eng.Site
		for _, a := range acq {
			g := a.Instr.Parent()
			_, errEdges := eng.ErrCheckEdges(g, a.Instr.(ssa.Value))
			for _, e := range errEdges {
				first := e.B.Succs[e.Succ].Instrs[0]
				for _, b := range g.Blocks {
					r, ok := b.Instrs[len(b.Instrs)-1].(*ssa.Return)
					if !ok || b == g.Recover || eng.ReturnsNilError(r) {
						continue
					}
					if _, reach := eng.PathExists(eng.PathQuery{Fn: g, After: first, Target: func(z ssa.Instruction) bool { return z == r }}); reach || first == ssa.Instruction(r) {
						fails = append(fails, eng.Site{Fn: g, Instr: r})
					}
				}
			}
		}
		c.Check(len(fails) > 0, x.fn+":has-failing-exit", nil, f, x.fn+" reports a failed page acquisition", "no error return")
		for i, st := range c.Some(f, eng.StoreField(x.fields...), "cursor stores") {
			if st.Instr.Parent() != f && x.fn == qAlloc {
				continue // stores of a helper Put enters (none today)
			}
			_, bad := eng.Reaches(st.Instr.Parent(), st.Instr, fails, nil)
			c.Check(!bad, fmt.Sprintf("%s:no-cursor-store-before-failing-exit[%d]", x.fn, i), st.Instr, f,
				"the cursor (page index, page, offset) is moved only when the new page was acquired: no failing exit is reachable after a cursor store",
				"store to "+p.Desc(st.Instr.(*ssa.Store).Addr)+" can be followed by an error return (the cursor then names a page that is not mapped)")
		}
		// and the stores into the new page position are made only on the success edge of the acquisition
		for i, a := range acq {
			for j, st := range p.Sites(f, eng.StoreField(x.fields[1:]...)) {
				ok, why := eng.OkDominates(f, a.Instr, st.Instr)
				c.Check(ok, fmt.Sprintf("%s:page-switch-only-after-acquire[%d,%d]", x.fn, i, j), st.Instr, f, "the page index / page is switched only after AcquirePage succeeded", why)
			}
		}
	}
}

func putPublicationOrder(c *eng.Ctx) {
	p := c.P
	_ = p
	c.Rule("ORDER", qPut+"{data<index<meta<publish<signal}", func() {
		put := c.Fn(qPut)
		data := func(p *eng.Prog, in ssa.Instruction) bool {
			cl, ok := in.(*ssa.Call)
			return ok && cl.Common().IsInvoke() && cl.Common().Method.Name() == "WriteBytes"
		}
		index := invokeOn(".indexPage", "PutUint64", "PutUint32")
		meta := invokeOn(".metaPage", "PutUint64")
		publish := eng.StoreField(qT + ".appendedSeq")
		signal := invokeOn(".notEmpty", "Broadcast", "Signal")
		steps := []struct {
			name string
			m    eng.Matcher
			min  int
		}{{"data", data, 1}, {"index-entry", index, 3}, {"meta-page", meta, 1}, {"publish-seq", publish, 1}, {"signal", signal, 1}}
		for i := 1; i < len(steps); i++ {
			ds := p.DeepSites(put, steps[i].m, 3, false)
			if len(ds) < steps[i].min {
				c.Undecided("expected >= %d %s sites under Put, found %d", steps[i].min, steps[i].name, len(ds))
			}
			// each site of step i must be preceded by ALL sites of step i-1: we require dominance by the
			// set of step i-1 sites, and additionally that no step i-1 site can execute after it.
			for k, d := range ds {
				ok := p.DomDeep(put, d, steps[i-1].m, 3)
				c.Check(ok, fmt.Sprintf("%s<%s[%d]", steps[i-1].name, steps[i].name, k), d.Leaf(), d.Leaf().Parent(),
					fmt.Sprintf("on every path of an append %s happens before %s", steps[i-1].name, steps[i].name),
					fmt.Sprintf("%s can be reached without %s having happened", steps[i].name, steps[i-1].name))
				// no earlier-step site after this one (same function only)
				fn := d.Leaf().Parent()
				prev := p.Sites(fn, steps[i-1].m)
				if w, found := eng.Reaches(fn, d.Leaf(), prev, nil); found {
					c.Check(false, fmt.Sprintf("%s-not-after-%s[%d]", steps[i-1].name, steps[i].name, k), w, fn,
						fmt.Sprintf("no %s after %s", steps[i-1].name, steps[i].name),
						fmt.Sprintf("%s at %s executes after %s", steps[i-1].name, p.InstrPos(w), steps[i].name))
				}
			}
		}
	})
}

// allocBody: the function that holds the data-cursor logic of an append - queue.alloc, or Put itself when that logic is written in place.
func allocBody(c *eng.Ctx) *ssa.Function {
	if f := c.P.Func(qAlloc); f != nil && len(f.Blocks) > 0 {
		return f
	}
	return c.Fn(qPut)
}
