package props

import (
	"fmt"
	"go/token"
	"strings"

	"golang.org/x/tools/go/ssa"

	"lincheck/internal/eng"
)

func init() {
	register(eng.Property{
		ID:    "C11",
		Title: "A query returns what a naive model computes from the written points",
		Explanation: "Decides structural conditions of read/write/flush agreement in the storage path: a family read unions the mutable memory database, the immutable one and the table files (every selected reader), with errors " +
			"propagated and the file snapshot closed exactly when no result set took ownership of it; a flush waits for in-flight writers and a write batch brackets its rows with acquire/complete; the slot range of a " +
			"compressed buffer merged with the write window is a proper union (each bound is replaced only when compared with the very value that replaces it); the metric block writer's relative offsets use fresh " +
			"anchors and the block footer is read as written (shared with C03); field type tables are exhaustive and consistent (shared with C03).",
		NotDecided: "everything numeric: down-sampling, aggregation, expression evaluation, slot/time arithmetic, the reference semantics of queries.",
		MinObls:    30,
		Run:        runC11,
	})
}

// clampIdiom checks every `if x OP w { x = v }` in fn: the value compared against must be the value
// assigned (v == w). A mismatch widens or narrows a bound against the wrong quantity.
func clampIdiom(c *eng.Ctx, fn *ssa.Function, min int) {
	p := c.P
	n := 0
	for _, b := range eng.BlocksT(fn) {
		for _, in := range b.Instrs {
			st, ok := in.(*ssa.Store)
			if !ok {
				continue
			}
			fa, ok := st.Addr.(*ssa.FieldAddr)
			if !ok {
				continue
			}
			// innermost guard: the If of the unique predecessor
			if len(b.Preds) != 1 {
				continue
			}
			pr := b.Preds[0]
			ifi, ok := pr.Instrs[len(pr.Instrs)-1].(*ssa.If)
			if !ok {
				continue
			}
			bo, ok := ifi.Cond.(*ssa.BinOp)
			if !ok {
				continue
			}
			switch bo.Op {
			case token.LSS, token.GTR, token.LEQ, token.GEQ:
			default:
				continue
			}
			isLoadOfSame := func(v ssa.Value) bool {
				u, ok := v.(*ssa.UnOp)
				if !ok {
					return false
				}
				fa2, ok := u.X.(*ssa.FieldAddr)
				return ok && fa2.Field == fa.Field && (fa2.X == fa.X || eng.SameValue(fa2.X, fa.X) || p.Desc(fa2) == p.Desc(fa))
			}
			var other ssa.Value
			switch {
			case isLoadOfSame(bo.X):
				other = bo.Y
			case isLoadOfSame(bo.Y):
				other = bo.X
			default:
				continue
			}
			n++
			same := eng.SameValue(other, st.Val) || p.Desc(other) == p.Desc(st.Val)
			c.Check(same, fmt.Sprintf("clamp:%s[%d]", p.Desc(st.Addr), n), in, fn,
				"a bound is replaced by the very value it was compared with (min/max idiom)", "compared with "+p.Desc(other)+" but assigned "+p.Desc(st.Val))
		}
	}
	if n < min {
		c.Check(false, "clamp@count:"+p.FuncKey(fn), nil, fn, fmt.Sprintf("at least %d compare-and-replace sites exist", min), fmt.Sprintf("found %d", n))
	}
}

func runC11(c *eng.Ctx) {
	p := c.P
	everyFamilyOfTheSegmentExamined(c)
	loaderReadsTheLiveSlotRange(c)
	dataLoadContextReducedOnce(c)
	everyAtomGetsItsOwnSet(c)
	pageBindingAndSequenceTogether(c)
	dataLoadTasksCountedUpFront(c)
	writableMemDBOnlyReplacedByANewOne(c)
	memoryIndexScannedUnderLock(c)
	compressBufferIsOwned(c)

	// ---- 0. the families a query reads: no family inside the query range is passed over (F49, rule shared with C13) ------
	calcFamilyInsideItsSegment(c)

	// ---- 1. a family read unions memory and files ----------------------------------------------------------------------
	c.Rule("UNION", dfT+".Filter{mutable ∪ immutable ∪ files}", func() {
		f := c.Fn(dfT + ".Filter")
		mem := c.One(f, eng.CallTo(dfT+".memoryFilter"), "memoryFilter")
		fil := c.One(f, eng.CallTo(dfT+".fileFilter"), "fileFilter")
		for i, r := range eng.SuccessReturns(f) {
			rv := eng.RetVal(r, 0)
			if eng.IsNilConst(rv) {
				continue
			}
			okM := eng.DependsOn(rv, func(x ssa.Value) bool { return x == mem.Instr.(ssa.Value) }) || eng.DominatedBy(f, r, []eng.Site{mem}, nil)
			okF := eng.DominatedBy(f, r, []eng.Site{fil}, nil)
			c.Check(okM && okF, fmt.Sprintf("result-has-both[%d]", i), r, f, "the result of a family read contains the memory result sets and the file result sets", "")
		}
		// memory is read BEFORE the file snapshot is picked: a flush moves points from the immutable memory database into a
		// newer file version and then drops the memory database; the other order can see the flushed points in neither place
		_, late := eng.Reaches(f, fil.Instr, []eng.Site{mem}, nil)
		_, before := eng.Reaches(f, mem.Instr, []eng.Site{fil}, nil)
		c.Check(!late && before, "memory-before-files", fil.Instr, f, "the memory databases are filtered before the file snapshot is taken", "fileFilter can run before memoryFilter")
		for _, s := range []eng.Site{mem, fil} {
			nilE, _ := eng.ErrCheckEdges(f, s.Instr.(ssa.Value))
			c.Check(len(nilE) > 0, "error-propagates:"+shortInstr(p, s.Instr), s.Instr, f, "a real error of either part fails the read (no silent partial answer)", "")
			notFoundDoesNotHideTheRest(c, f, s, "part:"+shortInstr(p, s.Instr))
		}
		m := c.Fn(dfT + ".memoryFilter")
		for i, s := range p.Sites(m, invokeOn("memDB", "Filter")) {
			notFoundDoesNotHideTheRest(c, m, s, fmt.Sprintf("memory-database[%d]", i))
		}
		ls := p.Locks(m, nil)
		for _, fld := range []string{"mutableMemDB", "immutableMemDB"} {
			loads := p.Sites(m, eng.LoadField(dfT+"."+fld))
			c.Check(len(loads) > 0, "reads:"+fld, nil, m, "the memory part reads "+fld, "")
			for i, l := range loads {
				c.Check(ls.At(l.Instr).HasField(dfMu, true), fmt.Sprintf("locked:%s[%d]", fld, i), l.Instr, m, fld+" is read under the family mutex (a flush can not swap it mid-read)", "")
			}
			// its Filter is called when non-nil
			okCall := false
			for _, cl := range eng.Closures(m) {
				if len(p.Sites(cl, invokeOn("memDB", "Filter"))) > 0 {
					okCall = true
				}
			}
			c.Check(okCall, "filters:"+fld, nil, m, "each present memory database is filtered", "")
		}
		ff := c.Fn(dfT + ".fileFilter")
		fr := c.One(ff, invokeOn("", "FindReaders"), "snapshot.FindReaders(metricKey)")
		get := c.One(ff, invokeOn("", "Get"), "reader.Get(metricKey)")
		conds, _ := eng.GuardingConds(ff, get.Instr)
		okAll := false
		for _, cd := range conds {
			if eng.DependsOn(cd, func(x ssa.Value) bool { return x == fr.Instr.(ssa.Value) }) {
				okAll = true
			}
		}
		c.Check(okAll, "every-selected-file-read", get.Instr, ff, "every reader selected for the metric is consulted", "")
		a1, a2 := eng.CallArgs(fr.Instr.(*ssa.Call))[0], eng.CallArgs(get.Instr.(*ssa.Call))[0]
		sameKey := a1 == a2
		if _, isParam := a2.(*ssa.Parameter); isParam && !sameKey {
			sameKey = eng.DependsOn(a2, func(x ssa.Value) bool { return x == a1 }) // through a helper's parameter
		}
		c.Check(sameKey && strings.Contains(p.Desc(a1), "MetricID"), "same-metric-key", get.Instr, ff, "files are selected and read by the queried metric's id", p.Desc(a1)+" vs "+p.DescUp(a2))
		// snapshot ownership
		if len(ff.AnonFuncs) == 0 {
			c.Undecided("fileFilter has no deferred closure")
		}
		d := ff.AnonFuncs[0]
		cl := c.One(d, invokeOn("", "Close"), "snapShot.Close()")
		// closed exactly on (err != nil || len(resultSet) == 0): not reachable when both are false, and reached when either holds
		trig := eng.EdgesWithFact(d, func(ft eng.Fact) bool {
			if ft.Y == nil {
				return false
			}
			dx, dy := p.Desc(ft.X), p.Desc(ft.Y)
			return ft.Op == "ne" && strings.Contains(dx, "err") && dy == "nil" || ft.Op == "eq" && strings.Contains(dx, "len(") && dy == "0"
		})
		_, other := eng.PathExists(eng.PathQuery{Fn: d, Target: func(in ssa.Instruction) bool { return in == cl.Instr }, Edge: eng.ForbidEdges(trig)})
		c.Check(len(trig) == 2 && !other, "snapshot-closed-unless-owned", cl.Instr, d, "the file snapshot is closed by the deferred block exactly when the read failed or produced no result set (otherwise the result sets own it)", fmt.Sprintf("%d triggering edges", len(trig)))
		for i, e := range trig {
			first := e.B.Succs[e.Succ].Instrs[0]
			_, skip := eng.PathExists(eng.PathQuery{Fn: d, After: first, Target: func(in ssa.Instruction) bool { _, ok := in.(*ssa.Return); return ok }, Blocked: func(in ssa.Instruction) bool { return in == cl.Instr }})
			if first == cl.Instr {
				skip = false
			}
			c.Check(!skip, fmt.Sprintf("closed-when-unowned[%d]", i), first, d, "on a failed or empty read the snapshot is always closed (no leak of pinned files)", "")
		}
		nf := c.One(ff, eng.CallTo("var:tsdb.newFilterFunc"), "newFilterFunc(start, snapShot, readers)")
		snap := c.One(ff, invokeOn(".family", "GetSnapshot"), "family.GetSnapshot()")
		c.Check(eng.SameValue(eng.CallArgs(nf.Instr.(*ssa.Call))[1], snap.Instr.(ssa.Value)) || eng.DerivesFromCall(eng.CallArgs(nf.Instr.(*ssa.Call))[1], snap.Instr.(ssa.Value), 0), "filter-owns-that-snapshot", nf.Instr, ff, "the file filter is given the snapshot its readers come from", "")
	})

	// ---- 1b. flush writes one entry per field for every series, in field order -----------------------------------------------------------
	c.Rule("PASS", "tsdb/memdb.memoryDatabase.FlushFamilyTo{one entry per field}", func() {
		f := c.Fn("tsdb/memdb.memoryDatabase.FlushFamilyTo")
		var body *ssa.Function
		for _, cl := range closuresT(f) {
			if len(p.Sites(cl, eng.CallTo("tsdb/memdb.flushFieldTo"))) > 0 {
				body = cl
			}
		}
		if body == nil {
			c.Undecided("series callback of FlushFamilyTo not found")
		}
		gp := c.One(body, invokeOn("", "GetPage"), "buf.GetPage(memSeriesID)")
		data := c.Some(body, eng.CallTo("tsdb/memdb.flushFieldTo"), "flushFieldTo(...)")
		pad := c.Some(body, invokeOn("flusher", "FlushField"), "flusher.FlushField(nil)")
		blocked := append(append([]eng.Site{}, data...), pad...)
		// from the page lookup of one field to the lookup of the next field (or the end of the series) an entry is always written
		var next []eng.Site
		next = append(next, gp)
		for _, r := range eng.SuccessReturns(body) {
			next = append(next, eng.Site{Fn: body, Instr: r})
		}
		at, skip := eng.Reaches(body, gp.Instr, next, blocked)
		c.Check(!skip, "every-field-gets-an-entry", at, body,
			"for every field of the metric either its data or an empty entry is written for the series (entries are positional: a skipped field shifts the later ones onto its id)", "the next field / the end of the series is reachable without writing an entry")
		for i, d := range pad {
			a := eng.CallArgs(d.Instr.(*ssa.Call))[0]
			c.Check(eng.IsNilConst(a), fmt.Sprintf("padding-is-empty[%d]", i), d.Instr, body, "the padding entry is empty", "pads with "+p.Desc(a))
		}
		// the data path writes the looked-up page under the field's own position
		for i, d := range data {
			a := eng.CallArgs(d.Instr.(*ssa.Call))
			okPage := eng.DependsOn(a[2], func(x ssa.Value) bool { return x == gp.Instr.(ssa.Value) })
			c.Check(okPage, fmt.Sprintf("data-is-the-fields-page[%d]", i), d.Instr, body, "the data written for a field is the page looked up for it", "writes "+p.Desc(a[2]))
		}
	})

	// ---- 2. writers vs flush -----------------------------------------------------------------------------------------------------
	c.Rule("ORDER", dfT+".WriteRows{acquire<write<complete} / FlushFamilyTo{wait}", func() { writeBracketRule(c) })

	// ---- 5. slot range union in the field writer ---------------------------------------------------------------------------------------
	c.Rule("SYMMETRY", "tsdb/memdb.getTimeSlotRange{union}", func() { // key kept from the first version of the rule
		f := c.Fn("tsdb/memdb.slotRange") // the union may live in a helper (getTimeSlotRange) or in slotRange itself
		clampIdiom(c, f, 2)
		dec := c.One(f, eng.AnyCallTo("pkg/encoding.DecodeTSDTime"), "DecodeTSDTime(compress)")
		n := 0
		for _, mk := range p.Sites(f, eng.AnyCallTo("pkg/timeutil.NewSlotRange")) {
			a := eng.CallArgs(mk.Instr.(*ssa.Call))
			from := func(v ssa.Value, idx int) bool {
				return eng.DependsOn(v, func(x ssa.Value) bool { return extractIs(x, dec.Instr.(ssa.Value), idx) })
			}
			if !from(a[0], 0) && !from(a[1], 1) && !from(a[0], 1) && !from(a[1], 0) {
				continue // the buffer-only range
			}
			n++
			c.Check(from(a[0], 0) && from(a[1], 1) && !from(a[0], 1) && !from(a[1], 0), fmt.Sprintf("starts-from-compressed-range[%d]", n), mk.Instr, f,
				"the union starts from the compressed block's own [start, end]", "NewSlotRange("+p.Desc(a[0])+", "+p.Desc(a[1])+")")
		}
		c.Check(n == 1, "compressed-range-built", dec.Instr, f, "the range of the compressed block is built once from its decoded start and end", fmt.Sprintf("%d", n))
		pr := c.Fn(mgT + ".prepare")
		clampIdiom(c, pr, 2)
	})

	// ---- 5b. the write buffer's end marker covers every written slot -------------------------------------------------------------------
	c.Rule("SYMMETRY", "tsdb/memdb.write{end marker only grows}", func() { endMarkerOnlyGrows(c) })

	// ---- 5c. Aggregate(stored, incoming): the argument order is part of the meaning of Last / First -----------------------------------
	c.Rule("SYMMETRY", "series/field.AggType.Aggregate{(stored, incoming) at every call site}", func() { aggregateArgumentOrder(c) })

	// ---- 5d. file data is delivered under the query position of ITS field ------------------------------------------------------------
	c.Rule("PROV", "tsdb/tblstore/metricsdata.metricReader.readSeriesData{query position from the field mapping}", func() { queryPositionFromMapping(c) })

	// ---- shared with C03 ---------------------------------------------------------------------------------------------------------------
	c.Rule("SYMMETRY", "aggregation.seriesAggregator.GetAggregator{target range = image of the source range}", func() { aggregatorTargetRange(c) })

	c.Rule("GUARD", "tsdb/tblstore/metricsdata.fieldReader.GetFieldData{only the requested field}", func() { fieldDataOnlyForHeldField(c) })
	c.Rule("PROV", "tsdb/memdb.memoryDatabase.filter{memory data is delivered under the QUERY's field}", func() {
		f := c.Fn("tsdb/memdb.memoryDatabase.filter")
		sts := c.Some(f, eng.StoreField("tsdb/memdb.fieldEntry.field"), "fieldEntry.field = …")
		for i, st := range sts {
			v := st.Instr.(*ssa.Store).Val
			fromQuery := eng.DependsOn(v, func(x ssa.Value) bool {
				cl, ok := x.(*ssa.Call)
				if !ok || cl.Common().StaticCallee() == nil || baseName(cl.Common().StaticCallee().Name()) != "GetFromName" {
					return false
				}
				return eng.DependsOnField(eng.CallRecv(cl), "flow.StorageExecuteContext.Fields")
			})
			c.Check(fromQuery, fmt.Sprintf("entry-field-is-the-query-field[%d]", i), st.Instr, f,
				"the field meta handed to the loader comes from the QUERY's field list (looked up by name): its Index is the field's position among the queried fields — the store's own meta carries the position of the write buffer, a different numbering, and memory data would land in another field's aggregator",
				"stores "+p.Desc(v))
		}
	})

	c.Rule("SYMMETRY", "tsdb/memdb.timeSeriesIndex.GC{hash index and id index are collected together}", func() {
		// idx.hashes (tags hash -> memory series id) and idx.ids (series id -> memory series id) are the two directions of
		// one mapping.  GC drops the hash entry of every expired memory id; the id entry of the same memory id has to go in
		// the same collection — whether it does must not hinge on a size / ratio test of the id index: otherwise a series
		// that resumes gets a NEW memory id through the hash side while IndexTimeSeries (PutIfNotExist) keeps the OLD one on
		// the id side, and query and flush look for its points under an id that has no pages.
		f := c.Fn("tsdb/memdb.timeSeriesIndex.GC")
		var del []eng.Site
		for _, g := range append([]*ssa.Function{f}, f.AnonFuncs...) {
			del = append(del, p.SitesDirect(g, func(p *eng.Prog, in ssa.Instruction) bool {
				cl, ok := in.(*ssa.Call)
				if !ok || cl.Common().StaticCallee() == nil || cl.Common().StaticCallee().Name() != "Delete" {
					return false
				}
				return eng.DependsOnField(eng.CallRecv(cl), "tsdb/memdb.timeSeriesIndex.hashes")
			})...)
		}
		c.Check(len(del) > 0, "hash-entries-collected", nil, f, "GC deletes the hash entries of expired memory series ids", "")
		sts := c.Some(f, eng.StoreField("tsdb/memdb.timeSeriesIndex.ids"), "idx.ids = rebuilt index")
		for i, st := range sts {
			conds, _ := eng.GuardingConds(f, st.Instr)
			bySize := ""
			for _, cd := range conds {
				if eng.DependsOn(cd, func(x ssa.Value) bool {
					cl, ok := x.(*ssa.Call)
					return ok && cl.Common().StaticCallee() != nil && baseName(cl.Common().StaticCallee().Name()) == "Size" && eng.DependsOnField(eng.CallRecv(cl), "tsdb/memdb.timeSeriesIndex.ids")
				}) {
					bySize = p.Desc(cd)
				}
			}
			c.Check(bySize == "", fmt.Sprintf("id-index-collected-whenever-hashes-were[%d]", i), st.Instr, f,
				"the id index is rebuilt (without the collected memory ids) whenever hash entries were collected — not only when the active share of the id index falls below a threshold",
				"the rebuild is guarded by "+bySize)
		}
	})

	c.Rule("SYMMETRY", "aggregation.fieldAggregator.Aggregate{a partial series is merged into the series of its own aggregate type}", func() { partialMergeByAggType(c) })

	c.Rule("PASS", "aggregation.DownSampling{the sequential getter is asked for every source slot}", func() { sequentialCursorRules(c) })

	c.Rule("ANCHOR", mfT+".FlushSeries{startAt}", func() { flusherAnchors(c) })
	c.Rule("PROV", mgT+".Merge{field readers belong to one metric}", func() { mergeReadersPerMetric(c) })
	c.Rule("PASS", "tsdb/tblstore/metricsdata.seriesMerger.merge{one FlushField per target field}", func() { flushFieldPerTargetField(c) })
	c.Rule("PASS", "index.forwardIndex.GetGroupingContext{intersection per group-by tag key}", func() { groupingIntersectsPerTagKey(c) })
	c.Rule("PROV", "tsdb/memdb.memoryDatabase.createdTime{unique per memory database}", func() { memdbIdentityUnique(c) })
	c.Rule("PROV", "flow.DataLoadContext.IterateLowSeriesIDs{storage position = number of elements passed}", func() {
		f := c.Fn("flow.DataLoadContext.IterateLowSeriesIDs")
		calls := c.Some(f, eng.CallTo("param:fn"), "fn(seriesIdxFromQuery, seriesIdxFromStorage)")
		for i, cl := range calls {
			pos := eng.CallArgs(cl.Instr.(ssa.CallInstruction))[1]
			ph, ok := eng.Unwrap(pos).(*ssa.Phi)
			if !ok {
				c.Check(false, fmt.Sprintf("position-is-a-counter[%d]", i), cl.Instr, f, "the storage position handed to the callback is a loop counter", "position "+p.Desc(pos))
				continue
			}
			// every value the counter can take: 0 at entry, otherwise counter + 1
			seen := map[*ssa.Phi]bool{}
			bad := ""
			var walk func(x *ssa.Phi)
			walk = func(x *ssa.Phi) {
				if seen[x] {
					return
				}
				seen[x] = true
				for _, e := range x.Edges {
					e = eng.Unwrap(e)
					if k, isC := eng.ConstInt(e); isC && k == 0 {
						continue
					}
					if p2, isPhi := e.(*ssa.Phi); isPhi {
						walk(p2)
						continue
					}
					base, k := eng.SplitConstAdd(e)
					if p2, isPhi := eng.Unwrap(base).(*ssa.Phi); isPhi && k == 1 {
						walk(p2)
						continue
					}
					bad = p.Desc(e)
				}
			}
			walk(ph)
			c.Check(bad == "", fmt.Sprintf("position-is-a-counter[%d]", i), cl.Instr, f,
				"the position of a series in the storage block is counted element by element (0, then +1 for every id passed): a rank computed for an id that is NOT in the block is the position of its predecessor",
				"the counter can take the value "+bad)
		}
	})
	// ---- a write takes the series it resolves off the collection list --------------------------------------------------------------
	// (every flush marks the series of the flushed memory database as collectable, GC removes a series whose mark is older than 3h:
	// the rule "a write removes the mark" lives in GenMemTimeSeriesID, for the id it RETURNS, on every exit)
	c.Rule("PASS", "tsdb/memdb.timeSeriesIndex.GenMemTimeSeriesID{the returned id leaves the expired set}", func() {
		f := c.Fn("tsdb/memdb.timeSeriesIndex.GenMemTimeSeriesID")
		isDel := func(p *eng.Prog, in ssa.Instruction) bool {
			cl, ok := in.(*ssa.Call)
			if !ok || cl.Common().StaticCallee() == nil || baseName(cl.Common().StaticCallee().Name()) != "Delete" || len(cl.Common().Args) < 2 {
				return false
			}
			return eng.DependsOnField(cl.Common().Args[0], "tsdb/memdb.timeSeriesIndex.expiredIDs")
		}
		// the cell(s) whose content a deferred function deletes from the set
		var cells []ssa.Value
		var direct []eng.Site
		for _, g := range append([]*ssa.Function{f}, f.AnonFuncs...) {
			for _, s := range p.SitesDirect(g, isDel) {
				key := s.Instr.(*ssa.Call).Common().Args[1]
				if g == f {
					direct = append(direct, s)
					continue
				}
				// the key inside the closure: a load of a captured variable -> the enclosing function's cell
				eng.WalkExpr(key, func(x ssa.Value) bool {
					if fv, ok := x.(*ssa.FreeVar); ok {
						for i, v := range g.FreeVars {
							if v != fv {
								continue
							}
							for _, b := range f.Blocks {
								for _, in := range b.Instrs {
									if mc, ok := in.(*ssa.MakeClosure); ok && mc.Fn == ssa.Value(g) && i < len(mc.Bindings) {
										cells = append(cells, mc.Bindings[i])
									}
								}
							}
						}
					}
					return true
				})
			}
		}
		if len(cells) == 0 && len(direct) == 0 {
			c.Undecided("unresolved anchor: no expiredIDs.Delete(id) in GenMemTimeSeriesID")
		}
		n := 0
		for _, b := range f.Blocks {
			for _, in := range b.Instrs {
				r, ok := in.(*ssa.Return)
				if !ok || len(r.Results) == 0 || f.Recover != nil && b == f.Recover {
					continue
				}
				n++
				rv := r.Results[0]
				okR := false
				// returned value is the content of the cell the deferred function deletes
				if u, isLoad := rv.(*ssa.UnOp); isLoad && u.Op == token.MUL {
					for _, cell := range cells {
						if u.X == cell {
							okR = true
						}
					}
				}
				// or it was deleted directly on the way
				for _, d := range direct {
					if eng.SameValue(d.Instr.(*ssa.Call).Common().Args[1], rv) && eng.DominatedBy(f, r, []eng.Site{d}, nil) {
						okR = true
					}
				}
				c.Check(okR, fmt.Sprintf("returned-id-is-the-id-unmarked[%d]", n), r, f,
					"the memory series id a write is given is the id whose expire mark is removed (the deferred function reads the variable the result is returned from)", "returns "+p.Desc(rv))
			}
		}
		c.Check(n >= 2, "exits", nil, f, "GenMemTimeSeriesID has a fast path and a create path", fmt.Sprintf("%d returns", n))
	})

	// ---- the wire form of a partial result: one block per aggregate type, each written from the block's own start slot --------------
	// (the encoder is re-set to startSlot for every aggregate type of the field; the slot cursor that pads the empty slots must
	// restart with it - carried over from the previous type, the values of the 2nd and later types shift toward slot 0)
	c.Rule("RESET", "aggregation.fieldIterator.MarshalBinary{slot cursor restarts with the encoder}", func() {
		f := c.Fn("aggregation.fieldIterator.MarshalBinary")
		resets := p.Sites(f, func(p *eng.Prog, in ssa.Instruction) bool {
			cl, ok := in.(*ssa.Call)
			if !ok {
				return false
			}
			if g := cl.Common().StaticCallee(); g != nil && baseName(g.Name()) == "RestWithStartTime" {
				return true
			}
			return eng.CallTo("var:pkg/encoding.TSDEncodeFunc")(p, in)
		})
		if len(resets) == 0 {
			c.Undecided("unresolved anchor: no encoder (re)start in MarshalBinary")
		}
		outer := innermostLoop(f, resets[0].Instr.Block())
		if outer == nil {
			c.Undecided("unresolved anchor: the encoder is not (re)started inside a loop")
		}
		// the cursor: the phi a row's slot is compared with
		var cursors []*ssa.Phi
		for _, b := range f.Blocks {
			for _, in := range b.Instrs {
				bo, ok := in.(*ssa.BinOp)
				if !ok || bo.Op != token.GTR && bo.Op != token.LSS && bo.Op != token.GEQ && bo.Op != token.LEQ {
					continue
				}
				for _, pair := range [][2]ssa.Value{{bo.X, bo.Y}, {bo.Y, bo.X}} {
					ph, isPhi := pair[1].(*ssa.Phi)
					if !isPhi {
						continue
					}
					if eng.DependsOn(pair[0], func(x ssa.Value) bool {
						cl, ok := x.(*ssa.Call)
						return ok && (cl.Common().IsInvoke() && cl.Common().Method.Name() == "Next" || cl.Common().StaticCallee() != nil && baseName(cl.Common().StaticCallee().Name()) == "Next")
					}) {
						cursors = append(cursors, ph)
					}
				}
			}
		}
		if len(cursors) == 0 {
			c.Undecided("unresolved anchor: no comparison of a row's slot with the slot cursor in MarshalBinary")
		}
		for i, cur := range cursors {
			seen := map[*ssa.Phi]bool{}
			carried := false
			fromStart := false
			var walk func(v ssa.Value)
			walk = func(v ssa.Value) {
				switch x := v.(type) {
				case *ssa.Phi:
					if seen[x] {
						return
					}
					seen[x] = true
					if x.Block() == outer {
						carried = true
					}
					for _, e := range x.Edges {
						walk(e)
					}
				case *ssa.BinOp:
					walk(x.X)
					walk(x.Y)
				default:
					if eng.DependsOnField(v, "aggregation.fieldIterator.startSlot") {
						fromStart = true
					}
				}
			}
			walk(cur)
			c.Check(fromStart && !carried, fmt.Sprintf("cursor-restarts-per-block[%d]", i), cur, f,
				"the slot cursor starts from startSlot again for every encoded block: it is not carried round the loop that (re)starts the encoder", fmt.Sprintf("from startSlot: %v, carried over the outer loop: %v", fromStart, carried))
		}
	})

	c.Rule("RESET", mfT+".reset{per-metric state of the block writer}", func() { flusherMetricReset(c) })
	c.Rule("LAYOUT", "tsdb/tblstore/metricsdata{block footer}", func() { blockFooter(c) })
	c.Rule("EXHAUSTIVE", "series/field{type tables}", func() { fieldTypeTables(c) })
}

// notFoundDoesNotHideTheRest (F12): a family read is the union of its parts (mutable memory database, immutable memory
// database, files). A part that holds the metric but none of the queried series / fields answers with a not-found error; the
// caller may give up (return an error) after a failing part only under a test that excludes not-found
// (errors.Is(err, constants.ErrNotFound)), otherwise the data of the remaining parts is dropped with it.
func notFoundDoesNotHideTheRest(c *eng.Ctx, f *ssa.Function, part eng.Site, label string) {
	p := c.P
	_, errE := eng.ErrCheckEdges(f, part.Instr.(ssa.Value))
	if len(errE) == 0 {
		c.Check(false, label+":error-checked", part.Instr, f, "the part's error is examined", "no err != nil branch")
		return
	}
	isNotFoundTest := func(v ssa.Value) bool {
		return eng.DependsOn(v, func(x ssa.Value) bool {
			cl, ok := x.(*ssa.Call)
			if !ok || cl.Common().StaticCallee() == nil || cl.Common().StaticCallee().Pkg == nil {
				return false
			}
			g := cl.Common().StaticCallee()
			if g.Pkg.Pkg.Path() != "errors" || g.Name() != "Is" || len(cl.Common().Args) != 2 {
				return false
			}
			return eng.DependsOn(cl.Common().Args[1], func(y ssa.Value) bool {
				gl, ok := y.(*ssa.Global)
				return ok && gl.Pkg != nil && strings.HasSuffix(gl.Pkg.Pkg.Path(), "/constants") && gl.Name() == "ErrNotFound"
			})
		})
	}
	// edges taken when a not-found test answered "no, a real error"
	var realErr []eng.Edge
	for _, b := range eng.BlocksT(f) {
		for _, in := range b.Instrs {
			if cl, ok := in.(*ssa.Call); ok && isNotFoundTest(cl) {
				_, fe := eng.BoolCheckEdges(f, cl)
				realErr = append(realErr, fe...)
			}
		}
	}
	succ := map[ssa.Instruction]bool{}
	for _, r := range eng.SuccessReturns(f) {
		succ[r] = true
	}
	n := 0
	for _, e := range errE {
		first := e.B.Succs[e.Succ].Instrs[0]
		n++
		isFail := func(x ssa.Instruction) bool {
			r, ok := x.(*ssa.Return)
			return ok && !succ[r] && x.Parent() == f && x.Block() != f.Recover
		}
		at, giveUp := eng.PathExists(eng.PathQuery{Fn: f, After: first, Target: isFail, Edge: eng.ForbidEdges(realErr)})
		if isFail(first) {
			at, giveUp = first, true
		}
		c.Check(!giveUp, fmt.Sprintf("%s:gives-up-only-on-a-real-error[%d]", label, n), at, f,
			"after a failing part the read is abandoned only on the real-error outcome of a not-found test (the other parts' data is kept when one part merely has nothing)",
			"a failing return is reachable from the part's error edge without taking the `not a not-found error` outcome of errors.Is(err, constants.ErrNotFound)")
	}
	_ = p
}

// endMarkerOnlyGrows (F13): the in-memory field buffer describes its written slots as [start, start+end]; every reader
// (query, flush, compaction of the window) bounds its scan by that range.  A write inside the window may therefore replace
// the end marker only by a LARGER offset: an unconditional `buf[endOffset] = delta` lets a later write of an earlier slot pull
// the marker back and hide the slots written beyond it.  Stores of the constant 0 (first point / reset) are the window start.
func endMarkerOnlyGrows(c *eng.Ctx) {
	p := c.P
	eo, ok := p.ConstInt64("tsdb/memdb", "endOffset")
	if !ok {
		c.Undecided("constant tsdb/memdb.endOffset not found")
	}
	isEndCell := func(v ssa.Value) bool {
		ia, ok := v.(*ssa.IndexAddr)
		if !ok {
			return false
		}
		k, isC := eng.ConstInt(ia.Index)
		return isC && k == eo
	}
	readsEnd := func(v ssa.Value) bool {
		return eng.DependsOn(v, func(x ssa.Value) bool {
			if u, ok := x.(*ssa.UnOp); ok && u.Op == token.MUL && isEndCell(u.X) {
				return true
			}
			if cl, ok := x.(*ssa.Call); ok && cl.Common().StaticCallee() != nil && p.FuncKey(cl.Common().StaticCallee()) == "tsdb/memdb.getEnd" {
				return true
			}
			return false
		})
	}
	n := 0
	for _, fk := range []string{"tsdb/memdb.write", "tsdb/memdb.writeFirstPoint"} {
		f := c.Fn(fk)
		for _, s := range p.SitesDirect(f, func(p *eng.Prog, in ssa.Instruction) bool {
			st, ok := in.(*ssa.Store)
			return ok && isEndCell(st.Addr)
		}) {
			st := s.Instr.(*ssa.Store)
			if k, isC := eng.ConstInt(st.Val); isC && k == 0 {
				c.Check(true, fmt.Sprintf("%s:window-start[%d]", fk, n), st, f, "the end marker is reset to 0 together with a new window start", "")
				n++
				continue
			}
			n++
			conds, _ := eng.GuardingConds(f, st)
			grows := false
			for _, cd := range conds {
				bo, ok := eng.Unwrap(cd).(*ssa.BinOp)
				if !ok {
					continue
				}
				switch bo.Op {
				case token.LSS, token.GTR, token.LEQ, token.GEQ:
				default:
					continue
				}
				// one side is the marker's current content, the other the offset being stored
				valSide := func(v ssa.Value) bool {
					return eng.DependsOn(v, func(x ssa.Value) bool { return x == st.Val }) || eng.DependsOn(st.Val, func(x ssa.Value) bool { return x == v }) && !readsEnd(v)
				}
				if readsEnd(bo.X) && valSide(bo.Y) || readsEnd(bo.Y) && valSide(bo.X) {
					grows = true
				}
			}
			c.Check(grows, fmt.Sprintf("%s:marker-replaced-only-by-a-larger-offset[%d]", fk, n), st, f,
				"inside a window the end marker is replaced only under a comparison with its current content (it can only grow), so a later write of an earlier slot does not hide slots written beyond it",
				"buf[endOffset] = "+p.Desc(st.Val)+" is not guarded by a comparison with the current end marker")
		}
	}
	if n < 2 {
		c.Undecided("expected the end marker to be written in write and writeFirstPoint, found %d stores", n)
	}
}

// aggregateArgumentOrder (F14): AggType.Aggregate(a, b) combines the value already held (a, the earlier one) with the value
// that arrives (b, the later one): Last answers b and First answers a, so the order of the arguments is not a matter of
// style.  Every call site of the module is classified below by what each argument is; a site that passes them the other way
// round gives Last/First the opposite meaning on that path only (memory and flushed data then disagree).
func aggregateArgumentOrder(c *eng.Ctx) {
	p := c.P
	fromCall := func(names ...string) func(ssa.Value) bool {
		return func(v ssa.Value) bool {
			return eng.DependsOn(v, func(x ssa.Value) bool {
				cl, ok := x.(*ssa.Call)
				if !ok {
					return false
				}
				n := ""
				if cl.Common().IsInvoke() {
					n = cl.Common().Method.Name()
				} else if g := cl.Common().StaticCallee(); g != nil {
					n = baseName(g.Name())
				}
				return inList(n, names)
			})
		}
	}
	isParam := func(name string) func(ssa.Value) bool {
		return func(v ssa.Value) bool {
			return eng.DependsOn(v, func(x ssa.Value) bool { pr, ok := x.(*ssa.Parameter); return ok && eng.ParamName(pr) == name })
		}
	}
	loadOfParamSlice := func(name string) func(ssa.Value) bool {
		return func(v ssa.Value) bool {
			u, ok := eng.Unwrap(v).(*ssa.UnOp)
			if !ok || u.Op != token.MUL {
				return false
			}
			ia, ok := u.X.(*ssa.IndexAddr)
			return ok && isParam(name)(ia.X)
		}
	}
	// element of the local / parameter slice with that source name
	loadOfNamedSlice := func(name string) func(ssa.Value) bool {
		return func(v ssa.Value) bool {
			u, ok := eng.Unwrap(v).(*ssa.UnOp)
			if !ok || u.Op != token.MUL {
				return false
			}
			ia, ok := u.X.(*ssa.IndexAddr)
			if !ok {
				return false
			}
			d := p.Desc(ia.X)
			return d == name || strings.HasSuffix(d, ":"+name) || loadOfParamSlice(name)(v)
		}
	}
	// the slot the result is written back to: x[i] in  x[i] = Aggregate(x[i], v)  (whatever the slice is called)
	loadOfOverwrittenSlot := func(v ssa.Value) bool {
		u, ok := eng.Unwrap(v).(*ssa.UnOp)
		if !ok || u.Op != token.MUL {
			return false
		}
		ia, ok := u.X.(*ssa.IndexAddr)
		if !ok || ia.Parent() == nil {
			return false
		}
		for _, b := range ia.Parent().Blocks {
			for _, in := range b.Instrs {
				st, ok := in.(*ssa.Store)
				if !ok {
					continue
				}
				ib, ok := st.Addr.(*ssa.IndexAddr)
				if !ok || p.Desc(ib.X) != p.Desc(ia.X) || p.Desc(ib.Index) != p.Desc(ia.Index) {
					continue
				}
				if cl, isC := eng.Unwrap(st.Val).(*ssa.Call); isC && calleeName(cl) == "Aggregate" {
					return true
				}
			}
		}
		return false
	}
	_ = loadOfNamedSlice
	type role struct {
		stored, incoming func(ssa.Value) bool
		what             string
	}
	table := map[string]role{
		"tsdb/memdb.write":                            {fromCall("BytesToFloat64"), isParam("value"), "stored = the slot's value in the write buffer, incoming = the written value"},
		"tsdb/memdb.merge":                            {fromCall("getOldFloatValue"), fromCall("getCurrentValue"), "stored = the compressed (earlier) value, incoming = the write buffer's (later) value"},
		"aggregation.DownSamplingMultiSeriesInto":     {loadOfOverwrittenSlot, fromCall("Value"), "stored = the target slot, incoming = the decoded source value"},
		"aggregation.fieldAggregator.AggregateBySlot": {fromCall("GetValue"), isParam("value"), "stored = the aggregator's slot, incoming = the value handed in"},
		"aggregation.fieldAggregator.aggregateBySlot": {fromCall("GetValue"), isParam("value"), "stored = the aggregator's slot, incoming = the value handed in"},
	}
	// the per-slot fold of the field aggregator lives in AggregateBySlot or in its helper (since F34): one of the two
	alt := map[string]string{"aggregation.fieldAggregator.AggregateBySlot": "aggregation.fieldAggregator.aggregateBySlot",
		"aggregation.fieldAggregator.aggregateBySlot": "aggregation.fieldAggregator.AggregateBySlot"}
	n := 0
	seen := map[string]bool{}
	for _, s := range p.SitesInProgram(eng.AnyCallTo("series/field.AggType.Aggregate")) {
		top := topFunc(c, s.Fn)
		r, ok := table[top]
		if !ok {
			// an unclassified helper with a single (transparent) call site belongs to its caller
			g := s.Fn
			for g.Parent() != nil {
				g = g.Parent()
			}
			if callers := p.StaticCallers(g); len(callers) == 1 {
				if cl, isCall := callers[0].Instr.(*ssa.Call); isCall && eng.TransparentCallee(cl) == g {
					if r2, ok2 := table[topFunc(c, callers[0].Fn)]; ok2 {
						top, r, ok = topFunc(c, callers[0].Fn), r2, true
					}
				}
			}
		}
		n++
		if !ok {
			c.Check(false, "site-classified:"+top, s.Instr, s.Fn, "every call of AggType.Aggregate is classified (which argument is the stored value, which the incoming one)", "unclassified call site in "+top)
			continue
		}
		seen[top] = true
		a := eng.CallArgs(s.Instr.(*ssa.Call))
		okOrder := r.stored(a[0]) && r.incoming(a[1]) && !(r.stored(a[1]) && r.incoming(a[0]) && !r.incoming(a[1]))
		swapped := r.stored(a[1]) && r.incoming(a[0])
		c.Check(okOrder && !(swapped && !(r.stored(a[0]) && r.incoming(a[1]))), "order:"+top, s.Instr, s.Fn,
			"Aggregate receives (stored, incoming): "+r.what, "passes ("+p.Desc(a[0])+", "+p.Desc(a[1])+")")
	}
	for k := range table {
		if o, ok := alt[k]; ok && (seen[o] || k > o && !seen[k]) {
			if seen[o] {
				continue
			}
		}
		c.Check(seen[k] || seen[alt[k]], "site-exists:"+k, nil, nil, "the classified call site "+k+" exists", "no call of AggType.Aggregate in "+k)
	}
	if n < 4 {
		c.Undecided("expected >= 4 call sites of AggType.Aggregate, found %d", n)
	}
}

// queryPositionFromMapping (F15): a metric block stores its fields in its own order; `readFieldIndexes[queryIdx]` says which
// stored field (if any) answers the queryIdx-th queried field.  Every hand-over of decoded data to the query
// (ctx.DownSampling(range, series, queryIdx, decoder)) must take queryIdx from the iteration over that mapping, on the
// found side of its not-found test — also for a block that holds a single field (a constant position attributes that
// field's points to whatever field the query lists first).
func queryPositionFromMapping(c *eng.Ctx) {
	p := c.P
	f := c.Fn("tsdb/tblstore/metricsdata.metricReader.readSeriesData")
	ds := c.Some(f, eng.CallTo("field:flow.DataLoadContext.DownSampling"), "ctx.DownSampling(timeRange, seriesIdx, queryIdx, decoder)")
	nf, ok := p.ConstInt64("tsdb/tblstore/metricsdata", "fieldNotFound")
	if !ok {
		c.Undecided("constant fieldNotFound not found")
	}
	for i, d := range ds {
		a := eng.CallArgs(d.Instr.(*ssa.Call))
		qi := a[2]
		_, isConst := eng.Unwrap(qi).(*ssa.Const)
		// the position is the index of a range over r.readFieldIndexes
		fromMapping := eng.DependsOn(qi, func(x ssa.Value) bool {
			switch y := x.(type) {
			case *ssa.Phi:
				return y.Comment == "rangeindex"
			case *ssa.Next:
				return true
			case *ssa.BinOp:
				if ph, ok := y.X.(*ssa.Phi); ok && ph.Comment == "rangeindex" {
					return true
				}
			}
			return false
		})
		conds, _ := eng.GuardingConds(f, d.Instr)
		overMapping, tested := false, false
		for _, cd := range conds {
			if eng.DependsOnField(cd, "tsdb/tblstore/metricsdata.metricReader.readFieldIndexes") {
				overMapping = true
				if bo, ok := eng.Unwrap(cd).(*ssa.BinOp); ok && (bo.Op == token.EQL || bo.Op == token.NEQ) {
					if k, isC := eng.ConstInt(bo.Y); isC && k == nf {
						tested = true
					} else if k, isC := eng.ConstInt(bo.X); isC && k == nf {
						tested = true
					}
				}
			}
		}
		c.Check(!isConst && fromMapping && overMapping && tested, fmt.Sprintf("query-position-of-the-stored-field[%d]", i), d.Instr, f,
			"the query position passed to DownSampling is the index of the loop over readFieldIndexes, under its not-found test (never a constant)",
			fmt.Sprintf("position %s (constant: %v, loop index: %v, loop over readFieldIndexes: %v, not-found tested: %v)", p.Desc(qi), isConst, fromMapping, overMapping, tested))
	}
}

// aggregatorTargetRange: down-sampling emits a point of storage slot s of a family into query slot (baseSlot+s)/ratio;
// the per-family aggregator must cover [(baseSlot+range.Start)/ratio, (baseSlot+range.End)/ratio] — both bounds the image
// of the source bounds under that same mapping. (A bound derived from the length of the source range loses the last
// bucket when the family does not start on a bucket boundary: FloatArray.SetValue ignores positions outside.)
func aggregatorTargetRange(c *eng.Ctx) {
	p := c.P
	f := c.Fn("aggregation.seriesAggregator.GetAggregator")
	mk := c.One(f, eng.CallTo("aggregation.NewFieldAggregator"), "NewFieldAggregator(spec, queryStart, targetStart, targetEnd)")
	a := eng.CallArgs(mk.Instr.(*ssa.Call))
	if len(a) != 4 {
		c.Undecided("NewFieldAggregator does not take 4 arguments")
	}
	rng := c.One(f, eng.AnyCallTo("pkg/timeutil.Interval.CalcSlotRange"), "storageInterval.CalcSlotRange(familyTime, queryRange)")
	rd := p.Desc(rng.Instr.(ssa.Value))
	eng.WalkExpr(a[2], func(x ssa.Value) bool {
		if d := p.Desc(x); strings.HasSuffix(d, ".Start") && eng.DependsOn(x, func(y ssa.Value) bool { return y == rng.Instr.(ssa.Value) }) && !strings.ContainsAny(d, "+-/*( ") {
			rd = strings.TrimSuffix(d, ".Start")
		}
		return true
	})
	ds, de := p.Desc(a[2]), p.Desc(a[3])
	c.Observe("GetAggregator: targetStart=" + ds + " targetEnd=" + de)
	c.Check(strings.Contains(ds, rd+".Start") && !strings.Contains(ds, rd+".End"), "start-from-source-start", mk.Instr, f, "the first target slot is computed from the source range's Start", "targetStart = "+ds)
	c.Check(strings.Contains(de, rd+".End") && !strings.Contains(de, rd+".Start"), "end-from-source-end-only", mk.Instr, f,
		"the last target slot is computed from the source range's End alone (not from the range's length)", "targetEnd = "+de)
	c.Check(strings.ReplaceAll(ds, rd+".Start", rd+".End") == de, "same-mapping-for-both-bounds", mk.Instr, f,
		"both bounds are mapped by the same expression (base slot + source slot) / ratio", "targetStart = "+ds+" ; targetEnd = "+de)
	// and that expression is the one the emitter uses
	ratioOK, baseOK := false, false
	eng.WalkExpr(a[3], func(x ssa.Value) bool {
		if bo, ok := x.(*ssa.BinOp); ok {
			if bo.Op == token.QUO && eng.DependsOnField(bo.Y, "aggregation.seriesAggregator.intervalRatio") && eng.DependsOn(bo.X, func(y ssa.Value) bool { return y == rng.Instr.(ssa.Value) }) {
				ratioOK = true
				if add, ok := eng.Unwrap(bo.X).(*ssa.BinOp); ok && add.Op == token.ADD {
					for _, side := range []ssa.Value{add.X, add.Y} {
						if !eng.DependsOn(side, func(y ssa.Value) bool { return y == rng.Instr.(ssa.Value) }) && len(f.Params) > 1 && eng.DependsOn(side, func(y ssa.Value) bool { return y == ssa.Value(f.Params[1]) }) {
							baseOK = true
						}
					}
				}
			}
		}
		return true
	})
	c.Check(ratioOK && baseOK, "mapping-is-(base+slot)/ratio", mk.Instr, f,
		"the mapping is (base slot of the family + source slot) / interval ratio, the expression aggregation.DownSampling emits with", "targetEnd = "+de)
	ds2 := c.Fn("aggregation.DownSampling")
	emit := false
	for _, b := range eng.BlocksT(ds2) {
		for _, in := range b.Instrs {
			if bo, ok := in.(*ssa.BinOp); ok && bo.Op == token.QUO {
				if add, ok := eng.Unwrap(bo.X).(*ssa.BinOp); ok && add.Op == token.ADD && (p.Desc(add.X) == "baseSlot" || p.Desc(add.Y) == "baseSlot") {
					emit = true
				}
			}
		}
	}
	c.Check(emit, "emitter-formula", nil, ds2, "aggregation.DownSampling maps a source slot with (baseSlot + slot) / ratio", "")
}

// sequentialCursorRules: encoding.TSDDecoder is a forward-only cursor over a bit stream: HasValueWithSlot(s) answers and
// advances only for the slot the cursor stands on, and a set has-value bit is followed by the value's bits, which only
// Value() consumes.  Two necessary conditions for every reader of such a stream:
//
//	(1) aggregation.DownSampling asks its getter for EVERY source slot from source.Start on, before any range test can
//	    skip the slot (otherwise the cursor never moves past the slots before the query start and the rest of the block
//	    reads as empty);
//	(2) wherever HasValueWithSlot / HasValue answered true, Value() is called before the next has-value question
//	    (otherwise the value's bits are read as the next slots' flags).
func sequentialCursorRules(c *eng.Ctx) {
	p := c.P
	ds := c.Fn("aggregation.DownSampling")
	g := c.One(ds, invokeOn("", "GetValue"), "getter.GetValue(slot)")
	everyIterationPasses(c, ds, g, "getter-asked-for-every-slot",
		"DownSampling calls getter.GetValue for every source slot of the block, in order, before the query-range tests: the TSD decoder behind the getter is a forward-only cursor")
	// and the loop starts at the block's first slot
	n := 0
	for _, fk := range []string{"aggregation.DownSamplingMultiSeriesInto", "pkg/encoding.TSDDecoder.GetValue"} {
		f := c.Fn(fk)
		isHas := func(p *eng.Prog, in ssa.Instruction) bool {
			cl, ok := in.(*ssa.Call)
			if !ok || cl.Common().StaticCallee() == nil {
				return false
			}
			k := p.FuncKey(cl.Common().StaticCallee())
			return k == "pkg/encoding.TSDDecoder.HasValueWithSlot" || k == "pkg/encoding.TSDDecoder.HasValue"
		}
		has := p.SitesDirect(f, isHas)
		vals := p.SitesDirect(f, eng.CallTo("pkg/encoding.TSDDecoder.Value"))
		for i, h := range has {
			n++
			te, _ := eng.BoolCheckEdges(f, h.Instr.(ssa.Value))
			bad := false
			for _, e := range te {
				first := e.B.Succs[e.Succ].Instrs[0]
				if instrIn(first, vals) {
					continue
				}
				if _, again := eng.PathExists(eng.PathQuery{Fn: f, After: first,
					Target:  func(in ssa.Instruction) bool { return isHas(p, in) },
					Blocked: func(in ssa.Instruction) bool { return instrIn(in, vals) }}); again || isHas(p, first) {
					bad = true
				}
			}
			c.Check(len(te) > 0 && !bad, fmt.Sprintf("%s:value-consumed-after-has-value[%d]", fk, i), h.Instr, f,
				"after a has-value answer of true the value's bits are consumed with Value() before the cursor is asked about another slot",
				"a path from the true edge reaches the next has-value question without Value()")
		}
	}
	c.Check(n >= 2, "cursor-readers-found", nil, nil, "the readers of the TSD cursor were examined", fmt.Sprintf("%d has-value sites", n))
}

// partialMergeByAggType: the result of a field aggregator has one primitive series per aggregate type (Sum, Max, …) and
// is merged upstream by fieldAggregator.Aggregate (leaf reduce, intermediate, root).  A raw value belongs to every
// aggregate type (AggregateBySlot); a value of a PARTIAL series belongs to the series of that series' own type only.
// Necessary condition: Aggregate asks the incoming primitive iterator for its AggType() and the target series it folds
// into depends on the answer.
func partialMergeByAggType(c *eng.Ctx) {
	p := c.P
	f := c.Fn("aggregation.fieldAggregator.Aggregate")
	var typ []eng.Site
	for _, s := range p.Sites(f, invokeOn("", "AggType")) {
		if cl := s.Instr.(*ssa.Call); cl.Common().IsInvoke() && strings.HasSuffix(cl.Common().Value.Type().String(), "series.PrimitiveIterator") {
			typ = append(typ, s)
		}
	}
	c.Check(len(typ) > 0, "asks-the-incoming-series-for-its-type", nil, f,
		"Aggregate reads the aggregate type of every incoming primitive series: with two functions on one field (select sum(f), max(f)) the Sum series must not be added into the Max series and vice versa — every merge step would otherwise inflate both",
		"pIt.AggType() is never consulted: every incoming value is folded into every aggregate type of the target")
	if len(typ) == 0 {
		return
	}
	// the series selected for the fold depends on that type
	dep := false
	for _, b := range eng.BlocksT(f) {
		for _, in := range b.Instrs {
			switch x := in.(type) {
			case *ssa.IndexAddr:
				if eng.DependsOnField(x.X, "aggregation.fieldAggregator.fieldSeriesList") && eng.DependsOn(x.Index, func(v ssa.Value) bool { return v == typ[0].Instr.(ssa.Value) }) {
					dep = true
				}
			case *ssa.If:
				if eng.DependsOn(x.Cond, func(v ssa.Value) bool { return v == typ[0].Instr.(ssa.Value) }) {
					dep = true
				}
			}
		}
	}
	c.Check(dep, "fold-target-depends-on-the-type", typ[0].Instr, f, "which series of the target receives the value is decided by the incoming series' aggregate type", "")
}

func writeBracketRule(c *eng.Ctx) {
	p := c.P
	_ = p
	w := c.Fn(dfT + ".WriteRows")
	acq := c.One(w, invokeOn("", "AcquireWrite"), "db.AcquireWrite()")
	wr := c.Some(w, invokeOn("", "WriteRow"), "db.WriteRow(row)")
	for i, s := range wr {
		c.Check(eng.DominatedBy(w, s.Instr, []eng.Site{acq}, nil), fmt.Sprintf("acquire<write[%d]", i), s.Instr, w, "rows are written only inside an acquired write (a flush waits for it)", "")
	}
	// the bracket is opened in the critical section in which the memory database is picked: Flush swaps mutable -> immutable under
	// the family mutex and FlushFamilyTo then waits for open brackets only; a writer that picked the database before the swap and
	// opens its bracket after the flush has written (and closed) it puts its rows into a dead database - acknowledged, in no table
	{
		g := acq.Instr.Parent()
		held := p.Locks(g, nil).At(acq.Instr)
		c.Check(held.HasField("tsdb.dataFamily.mutex", true), "bracket-opened-under-the-family-mutex", acq.Instr, g,
			"AcquireWrite happens while the family mutex is held - the hold that read f.mutableMemDB - so a flush either sees the open bracket or the writer sees the new memory database", "held at AcquireWrite: "+held.String())
	}
	okDef := false
	for _, cl := range localFuncs(w) { // the deferred function literal, or a named unexported function that is deferred
		if p.MustPass(cl, invokeOn("", "CompleteWrite"), 0) {
			okDef = true
		}
	}
	d := p.Sites(w, func(p *eng.Prog, in ssa.Instruction) bool { _, ok := in.(*ssa.Defer); return ok })
	acqTop := acq
	if t := eng.TopOf(w, acq); t != nil { // the acquire may sit in a helper that picks the database: judged by the helper's call in WriteRows
		acqTop = eng.Site{Fn: w, Instr: t}
	}
	c.Check(okDef && len(d) > 0 && eng.DominatedBy(w, wr[0].Instr, d, nil) && eng.DominatedBy(w, d[0].Instr, []eng.Site{acqTop}, nil), "complete-deferred", nil, w,
		"the write is completed on every exit (deferred right after the acquire)", "")
	fl := c.Fn("tsdb/memdb.memoryDatabase.FlushFamilyTo")
	wt := c.One(fl, invokeOn(".writeCondition", "Wait"), "writeCondition.Wait()")
	first := p.Sites(fl, invokeOn("", "GetMetricIDs"))
	c.Check(len(first) > 0 && eng.DominatedBy(fl, first[0].Instr, []eng.Site{wt}, nil), "flush-waits-for-writers", wt.Instr, fl, "a flush waits for in-flight writers before it reads the memory database", "")
	aw := c.Fn("tsdb/memdb.memoryDatabase.AcquireWrite")
	cw := c.Fn("tsdb/memdb.memoryDatabase.CompleteWrite")
	c.Check(len(p.Sites(aw, invokeOn(".writeCondition", "Add"))) == 1 && len(p.Sites(cw, invokeOn(".writeCondition", "Done"))) == 1, "acquire-add/complete-done", nil, aw, "acquire/complete are the Add/Done of the condition the flush waits on", "")
}
