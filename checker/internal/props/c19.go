package props

import (
	"fmt"
	"go/token"
	"strings"

	"golang.org/x/tools/go/ssa"

	"lincheck/internal/eng"
)

const (
	smT   = "query.pipelineStateMachine"
	plT   = "query.pipeline"
	bsT   = "query/stage.baseStage"
	lecT  = "query/context.LeafExecuteContext"
	poolT = "internal/concurrent.workerPool"
)

func init() {
	register(eng.Property{
		ID:    "C19",
		Title: "A query pipeline completes exactly once and reports failure if any stage failed",
		Explanation: "Decides the structural skeleton of exactly-once completion with error propagation: children are registered (pending++) before " +
			"their parent completes and the parent's completion is not deferred onto the panic path; pending++ precedes stage execution; each execution path of a stage " +
			"invokes exactly one of complete/error handler and the pooled task carries the error handler as its panic handler; the worker pool's recover " +
			"block calls the panic handler; the completion callback and the leaf response are each reachable only through a single CAS-guarded function; " +
			"pending is changed once per execute/complete; every stage error is latched under the mutex before pending is decremented and the callback " +
			"argument is the latch read after the counter reached zero; Pipeline.Execute's recover completes with the recovered error; the leaf callback " +
			"forwards its error to SendResponse.",
		NotDecided: "the dynamic count of callback invocations under a real scheduler, behaviour of the worker pool when its context is cancelled (a dropped task is an observation), stage implementations' own work.",
		MinObls:    40,
		Run:        runC19,
	})
}

func isErrParamNilTest(p *eng.Prog, cond ssa.Value, param ssa.Value) (isTest bool, nonNilOnTrue bool) {
	bo, ok := cond.(*ssa.BinOp)
	if !ok || (bo.Op != token.NEQ && bo.Op != token.EQL) {
		return false, false
	}
	var other ssa.Value
	if eng.IsNilConst(bo.Y) {
		other = bo.X
	} else if eng.IsNilConst(bo.X) {
		other = bo.Y
	} else {
		return false, false
	}
	if other != param {
		return false, false
	}
	return true, bo.Op == token.NEQ
}

func runC19(c *eng.Ctx) {
	p := c.P
	lastTaskDecidedByTheDecrement(c)
	stateMutexReleasedWhenAStageHookPanics(c)
	responseErrorAlwaysExamined(c)
	stagePoolsAreDistinct(c)
	rejectedTaskIsReported(c)
	everyReceiverIsAnswered(c)
	groupingWaitOnlyWhenACollectorRuns(c)
	dispatcherGoroutinesOwnTheirTask(c)
	c.Rule("ERRFLOW", "query/stage{per-shard plan nodes ignore not-found}", func() { shardNodesIgnoreNotFound(c) })

	// ---- 1. children registered before the parent completes -----------------------------------
	c.Rule("ORDER", plT+".executeStage{children<complete}", func() {
		f := c.Fn(plT + ".executeStage")
		// the completion closure is the closure that calls completeStage with a nil error
		var done, fail *ssa.Function
		for _, cl := range f.AnonFuncs {
			for _, s := range p.Sites(cl, eng.AnyCallTo(smT+".completeStage")) {
				args := eng.CallArgs(s.Instr.(ssa.CallInstruction))
				if eng.IsNilConst(args[1]) {
					done = cl
				} else {
					fail = cl
				}
			}
		}
		if done == nil || fail == nil {
			c.Undecided("completion / error closures of executeStage not found")
		}
		c.Check(len(p.Sites(done, eng.DeferTo(smT+".completeStage"))) == 0, "complete-not-deferred", nil, done,
			"the successful completion of a stage is not deferred: a panic while planning the next stages must not record the stage as successful",
			"completeStage(stageID, nil) is deferred, so it also runs while a panic unwinds")
		comp := c.Some(done, eng.CallTo(smT+".completeStage"), "completeStage(stageID,nil)")
		kids := c.Some(done, eng.CallTo(plT+".executeStage"), "child executeStage calls")
		for i, s := range comp {
			w, found := eng.Reaches(done, s.Instr, kids, nil)
			d := ""
			if found {
				d = "a child is scheduled at " + p.InstrPos(w) + " after the parent completed"
			}
			c.Check(!found, fmt.Sprintf("no-child-after-complete[%d]", i), s.Instr, done,
				"no child stage is scheduled after the parent stage completed (pending can not drop to zero while children are still to be registered)", d)
		}
		// every return of the closure passes exactly one completeStage
		_, skip := eng.PathExists(eng.PathQuery{Fn: done, Target: func(in ssa.Instruction) bool { _, ok := in.(*ssa.Return); return ok },
			Blocked: func(in ssa.Instruction) bool { return instrIn(in, comp) }})
		c.Check(!skip, "complete-on-every-path", nil, done, "every normal path of the completion closure completes the stage", "a path returns without completeStage")
		for i, s := range comp {
			_, twice := eng.Reaches(done, s.Instr, comp, nil)
			c.Check(!twice, fmt.Sprintf("complete-once[%d]", i), s.Instr, done, "the stage is completed at most once per path", "completeStage can run twice on one path")
		}
		// the closures are what is passed to stage.Execute
		ex := c.One(f, func(p *eng.Prog, in ssa.Instruction) bool {
			cl, ok := in.(*ssa.Call)
			return ok && cl.Common().IsInvoke() && cl.Common().Method.Name() == "Execute"
		}, "stage.Execute call").Instr.(*ssa.Call)
		a := eng.CallArgs(ex)
		c.Check(strings.HasSuffix(p.Desc(a[1]), p.FuncKey(done)) && strings.HasSuffix(p.Desc(a[2]), p.FuncKey(fail)), "handlers-wired", ex, f,
			"stage.Execute receives the completion closure and the error closure in that order", p.Desc(a[1])+" / "+p.Desc(a[2]))
		// error closure: completeStage with its own parameter
		for _, s := range c.Some(fail, eng.CallTo(smT+".completeStage"), "completeStage(stageID, err)") {
			args := eng.CallArgs(s.Instr.(*ssa.Call))
			fwd := args[1] == ssa.Value(fail.Params[0])
			if _, isParam := args[1].(*ssa.Parameter); isParam && !fwd {
				fwd = eng.DependsOn(args[1], func(x ssa.Value) bool { return x == ssa.Value(fail.Params[0]) }) // through a helper's parameter
			}
			c.Check(fwd, "error-forwarded", s.Instr, fail, "the error handler forwards its error to completeStage", "passes "+p.DescUp(args[1]))
		}
		// 2. pending++ before execution
		reg := c.One(f, eng.CallTo(smT+".executeStage"), "sm.executeStage")
		c.Check(eng.DominatedBy(f, ex, []eng.Site{reg}, nil), "register<execute", ex, f, "the stage is registered (pending++) before it starts executing", "stage.Execute reachable without sm.executeStage")
	})

	// ---- 3. exactly one handler per stage execution path -------------------------------------------
	c.Rule("PASS", bsT+".Execute{exactly-one-handler}", func() {
		f := c.Fn(bsT + ".Execute")
		// the run of one stage: the function that calls stage.execute and then exactly one handler - a closure of Execute
		// (handlers captured) or a helper Execute calls (handlers passed on as parameters)
		var execFn *ssa.Function
		cands := append([]*ssa.Function{}, f.AnonFuncs...)
		for _, cl := range f.AnonFuncs {
			cands = append(cands, cl.AnonFuncs...)
		}
		for _, host := range append([]*ssa.Function{f}, cands...) {
			for _, b := range host.Blocks {
				for _, in := range b.Instrs {
					if cl, ok := in.(*ssa.Call); ok {
						if g := cl.Common().StaticCallee(); g != nil && g.Blocks != nil && strings.HasPrefix(p.FuncKey(g), bsT+".") && g != f {
							cands = append(cands, g)
						}
					}
				}
			}
		}
		handlerOK := eng.CallTo("fv:completeHandle", "param:completeHandle")
		handlerErr := eng.CallTo("fv:errHandle", "param:errHandle")
		for _, cl := range cands {
			if len(p.SitesDirect(cl, eng.CallTo(bsT+".execute"))) > 0 && len(p.SitesDirect(cl, handlerOK)) > 0 {
				execFn = cl
			}
		}
		if execFn == nil {
			c.Undecided("no closure / helper of baseStage.Execute runs stage.execute and calls completeHandle")
		}
		okH := c.Some(execFn, handlerOK, "completeHandle()")
		errH := c.Some(execFn, handlerErr, "errHandle(err)")
		all := append(append([]eng.Site{}, okH...), errH...)
		_, skip := eng.PathExists(eng.PathQuery{Fn: execFn, Target: func(in ssa.Instruction) bool { _, ok := in.(*ssa.Return); return ok },
			Blocked: func(in ssa.Instruction) bool { return instrIn(in, all) }})
		c.Check(!skip, "at-least-one", nil, execFn, "every path of a stage execution invokes a handler", "a path returns without calling completeHandle or errHandle")
		for i, s := range all {
			_, twice := eng.Reaches(execFn, s.Instr, all, nil)
			c.Check(!twice, fmt.Sprintf("at-most-one[%d]", i), s.Instr, execFn, "no path invokes two handlers", "a second handler call is reachable")
		}
		run := c.One(execFn, eng.CallTo(bsT+".execute"), "stage.execute(node)")
		for i, s := range okH {
			ok, why := eng.OkDominates(execFn, run.Instr, s.Instr)
			c.Check(ok, fmt.Sprintf("complete-only-on-success[%d]", i), s.Instr, execFn, "completeHandle is invoked only when execute returned nil", why)
		}
		_, errEdges := eng.ErrCheckEdges(execFn, run.Instr.(ssa.Value))
		for i, s := range errH {
			// errHandle reachable only through an err != nil edge, with that error
			_, found := eng.PathExists(eng.PathQuery{Fn: execFn, Target: func(in ssa.Instruction) bool { return in == s.Instr }, Edge: eng.ForbidEdges(errEdges)})
			arg := eng.CallArgs(s.Instr.(*ssa.Call))[0]
			c.Check(!found && eng.DerivesFromCall(arg, run.Instr.(ssa.Value), 0), fmt.Sprintf("error-handler-gets-the-error[%d]", i), s.Instr, execFn,
				"errHandle is invoked exactly on the failing edge, with execute's error", "arg "+p.Desc(arg))
		}
		// Execute itself: every path runs execFn inline or submits it; the task's panic handler is errHandle
		direct := p.Sites(f, func(p *eng.Prog, in ssa.Instruction) bool {
			cl, ok := in.(*ssa.Call)
			if !ok {
				return false
			}
			return cl.Common().StaticCallee() == execFn || strings.HasSuffix(p.Desc(cl.Common().Value), p.FuncKey(execFn))
		})
		submit := c.Some(f, invokeOn(".execPool", "Submit"), "execPool.Submit")
		ways := append(append([]eng.Site{}, direct...), submit...)
		_, skip2 := eng.PathExists(eng.PathQuery{Fn: f, Target: func(in ssa.Instruction) bool { _, ok := in.(*ssa.Return); return ok },
			Blocked: func(in ssa.Instruction) bool { return instrIn(in, ways) }})
		c.Check(!skip2 && len(direct) > 0, "executed-or-submitted", nil, f, "every path of Stage.Execute either runs the stage inline or submits it", "a path does neither")
		for i, s := range ways {
			_, twice := eng.Reaches(f, s.Instr, ways, nil)
			c.Check(!twice, fmt.Sprintf("not-both[%d]", i), s.Instr, f, "a stage is not run twice (inline and submitted)", "both reachable on one path")
		}
		// Execute itself never calls a handler: the task (or the inline run) owns the single handler call; whether the pool
		// accepted a submitted task is not observable, so a handler call next to Submit completes the stage a second time
		for i, s := range p.SitesDirect(f, eng.CallTo("param:completeHandle", "param:errHandle", "local:completeHandle", "local:errHandle")) {
			c.Check(false, fmt.Sprintf("no-handler-call-outside-the-run[%d]", i), s.Instr, f,
				"baseStage.Execute hands the handlers to the inline run or to the submitted task and calls neither itself", "direct handler call in Execute")
		}
		for _, s := range submit {
			task := eng.CallArgs(s.Instr.(*ssa.Call))[1]
			nt, ok := task.(*ssa.Call)
			if !ok || !inList(strings.Join(p.CalleeKeys(nt), ""), []string{"internal/concurrent.NewTask"}) {
				c.Check(false, "task-shape", s.Instr, f, "the submitted task is concurrent.NewTask(handle, panicHandle)", "task is "+p.Desc(task))
				continue
			}
			ta := eng.CallArgs(nt)
			c.Check(p.Desc(ta[1]) == "errHandle", "panic-handler-is-errHandle", nt, f, "a panic inside a pooled stage is routed to the stage's error handler", "panic handler is "+p.Desc(ta[1]))
			// handle closure must call execFn on every path
			mc, ok := ta[0].(*ssa.MakeClosure)
			okRun := false
			if eng.FuncOfValue(ta[0]) == execFn {
				okRun = true // execFn itself is the task
			} else if ok {
				h := mc.Fn.(*ssa.Function)
				okRun = p.MustPass(h, func(p *eng.Prog, in ssa.Instruction) bool {
					cl, ok := in.(*ssa.Call)
					return ok && (cl.Common().StaticCallee() == execFn || cellHoldsOnly(cl.Common().Value, execFn))
				}, 0)
			} else if strings.HasSuffix(p.Desc(ta[0]), p.FuncKey(execFn)) {
				okRun = true
			}
			c.Check(okRun, "task-runs-execFn", nt, f, "the pooled task runs the same execFn as the inline path", "handle is "+p.Desc(ta[0]))
		}
		// every Stage.Execute in the module is baseStage's
		ifc := p.LookupType("query/stage", "Stage")
		if ifc == nil {
			c.Undecided("interface query/stage.Stage not found")
		}
		n := 0
		for _, pk := range p.Pkgs {
			if !strings.HasPrefix(pk.PkgPath, eng.ModPrefix) {
				continue
			}
			for _, fn := range p.FuncsWithPrefix(eng.ShortPkg(pk.PkgPath) + ".") {
				if fn.Name() == "Execute" && fn.Signature.Recv() != nil && fn.Signature.Params().Len() == 3 &&
					strings.Contains(fn.Signature.Params().At(0).Type().String(), "stage.PlanNode") {
					n++
					c.Check(p.FuncKey(fn) == bsT+".Execute", "sole-implementation:"+p.FuncKey(fn), nil, fn,
						"baseStage.Execute is the only implementation of Stage.Execute (all stages embed it)", "another implementation exists")
				}
			}
		}
		if n == 0 {
			c.Undecided("no Stage.Execute implementation found")
		}
	})

	// ---- 4. worker pool: panic -> panic handler -----------------------------------------------------
	c.Rule("ORDER", poolT+".execTask{recover->panicHandle}", func() {
		f := c.Fn(poolT + ".execTask")
		// the deferred function that recovers: a function literal or a method deferred directly
		var rec *ssa.Function
		deferredFn := func(df *ssa.Defer) *ssa.Function {
			if g := df.Call.StaticCallee(); g != nil && g.Blocks != nil {
				return g
			}
			return eng.FuncOfValue(df.Call.Value)
		}
		for _, b := range f.Blocks {
			for _, in := range b.Instrs {
				if df, ok := in.(*ssa.Defer); ok {
					if g := deferredFn(df); g != nil && len(p.SitesDirect(g, eng.CallTo("builtin:recover"))) > 0 {
						rec = g
					}
				}
			}
		}
		if rec == nil {
			c.Undecided("execTask defers no function that calls recover() directly")
		}
		d := c.Some(f, func(p *eng.Prog, in ssa.Instruction) bool {
			df, ok := in.(*ssa.Defer)
			return ok && deferredFn(df) == rec
		}, "defer of the recovering function")
		run := c.One(f, eng.CallTo("internal/concurrent.Task.Exec"), "task.Exec()")
		c.Check(eng.DominatedBy(f, run.Instr, d, nil), "defer<exec", run.Instr, f, "the recover block is installed before the task runs", "task.Exec reachable without the deferred recover")
		r := c.One(rec, eng.CallTo("builtin:recover"), "recover()")
		ph := c.Some(rec, eng.CallTo("field:internal/concurrent.Task.panicHandle"), "task.panicHandle(err)")
		facts := p.MustFacts(rec)
		for i, s := range ph {
			fs := facts.At(s.Instr)
			ne := facts.Find(fs, "ne", func(_ string, v ssa.Value) bool { return v == r.Instr.(ssa.Value) }, eng.DescIs("nil"))
			c.Check(len(ne) > 0, fmt.Sprintf("handler-on-panic[%d]", i), s.Instr, rec, "the panic handler is invoked on the recovered-panic path", "facts: "+strings.Join(facts.Render(fs), " ; "))
			arg := eng.CallArgs(s.Instr.(*ssa.Call))[0]
			c.Check(eng.DependsOn(arg, func(x ssa.Value) bool { return x == r.Instr.(ssa.Value) }), fmt.Sprintf("handler-gets-panic[%d]", i), s.Instr, rec,
				"the handler receives an error built from the recovered value", "arg "+p.Desc(arg))
		}
		// on the r != nil path with a non-nil handler, the handler call is not skippable
		var bad []eng.Edge
		for _, b := range eng.BlocksT(rec) {
			if len(b.Instrs) == 0 {
				continue
			}
			if ifi, ok := b.Instrs[len(b.Instrs)-1].(*ssa.If); ok {
				if bo, ok := ifi.Cond.(*ssa.BinOp); ok && (bo.Op == token.NEQ || bo.Op == token.EQL) && (eng.IsNilConst(bo.X) || eng.IsNilConst(bo.Y)) {
					// forbid the "== nil" outcome of any nil test (r == nil, panicHandle == nil)
					if bo.Op == token.NEQ {
						bad = append(bad, eng.Edge{B: b, Succ: 1})
					} else {
						bad = append(bad, eng.Edge{B: b, Succ: 0})
					}
				}
			}
		}
		_, skip := eng.PathExists(eng.PathQuery{Fn: rec, After: r.Instr, Target: func(in ssa.Instruction) bool { _, ok := in.(*ssa.Return); return ok },
			Blocked: func(in ssa.Instruction) bool { return instrIn(in, ph) }, Edge: eng.ForbidEdges(bad)})
		c.Check(!skip, "handler-not-skippable", r.Instr, rec, "when a panic was recovered and a handler is set, every path calls it", "a path with r != nil and handler != nil returns without calling the handler")
		owner(c, "call of Task.Exec", eng.AnyCallTo("internal/concurrent.Task.Exec"), []string{poolT + ".execTask"}, 1)
		owner(c, "call of Task.handle", eng.AnyCallTo("field:internal/concurrent.Task.handle"), []string{"internal/concurrent.Task.Exec"}, 1)
	})

	// ---- 5. single CAS-guarded completion and response ---------------------------------------------
	c.Rule("GUARD", smT+".complete{CAS}", func() {
		f := c.Fn(smT + ".complete")
		cb := c.One(f, eng.CallTo("field:"+smT+".completedCallbackFn"), "completedCallbackFn(err)")
		facts := p.MustFacts(f)
		fs := facts.At(cb.Instr)
		cas := facts.Find(fs, "true", func(d string, v ssa.Value) bool {
			cl, ok := v.(*ssa.Call)
			if !ok {
				return false
			}
			fa, m, _ := eng.AtomicOp(cl)
			return fa != nil && (m == "CompareAndSwap" || m == "CAS") && strings.HasSuffix(eng.FieldKeyOfAddr(fa), ".completed") &&
				isBoolConst(cl.Common().Args[1], false) && isBoolConst(cl.Common().Args[2], true)
		}, nil)
		c.Check(len(cas) > 0, "callback-under-CAS", cb.Instr, f, "the completion callback runs only for the caller that wins completed.CompareAndSwap(false,true)", "facts: "+strings.Join(facts.Render(fs), " ; "))
		arg := eng.CallArgs(cb.Instr.(*ssa.Call))[0]
		c.Check(arg == ssa.Value(f.Params[1]), "callback-gets-err", cb.Instr, f, "the callback receives complete's error argument", "passes "+p.Desc(arg))
		owner(c, "call of completedCallbackFn", eng.AnyCallTo("field:"+smT+".completedCallbackFn"), []string{smT + ".complete"}, 1)
		owner(c, "store to pipelineStateMachine.completed", eng.StoreField(smT+".completed"), []string{smT + ".complete"}, 1)
	})
	c.Rule("GUARD", lecT+".SendResponse{CAS}", func() {
		f := c.Fn(lecT + ".SendResponse")
		facts := p.MustFacts(f)
		sends := c.Some(f, eng.CallTo(lecT+".sendResponse"), "sendResponse calls")
		for i, s := range sends {
			fs := facts.At(s.Instr)
			cas := facts.Find(fs, "true", func(d string, v ssa.Value) bool {
				cl, ok := v.(*ssa.Call)
				if !ok {
					return false
				}
				fa, m, _ := eng.AtomicOp(cl)
				return fa != nil && (m == "CompareAndSwap" || m == "CAS") && strings.HasSuffix(eng.FieldKeyOfAddr(fa), ".completed") &&
					isBoolConst(cl.Common().Args[1], false) && isBoolConst(cl.Common().Args[2], true)
			}, nil)
			c.Check(len(cas) > 0, fmt.Sprintf("send-under-CAS[%d]", i), s.Instr, f, "a response is written only by the caller that wins completed.CompareAndSwap(false,true)", "facts: "+strings.Join(facts.Render(fs), " ; "))
			_, twice := eng.Reaches(f, s.Instr, sends, nil)
			c.Check(!twice, fmt.Sprintf("one-send-per-path[%d]", i), s.Instr, f, "no path writes two responses", "a second sendResponse is reachable")
		}
		// after winning the CAS every path sends exactly one response
		var win ssa.Instruction
		for _, s := range p.Sites(f, eng.StoreField(lecT+".completed")) {
			win = s.Instr
		}
		if win == nil {
			c.Undecided("CAS on completed not found")
		}
		_, fe := eng.BoolCheckEdges(f, win.(ssa.Value))
		_, skip := eng.PathExists(eng.PathQuery{Fn: f, After: win, Target: func(in ssa.Instruction) bool { _, ok := in.(*ssa.Return); return ok },
			Blocked: func(in ssa.Instruction) bool { return instrIn(in, sends) }, Edge: eng.ForbidEdges(fe)})
		c.Check(!skip, "winner-always-responds", win, f, "the caller that wins the CAS sends a response on every path (never none)", "a path after a successful CAS returns without sending")
		// error path sends the error
		for i, s := range sends {
			args := eng.CallArgs(s.Instr.(*ssa.Call))
			fs := facts.At(s.Instr)
			if len(facts.Find(fs, "ne", eng.DescIs("err"), eng.DescIs("nil"))) > 0 {
				sent := args[1] == ssa.Value(f.Params[1])
				if _, isParam := args[1].(*ssa.Parameter); isParam && !sent {
					sent = eng.DependsOn(args[1], func(x ssa.Value) bool { return x == ssa.Value(f.Params[1]) }) // through a helper's parameter
				}
				c.Check(sent, fmt.Sprintf("error-sent[%d]", i), s.Instr, f, "on the failing path the response carries the error", "passes "+p.DescUp(args[1]))
			}
		}
		// first decision in SendResponse after the CAS is on err: a non-nil error never yields a result set
		for _, s := range sends {
			args := eng.CallArgs(s.Instr.(*ssa.Call))
			if eng.IsNilConst(args[1]) {
				fs := facts.At(s.Instr)
				okNil := len(facts.Find(fs, "eq", eng.DescIs("err"), eng.DescIs("nil"))) > 0
				if !okNil {
					// the pipeline error merged with a later one into one variable: `merged == nil` implies `err == nil` when every way
					// into the merge either carries err itself or is taken only under err == nil
					errP := ssa.Value(f.Params[1])
					for _, ft := range facts.Find(fs, "eq", func(_ string, v ssa.Value) bool { _, ok := v.(*ssa.Phi); return ok }, eng.DescIs("nil")) {
						ph := ft.X.(*ssa.Phi)
						all := true
						for k, e := range ph.Edges {
							if e == errP {
								continue
							}
							ef := facts.EdgeFactsFor(ph.Block().Preds[k], ph.Block())
							if len(facts.Find(ef, "eq", func(_ string, v ssa.Value) bool { return v == errP }, eng.DescIs("nil"))) == 0 {
								all = false
							}
						}
						if all && len(ph.Edges) > 0 {
							okNil = true
						}
					}
				}
				c.Check(okNil, "result-only-without-error", s.Instr, f,
					"a result set (nil error) is sent only on the path where the pipeline error is nil", "facts: "+strings.Join(facts.Render(fs), " ; "))
			}
		}
		owner(c, "call of LeafExecuteContext.sendResponse", eng.AnyCallTo(lecT+".sendResponse"), []string{lecT + ".SendResponse"}, 2)
		owner(c, "store to LeafExecuteContext.completed", eng.StoreField(lecT+".completed"), []string{lecT + ".SendResponse"}, 1)
	})

	// ---- 6. pending bookkeeping -------------------------------------------------------------------
	c.Rule("PASS", smT+"{pending}", func() {
		owner(c, "change of pipelineStateMachine.pending", eng.StoreField(smT+".pending"), []string{smT + ".executeStage", smT + ".completeStage"}, 2)
		ex := c.Fn(smT + ".executeStage")
		inc := c.Some(ex, eng.StoreField(smT+".pending"), "pending.Inc")
		for i, s := range inc {
			_, m, _ := eng.AtomicOp(s.Instr)
			_, twice := eng.Reaches(ex, s.Instr, inc, nil)
			c.Check(m == "Inc" && !twice, fmt.Sprintf("inc-once[%d]", i), s.Instr, ex, "registering a stage increments pending exactly once", "op "+m)
		}
		_, skip := eng.PathExists(eng.PathQuery{Fn: ex, Target: func(in ssa.Instruction) bool { _, ok := in.(*ssa.Return); return ok }, Blocked: func(in ssa.Instruction) bool { return instrIn(in, inc) }})
		c.Check(!skip, "inc-every-path", nil, ex, "every path of executeStage increments pending", "a path returns without pending.Inc")
		cs := c.Fn(smT + ".completeStage")
		dec := c.Some(cs, eng.StoreField(smT+".pending"), "pending.Dec")
		for i, s := range dec {
			_, m, _ := eng.AtomicOp(s.Instr)
			_, twice := eng.Reaches(cs, s.Instr, dec, nil)
			c.Check(m == "Dec" && !twice, fmt.Sprintf("dec-once[%d]", i), s.Instr, cs, "completing a stage decrements pending exactly once", "op "+m)
		}
		_, skip = eng.PathExists(eng.PathQuery{Fn: cs, Target: func(in ssa.Instruction) bool { _, ok := in.(*ssa.Return); return ok }, Blocked: func(in ssa.Instruction) bool { return instrIn(in, dec) }})
		c.Check(!skip, "dec-every-path", nil, cs, "every path of completeStage decrements pending (also for an unknown stage id)", "a path returns without pending.Dec")
		// complete only when the counter reached zero
		facts := p.MustFacts(cs)
		for i, s := range c.Some(cs, eng.CallTo(smT+".complete"), "sm.complete") {
			fs := facts.At(s.Instr)
			z := facts.Find(fs, "eq", func(_ string, v ssa.Value) bool { return instrIn(v.(ssa.Instruction), dec) }, eng.DescIs("0"))
			c.Check(len(z) > 0, fmt.Sprintf("complete-at-zero[%d]", i), s.Instr, cs, "the pipeline is completed from completeStage only when pending.Dec() returned 0 (every started stage finished)", "facts: "+strings.Join(facts.Render(fs), " ; "))
		}
		owner(c, "call of pipelineStateMachine.complete", eng.AnyCallTo(smT+".complete"), []string{smT + ".completeStage", plT + ".Execute"}, 2)
	})

	// ---- 7. ERRFLOW: every stage error reaches the callback -------------------------------------------
	c.Rule("ERRFLOW", smT+".completeStage{err->callback}", func() {
		cs := c.Fn(smT + ".completeStage")
		errP := cs.Params[2]
		latch := c.Some(cs, eng.StoreField(smT+".err"), "store to the error latch sm.err")
		dec := c.Some(cs, eng.StoreField(smT+".pending"), "pending.Dec")
		ls := p.Locks(cs, nil)
		// the stage error as seen at an instruction: completeStage's own parameter, or the parameter of a helper that is handed it
		errAt := func(at ssa.Instruction) ssa.Value {
			g := at.Parent()
			if g == cs {
				return errP
			}
			for _, q := range g.Params {
				if isErrorType(q.Type()) && eng.UpParamVia(cs, eng.Site{Fn: g, Instr: at}, q) == ssa.Value(errP) {
					return q
				}
			}
			return nil
		}
		for i, s := range latch {
			v, _ := storedValue(s.Instr)
			c.Check(v != nil && v == errAt(s.Instr), fmt.Sprintf("latch-value[%d]", i), s.Instr, cs, "the latch stores the stage's error", "stores "+p.Desc(v))
			lsAt := ls
			if s.Instr.Parent() != cs {
				lsAt = p.Locks(s.Instr.Parent(), nil) // a helper that takes the mutex itself
			}
			c.Check(lsAt.At(s.Instr).HasField(smT+".mutex", true), fmt.Sprintf("latch-locked[%d]", i), s.Instr, cs, "the latch is written under sm.mutex", "held: "+lsAt.At(s.Instr).String())
			_, after := eng.Reaches(cs, s.Instr, dec, nil)
			c.Check(after, fmt.Sprintf("latch-before-dec[%d]", i), s.Instr, cs, "the latch is written before pending is decremented", "no decrement follows the latch store")
		}
		for i, d := range dec {
			_, late := eng.Reaches(cs, d.Instr, latch, nil)
			c.Check(!late, fmt.Sprintf("no-latch-after-dec[%d]", i), d.Instr, cs, "no latch store after the decrement (the reader of the latch may already have run)", "a latch store is reachable after pending.Dec")
		}
		// no path with err != nil and an empty latch reaches the decrement without latching
		var forbid []eng.Edge
		for _, b := range eng.BlocksT(cs) {
			if len(b.Instrs) == 0 {
				continue
			}
			ifi, ok := b.Instrs[len(b.Instrs)-1].(*ssa.If)
			if !ok {
				continue
			}
			ep := errAt(ifi)
			if ep == nil {
				continue
			}
			if t, nonNilOnTrue := isErrParamNilTest(p, ifi.Cond, ep.(*ssa.Parameter)); t {
				if nonNilOnTrue {
					forbid = append(forbid, eng.Edge{B: b, Succ: 1})
				} else {
					forbid = append(forbid, eng.Edge{B: b, Succ: 0})
				}
				continue
			}
			// tests of the latch itself: forbid the "latch already set" outcome
			if bo, ok := ifi.Cond.(*ssa.BinOp); ok && (bo.Op == token.EQL || bo.Op == token.NEQ) {
				var other ssa.Value
				if eng.IsNilConst(bo.Y) {
					other = bo.X
				} else if eng.IsNilConst(bo.X) {
					other = bo.Y
				}
				if other != nil && strings.HasSuffix(p.Desc(other), "sm.err") {
					if bo.Op == token.EQL {
						forbid = append(forbid, eng.Edge{B: b, Succ: 1})
					} else {
						forbid = append(forbid, eng.Edge{B: b, Succ: 0})
					}
				}
			}
		}
		_, leak := eng.PathExists(eng.PathQuery{Fn: cs, Target: func(in ssa.Instruction) bool { return instrIn(in, dec) },
			Blocked: func(in ssa.Instruction) bool { return instrIn(in, latch) }, Edge: eng.ForbidEdges(forbid)})
		c.Check(!leak, "error-always-latched", dec[0].Instr, cs,
			"on every path on which the stage error is non-nil and no earlier error is latched, the error is latched before pending is decremented",
			"a path with err != nil reaches pending.Dec without storing sm.err")
		// callback argument is the latch, read after the decrement, under the mutex
		for i, s := range c.Some(cs, eng.CallTo(smT+".complete"), "sm.complete") {
			arg := eng.CallArgs(s.Instr.(*ssa.Call))[0]
			var load ssa.Instruction
			eng.WalkExpr(arg, func(x ssa.Value) bool {
				if in, ok := x.(ssa.Instruction); ok && eng.LoadField(smT+".err")(p, in) {
					load = in
				}
				return true
			})
			okLoad := load != nil && eng.DominatedBy(cs, load, dec, nil) && ls.At(load).HasField(smT+".mutex", false)
			c.Check(okLoad, fmt.Sprintf("callback-arg-is-latch[%d]", i), s.Instr, cs,
				"the error handed to complete() is the latch, read under the mutex after the counter reached zero (so it sees every stage's latch store)",
				"argument is "+p.Desc(arg))
		}
		owner(c, "store to pipelineStateMachine.err", eng.StoreField(smT+".err"), []string{smT + ".completeStage"}, 1)
	})

	// ---- 8. Pipeline.Execute recover ---------------------------------------------------------------------
	c.Rule("ORDER", plT+".Execute{recover->complete(err)}", func() {
		f := c.Fn(plT + ".Execute")
		var rec *ssa.Function
		for _, g := range localFuncs(f) { // the deferred closure, or the method it was turned into
			if len(p.SitesDirect(g, eng.CallTo("builtin:recover"))) > 0 {
				rec = g
			}
		}
		if rec == nil {
			c.Undecided("no deferred recover function in pipeline.Execute")
		}
		r := c.One(rec, eng.CallTo("builtin:recover"), "recover()")
		for i, s := range c.Some(rec, eng.CallTo(smT+".complete"), "sm.complete(err)") {
			arg := eng.CallArgs(s.Instr.(*ssa.Call))[0]
			c.Check(!eng.IsNilConst(arg) && eng.DependsOn(arg, func(x ssa.Value) bool { return x == r.Instr.(ssa.Value) }), fmt.Sprintf("panic-error[%d]", i), s.Instr, rec,
				"a panic escaping stage scheduling completes the pipeline with an error built from the recovered value", "passes "+p.Desc(arg))
		}
		run := c.One(f, eng.CallTo(plT+".executeStage"), "executeStage(root)")
		d := c.Some(f, func(p *eng.Prog, in ssa.Instruction) bool { _, ok := in.(*ssa.Defer); return ok }, "defer")
		c.Check(eng.DominatedBy(f, run.Instr, d, nil), "defer<run", run.Instr, f, "the recover block is installed before the root stage runs", "")
	})

	// ---- 7b. the task's error is a latch: once a failure is recorded, no later event lowers it to "no error" ---------------------------
	c.Rule("ERRFLOW", "query/context.baseTaskContext.err{latched}", func() { taskErrorLatched(c) })
	c.Rule("PASS", mcT+".handleResponse{expectResults--}", func() { expectResultsCounting(c) })

	// ---- 7c. a leaf request whose pipeline was started is answered by the pipeline's callback only -------------------------------------
	c.Rule("PROV", "query.leafTaskProcessor.processDataSearch{after Execute the answer belongs to the callback}", func() {
		f := c.Fn("query.leafTaskProcessor.processDataSearch")
		ex := c.One(f, invokeOn("", "Execute"), "pipeline.Execute(metadata lookup stage)")
		n := 0
		for _, b := range f.Blocks {
			r, ok := b.Instrs[len(b.Instrs)-1].(*ssa.Return)
			if !ok || b == f.Recover || len(r.Results) == 0 {
				continue
			}
			if _, after := eng.Reaches(f, ex.Instr, []eng.Site{{Fn: f, Instr: r}}, nil); !after {
				continue
			}
			n++
			ev := r.Results[len(r.Results)-1]
			c.Check(eng.IsNilConst(ev), fmt.Sprintf("returns-nil-once-the-pipeline-runs[%d]", n), r, f,
				"once pipeline.Execute was called, processDataSearch returns nil: the completion callback answers the request (SendResponse, CAS-guarded), and TaskHandler.process answers again for every error Process returns",
				"returns "+p.Desc(ev))
		}
		c.Check(n > 0, "exit-after-execute-found", nil, f, "processDataSearch returns after starting the pipeline", "")
	})

	// ---- 8a. a stage that was counted as pending is given back also when STARTING it panics --------------------------------------------
	c.Rule("TYPESTATE", plT+".executeStage{a counted stage is completed when starting it panics}", func() {
		f := c.Fn(plT + ".executeStage")
		inc := c.One(f, eng.CallTo(smT+".executeStage"), "sm.executeStage(parent, id, stage) (pending++)")
		foreign := p.SitesDirect(f, func(p *eng.Prog, in ssa.Instruction) bool {
			cl, ok := in.(*ssa.Call)
			return ok && cl.Common().IsInvoke() && strings.HasSuffix(cl.Common().Value.Type().String(), "stage.Stage") && (cl.Common().Method.Name() == "Plan" || cl.Common().Method.Name() == "Execute")
		})
		c.Check(len(foreign) >= 2, "stage-code-called", nil, f, "executeStage runs the stage's own Plan() and Execute()", fmt.Sprintf("%d calls", len(foreign)))
		// a deferred function of executeStage that recovers and completes THIS stage with the recovered error
		var guards []eng.Site
		for _, d := range p.SitesDirect(f, func(p *eng.Prog, in ssa.Instruction) bool { _, ok := in.(*ssa.Defer); return ok }) {
			g := eng.FuncOfValue(d.Instr.(*ssa.Defer).Call.Value)
			if g == nil {
				continue
			}
			rec := p.Sites(g, eng.CallTo("builtin:recover"))
			if len(rec) == 0 {
				continue
			}
			okDone := false
			for _, cs := range p.Sites(g, eng.CallTo(smT+".completeStage")) {
				a := eng.CallArgs(cs.Instr.(*ssa.Call))
				if len(a) == 2 && !eng.IsNilConst(a[1]) && eng.DependsOn(a[1], func(x ssa.Value) bool { return x == rec[0].Instr.(ssa.Value) }) {
					okDone = true
					// … for EVERY kind of stage: recover() runs on every path of the deferred function, and whether the stage is completed
					// depends on the recovered value alone (a pooled stage's Plan() still runs inline, inside its parent's handler)
					if !p.MustPass(g, eng.CallTo("builtin:recover"), 0) {
						okDone = false
					}
					conds, _ := eng.GuardingConds(g, cs.Instr)
					for _, cd := range conds {
						if !eng.DependsOn(cd, func(x ssa.Value) bool { return x == rec[0].Instr.(ssa.Value) }) {
							okDone = false
						}
					}
				}
			}
			if okDone {
				guards = append(guards, d)
			}
		}
		for i, x := range foreign {
			_, after := eng.Reaches(f, inc.Instr, []eng.Site{x}, nil)
			if !after {
				continue // runs before the stage is counted: a panic leaves nothing behind
			}
			c.Check(len(guards) > 0 && eng.DominatedBy(f, x.Instr, guards, nil), fmt.Sprintf("panic-completes-the-stage[%d]", i), x.Instr, f,
				"once a stage is counted as pending, a panic in its Plan() / Execute() (an inline stage runs its operators right there) is recovered by executeStage itself and completes THAT stage with the error: "+
					"under an async parent the panic would otherwise unwind into the worker pool, whose handler completes the PARENT — the stage's own count is never given back and the pipeline never signals completion",
				"no deferred recover→completeStage(stageID, err) covers this call")
		}
	})

	// ---- 8a2. the registration itself calls no stage code once the stage is counted (F47) ------------------------------------------
	c.Rule("TYPESTATE", smT+".executeStage{no stage code between pending++ and the caller's recover}", func() {
		g := c.Fn(smT + ".executeStage")
		incs := c.Some(g, func(p *eng.Prog, in ssa.Instruction) bool {
			cl, ok := in.(*ssa.Call)
			if !ok || cl.Common().StaticCallee() == nil || baseName(cl.Common().StaticCallee().Name()) != "Inc" || len(cl.Common().Args) == 0 {
				return false
			}
			return eng.DependsOnField(cl.Common().Args[0], smT+".pending") || strings.HasSuffix(p.Desc(cl.Common().Args[0]), ".pending")
		}, "sm.pending.Inc()")
		isStageCall := func(p *eng.Prog, in ssa.Instruction) bool {
			cl, ok := in.(*ssa.Call)
			return ok && cl.Common().IsInvoke() && strings.HasSuffix(cl.Common().Value.Type().String(), "stage.Stage")
		}
		calls := p.Sites(g, isStageCall)
		c.Check(len(calls) >= 1, "describes-the-stage", nil, g, "the registration asks the stage to describe itself (Identifier)", fmt.Sprintf("%d calls into the stage", len(calls)))
		for i, x := range calls {
			_, after := eng.Reaches(g, incs[0].Instr, []eng.Site{x}, nil)
			c.Check(!after, fmt.Sprintf("stage-code-before-the-count[%d]", i), x.Instr, g,
				"every call into the stage made while registering it returns BEFORE the stage is counted as pending: pipeline.executeStage installs the recover that gives a panicking stage's count back only after the registration, so a panic here (Identifier() of the real stages dereferences their shard / segment) would leave the count taken for ever",
				"reachable after pending.Inc()")
		}
		// and the caller installs that recover directly after the registration: nothing in between can panic
		f := c.Fn(plT + ".executeStage")
		reg := c.One(f, eng.CallTo(smT+".executeStage"), "sm.executeStage(parent, id, stage)")
		for i, x := range p.SitesDirect(f, func(p *eng.Prog, in ssa.Instruction) bool { _, ok := in.(ssa.CallInstruction); return ok }) {
			if _, isDefer := x.Instr.(*ssa.Defer); isDefer || x.Instr == reg.Instr {
				continue
			}
			_, after := eng.Reaches(f, reg.Instr, []eng.Site{x}, nil)
			if !after {
				continue
			}
			defers := p.SitesDirect(f, func(p *eng.Prog, in ssa.Instruction) bool { _, ok := in.(*ssa.Defer); return ok })
			c.Check(eng.DominatedBy(f, x.Instr, defers, nil), fmt.Sprintf("nothing-between-count-and-recover[%d]", i), x.Instr, f, "every call after the registration runs under the deferred recover", "reachable without passing the defer")
		}
	})

	// ---- 8b. nothing between an operator and the two designated handlers swallows a panic or an error ----------------------------
	c.Rule("OWNER", "query{recover() only in the designated handlers}", func() {
		allowed := map[string]bool{plT + ".Execute": true, plT + ".executeStage": true, poolT + ".execTask": true}
		n := 0
		for _, fn := range p.AllFuncs {
			k := p.FuncKey(fn)
			if !(strings.HasPrefix(k, "query.") || strings.HasPrefix(k, "query/") || strings.HasPrefix(k, "flow.") || strings.HasPrefix(k, "internal/concurrent.")) {
				continue
			}
			for _, s := range p.SitesDirect(fn, eng.CallTo("builtin:recover")) {
				top := topFunc(c, fn)
				if !allowed[top] {
					if o := ownerThroughCallers(c, fn, []string{plT + ".Execute", plT + ".executeStage", poolT + ".execTask"}, 0, map[*ssa.Function]bool{}); o != "" {
						top = o // a helper deferred by a designated handler
					}
				}
				n++
				c.Check(allowed[top], "recover@"+top, s.Instr, fn, "on the query execution path a panic is recovered only by pipeline.Execute, by executeStage (for the stage it just counted) and by the worker pool's task wrapper (all turn it into the stage's / pipeline's error); a recover anywhere below would let a panicking operator look successful", "recover() in "+top)
			}
		}
		c.Check(n >= 2 && n <= 3, "both-handlers-present", nil, nil, "the designated recover sites exist (pipeline.Execute and the pool's task wrapper; executeStage's per-stage handler since F21)", fmt.Sprintf("%d recover sites", n))
		ex := c.Fn("query/stage.planNode.ExecuteWithStats")
		op := c.One(ex, invokeOn(".op", "Execute"), "p.op.Execute()")
		for i, r := range eng.SuccessReturns(ex) {
			ev := eng.RetVal(r, 1)
			if eng.IsNilConst(ev) && !eng.DominatedBy(ex, r, []eng.Site{op}, nil) {
				continue // no operator: nothing to run
			}
			c.Check(eng.DependsOn(ev, func(x ssa.Value) bool { return x == op.Instr.(ssa.Value) }), fmt.Sprintf("returns-the-operators-error[%d]", i), r, ex, "ExecuteWithStats returns the operator's own error", "returns "+p.Desc(ev))
		}
		for _, d := range deferredErrStores(ex) {
			c.Check(false, "deferred-closure-does-not-touch-err", d.Store, ex, "the stats closure does not overwrite the operator's error", "assigns "+d.Var)
		}
	})

	// ---- 9. leaf callback forwards the error ---------------------------------------------------------------
	c.Rule("PROV", "query.leafTaskProcessor.processDataSearch{callback->SendResponse}", func() {
		f := c.Fn("query.leafTaskProcessor.processDataSearch")
		var cb *ssa.Function
		for _, cl := range f.AnonFuncs {
			if len(p.Sites(cl, eng.CallTo(lecT+".SendResponse"))) > 0 {
				cb = cl
			}
		}
		if cb == nil {
			c.Undecided("the pipeline callback calling SendResponse was not found")
		}
		s := c.One(cb, eng.CallTo(lecT+".SendResponse"), "SendResponse(err)")
		arg := eng.CallArgs(s.Instr.(*ssa.Call))[0]
		c.Check(eng.UpParam(arg) == ssa.Value(cb.Params[0]), "err-forwarded", s.Instr, cb, "the pipeline's completion error is what the leaf responds with", "passes "+p.DescUp(eng.Unwrap(arg)))
		c.Check(p.MustPass(cb, eng.CallTo(lecT+".SendResponse"), 2), "always-responds", s.Instr, cb, "every path of the callback sends the response", "a path skips SendResponse")
		mk := c.One(f, eng.CallTo("var:query.newExecutePipelineFn"), "newExecutePipelineFn").Instr.(*ssa.Call)
		a := eng.CallArgs(mk)
		c.Check(strings.HasSuffix(p.Desc(a[1]), p.FuncKey(cb)), "callback-registered", mk, f, "that closure is the pipeline's completion callback", "registered "+p.Desc(a[1]))
	})

	// ---- 10. a failed metadata leaf does not look like a successful (partial) one -----------------------------------------------
	// ---- a real failure is never dressed as "not found" -----------------------------------------------------------------------------------
	// (operators planned with NewPlanNodeWithIgnore have their not-found errors dropped by the stage: "this shard has no such
	// series" is not a failure. Wrapping ANOTHER error - an I/O error of the index - in a not-found sentinel makes the shard's
	// stage succeed and the leaf answer with the other shards only)
	c.Rule("ERRFLOW", "query/operator{a not-found sentinel wraps no other error}", func() {
		n := 0
		for _, fn := range p.FuncsWithPrefix("query/operator.") {
			k := 0
			for _, b := range fn.Blocks {
				for _, in := range b.Instrs {
					cl, ok := in.(*ssa.Call)
					if !ok || !eng.CallTo("fmt.Errorf")(p, in) || len(cl.Common().Args) < 2 {
						continue
					}
					// the variadic arguments: stores into the backing array of the slice
					var vals []ssa.Value
					if sl, ok := cl.Common().Args[1].(*ssa.Slice); ok {
						if al, ok := sl.X.(*ssa.Alloc); ok {
							for _, ref := range *al.Referrers() {
								if ia, ok := ref.(*ssa.IndexAddr); ok {
									for _, r2 := range *ia.Referrers() {
										if st, ok := r2.(*ssa.Store); ok {
											vals = append(vals, st.Val)
										}
									}
								}
							}
						}
					}
					sentinel, other := "", ""
					for _, v := range vals {
						if mi, ok := v.(*ssa.MakeInterface); ok {
							v = mi.X
						}
						if ci, ok := v.(*ssa.ChangeInterface); ok {
							v = ci.X
						}
						if u, ok := v.(*ssa.UnOp); ok && u.Op == token.MUL {
							if g, isG := u.X.(*ssa.Global); isG {
								if strings.Contains(g.Name(), "NotFound") || strings.Contains(g.Name(), "NotExist") {
									sentinel = g.Name()
								}
								continue
							}
						}
						if isErrorType(v.Type()) {
							other = p.Desc(v)
						}
					}
					if sentinel == "" {
						continue
					}
					n++
					k++
					c.Check(other == "", fmt.Sprintf("sentinel-wraps-no-error@%s[%d]", p.FuncKey(fn), k), cl, fn,
						"an error built around "+sentinel+" carries no other error value: what the callee reported as a failure stays a failure", "also formats the error "+other)
				}
			}
		}
		if n < 3 {
			c.Undecided("expected >= 3 not-found errors built in query/operator, found %d", n)
		}
	})

	// ---- the root side of the same convention: every counted answer is examined ------------------------------------------------------
	// (the root's metadata context never reads ErrMsg: a failed leaf is recognised by its undecodable - empty - payload only. An
	// answer that is counted (expectResults--) but not decoded, "nothing to merge", turns a failed stage into a successful partial
	// result)
	c.Rule("ERRFLOW", "query/context.MetadataContext.handleResponse{a counted answer is decoded or its error read}", func() {
		const respT = "github.com/lindb/lindb/proto/gen/v1/common.TaskResponse"
		f := c.Fn("query/context.MetadataContext.handleResponse")
		dec := c.Some(f, eng.StoreField("query/context.baseTaskContext.expectResults", "query/context.MetadataContext.expectResults"), "ctx.expectResults--")
		examined := func(in ssa.Instruction) bool {
			if eng.AnyCallTo("github.com/lindb/common/pkg/encoding.JSONUnmarshal")(p, in) {
				return true
			}
			return eng.LoadField(respT+".ErrMsg", "proto/gen/v1/common.TaskResponse.ErrMsg")(p, in)
		}
		for i, d := range dec {
			_, skip := eng.PathExists(eng.PathQuery{Fn: f, After: d.Instr,
				Target:  func(in ssa.Instruction) bool { _, ok := in.(*ssa.Return); return ok },
				Blocked: examined})
			c.Check(!skip, fmt.Sprintf("examined-on-every-path[%d]", i), d.Instr, f,
				"after an answer has been counted, its payload is decoded (a decode failure is the only sign of a failed leaf) or its error message is read, on every path", "a return is reachable without either")
		}
	})

	c.Rule("ERRFLOW", "query.leafTaskProcessor.processMetadataSuggest{an error answer carries no result payload}", func() {
		const respT = "github.com/lindb/lindb/proto/gen/v1/common.TaskResponse"
		root := c.Fn("query/context.MetadataContext.handleResponse")
		rootReadsErr := len(p.Sites(root, eng.LoadField(respT+".ErrMsg", "proto/gen/v1/common.TaskResponse.ErrMsg"))) > 0
		f := c.Fn("query.leafTaskProcessor.processMetadataSuggest")
		var cb *ssa.Function
		for _, cl := range f.AnonFuncs {
			if len(p.Sites(cl, invokeOn("", "Send"))) > 0 && len(cl.Params) == 1 {
				cb = cl
			}
		}
		if cb == nil {
			c.Undecided("the metadata pipeline callback was not found")
		}
		var em, pl ssa.Value
		var at, plStore ssa.Instruction
		for _, b := range cb.Blocks {
			for _, in := range b.Instrs {
				st, ok := in.(*ssa.Store)
				if !ok {
					continue
				}
				fa, ok := st.Addr.(*ssa.FieldAddr)
				if !ok {
					continue
				}
				switch k := eng.FieldKeyOfAddr(fa); {
				case strings.HasSuffix(k, "TaskResponse.ErrMsg"):
					em, at = st.Val, in
				case strings.HasSuffix(k, "TaskResponse.Payload"):
					if pl == nil || eng.IsNilConst(pl) {
						pl, plStore = st.Val, in
					}
				}
			}
		}
		if em == nil || pl == nil {
			c.Undecided("the response literal (ErrMsg, Payload) was not found in the callback")
		}
		if rootReadsErr {
			c.Check(true, "root-reads-ErrMsg", nil, root, "the root's metadata handler looks at ErrMsg itself", "")
			return
		}
		// the root's handler notices a failed leaf only through the undecodable (empty) payload: wherever ErrMsg can be non-empty
		// the payload must be nil
		emPhi, ok1 := em.(*ssa.Phi)
		if !ok1 {
			k, isC := em.(*ssa.Const)
			c.Check(isC && k.Value != nil && k.Value.ExactString() == `""`, "errmsg-shape", at, cb, "ErrMsg is chosen per outcome", "ErrMsg = "+p.Desc(em))
			return
		}
		plPhi, ok2 := pl.(*ssa.Phi)
		if !ok2 || plPhi.Block() != emPhi.Block() {
			// other shape: the payload is attached by a separate store that runs only under a test of the outcome
			// (the callback's error or the message chosen from it)
			if plStore != nil && !eng.IsNilConst(pl) {
				conds, _ := eng.GuardingConds(cb, plStore)
				byOutcome := false
				for _, cd := range conds {
					if eng.DependsOn(cd, func(x ssa.Value) bool { return x == ssa.Value(cb.Params[0]) || x == em }) {
						byOutcome = true
					}
				}
				if byOutcome {
					c.Check(true, "payload-attached-by-outcome", plStore, cb, "the payload is attached under a test of the callback's outcome", "")
					return
				}
			}
			c.Check(eng.IsNilConst(pl), "payload-nil-when-error", at, cb,
				"an answer that carries an error message carries no payload: MetadataContext.handleResponse never reads ErrMsg, it reports a failed leaf only because the empty payload does not decode; with a decodable payload next to the message the failure becomes a successful partial answer",
				"Payload = "+p.Desc(pl)+" on every path, also where ErrMsg is set")
			return
		}
		for i, e := range emPhi.Edges {
			if k, isC := e.(*ssa.Const); isC && k.Value != nil && k.Value.ExactString() == `""` {
				continue
			}
			c.Check(eng.IsNilConst(plPhi.Edges[i]), fmt.Sprintf("payload-nil-when-error[%d]", i), at, cb,
				"an answer that carries an error message carries no payload (the root's metadata handler reports a failed leaf only through the undecodable empty payload)",
				"on the path where ErrMsg = "+p.Desc(e)+" the payload is "+p.Desc(plPhi.Edges[i]))
		}
	})
}

func isBoolConst(v ssa.Value, want bool) bool {
	c, ok := v.(*ssa.Const)
	if !ok || c.Value == nil {
		return false
	}
	return c.Value.String() == fmt.Sprint(want)
}

// taskErrorLatched: baseTaskContext.err is written by the response handlers (a leaf answered with an error) and by
// Complete(err) (the root pipeline finished, err == nil when planning and sending went well); the waiting request reads
// it after doneCh was closed.  The handlers and the pipeline callback run on different goroutines in no fixed order:
// a store that can carry nil must not replace a recorded failure, or a failed shard becomes a successful (partial)
// answer.  Decided per store: the stored value is provably non-nil, or the store is guarded by `ctx.err == nil`.
func taskErrorLatched(c *eng.Ctx) {
	p := c.P
	errF := "query/context.baseTaskContext.err"
	n := 0
	for _, fn := range p.AllFuncs {
		if !strings.HasPrefix(p.FuncKey(fn), "query/context.") {
			continue
		}
		sts := p.SitesDirect(fn, eng.StoreField(errF))
		if len(sts) == 0 {
			continue
		}
		facts := p.MustFacts(fn)
		for i, s := range sts {
			st, ok := s.Instr.(*ssa.Store)
			if !ok {
				continue
			}
			n++
			fs := facts.At(st)
			vd := p.Desc(st.Val)
			nonNil := len(facts.Find(fs, "ne", func(d string, v ssa.Value) bool { return eng.SameValue(v, st.Val) || d == vd }, eng.DescIs("nil"))) > 0
			switch x := eng.Unwrap(st.Val).(type) {
			case *ssa.MakeInterface:
				nonNil = true
			case *ssa.UnOp:
				if _, isG := x.X.(*ssa.Global); isG {
					nonNil = true
				}
			case *ssa.Call:
				if g := x.Common().StaticCallee(); g != nil && g.Pkg != nil && (g.Pkg.Pkg.Path() == "errors" && g.Name() == "New" || g.Pkg.Pkg.Path() == "fmt" && g.Name() == "Errorf") {
					nonNil = true
				}
			}
			unset := len(facts.Find(fs, "eq", func(_ string, v ssa.Value) bool {
				in, ok := eng.Unwrap(v).(ssa.Instruction)
				return ok && eng.LoadField(errF)(p, in)
			}, eng.DescIs("nil"))) > 0
			c.Check(nonNil || unset, fmt.Sprintf("%s[%d]", p.FuncKey(fn), i), st, fn,
				"a store into the task's error either carries a non-nil error or happens only while no error is recorded: the pipeline's Complete(nil) and a leaf's error response arrive in either order, and the request must still fail",
				"stores "+p.Desc(st.Val)+" (possibly nil) without `ctx.err == nil`; facts: "+strings.Join(facts.Render(fs), " ; "))
		}
	}
	c.Check(n >= 3, "error-stores-found", nil, nil, "the response handlers and Complete record errors in baseTaskContext.err", fmt.Sprintf("%d stores", n))
}

// cellHoldsOnly: v reads a local variable (directly or as a captured variable of a function literal) every assignment of
// which stores the function literal fn.
func cellHoldsOnly(v ssa.Value, fn *ssa.Function) bool {
	u, ok := eng.Unwrap(v).(*ssa.UnOp)
	if !ok || u.Op != token.MUL {
		return false
	}
	cell := u.X
	for hop := 0; hop < 3; hop++ {
		fv, isFV := cell.(*ssa.FreeVar)
		if !isFV {
			break
		}
		cell = eng.FreeVarBinding(fv)
	}
	al, ok := cell.(*ssa.Alloc)
	if !ok || al.Referrers() == nil {
		return false
	}
	n := 0
	for _, r := range *al.Referrers() {
		if st, ok := r.(*ssa.Store); ok && st.Addr == ssa.Value(al) {
			n++
			if eng.FuncOfValue(st.Val) != fn {
				return false
			}
		}
	}
	return n > 0
}
