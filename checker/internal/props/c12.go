package props

import (
	"fmt"
	"go/constant"
	"go/token"
	"go/types"
	"sort"
	"strings"

	"golang.org/x/tools/go/ssa"

	"lincheck/internal/eng"
)

const (
	btcT  = "query/context.baseTaskContext"
	btcMu = btcT + ".mutex"
	mcT   = "query/context.MetricContext"
	lrcT  = "query/context.LeafReduceContext"
)

func init() {
	register(eng.Property{
		ID:    "C12",
		Title: "Query results do not depend on sharding, node placement or response order",
		Explanation: "Decides the response-accounting and merge-object structure that order-independence rests on: every handled response decrements the expected counter exactly once, before any early return, " +
			"under the context mutex; every target adds exactly one expectation and one not-found tolerance; a not-found answer is ignored only while the tolerance counter (decremented for this answer) is still positive " +
			"— keyed on that counter, not on the response counter — and every other error is returned; completion closes the done channel only under the CAS and only when nothing is expected or an error is set; " +
			"the counters and the merge aggregator are written only under the mutex; on a leaf all shard tasks reduce into ONE aggregator: it is created under the same lock hold in which it is used, only when absent; " +
			"the receiver of a series is a hash of its tags modulo the number of receivers.",
		NotDecided: "equality of merged aggregates under permutation (commutativity/associativity of the aggregators is numeric), routing of writes (C16), the data path itself (C11).",
		MinObls:    30,
		Run:        runC12,
	})
}

func runC12(c *eng.Ctx) {
	p := c.P
	unknownSelectFieldFailsTheLeaf(c)
	everyReceiverIsAnswered(c)
	groupingWaitOnlyWhenACollectorRuns(c)
	missingShardIsSkippedNotRefused(c)
	groupKeyOrderIsTheStatementOrder(c)
	lastTaskDecidedByTheDecrement(c)
	rowsInsideFirstRowsFamilyRange(c)
	leafShipsEveryGroup(c)
	responseErrorAlwaysExamined(c)

	// ---- 0. per-node "not found" is produced only for a metric / tag key the node really lacks (shared with C10) -----------------
	c.Rule("ERRFLOW", "index.metricMetaDatabase{empty match is not an error}", func() { emptyMatchIsNotAnError(c) })

	// ---- 1. one decrement per response, one increment pair per target ----------------------------------------------------
	c.Rule("PASS", mcT+".handleResponse{expectResults--}", func() { expectResultsCounting(c) })

	// ---- 2. not-found tolerance -----------------------------------------------------------------------------------------------
	c.Rule("GUARD", mcT+".checkError{not-found tolerance}", func() {
		f := c.Fn(mcT + ".checkError")
		facts := p.MustFacts(f)
		dec := c.One(f, eng.StoreField(btcT+".tolerantNotFounds"), "tolerantNotFounds--")
		n := 0
		for i, r := range eng.SuccessReturns(f) {
			ign := eng.RetVal(r, 0)
			ev := eng.RetVal(r, 1)
			if !eng.IsNilConst(ev) {
				continue
			}
			cv, isC := ign.(*ssa.Const)
			if !isC || cv.Value == nil || cv.Value.String() != "true" {
				// (false, nil): only for an empty message
				fs := facts.At(r)
				empty := facts.Find(fs, "eq", eng.DescIs("errMsg"), eng.DescIs(`""`))
				c.Check(len(empty) > 0, fmt.Sprintf("process-only-if-no-error[%d]", i), r, f, "a response is merged only when it carries no error message", "facts: "+strings.Join(facts.Render(fs), " ; "))
				continue
			}
			n++
			fs := facts.At(r)
			isNF := facts.Find(fs, "true", func(d string, _ ssa.Value) bool {
				return strings.Contains(d, "Contains(errMsg") && strings.Contains(d, "not found")
			}, nil)
			// the value tested > 0 is the decremented tolerance counter
			tolPos := facts.Find(fs, "lt", eng.DescIs("0"), func(d string, v ssa.Value) bool {
				return eng.DependsOnField(v, btcT+".tolerantNotFounds")
			})
			keyedOnExpect := facts.Find(fs, "lt", eng.DescIs("0"), func(d string, v ssa.Value) bool { return eng.DependsOnField(v, btcT+".expectResults") })
			c.Check(len(isNF) > 0, fmt.Sprintf("ignore-only-not-found[%d]", i), r, f, "only a not-found answer can be ignored", "facts: "+strings.Join(facts.Render(fs), " ; "))
			c.Check(len(tolPos) > 0 && len(keyedOnExpect) == 0, fmt.Sprintf("ignore-only-within-tolerance[%d]", i), r, f,
				"a not-found answer is ignored only while the not-found tolerance counter is still positive (independent of how many answers are outstanding, hence of arrival order)",
				"facts: "+strings.Join(facts.Render(fs), " ; "))
			c.Check(eng.DominatedBy(f, r, []eng.Site{dec}, nil), fmt.Sprintf("tolerance-consumed[%d]", i), r, f, "ignoring consumes one unit of tolerance", "")
		}
		if n == 0 {
			c.Undecided("checkError has no ignore return")
		}
		// any other message is an error
		for i, r := range f.Blocks {
			_ = i
			_ = r
		}
		hr := c.Fn(mcT + ".handleResponse")
		ce := c.One(hr, eng.CallTo(mcT+".checkError"), "checkError(resp.ErrMsg)")
		c.Check(strings.HasSuffix(p.Desc(eng.CallArgs(ce.Instr.(*ssa.Call))[0]), ".ErrMsg"), "checks-this-response", ce.Instr, hr, "the error message checked is this response's", "")
		_, errEdges := eng.ErrCheckEdges(hr, ce.Instr.(ssa.Value))
		sts := p.Sites(hr, eng.StoreField(btcT+".err"))
		for _, e := range errEdges {
			first := e.B.Succs[e.Succ].Instrs[0]
			_, lost := eng.PathExists(eng.PathQuery{Fn: hr, After: first, Target: func(in ssa.Instruction) bool { _, ok := in.(*ssa.Return); return ok }, Blocked: func(in ssa.Instruction) bool { return instrIn(in, sts) }})
			if instrIn(first, sts) {
				lost = false
			}
			c.Check(!lost, "error-recorded", first, hr, "an error answer is recorded in the context (the query fails instead of returning a partial result)", "")
		}
		ups := p.Sites(hr, invokeOn(".groupAgg", "Aggregate"))
		for i, u := range ups {
			okd, why := eng.OkDominates(hr, ce.Instr, u.Instr)
			c.Check(okd, fmt.Sprintf("merge-only-good-answers[%d]", i), u.Instr, hr, "only answers that passed the error check are merged", why)
		}
	})

	// ---- 2b. a shard without matching data ends its own scan quietly --------------------------------------------------------------
	c.Rule("ERRFLOW", "query/stage{per-shard plan nodes ignore not-found}", func() { shardNodesIgnoreNotFound(c) })

	// ---- 2c. planning the same statement again (intermediate node) yields the same range and interval ---------------------------
	rangeAlignedBeforeMeasured(c)

	// ---- 2d. "this node does not know the metric" is said in the words the root tolerates ---------------------------------------
	c.Rule("SYMMETRY", "index.metricMetaDatabase.GetMetricID{absence answers 'not found'}", func() {
		ce := c.Fn(mcT + ".checkError")
		tolerated := ""
		for _, b := range eng.BlocksT(ce) {
			for _, in := range b.Instrs {
				if cl, ok := in.(*ssa.Call); ok && strings.Join(p.CalleeKeys(cl), "") == "strings.Contains" {
					if k, ok := cl.Common().Args[1].(*ssa.Const); ok && k.Value != nil {
						tolerated = constant.StringVal(k.Value)
					}
				}
			}
		}
		if tolerated == "" {
			c.Undecided("checkError does not test the error message with strings.Contains(msg, <literal>)")
		}
		f := c.Fn("index.metricMetaDatabase.GetMetricID")
		n := 0
		for _, b := range f.Blocks {
			r, ok := b.Instrs[len(b.Instrs)-1].(*ssa.Return)
			if !ok || b == f.Recover || len(r.Results) == 0 {
				continue
			}
			ev := r.Results[len(r.Results)-1]
			if eng.IsNilConst(ev) {
				continue
			}
			// errors made here (not handed up from a callee): they wrap a package-level sentinel
			var texts []string
			eng.WalkExpr(ev, func(x ssa.Value) bool {
				if u, ok := x.(*ssa.UnOp); ok {
					if g, ok := u.X.(*ssa.Global); ok {
						if t := sentinelText(p, g); t != "" {
							texts = append(texts, t)
						}
					}
				}
				return true
			})
			if len(texts) == 0 {
				continue
			}
			n++
			okT := true
			for _, t := range texts {
				if !strings.Contains(t, tolerated) {
					okT = false
				}
			}
			c.Check(okT, fmt.Sprintf("absence-is-tolerated-text[%d]", n), r, f,
				"when this node has no entry for the queried namespace / metric the lookup answers with an error whose text contains \""+tolerated+"\" — the only text the root's checkError tolerates from a node that simply holds no matching data",
				"answers with "+strings.Join(texts, " / "))
		}
		c.Check(n >= 2, "absence-exits-found", nil, f, "GetMetricID has its 'namespace unknown' and 'metric unknown' exits", fmt.Sprintf("%d", n))
	})

	c.Rule("SYMMETRY", "aggregation.fieldAggregator.Aggregate{a partial series is merged into the series of its own aggregate type}", func() { partialMergeByAggType(c) })

	// ---- 2b. the leaf's grouping-task count: one fork per stage object, taken when the stage is created --------------------------
	c.Rule("TYPESTATE", "query/stage{a stage that un-counts a grouping task in Complete counted it when it was created}", func() { groupingTaskPairing(c) })

	// ---- 2c. a grouping stage loads the container of the high key it is created for ----------------------------------------------
	c.Rule("PROV", "query/stage.shardScanStage.NextStages{high key of the container}", func() {
		f := c.Fn("query/stage.shardScanStage.NextStages")
		sts := c.Some(f, eng.StoreField("flow.DataLoadContext.SeriesIDHighKey"), "DataLoadContext{SeriesIDHighKey: …}")
		for i, st := range sts {
			v := st.Instr.(*ssa.Store).Val
			elem := eng.DependsOn(v, func(x ssa.Value) bool {
				u, ok := x.(*ssa.UnOp)
				if !ok {
					return false
				}
				ia, ok := u.X.(*ssa.IndexAddr)
				if !ok {
					return false
				}
				return eng.DependsOn(ia.X, func(y ssa.Value) bool {
					cl, ok := y.(*ssa.Call)
					return ok && cl.Common().StaticCallee() != nil && cl.Common().StaticCallee().Name() == "GetHighKeys"
				})
			})
			c.Check(elem, fmt.Sprintf("high-key-is-an-element-of-GetHighKeys[%d]", i), st.Instr, f,
				"SeriesIDHighKey is an ELEMENT of seriesIDs.GetHighKeys() (the key of the container), not the container's position: the two differ as soon as the first high key is not 0 or keys are not contiguous, and every later lookup (grouping scanners, data load) addresses series by the key",
				"stores "+p.Desc(v))
		}
	})

	// ---- 2d. a leaf may answer before the last request has gone out: the task is registered before anything is sent ----------------------
	c.Rule("ORDER", "query.exec{task registered before the plan is executed}", func() {
		f := c.Fn("query.exec")
		orderInFn(c, f, invokeOn(".TaskMgr", "AddTask"), invokeOn("", "Execute"), "TaskMgr.AddTask", "pipeline.Execute")
	})
	// ---- 2e. the query's field list is shared by all shards of a request and indexes the per-field aggregators ---------------------------
	c.Rule("PROV", "tsdb/memdb.memoryDatabase.filter{sorts its own copy of the field list}", func() {
		f := c.Fn("tsdb/memdb.memoryDatabase.filter")
		for i, s := range c.Some(f, eng.CallTo("sort.Sort", "sort.Stable", "sort.Slice", "sort.SliceStable", "slices.SortFunc"), "sort.Sort(fields)") {
			a := eng.CallArgs(s.Instr.(ssa.CallInstruction))[0]
			own := eng.DependsOn(a, func(x ssa.Value) bool {
				switch y := x.(type) {
				case *ssa.Call:
					g := y.Common().StaticCallee()
					return g != nil && baseName(g.Name()) == "Clone"
				case *ssa.MakeSlice:
					return true
				}
				return false
			})
			c.Check(own, fmt.Sprintf("sorts-a-copy[%d]", i), s.Instr, f,
				"the list sorted by name is a copy: StorageExecuteCtx.Fields is shared by every shard of the request and its order (by field id) is the index space of the aggregators and of the file reader",
				"sorts "+p.Desc(a))
		}
	})

	// ---- 3. completion --------------------------------------------------------------------------------------------------------------
	// ---- a leaf finds every shard it hosts: the shard set is published sorted, because the look-up binary-searches it ------------------
	// (above 20 shards GetShard uses sort.Search; the node creates its shards in the iteration order of the assignment map, so
	// "new shard goes last" is not an order. A shard GetShard misses is silently skipped by the leaf's plan: a partial answer
	// that depends on which node hosts how many shards)
	c.Rule("ORDER", "tsdb.shardSet{entries sorted before they are published}", func() {
		g := c.Fn("tsdb.shardSet.GetShard")
		searches := p.Sites(g, eng.CallTo("sort.Search", "sort.Find", "slices.BinarySearchFunc"))
		c.Check(true, "lookup-form", nil, g, fmt.Sprintf("GetShard uses %d binary search(es)", len(searches)), "")
		if len(searches) == 0 {
			return // a purely linear look-up needs no order
		}
		n := 0
		for _, f := range p.FuncsWithPrefix("tsdb.shardSet.") {
			for i, s := range p.Sites(f, func(p *eng.Prog, in ssa.Instruction) bool {
				fa, m, _ := eng.AtomicOp(in)
				return fa != nil && m == "Store" && eng.FieldKeyOfAddr(fa) == "tsdb.shardSet.value"
			}) {
				cl := s.Instr.(*ssa.Call)
				val := cl.Common().Args[len(cl.Common().Args)-1]
				if mi, ok := val.(*ssa.MakeInterface); ok {
					val = mi.X
				}
				n++
				sorts := p.Sites(f, func(p *eng.Prog, in ssa.Instruction) bool {
					c2, ok := in.(*ssa.Call)
					if !ok || !eng.CallTo("sort.Sort", "sort.Stable", "sort.Slice", "sort.SliceStable", "slices.SortFunc")(p, in) || len(c2.Common().Args) == 0 {
						return false
					}
					a := c2.Common().Args[0]
					if mi, ok := a.(*ssa.MakeInterface); ok {
						a = mi.X
					}
					return eng.SameValue(a, val) || a == val
				})
				// an empty / single-entry set needs no sort: a make of constant length <= 1 or a nil value
				trivial := false
				if mk, ok := eng.Unwrap(val).(*ssa.MakeSlice); ok {
					if k, isC := eng.ConstInt(mk.Len); isC && k <= 1 {
						trivial = true
					}
				}
				if eng.IsNilConst(val) {
					trivial = true
				}
				okS := trivial || len(sorts) > 0 && eng.DominatedBy(f, s.Instr, sorts, nil)
				c.Check(okS, fmt.Sprintf("sorted-before-store@%s[%d]", p.FuncKey(f), i), s.Instr, f, "the entries are sorted by shard id before the set is published (GetShard binary-searches them)", "no sort of the stored value dominates the store")
			}
		}
		c.Check(n >= 1, "publishes", nil, nil, "the shard set is published through value.Store", "")
	})

	// ---- top-N: the comparison is decided by the first order-by item on which the two rows differ ---------------------------------------
	// (with `a > b -> true` but no `a < b -> false`, Less(i,j) and Less(j,i) are both true when two items disagree: the heap keeps
	// whichever groups the push order - the iteration order of a map - favours)
	c.Rule("GUARD", "aggregation.topNHeap.Less{next item only on a tie}", func() {
		f := c.Fn("aggregation.topNHeap.Less")
		facts := p.MustFacts(f)
		n := 0
		for _, h := range f.Blocks {
			for _, pr := range h.Preds {
				if !h.Dominates(pr) || len(pr.Instrs) == 0 {
					continue
				}
				// pr -> h is a back edge: the comparison moves on to the next order-by item
				n++
				fs := facts.EdgeFactsFor(pr, h)
				for k, v := range facts.At(pr.Instrs[len(pr.Instrs)-1]) {
					fs[k] = v
				}
				isZero := func(_ string, v ssa.Value) bool {
					k, ok := v.(*ssa.Const)
					return ok && k.Value != nil && (k.Value.String() == "0" || k.Value.ExactString() == "0")
				}
				anyV := func(string, ssa.Value) bool { return true }
				notGreater := facts.Find(fs, "le", anyV, isZero) // ret <= 0
				notLess := facts.Find(fs, "le", isZero, anyV)    // 0 <= ret
				tie := false
				for _, a := range notGreater {
					for _, b := range notLess {
						if a.X == b.Y {
							tie = true
						}
					}
				}
				for _, e := range facts.Find(fs, "eq", anyV, isZero) {
					_ = e
					tie = true
				}
				c.Check(tie, fmt.Sprintf("moves-on-only-when-equal[%d]", n), pr.Instrs[len(pr.Instrs)-1], f,
					"the comparison goes on to the next order-by item only when the two rows are equal on this one (neither greater nor less): Less is a strict weak order", "facts on the back edge: "+strings.Join(facts.Render(fs), " ; "))
			}
		}
		c.Check(n >= 1, "loops-over-items", nil, f, "Less iterates the order-by items", "")
	})

	c.Rule("GUARD", btcT+".tryClose", func() {
		isClose := func(p *eng.Prog, in ssa.Instruction) bool {
			cc, ok := in.(*ssa.Call)
			if !ok {
				return false
			}
			b, ok := cc.Common().Value.(*ssa.Builtin)
			return ok && b.Name() == "close" && eng.DependsOnField(cc.Common().Args[0], btcT+".doneCh")
		}
		// every place that closes the done channel (tryClose, or its body written in place in a caller) obeys the same three conditions
		sites := p.SitesInProgram(isClose)
		c.Check(len(sites) >= 1, "close-sites-found", nil, nil, "the done channel is closed somewhere", fmt.Sprintf("%d", len(sites)))
		for _, cl := range sites {
			f := cl.Fn
			for f.Parent() != nil {
				f = f.Parent()
			}
			sfx := ""
			if p.FuncKey(f) != btcT+".tryClose" {
				sfx = "@" + p.FuncKey(f)
			}
			if !strings.HasPrefix(p.FuncKey(f), btcT+".") {
				c.Check(false, "close-owner"+sfx, cl.Instr, f, "the done channel is closed by the task context itself", "closed in "+p.FuncKey(f))
				continue
			}
			facts := p.MustFacts(f)
			fs := facts.At(cl.Instr)
			cas := facts.Find(fs, "true", func(_ string, v ssa.Value) bool {
				call, ok := v.(*ssa.Call)
				if !ok {
					return false
				}
				fa, m, _ := eng.AtomicOp(call)
				return fa != nil && (m == "CompareAndSwap" || m == "CAS") && strings.HasSuffix(eng.FieldKeyOfAddr(fa), ".completed")
			}, nil)
			c.Check(len(cas) > 0, "close-once"+sfx, cl.Instr, f, "the done channel is closed only by the caller that wins the CAS (never twice)", "")
			// reached only via (expectResults <= 0) or (err != nil)
			done := eng.EdgesWithFact(f, func(ft eng.Fact) bool {
				if ft.Op == "le" && ft.Y != nil && strings.HasSuffix(p.Desc(ft.X), ".expectResults") && p.Desc(ft.Y) == "0" {
					return true
				}
				return ft.Op == "ne" && ft.Y != nil && strings.HasSuffix(p.Desc(ft.X), ".err") && p.Desc(ft.Y) == "nil"
			})
			_, other := eng.PathExists(eng.PathQuery{Fn: f, Target: func(in ssa.Instruction) bool { return in == cl.Instr }, Edge: eng.ForbidEdges(done)})
			c.Check(len(done) >= 2 && !other, "close-only-when-finished-or-failed"+sfx, cl.Instr, f, "completion is signalled only when no answer is outstanding or an error was recorded", "close reachable otherwise")
			c.Check(p.Locks(f, nil).At(cl.Instr).HasField(btcMu, true), "close-locked"+sfx, cl.Instr, f, "the decision is taken under the mutex", "")
		}
	})

	// ---- 5. writes under the mutex ---------------------------------------------------------------------------------------------------
	c.Rule("GUARDED-BY", btcT+"{counters, aggregator: writes}", func() {
		for _, fld := range []string{btcT + ".expectResults", btcT + ".tolerantNotFounds", mcT + ".groupAgg", btcT + ".err"} {
			n := 0
			for _, s := range p.SitesInProgram(eng.StoreField(fld)) {
				if strings.HasPrefix(p.FuncKey(s.Fn), "query/context.new") || strings.HasPrefix(p.FuncKey(s.Fn), "query/context.New") {
					continue
				}
				n++
				ls := p.Locks(s.Fn, nil)
				held := ls.At(s.Instr).HasField(btcMu, true)
				if !held {
					ok, _, _ := p.HeldAtAllCallers(s.Fn, btcMu, true, 1)
					held = ok
				}
				c.Check(held, "write:"+fld[strings.LastIndex(fld, ".")+1:]+"@"+p.FuncKey(s.Fn), s.Instr, s.Fn, fld+" is written only under the context mutex", "held: "+ls.At(s.Instr).String())
			}
			if n == 0 {
				c.Check(false, "write:"+fld+"@count", nil, nil, "stores to "+fld+" exist", "none found")
			}
		}
	})

	// ---- one aggregator per leaf (C12-m2 class) -----------------------------------------------------------------------------------------
	c.Rule("ATOMIC", lrcT+".Reduce{one aggregator}", func() {
		f := c.Fn(lrcT + ".Reduce")
		ls := p.Locks(f, nil)
		mu := lrcT + ".lock"
		use := c.Some(f, invokeOn("", "Aggregate"), "reduceAgg.Aggregate(it)")
		deep := p.DeepSites(f, eng.StoreField(lrcT+".reduceAgg"), 2, false)
		if len(deep) == 0 {
			c.Undecided("no creation of reduceAgg below Reduce")
		}
		for i, d := range deep {
			ok, why := ls.SameHold(d.Top(), use[0].Instr, mu, true)
			c.Check(ok, fmt.Sprintf("create-and-use-one-hold[%d]", i), d.Leaf(), d.Leaf().Parent(),
				"the leaf's reduce aggregator is created inside the same lock hold in which it is used (two shard tasks can not each create one)", why)
			// creation only when absent, tested in that hold
			lf := d.Leaf().Parent()
			facts := p.MustFacts(lf)
			absent := facts.Find(facts.At(d.Leaf()), "eq", eng.DescSuffix(".reduceAgg"), eng.DescIs("nil"))
			c.Check(len(absent) > 0, fmt.Sprintf("create-only-if-absent[%d]", i), d.Leaf(), lf, "it is created only when none exists", "")
			for _, a := range absent {
				if in, ok := a.X.(ssa.Instruction); ok && lf == f {
					ok2, why2 := ls.SameHold(in, d.Leaf(), mu, true)
					c.Check(ok2, fmt.Sprintf("test-and-create-one-hold[%d]", i), in, f, "the absence test and the creation are in one hold", why2)
				} else if lf != f {
					ok3, why3, _ := p.HeldAtAllCallers(lf, mu, true, 0)
					c.Check(ok3, fmt.Sprintf("helper-called-locked[%d]", i), d.Leaf(), lf, "a helper that creates the aggregator is only called with the lock held", why3)
				}
			}
		}
		// the aggregator used is the field's value read in the hold (not a local captured before locking)
		for i, u := range use {
			r := eng.CallRecv(u.Instr.(*ssa.Call))
			var load ssa.Instruction
			eng.WalkExpr(r, func(x ssa.Value) bool {
				if in, ok := x.(ssa.Instruction); ok && eng.LoadField(lrcT+".reduceAgg")(p, in) {
					load = in
				}
				return true
			})
			okU := load != nil && ls.At(load).HasField(mu, true)
			c.Check(okU, fmt.Sprintf("uses-shared-aggregator[%d]", i), u.Instr, f, "the aggregator a shard task merges into is the shared field read under the lock", "receiver "+p.Desc(r))
		}
		owner(c, "store to LeafReduceContext.reduceAgg", eng.StoreField(lrcT+".reduceAgg"), []string{lrcT + ".*"}, 1)
		bs := c.Fn(lrcT + ".makeTimeSeriesList")
		c.Check(len(p.Sites(bs, eng.LoadField(lrcT+".reduceAgg"))) > 0, "result-from-that-aggregator", nil, bs, "the leaf's result set is built from that aggregator", "")
	})

	// ---- 4. receiver of a series ------------------------------------------------------------------------------------------------------------
	c.Rule("PROV", lrcT+".BuildResultSet{receiver=hash(tags)}", func() {
		f := c.Fn(lrcT + ".BuildResultSet")
		var idx ssa.Value
		for _, b := range eng.BlocksT(f) {
			for _, in := range b.Instrs {
				if ia, ok := in.(*ssa.IndexAddr); ok && strings.Contains(p.Desc(ia.X), "timeSeriesHashGroups") || false {
					_ = ia
				}
				if ia, ok := in.(*ssa.IndexAddr); ok {
					if strings.Contains(ia.X.Type().String(), "[][]*") && strings.Contains(ia.X.Type().String(), "TimeSeries") {
						if strings.Contains(p.Desc(ia.Index), "Sum64String") || idx == nil {
							idx = ia.Index
						}
					}
				}
			}
		}
		if idx == nil {
			c.Undecided("receiver index computation not found")
		}
		d := p.Desc(idx)
		okH := strings.Contains(d, "Sum64String(") && strings.Contains(d, ".Tags") && strings.Contains(d, "%") && strings.Contains(d, "len(receivers)")
		c.Check(okH, "hash-of-tags-mod-receivers", nil, f, "the receiver index of a series is hash(series tags) modulo the number of receivers (the same series from every leaf meets at one intermediate node)", "index "+d)
	})
}

// mayOriginate reports whether fn, or a module function it can call (static calls, closures called in place, and — for
// interface calls — every module implementation: CHA), produces the error held in the given package-level variable: loads
// it for any purpose other than comparing against it (errors.Is / == / !=). The chain found is returned for the report.
func mayOriginate(p *eng.Prog, fn *ssa.Function, global string, depth int, memo map[*ssa.Function]string, stack map[*ssa.Function]bool) string {
	if fn == nil || fn.Blocks == nil {
		return ""
	}
	if r, ok := memo[fn]; ok {
		return r
	}
	if stack[fn] || depth < 0 {
		return ""
	}
	// only a function that can hand an error back matters: an error-typed result that is not the nil constant on every return
	rs := fn.Signature.Results()
	if rs.Len() == 0 || !types.Identical(rs.At(rs.Len()-1).Type(), types.Universe.Lookup("error").Type()) {
		return ""
	}
	some := false
	for _, b := range fn.Blocks {
		if r, ok := b.Instrs[len(b.Instrs)-1].(*ssa.Return); ok && b != fn.Recover && len(r.Results) > 0 && !eng.IsNilConst(r.Results[len(r.Results)-1]) {
			some = true
		}
	}
	if !some {
		return ""
	}
	stack[fn] = true
	defer delete(stack, fn)
	res := ""
	for _, b := range fn.Blocks {
		for _, in := range b.Instrs {
			if u, ok := in.(*ssa.UnOp); ok && u.Op == token.MUL {
				if g, ok := u.X.(*ssa.Global); ok && eng.ShortPkg(g.Pkg.Pkg.Path())+"."+g.Name() == global {
					for _, ref := range *u.Referrers() {
						switch r := ref.(type) {
						case *ssa.BinOp:
							continue
						case ssa.CallInstruction:
							if cal := r.Common().StaticCallee(); cal != nil && cal.Pkg != nil && cal.Pkg.Pkg.Path() == "errors" {
								continue
							}
						}
						res = p.FuncKey(fn)
					}
				}
			}
		}
	}
	if res == "" {
	outer:
		for _, b := range fn.Blocks {
			for _, in := range b.Instrs {
				cl, ok := in.(ssa.CallInstruction)
				if !ok {
					continue
				}
				for _, g := range p.ModuleCallees(cl) {
					if sub := mayOriginate(p, g, global, depth-1, memo, stack); sub != "" {
						res = p.FuncKey(fn) + " -> " + sub
						break outer
					}
				}
			}
		}
	}
	if depth >= 4 || res != "" {
		memo[fn] = res // a negative answer found with little depth left is not final
	}
	return res
}

// shardNodesIgnoreNotFound: the stages that run once per shard (they hold the shard they scan) build their plan from
// operators that ask the shard's index and data for the query's metric, tags and series; such an operator answers
// constants.ErrNotFound when this shard has nothing that matches. baseStage.execute swallows that answer only for a
// node created with NewPlanNodeWithIgnore — a plain NewPlanNode makes the shard's emptiness fail the whole leaf task.
// Decided per construction site: the operator's concrete type is resolved from the constructor, and its Execute is
// searched (call graph, CHA for interface calls, depth 6) for a producer of ErrNotFound.
func shardNodesIgnoreNotFound(c *eng.Ctx) {
	p := c.P
	memo := map[*ssa.Function]string{}
	ex := c.Fn("query/stage.baseStage.execute")
	c.Check(len(p.Sites(ex, invokeOn("", "IgnoreNotFound"))) > 0 && len(p.Sites(ex, eng.CallTo("errors.Is"))) > 0, "execute-honours-the-flag", nil, ex,
		"baseStage.execute swallows ErrNotFound of a node that asks for it", "")
	ign, plain := 0, 0
	for _, st := range []string{"shardScanStage", "shardLookupStage"} {
		f := c.Fn("query/stage." + st + ".Plan")
		for _, s := range p.Sites(f, eng.CallTo("query/stage.NewPlanNodeWithIgnore")) {
			_ = s
			ign++
		}
		for i, s := range p.Sites(f, eng.CallTo("query/stage.NewPlanNode")) {
			plain++
			op := eng.Unwrap(eng.CallArgs(s.Instr.(*ssa.Call))[0])
			var exec *ssa.Function
			if cl, ok := op.(*ssa.Call); ok {
				if ctor := cl.Common().StaticCallee(); ctor != nil {
					for _, r := range eng.SuccessReturns(ctor) {
						v := eng.RetVal(r, 0)
						if mi, ok := v.(*ssa.MakeInterface); ok {
							exec = p.SSA.LookupMethod(mi.X.Type(), ctor.Pkg.Pkg, "Execute")
						}
					}
				}
			}
			if exec == nil {
				c.Check(false, fmt.Sprintf("%s:operator-resolved[%d]", st, i), s.Instr, f, "the operator of a plan node is built by a constructor returning a concrete operator", "operator "+p.Desc(op))
				continue
			}
			chain := mayOriginate(p, exec, "constants.ErrNotFound", 6, memo, map[*ssa.Function]bool{})
			c.Check(chain == "", fmt.Sprintf("%s:%s", st, p.FuncKey(exec)), s.Instr, f,
				"a per-shard plan node whose operator can answer ErrNotFound is created with NewPlanNodeWithIgnore (a shard that holds no matching data does not fail the query)",
				"created with NewPlanNode although "+chain+" produces constants.ErrNotFound")
		}
	}
	c.Check(ign >= 4, "ignoring-nodes-exist", nil, nil, "the per-shard stages create their lookup nodes with NewPlanNodeWithIgnore", fmt.Sprintf("%d ignoring, %d plain", ign, plain))
	c.Observe(fmt.Sprintf("per-shard plan nodes: %d ignoring, %d plain", ign, plain))
}

// sentinelText returns the message of a package-level error variable initialised with errors.New("...") / fmt.Errorf("...").
func sentinelText(p *eng.Prog, g *ssa.Global) string {
	init := g.Pkg.Func("init")
	if init == nil {
		return ""
	}
	for _, b := range init.Blocks {
		for _, in := range b.Instrs {
			st, ok := in.(*ssa.Store)
			if !ok || st.Addr != ssa.Value(g) {
				continue
			}
			txt := ""
			eng.WalkExpr(st.Val, func(x ssa.Value) bool {
				if k, ok := x.(*ssa.Const); ok && k.Value != nil && k.Value.Kind() == constant.String {
					txt += constant.StringVal(k.Value) + " "
				}
				if u, ok := x.(*ssa.UnOp); ok {
					if g2, ok := u.X.(*ssa.Global); ok && g2 != g {
						txt += sentinelText(p, g2) + " " // a sentinel wrapping another one (%w)
					}
				}
				return true
			})
			return strings.TrimSpace(txt)
		}
	}
	return ""
}

// groupingTaskPairing: LeafGroupingContext collects the group-by tag values when its task count returns to zero. A stage's Complete()
// runs once for every stage object the pipeline was given, whatever its Plan() produced; so the matching ForkGroupingTask must be
// taken unconditionally when the stage object is created (its constructor), and nowhere else. A fork taken later or under a
// condition lets the count reach zero (collection starts, result sent) while stages are still to come, or drives it negative.
func groupingTaskPairing(c *eng.Ctx) {
	p := c.P
	fork := eng.AnyCallTo("query/context.LeafGroupingContext.ForkGroupingTask")
	done := eng.AnyCallTo("query/context.LeafGroupingContext.CompleteGroupingTask")
	var stageTypes []string
	for _, fn := range p.FuncsWithPrefix("query/stage.") {
		if baseName(fn.Name()) != "Complete" || fn.Signature.Recv() == nil {
			continue
		}
		if len(p.SitesDirect(fn, done)) == 0 {
			continue
		}
		k := p.FuncKey(fn)
		stageTypes = append(stageTypes, strings.TrimSuffix(k, ".Complete"))
		c.Check(p.MustPass(fn, done, 0), "complete-uncounts:"+k, nil, fn, "Complete() gives the grouping task back on every path", "")
	}
	sort.Strings(stageTypes)
	c.Check(len(stageTypes) >= 2, "stages-found", nil, nil, "shard scan and grouping stages take part in the grouping-task count", fmt.Sprintf("%v", stageTypes))
	ctors := map[string]*ssa.Function{}
	for _, fn := range p.FuncsWithPrefix("query/stage.") {
		if fn.Signature.Recv() != nil || fn.Parent() != nil {
			continue
		}
		for _, b := range fn.Blocks {
			for _, in := range b.Instrs {
				if a, ok := in.(*ssa.Alloc); ok {
					if n, ok := a.Type().(*types.Pointer).Elem().(*types.Named); ok {
						ctors["query/stage."+n.Obj().Name()] = fn
					}
				}
			}
		}
	}
	allowed := []string{}
	for _, t := range stageTypes {
		ct := ctors[t]
		if ct == nil {
			c.Check(false, "constructor:"+t, nil, nil, "the stage type has a constructor", "none found")
			continue
		}
		allowed = append(allowed, p.FuncKey(ct))
		c.Check(p.MustPass(ct, fork, 2), "forked-at-creation:"+t, nil, ct,
			"creating the stage object counts one grouping task on every path (Complete() un-counts one for every stage object, whatever Plan() returned)", "")
		n := len(p.Sites(ct, fork))
		c.Check(n == 1, "forked-once:"+t, nil, ct, "exactly one fork per stage object", fmt.Sprintf("%d fork sites", n))
	}
	owner(c, "call of ForkGroupingTask", fork, allowed, len(allowed))
}

func expectResultsCounting(c *eng.Ctx) {
	p := c.P
	_ = p
	for _, fnKey := range []string{mcT + ".handleResponse", "query/context.MetadataContext.handleResponse", "query/context.MetadataContext.HandleResponse"} {
		f := p.Func(fnKey)
		if f == nil {
			continue
		}
		decs := p.Sites(f, eng.StoreField(btcT+".expectResults"))
		if len(decs) == 0 {
			continue
		}
		ls := p.Locks(f, nil)
		for i, d := range decs {
			v := d.Instr.(*ssa.Store).Val
			c.Check(strings.HasSuffix(p.Desc(v), ".expectResults-1)"), fmt.Sprintf("%s:by-one[%d]", fnKey, i), d.Instr, f, "a response lowers the expected counter by exactly one", "stores "+p.Desc(v))
			_, twice := eng.Reaches(f, d.Instr, decs, nil)
			c.Check(!twice, fmt.Sprintf("%s:once[%d]", fnKey, i), d.Instr, f, "at most one decrement per response", "")
			c.Check(ls.At(d.Instr).HasField(btcMu, true), fmt.Sprintf("%s:locked[%d]", fnKey, i), d.Instr, f, "the counter changes under the context mutex", "")
		}
		_, skip := eng.PathExists(eng.PathQuery{Fn: f, Target: func(in ssa.Instruction) bool { _, ok := in.(*ssa.Return); return ok && in.Block() != f.Recover },
			Blocked: func(in ssa.Instruction) bool { return instrIn(in, decs) }})
		c.Check(!skip, fnKey+":every-path", nil, f, "every path of response handling (including the error and ignore exits) decrements the expected counter", "a path returns without the decrement")
	}
	ar := c.Fn(btcT + ".addRequests")
	inc := c.One(ar, eng.StoreField(btcT+".expectResults"), "expectResults++")
	tol := c.One(ar, eng.StoreField(btcT+".tolerantNotFounds"), "tolerantNotFounds++")
	c.Check(inc.Instr.Block() == tol.Instr.Block(), "one-pair-per-target", tol.Instr, ar, "each target adds one expectation and one tolerance in the same loop iteration", "")
	c.Check(strings.HasSuffix(p.Desc(inc.Instr.(*ssa.Store).Val), ".expectResults+1)") && strings.HasSuffix(p.Desc(tol.Instr.(*ssa.Store).Val), ".tolerantNotFounds+1)"), "by-one", inc.Instr, ar, "both grow by one", "")
	conds, _ := eng.GuardingConds(ar, inc.Instr)
	okLoop := false
	for _, cd := range conds {
		if strings.Contains(p.Desc(cd), ".Targets") {
			okLoop = true
		}
	}
	c.Check(okLoop, "per-target", inc.Instr, ar, "the pair is added once per target of the physical plan", "")
	ls := p.Locks(ar, nil)
	c.Check(ls.At(inc.Instr).HasField(btcMu, true), "add-locked", inc.Instr, ar, "expectations are registered under the mutex", "")
}

func rangeAlignedBeforeMeasured(c *eng.Ctx) {
	p := c.P
	c.Rule("ORDER", "query/context.calcTimeRangeAndInterval{range aligned before it is measured}", func() {
		f := c.Fn("query/context.calcTimeRangeAndInterval")
		callers := p.StaticCallers(f)
		c.Check(len(callers) >= 2, "planned-at-root-and-intermediate", nil, f, "the statement is planned by the root and again by the intermediate node from the root's output", fmt.Sprintf("%d callers", len(callers)))
		isBound := func(in ssa.Instruction, fld string) (*ssa.FieldAddr, bool) {
			var addr ssa.Value
			switch x := in.(type) {
			case *ssa.Store:
				addr = x.Addr
			case *ssa.UnOp:
				addr = x.X
			}
			fa, ok := addr.(*ssa.FieldAddr)
			if !ok || eng.FieldKeyOfAddr(fa) != "pkg/timeutil.TimeRange."+fld {
				return nil, false
			}
			return fa, eng.DependsOnField(fa.X, "sql/stmt.Query.TimeRange") || strings.Contains(p.Desc(fa.X), "TimeRange")
		}
		align := map[string][]eng.Site{}
		for _, fld := range []string{"Start", "End"} {
			fld := fld
			align[fld] = p.Sites(f, func(p *eng.Prog, in ssa.Instruction) bool {
				st, ok := in.(*ssa.Store)
				if !ok {
					return false
				}
				if _, ok := isBound(in, fld); !ok {
					return false
				}
				return len(p.CallsIn(st.Val, "pkg/timeutil.Truncate")) > 0
			})
			c.Check(len(align[fld]) > 0, "aligned:"+fld, nil, f, "the query range "+fld+" is truncated to the storage interval", "")
		}
		n := 0
		for _, st := range c.Some(f, eng.StoreField("sql/stmt.Query.Interval"), "statement.Interval = …") {
			eng.WalkExpr(st.Instr.(*ssa.Store).Val, func(x ssa.Value) bool {
				if cl, ok := x.(*ssa.Call); ok && len(p.CallsIn(cl, "pkg/timeutil.Truncate")) > 0 && cl.Common().StaticCallee() != nil && cl.Common().StaticCallee().Name() == "Truncate" {
					// the truncated value itself (kept in a local): aligned by construction; what Truncate reads is its input
					if eng.DependsOnField(cl.Common().Args[0], "pkg/timeutil.TimeRange.Start", "pkg/timeutil.TimeRange.End") {
						n++
						c.Check(true, fmt.Sprintf("measured-after-alignment:truncated[%d]", n), cl, f, "the automatic group-by interval is derived from the ALIGNED range", "")
					}
					return false
				}
				u, ok := x.(*ssa.UnOp)
				if !ok {
					return true
				}
				for _, fld := range []string{"Start", "End"} {
					if _, ok := isBound(u, fld); ok {
						n++
						c.Check(eng.DominatedBy(f, u, align[fld], nil), fmt.Sprintf("measured-after-alignment:%s[%d]", fld, n), u, f,
							"the automatic group-by interval is derived from the ALIGNED range: the intermediate node plans the statement the root already planned, and must arrive at the same interval (the leaves bucket by it, the root merges by its own)",
							"TimeRange."+fld+" is read for the interval before it is truncated")
					}
				}
				return true
			})
		}
		c.Check(n >= 2, "auto-interval-from-range", nil, f, "the automatic interval is computed from the range's Start and End", fmt.Sprintf("%d reads", n))
	})
}
