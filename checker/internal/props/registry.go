// Package props holds the per-property rule-instance tables: each property is Go code that
// names the anchors (functions, fields, seams) confirmed by reading lindb and states the
// obligation decided for each, using the primitives of package eng.
package props

import (
	"sort"

	"lincheck/internal/eng"
)

var registry = map[string]eng.Property{}

func register(p eng.Property) { registry[p.ID] = p }

// All returns the registered properties sorted by id.
func All() []eng.Property {
	var out []eng.Property
	for _, p := range registry {
		out = append(out, p)
	}
	sort.Slice(out, func(i, j int) bool { return out[i].ID < out[j].ID })
	return out
}

// Get returns one property.
func Get(id string) (eng.Property, bool) { p, ok := registry[id]; return p, ok }
