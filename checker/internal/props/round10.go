package props

// Rules added after the tenth round of independently produced breaking changes (m19 / m20).

import (
	"fmt"
	"go/token"
	"go/types"
	"strings"

	"golang.org/x/tools/go/ssa"

	"lincheck/internal/eng"
)

var _ = token.ADD
var _ = strings.TrimSpace
var _ = types.Typ

// startedAsGoroutine: fn is a function literal (or named function) that its parent starts with `go`.
func startedAsGoroutine(fn *ssa.Function) bool {
	par := fn.Parent()
	if par == nil {
		return false
	}
	for _, b := range par.Blocks {
		for _, in := range b.Instrs {
			g, ok := in.(*ssa.Go)
			if !ok {
				continue
			}
			switch x := g.Common().Value.(type) {
			case *ssa.MakeClosure:
				if x.Fn == ssa.Value(fn) {
					return true
				}
			case *ssa.Function:
				if x == fn {
					return true
				}
			}
		}
	}
	return startedAsGoroutine(par)
}

// ---- C01-m19 (C01): the start-up clean-up of a store runs before the store is handed out ----------------------------------------------------
//
// store.deleteObsoleteFiles keeps MANIFEST-<ManifestFileNumber()> and removes the others; every commit overwrites that
// number, so the scan is only safe while nothing can commit: synchronously inside newStore.  Started in the background it
// deletes the live manifest as soon as a commit lands before it reads the number - CURRENT then names a missing file.
func storeCleanupBeforeTheStoreIsUsed(c *eng.Ctx) {
	p := c.P
	c.Rule("ORDER", "kv.store.deleteObsoleteFiles{runs synchronously while the store is being opened}", func() {
		sites := p.SitesInProgram(eng.AnyCallTo("kv.store.deleteObsoleteFiles"))
		c.Check(len(sites) >= 1, "cleanup-found", nil, nil, "a store removes stale manifests when it is opened", "no call of store.deleteObsoleteFiles")
		for i, s := range sites {
			// followed up through a helper that has this one caller (finishInit called by newStore's deferred literal)
			_, isGo := s.Instr.(*ssa.Go)
			async := isGo
			cur := s.Fn
			top := topFunc(c, cur)
			for hop := 0; hop < 3; hop++ {
				async = async || startedAsGoroutine(cur)
				top = topFunc(c, cur)
				if top == "kv.newStore" {
					break
				}
				root := cur
				for root.Parent() != nil {
					root = root.Parent()
				}
				callers := p.StaticCallers(root)
				if len(callers) != 1 {
					break
				}
				if _, g := callers[0].Instr.(*ssa.Go); g {
					async = true
				}
				cur = callers[0].Fn
			}
			c.Check(top == "kv.newStore" && !async, fmt.Sprintf("synchronous-in-newStore[%d]", i), s.Instr, s.Fn,
				"the manifest clean-up identifies the live manifest by ManifestFileNumber(), which every commit overwrites: it runs to completion inside newStore, before the store can be used - in a goroutine it races with the first commit and deletes the manifest CURRENT points to",
				"called from "+top+", asynchronously: "+fmt.Sprint(async))
		}
	})
}

// ---- C01-m20 (C01): the OPTIONS file is written in the hold in which the family was registered --------------------------------------------------
//
// A family that accepts commits must be in OPTIONS: recovery looks every manifest record's family id up there and fails the
// whole store on an unknown one.  Registration (storeInfo.Families[name] = option) and the dump of OPTIONS therefore share
// one write hold of the store lock - dumps made outside it can overtake each other and an older copy replaces a newer one.
func optionsWrittenInTheRegistrationHold(c *eng.Ctx) {
	p := c.P
	c.Rule("ATOMIC", "kv.store.CreateFamily{family registered and OPTIONS written in one hold of the store lock}", func() {
		f := c.Fn("kv.store.CreateFamily")
		const mu = "kv.store.rwMutex"
		ls := p.Locks(f, nil)
		regs := c.Some(f, func(p *eng.Prog, in ssa.Instruction) bool {
			m, ok := in.(*ssa.MapUpdate)
			return ok && eng.DependsOnField(m.Map, "kv.storeInfo.Families")
		}, "s.storeInfo.Families[name] = option")
		dumps := c.Some(f, eng.AnyCallTo("kv.store.dumpStoreInfo"), "s.dumpStoreInfo()")
		for i, r := range regs {
			for j, d := range dumps {
				if _, after := eng.Reaches(r.Instr.Parent(), r.Instr, []eng.Site{d}, nil); !after && r.Instr.Parent() == d.Instr.Parent() {
					continue // a dump that cannot follow this registration (the roll-back delete is a MapUpdate-free path)
				}
				ok, why := ls.SameHold(r.Instr, d.Instr, mu, true)
				c.Check(ok, fmt.Sprintf("registration-and-dump-one-hold[%d,%d]", i, j), d.Instr, f,
					"recovery resolves the family id of every manifest record through OPTIONS and refuses the store on an unknown id: a family is registered and OPTIONS rewritten in one write hold of the store lock, so that the files on disk are written in registration order and a family that takes commits is always in the newest OPTIONS",
					why)
			}
		}
	})
}

// ---- C03-m20 (C03): every picked input of a compaction is read ------------------------------------------------------------------------------
//
// installCompactionResults deletes ALL picked inputs (MarkInputDeletes) in the edit log that adds the outputs.  The merged
// iterator therefore contains every picked file: an input that cannot be opened fails the job - it is not passed over,
// or a file that was never read is removed from the version and from disk.
func everyCompactionInputIsRead(c *eng.Ctx) {
	c.Rule("EXHAUSTIVE", cjT+".makeInputIterator{every picked input file is opened and merged}", func() {
		f := c.Fn(cjT + ".makeInputIterator")
		its := c.Some(f, invokeOn("", "Iterator"), "reader.Iterator()")
		for i, it := range its {
			everyIterationPasses(c, f, it, fmt.Sprintf("no-input-skipped[%d]", i),
				"the compaction's edit log deletes every picked input: each of them is opened and put into the merged iterator (or the job fails) - an input skipped because it could not be opened is deleted unread")
		}
		rd := c.Some(f, invokeOn(".snapshot", "GetReader"), "snapshot.GetReader(file)")
		for i, r := range rd {
			_, errEdges := eng.ErrCheckEdges(f, r.Instr.(ssa.Value))
			c.Check(len(errEdges) >= 1, fmt.Sprintf("open-error-tested[%d]", i), r.Instr, f, "a failed open of an input is noticed", "the error of GetReader is not tested")
		}
	})
}

// ---- C05-m19 (C05, C06): a page file is deleted by the truncation of acknowledged pages only ------------------------------------------------
//
// NewMappedPage opens EXISTING page files on every queue open as well as new ones.  The only place that may delete a page
// file is TruncatePages (pages wholly below the acknowledged position): a "clean-up" of the file on a failed mapping deletes
// a page full of unacknowledged messages on a transient mmap failure, and the retried open recreates it as zeros.
func pageFileRemovedOnlyByTruncation(c *eng.Ctx) {
	c.Rule("OWNER", "pkg/queue/page{a page file is removed only by TruncatePages}", func() {
		rm := eng.Any(eng.CallTo("var:pkg/queue/page.removeFileFunc"), eng.AnyCallTo("github.com/lindb/common/pkg/fileutil.RemoveFile", "os.Remove", "os.RemoveAll"))
		owner(c, "removal of a page file", func(p *eng.Prog, in ssa.Instruction) bool {
			return in.Parent() != nil && strings.HasPrefix(p.FuncKey(in.Parent()), "pkg/queue/page.") && rm(p, in)
		}, []string{"pkg/queue/page.factory.TruncatePages"}, 1)
	})
}

// ---- C08-m19 (C08): the leader rewinds to follower-ack+1 only when it still holds that position ---------------------------------------------
//
// Positions at or below the acknowledged index of a follower may be garbage collected on the leader.  A follower whose ack
// is BELOW the leader's ack for it (it lost its log, or came back with an older disk) is therefore reset to ack+1 by the
// Reset RPC - whatever part of its log it still holds.  The other branch, rewinding the leader's replica index to
// follower-ack+1 and re-sending, is taken only under leader-ack <= follower-ack.
func rewindOnlyWithinWhatTheLeaderHolds(c *eng.Ctx) {
	p := c.P
	c.Rule("GUARD", rrT+".IsReady{the replica index is rewound to follower-ack+1 only when leader-ack <= follower-ack}", func() {
		f := c.Fn(rrT + ".IsReady")
		_, isRemote, isNext := remoteAckOf(c, f)
		facts := p.MustFacts(f)
		isAck := func(_ string, v ssa.Value) bool {
			return eng.DependsOn(v, func(x ssa.Value) bool { n := calleeName(x); return n == "AckIndex" || n == "AcknowledgedSeq" }) && !isRemote(v)
		}
		isRem := func(_ string, v ssa.Value) bool { return isRemote(v) }
		n := 0
		for _, s := range p.Sites(f, eng.CallTo(rpT+".ResetReplicaIndex")) {
			a := eng.CallArgs(s.Instr.(*ssa.Call))
			if len(a) < 1 || !isNext(a[0]) {
				continue
			}
			n++
			fs := facts.At(s.Instr)
			held := facts.Find(fs, "le", isAck, isRem)
			c.Check(len(held) > 0, fmt.Sprintf("rewind-under-ack<=remote[%d]", n), s.Instr, f,
				"everything at or below a follower's acknowledged index may already be garbage collected on the leader: a follower that reports an ack below the leader's ack for it is reset forward by the Reset RPC; the leader rewinds its own replica index to follower-ack+1 only where leader-ack <= follower-ack is established - otherwise it tries to re-send positions it no longer holds, the follower rejects what comes after them and the handshake repeats for ever",
				"facts at the rewind: "+strings.Join(facts.Render(fs), " ; "))
		}
		c.Check(n >= 1, "rewind-found", nil, f, "the handshake rewinds the replica index to follower-ack+1 in the 'ack lost' branch", "")
	})
}

// ---- C08-m20 (C08, C05): Get refuses no message that the append admitted ----------------------------------------------------------------------
//
// alloc rolls over to a new data page when offset + length > page size: a message may END exactly on the last byte of its
// page.  A bounds test in Get that refuses offset + length == size makes that message unreadable; the replica loop takes
// the read error for "position no longer held", acknowledges the position unsent, and the follower has a hole.
func getRefusesNothingTheAppendAdmitted(c *eng.Ctx) {
	p := c.P
	c.Rule("SYMMETRY", qT+".Get{a message that ends on the last byte of its data page is readable}", func() {
		f := c.Fn(qT + ".Get")
		isRead := func(v ssa.Value) bool {
			return eng.DependsOn(v, func(x ssa.Value) bool { n := calleeName(x); return n == "ReadUint32" || n == "ReadUint64" })
		}
		isSize := func(v ssa.Value) bool {
			if k, ok := eng.ConstInt(v); ok && k >= 1<<20 {
				return true
			}
			return eng.DependsOn(v, func(x ssa.Value) bool { n := calleeName(x); return n == "Size" || n == "Len" }) ||
				eng.DependsOn(v, func(x ssa.Value) bool {
					in, ok := x.(ssa.Instruction)
					return ok && eng.LoadField(qT+".pageSize")(p, in)
				})
		}
		n := 0
		for _, b := range eng.BlocksT(f) {
			for _, in := range b.Instrs {
				bo, ok := in.(*ssa.BinOp)
				if !ok {
					continue
				}
				switch bo.Op {
				case token.LSS, token.LEQ, token.GTR, token.GEQ:
				default:
					continue
				}
				endLeft := false
				switch {
				case isRead(bo.X) && isSize(bo.Y) && !isSize(bo.X):
					endLeft = true
				case isRead(bo.Y) && isSize(bo.X) && !isSize(bo.Y):
				default:
					continue
				}
				te, fe := condEdges(b.Parent(), bo)
				rejects := func(es []eng.Edge) bool {
					for _, e := range es {
						blk := e.B.Succs[e.Succ]
						if r, ok := blk.Instrs[len(blk.Instrs)-1].(*ssa.Return); ok && !eng.ReturnsNilError(r) {
							return true
						}
					}
					return false
				}
				rejT, rejF := rejects(te), rejects(fe)
				if rejT == rejF {
					continue
				}
				n++
				// outcome of the comparison when the message ends exactly at the page size (end == size)
				var atEq bool
				switch bo.Op {
				case token.LEQ, token.GEQ:
					atEq = true
				}
				_ = endLeft
				refusedAtEq := atEq == rejT
				c.Check(!refusedAtEq, fmt.Sprintf("end-equal-to-page-size-accepted[%d]", n), bo, f,
					"the append admits offset + length == page size (alloc rolls over only when the sum EXCEEDS it); a bounds test on the read side uses the same strict comparison - refusing the equal case makes the last message of a full page unreadable, and the leader acknowledges it unsent",
					"the test "+p.Desc(bo)+" refuses a message that ends exactly at the page size")
			}
		}
		c.Check(true, "bounds-tests-examined", nil, f, "every comparison of an entry's extent with the page size in Get was examined", fmt.Sprintf("%d tests", n))
	})
}

// ---- C09-m19 (C09): the sequence cache of a metric only ever holds the id that was just created ---------------------------------------------
//
// createSeriesID trusts a hit in sequenceCache blindly (next id = cached + 1, the postings are not read).  The cache is
// therefore written only with the id of a series that was CREATED by this call - the highest id of the metric at that
// moment.  Caching the id of an existing series that was merely resolved (to "keep the entry warm") makes the next new tag
// set receive an id another tag set already holds.
func sequenceCacheHoldsTheNewestID(c *eng.Ctx) {
	_ = c.P
	c.Rule("GUARD", midT+".sequenceCache{written only with the id of a series created by this call}", func() {
		g := c.Fn(midT + ".GenSeriesID")
		adds := c.Some(g, invokeOnGeneric(".sequenceCache", "Add"), "sequenceCache.Add(metric, seriesID)")
		for i, a := range adds {
			conds, _ := eng.GuardingConds(g, a.Instr)
			onNew := false
			for _, cd := range conds {
				// either spelling: `if err == nil && isNew { add }` or `if err != nil || !isNew { return }; add`
				if eng.DependsOn(cd, func(x ssa.Value) bool {
					e, ok := x.(*ssa.Extract)
					return ok && e.Index == 1 && calleeName(e.Tuple) == "GetOrCreateValue"
				}) {
					onNew = true
				}
			}
			c.Check(onNew, fmt.Sprintf("cached-only-when-new[%d]", i), a.Instr, g,
				"the cached sequence is taken for the metric's highest series id without looking at the postings: it is stored only on the edge where GetOrCreateValue reported a NEW series (whose id is that maximum) - an id of an existing series cached after a reopen or an expiry is not the maximum, and the next new series gets an id in use",
				"the store into the cache is not guarded by isNewSeries")
		}
		// nobody else writes the cache
		owner(c, "write of the series sequence cache", invokeOnGeneric(".sequenceCache", "Add"), []string{midT + ".GenSeriesID"}, 1)
	})
}

// ---- C11-m19 (C11): all data-load tasks of a context are counted before the first of them can finish ----------------------------------------
//
// leafReduce reduces when the pending counter of the data-load context is 0.  The stages of the families of one query are
// planned and submitted one after another; the counter is therefore raised for ALL of them by the stage that creates them
// (groupingStage.NextStages), before any is handed out.  Counting in each stage's own Plan lets the first family finish,
// see 0 and reduce before the second is planned - the later families' points are missing from the answer.
func dataLoadTasksCountedUpFront(c *eng.Ctx) {
	c.Rule("OWNER", "flow.DataLoadContext.PendingDataLoadTasks{raised only where the data-load stages are created}", func() {
		const fld = "flow.DataLoadContext.PendingDataLoadTasks"
		owner(c, "increment of the pending data-load counter", func(p *eng.Prog, in ssa.Instruction) bool {
			fa, m, _ := eng.AtomicOp(in)
			return fa != nil && eng.FieldKeyOfAddr(fa) == fld && (m == "Add" || m == "Inc" || m == "Store")
		}, []string{"query/stage.groupingStage.NextStages"}, 1)
	})
}

// ---- C11-m20 (C11, C07): the writable memory database is only ever replaced by a NEW one (or by none) ------------------------------------------
//
// While a flush runs WriteRows creates a new writable memory database and accepts points into it.  Storing the frozen
// database back into the writable slot (a "roll-back" after a failed flush) discards that new database: the points accepted
// during the flush are in no database and in no table.
func writableMemDBOnlyReplacedByANewOne(c *eng.Ctx) {
	p := c.P
	c.Rule("PROV", "tsdb.dataFamily.mutableMemDB{assigned a newly created memory database, or nil}", func() {
		const fld = "tsdb.dataFamily.mutableMemDB"
		n := 0
		for _, s := range p.SitesInProgram(eng.StoreField(fld)) {
			st, ok := s.Instr.(*ssa.Store)
			if !ok || !strings.HasPrefix(p.FuncKey(s.Fn), "tsdb.") {
				continue
			}
			n++
			okV := true
			what := ""
			for _, src := range leafSources(st.Val) {
				if eng.IsNilConst(src) {
					continue
				}
				if cl, isCall := src.(*ssa.Call); isCall {
					keys := strings.Join(p.CalleeKeys(cl), " ")
					if strings.Contains(keys, "newMemoryDBFunc") || strings.Contains(keys, "memdb.NewMemoryDatabase") {
						continue
					}
				}
				if ex, isEx := src.(*ssa.Extract); isEx {
					if cl, isCall := ex.Tuple.(*ssa.Call); isCall {
						keys := strings.Join(p.CalleeKeys(cl), " ")
						if strings.Contains(keys, "newMemoryDBFunc") || strings.Contains(keys, "memdb.NewMemoryDatabase") {
							continue
						}
					}
				}
				okV, what = false, p.Desc(src)
			}
			c.Check(okV, fmt.Sprintf("new-or-nil@%s[%d]", p.FuncKey(s.Fn), n), st, s.Fn,
				"the writable slot of a family receives a memory database created for it at that moment, or nil when it is frozen: a database that was frozen before (being flushed, or whose flush failed) is never put back - that would drop the database WriteRows created in the meantime, with the points it accepted",
				"assigned "+what)
		}
		c.Check(n >= 2, "stores-found", nil, nil, "the family replaces its writable memory database", fmt.Sprintf("%d stores", n))
	})
}

// ---- C13-m20 (C13): the family time of a timestamp is the start of the family the timestamp is put into ---------------------------------------
//
// The broker selects the rows of a family with CalcSegmentTime / CalcFamily / CalcFamilyStartTime / CalcFamilyEndTime and
// labels the group with CalcFamilyTime; the storage node writes the group into the family of that label.  The label is
// therefore computed THROUGH the same three functions - an arithmetic shortcut (ts - ts % hour) agrees with them only in
// zones whose offset is a whole number of hours.
func familyTimeComposedOfTheCalendarFunctions(c *eng.Ctx) {
	p := c.P
	c.Rule("SYMMETRY", "pkg/timeutil.IntervalCalculator.CalcFamilyTime{= CalcFamilyStartTime(CalcSegmentTime(ts), CalcFamily(ts, segment))}", func() {
		n := 0
		for _, t := range []string{"day", "month", "year"} {
			f := c.Fn("pkg/timeutil." + t + ".CalcFamilyTime")
			n++
			for i, r := range eng.SuccessReturns(f) {
				v := eng.RetVal(r, 0)
				okc := false
				for _, src := range leafSourcesNoInline(v) {
					cl, isCall := src.(*ssa.Call)
					if !isCall || calleeName(cl) != "CalcFamilyStartTime" {
						okc = false
						break
					}
					args := eng.CallArgs(cl)
					if len(args) < 2 {
						break
					}
					seg := eng.DependsOn(args[0], func(x ssa.Value) bool { return calleeName(x) == "CalcSegmentTime" })
					fam := eng.DependsOn(args[1], func(x ssa.Value) bool { return calleeName(x) == "CalcFamily" })
					okc = seg && fam
				}
				c.Check(okc, fmt.Sprintf("%s:composed[%d]", t, i), r, f,
					"the label of a family group (CalcFamilyTime) is the start of the family that CalcSegmentTime / CalcFamily put the timestamp into - computed through those functions and CalcFamilyStartTime, so that label, membership test and storage family agree in every time zone",
					"returns "+p.Desc(v))
			}
		}
		c.Check(n == 3, "calculators-found", nil, nil, "day, month and year calculators", "")
	})
}

// ---- C12-m20 (C12, C19): the leaf waits for the group-by collection only when somebody will finish it ---------------------------------------
//
// collectGroupingTagsCompleted is closed by the grouping context when the last shard-scan / grouping stage completes.  A
// node that serves none of the plan's shards (or finds no group) has no such stage: nothing will ever close the channel.
// The wait is therefore guarded by HasGroupingTagValueIDs() - ids were collected, so a collector is running - and not
// merely by "the query has GROUP BY"; otherwise the leaf answers only when its task context times out.
func groupingWaitOnlyWhenACollectorRuns(c *eng.Ctx) {
	c.Rule("GUARD", "query/context.LeafExecuteContext.waitCollectGroupingTagsCompleted{the wait is guarded by HasGroupingTagValueIDs}", func() {
		f := c.Fn("query/context.LeafExecuteContext.waitCollectGroupingTagsCompleted")
		n := 0
		for _, b := range eng.BlocksT(f) {
			for _, in := range b.Instrs {
				waits := false
				switch x := in.(type) {
				case *ssa.Select:
					for _, st := range x.States {
						if st.Dir == types.RecvOnly && eng.DependsOnField(st.Chan, "query/context.LeafGroupingContext.collectGroupingTagsCompleted") {
							waits = true
						}
					}
				case *ssa.UnOp:
					if x.Op == token.ARROW && eng.DependsOnField(x.X, "query/context.LeafGroupingContext.collectGroupingTagsCompleted") {
						waits = true
					}
				}
				if !waits {
					continue
				}
				n++
				conds, taken := eng.GuardingConds(f, in)
				guarded := false
				for k, cd := range conds {
					if taken[k] && eng.DependsOn(cd, func(v ssa.Value) bool { return calleeName(v) == "HasGroupingTagValueIDs" }) {
						guarded = true
					}
				}
				c.Check(guarded, fmt.Sprintf("wait-guarded[%d]", n), in, f,
					"the completion signal of the group-by collection is sent by the last shard-scan / grouping stage; where no tag value id was collected (no shard of the plan on this node, no matching group) no such stage exists and the signal never comes - the leaf waits for it only under HasGroupingTagValueIDs()",
					"the wait is not guarded by HasGroupingTagValueIDs()")
			}
		}
		c.Check(n >= 1, "wait-found", nil, f, "the leaf waits for the group-by collection", "")
	})
}

// ---- C12-m19 (C12): a shard of the plan that the node does not serve is skipped, never answered with "not found" ------------------------------
//
// The root tolerates every leaf error whose text contains "not found" as "this node has no data" (one per target).  A leaf
// that REFUSES its task with ErrShardNotFound because one shard of the plan is not (yet) on it therefore makes the root drop
// the data of its other shards silently.  On the leaf a missing shard is passed over (the stage is not forked); it is not
// an error of the task.
func missingShardIsSkippedNotRefused(c *eng.Ctx) {
	p := c.P
	c.Rule("ERRFLOW", "query{a shard of the plan that is not on the node does not fail the leaf task}", func() {
		n := 0
		for _, fn := range p.AllFuncs {
			k := p.FuncKey(fn)
			if fn.Blocks == nil || !(strings.HasPrefix(k, "query.leafTaskProcessor.") || strings.HasPrefix(k, "query/stage.metadataLookupStage.") || strings.HasPrefix(k, "query/stage.shardLookupStage.")) {
				continue
			}
			for _, s := range p.SitesDirect(fn, invokeOn("", "GetShard")) {
				n++
				_, fe := eng.BoolCheckEdges(fn, s.Instr.(ssa.Value))
				for j, e := range fe {
					first := e.B.Succs[e.Succ].Instrs[0]
					isErrRet := func(in ssa.Instruction) bool {
						r, ok := in.(*ssa.Return)
						return ok && in.Parent() == fn && len(r.Results) > 0 && !eng.ReturnsNilError(r)
					}
					// the miss edge must not lead STRAIGHT into a failing return (without meeting the next shard / the loop again)
					direct := isErrRet(first)
					if !direct {
						if r, ok := e.B.Succs[e.Succ].Instrs[len(e.B.Succs[e.Succ].Instrs)-1].(*ssa.Return); ok && isErrRet(r) {
							direct = true
						}
					}
					c.Check(!direct, fmt.Sprintf("%s:miss-is-not-an-error[%d,%d]", k, n, j), s.Instr, fn,
						"the root reads every leaf error that contains 'not found' as 'no data on this node': a leaf must not turn 'one shard of the plan is not served here' into such an error for the whole task - the shard is skipped and the node answers with the shards it has",
						"the miss edge of GetShard returns an error")
				}
			}
		}
		c.Check(n >= 1, "shard-lookups-found", nil, nil, "the leaf resolves the plan's shards through Database.GetShard", "")
	})
}

// ---- C14-m19 (C14): the TSD stream writer copies a field block when it is handed over ---------------------------------------------------------
//
// TSDEncoder.BytesWithoutTime() returns the encoder's internal buffer, and every multi-field writer re-arms ONE pooled encoder
// per field: the block handed to WriteField is only valid until the next field is encoded.  WriteField therefore copies it
// at once (PutBytes) and keeps no reference to it - a collected slice would alias the memory of the field encoded last.
func streamWriterKeepsNoReferenceToTheBlock(c *eng.Ctx) {
	p := c.P
	c.Rule("PROV", "pkg/encoding.tsdStreamWriter.WriteField{the field block is copied, not kept}", func() {
		f := c.Fn("pkg/encoding.tsdStreamWriter.WriteField")
		var data *ssa.Parameter
		for _, pa := range f.Params {
			if _, isSlice := pa.Type().Underlying().(*types.Slice); isSlice {
				data = pa
			}
		}
		if data == nil {
			c.Undecided("WriteField has no slice parameter")
		}
		// values that are views of the block: the parameter, slices and conversions of it
		views := map[ssa.Value]bool{data: true}
		changed := true
		for changed {
			changed = false
			for _, b := range f.Blocks {
				for _, in := range b.Instrs {
					v, ok := in.(ssa.Value)
					if !ok || views[v] {
						continue
					}
					switch x := in.(type) {
					case *ssa.Slice:
						if views[x.X] {
							views[v], changed = true, true
						}
					case *ssa.ChangeType:
						if views[x.X] {
							views[v], changed = true, true
						}
					case *ssa.Phi:
						for _, e := range x.Edges {
							if views[e] {
								views[v], changed = true, true
							}
						}
					}
				}
			}
		}
		var kept ssa.Instruction
		for _, b := range f.Blocks {
			for _, in := range b.Instrs {
				if st, ok := in.(*ssa.Store); ok && views[st.Val] {
					kept = in
				}
			}
		}
		detail := ""
		if kept != nil {
			detail = "the block is stored at " + p.Pos(kept.Pos()) + " (kept beyond the call)"
		}
		c.Check(kept == nil, "block-not-kept", kept, f,
			"the block handed to WriteField lives in the encoder's own buffer and is overwritten when the next field is encoded: the writer copies its bytes during the call and stores no view of it anywhere",
			detail)
		c.Check(len(c.P.Sites(f, invokeOn("", "PutBytes", "Write"))) >= 1, "block-copied", nil, f, "WriteField copies the block into the stream", "no PutBytes / Write of the block")
	})
}

// ---- C14-m20 (C14): the decompressing side reads the whole stream the compressing side wrote --------------------------------------------------
//
// The chunk writer has no upper bound (batch-block-size is any positive value); io.LimitReader signals its limit with a plain
// EOF, which io.Copy takes for the end of the data: a size cap on the reader side cuts a bigger chunk silently.  The copy out
// of the snappy reader is unbounded, or a bound is turned into an error.
func decompressionReadsTheWholeStream(c *eng.Ctx) {
	p := c.P
	c.Rule("SYMMETRY", "pkg/compress.snappyReader.Uncompress{no silent bound on the decompressed size}", func() {
		f := c.Fn("pkg/compress.snappyReader.Uncompress")
		n := 0
		for _, b := range eng.BlocksT(f) {
			for _, in := range b.Instrs {
				cl, ok := in.(*ssa.Call)
				if !ok {
					continue
				}
				keys := strings.Join(p.CalleeKeys(cl), " ")
				switch {
				case strings.Contains(keys, "io.LimitReader"), strings.Contains(keys, "io.CopyN"):
					n++
					// a limit is acceptable only when reaching it is reported: some error return is conditioned on the copied size
					reported := false
					for _, b2 := range eng.BlocksT(f) {
						if r, isR := b2.Instrs[len(b2.Instrs)-1].(*ssa.Return); isR && !eng.ReturnsNilError(r) {
							conds, _ := eng.GuardingConds(f, r)
							for _, cd := range conds {
								if eng.DependsOn(cd, func(x ssa.Value) bool {
									e, ok := x.(*ssa.Extract)
									return ok && e.Index == 0 && strings.Contains(calleeName(e.Tuple), "Copy")
								}) {
									reported = true
								}
							}
						}
					}
					c.Check(reported, fmt.Sprintf("limit-is-reported[%d]", n), cl, f,
						"what the compressing side wrote is what the decompressing side returns: the chunk writer has no size bound, and io.LimitReader ends with a plain EOF that io.Copy reads as success - a cap on the decompressed size must fail loudly (an error conditioned on the number of bytes copied), never truncate",
						"the stream is read through "+keys+" and no error depends on the copied size")
				}
			}
		}
		c.Check(len(p.Sites(f, eng.AnyCallTo("io.Copy", "io.CopyN", "io.ReadAll", "io.CopyBuffer"))) >= 1, "copy-found", nil, f, "Uncompress copies the decompressed stream out of the snappy reader", "")
	})
}

// ---- C15-m20 (C15, C02): FindFiles hands out a slice of its own ---------------------------------------------------------------------------------
//
// A version is shared without a lock by every snapshot taken from it, and Snapshot.Load / FindReaders range over the
// result while they open readers and run the caller's loader.  The result of FindFiles is therefore memory of that call: a
// buffer kept in the version is rewritten by an overlapping look-up on the same version.
func findFilesReturnsItsOwnSlice(c *eng.Ctx) {
	p := c.P
	c.Rule("PROV", "kv/version.version.FindFiles{the result is not a buffer kept in the shared version}", func() {
		f := c.Fn("kv/version.version.FindFiles")
		n := 0
		for i, r := range eng.SuccessReturns(f) {
			n++
			ok, why := freshValue(p, eng.RetVal(r, 0), 0, map[ssa.Value]bool{})
			c.Check(ok, fmt.Sprintf("own-slice[%d]", i), r, f,
				"the list of matching files is built in memory that belongs to this call (a version is read concurrently by all snapshots taken from it; the callers range over the list while they open readers): no buffer that lives in the version is handed out",
				"the result is "+why)
		}
		c.Check(n >= 1, "returns-found", nil, f, "FindFiles returns a file list", "")
	})
}

// ---- C16-m19 (C16): the shard iterator walks the rows of THIS request -------------------------------------------------------------------------
//
// A batch is pooled; rows[] keeps the rows of earlier, larger requests behind rowCount.  Everything that walks a batch is
// bounded by Len() / Rows() (rowCount), never by len(rows) of the backing slice - otherwise rows of an earlier request, with
// their old shard index and eviction mark, are routed and written again.
func shardIteratorBoundedByTheRowCount(c *eng.Ctx) {
	p := c.P
	c.Rule("GUARD", "series/metric.BrokerBatchShardIterator{bounded by the batch's row count, not by the capacity of its row slice}", func() {
		const bT = "series/metric.BrokerBatchRows"
		n := 0
		for _, fk := range []string{"series/metric.BrokerBatchShardIterator.HasRowsForNextShard", "series/metric.BrokerBatchShardIterator.FamilyRowsForNextShard", "series/metric.BrokerBatchShardIterator.Reset"} {
			f := p.Func(fk)
			if f == nil || f.Blocks == nil {
				continue
			}
			for _, b := range eng.BlocksT(f) {
				for _, in := range b.Instrs {
					cl, ok := in.(*ssa.Call)
					if !ok {
						continue
					}
					bi, isB := cl.Common().Value.(*ssa.Builtin)
					if !isB || bi.Name() != "len" || len(cl.Common().Args) != 1 {
						continue
					}
					// len() of the batch's raw row slice (directly, or of a copy of that slice header kept by the iterator)
					raw := false
					for _, src := range leafSourcesNoInline(cl.Common().Args[0]) {
						if in2, isIn := src.(ssa.Instruction); isIn && eng.LoadField(bT+".rows")(p, in2) {
							raw = true
						}
						if in2, isIn := src.(ssa.Instruction); isIn {
							if u, isU := in2.(*ssa.UnOp); isU {
								if fa, isFA := u.X.(*ssa.FieldAddr); isFA && strings.HasPrefix(eng.FieldKeyOfAddr(fa), "series/metric.BrokerBatchShardIterator.") {
									// a slice field of the iterator: what was stored into it ?
									for _, st := range p.SitesInProgram(eng.StoreField(eng.FieldKeyOfAddr(fa))) {
										if s2, isSt := st.Instr.(*ssa.Store); isSt {
											for _, s3 := range leafSourcesNoInline(s2.Val) {
												if in3, ok3 := s3.(ssa.Instruction); ok3 && eng.LoadField(bT+".rows")(p, in3) {
													raw = true
												}
											}
										}
									}
								}
							}
						}
					}
					n++
					c.Check(!raw, fmt.Sprintf("%s:bound-is-the-row-count[%d]", fk, n), cl, f,
						"a pooled batch keeps the rows of earlier requests behind rowCount: the iterator over a batch is bounded by batch.Len() / batch.Rows(), never by len() of the backing row slice",
						"bounded by len of the raw row slice "+p.Desc(cl.Common().Args[0]))
				}
			}
		}
		g := c.Fn("series/metric.BrokerBatchShardIterator.HasRowsForNextShard")
		c.Check(len(p.Sites(g, eng.AnyCallTo(bT+".Len")))+n >= 1, "bound-found", nil, g, "the iterator bounds itself", "")
	})
}

// ---- C17-m19 (C17): the intermediate node ships the statement it planned --------------------------------------------------------------------
//
// Whoever plans a statement (root broker, or the intermediate broker when the query enters through the root tier) encodes
// THAT statement for the next tier: the leaf executes what it decodes.  Forwarding the upstream request's payload ships the
// un-planned statement (no storage interval, no ratio, untruncated range) whenever the upstream did not plan itself.
func intermediateShipsWhatItPlanned(c *eng.Ctx) {
	p := c.P
	c.Rule("PROV", "query/context.IntermediateMetricContext.MakePlan{the payload sent on is the encoding of the statement planned here}", func() {
		f := c.Fn("query/context.IntermediateMetricContext.MakePlan")
		n := 0
		for _, g := range append([]*ssa.Function{f}, closuresT(f)...) {
			for _, b := range g.Blocks {
				for _, in := range b.Instrs {
					st, ok := in.(*ssa.Store)
					if !ok {
						continue
					}
					fa, ok := st.Addr.(*ssa.FieldAddr)
					if !ok || !strings.HasSuffix(eng.FieldKeyOfAddr(fa), "TaskRequest.Payload") {
						continue
					}
					n++
					encoded := eng.DependsOn(st.Val, func(x ssa.Value) bool {
						nm := calleeName(x)
						return nm == "MarshalJSON" || nm == "JSONMarshal" || nm == "Marshal"
					})
					forwarded := eng.DependsOn(st.Val, func(x ssa.Value) bool {
						in2, ok := x.(ssa.Instruction)
						return ok && eng.LoadField("proto/gen/v1/common.TaskRequest.Payload")(p, in2)
					})
					c.Check(encoded && !forwarded, fmt.Sprintf("payload-is-the-planned-statement[%d]", n), st, g,
						"the leaf executes the statement it decodes from the payload: the node that planned the statement encodes it (statement.MarshalJSON()) for the next tier; the payload of the request it received itself carries the statement as the upstream sent it - un-planned when the upstream is the root tier",
						"Payload is "+p.Desc(st.Val))
				}
			}
		}
		c.Check(n >= 1, "payload-stores-found", nil, f, "MakePlan builds the requests for the next tier", "")
	})
}

// ---- C18-m19 (C18): a new master starts from an empty state --------------------------------------------------------------------------------
//
// Discovery reports a deletion only for a key it has seen; a node that died while no master was watching is simply not
// listed.  The state of a new master is therefore built from NOTHING plus what discovery lists now - a state restored from
// what the previous master wrote keeps that node in LiveNodes for the whole term and elects it leader.
func newMasterStartsFromAnEmptyState(c *eng.Ctx) {
	p := c.P
	c.Rule("PROV", "coordinator/master.newStorageCluster{the cluster state starts empty}", func() {
		f := c.Fn("coordinator/master.newStorageCluster")
		sts := c.Some(f, eng.StoreField("coordinator/master.storageCluster.state"), "cluster.state = …")
		for i, s := range sts {
			st := s.Instr.(*ssa.Store)
			ok := true
			what := ""
			for _, src := range leafSources(st.Val) {
				cl, isCall := src.(*ssa.Call)
				if !isCall || !strings.Contains(strings.Join(p.CalleeKeys(cl), " "), "models.NewStorageState") {
					ok, what = false, p.Desc(src)
					continue
				}
				// the fresh state is not filled by anybody before it is installed
				var walk func(v ssa.Value, d int)
				walk = func(v ssa.Value, d int) {
					refs := v.Referrers()
					if refs == nil || d > 4 {
						return
					}
					for _, r := range *refs {
						switch x := r.(type) {
						case ssa.CallInstruction:
							ok, what = false, "a state that "+strings.Join(p.CalleeKeys(x), "/")+" was handed (to fill it in)"
						case *ssa.MakeInterface:
							walk(x, d+1)
						case *ssa.ChangeType:
							walk(x, d+1)
						case *ssa.Phi:
							walk(x, d+1)
						}
					}
				}
				walk(cl, 0)
			}
			c.Check(ok, fmt.Sprintf("state-is-new-and-empty[%d]", i), st, f,
				"a master's picture of the storage cluster is rebuilt from what discovery lists (List + watch) on top of an EMPTY state: whatever the previous master wrote may name nodes that died unobserved, and no deletion event will ever come for them",
				"the initial state is "+what)
		}
	})
}

// ---- C19-m20 (C19): a goroutine started by the dispatcher does not share a variable the dispatcher goes on assigning ---------------------------
//
// The dispatcher's `task` is one variable for the whole loop.  A goroutine that captures it (instead of receiving the task
// as an argument / a per-iteration copy) runs whatever was dequeued LAST when it finally gets a worker: one stage task never
// runs, another runs - and completes - twice; the pending count still reaches zero and completion is signalled although a
// started stage never ran.
func dispatcherGoroutinesOwnTheirTask(c *eng.Ctx) {
	p := c.P
	c.Rule("PROV", "internal/concurrent.workerPool{a goroutine does not capture a variable that is assigned again after it was started}", func() {
		n := 0
		for _, fn := range p.AllFuncs {
			if !strings.HasPrefix(p.FuncKey(fn), "internal/concurrent.") || fn.Blocks == nil {
				continue
			}
			for _, b := range fn.Blocks {
				for _, in := range b.Instrs {
					g, ok := in.(*ssa.Go)
					if !ok {
						continue
					}
					mc, ok := g.Common().Value.(*ssa.MakeClosure)
					if !ok {
						continue
					}
					n++
					for _, bd := range mc.Bindings {
						al, isAl := bd.(*ssa.Alloc)
						if !isAl {
							continue
						}
						var stores []eng.Site
						if refs := al.Referrers(); refs != nil {
							for _, r := range *refs {
								if st, isSt := r.(*ssa.Store); isSt && st.Addr == ssa.Value(al) {
									stores = append(stores, eng.Site{Fn: fn, Instr: st})
								}
							}
						}
						w, again := eng.Reaches(fn, g, stores, nil)
						detail := ""
						if again {
							detail = "the goroutine captures " + al.Comment + ", which is assigned again at " + p.InstrPos(w) + " while the goroutine may not have read it yet"
						}
						c.Check(!again, fmt.Sprintf("%s:captured-variable-not-reassigned[%d:%s]", p.FuncKey(fn), n, al.Comment), g, fn,
							"a task handed to a goroutine travels as an argument or a per-iteration copy: a variable of the dispatcher's loop that the goroutine captures is overwritten by the next dequeue before the goroutine gets a worker - one task is lost, another runs twice",
							detail)
					}
				}
			}
		}
		c.Check(true, "goroutines-examined", nil, nil, "the goroutines started in internal/concurrent were examined", fmt.Sprintf("%d go statements", n))
	})
}

// ---- F73 (C16): the measurement of a protocol line ends at the first separator, comma OR white space -------------------------------------------
//
// `measurement[,tags] fields [timestamp]`: the measurement ends at the first unescaped comma (tags follow) or at the first
// unescaped white space (no tags), whichever comes FIRST.  Taking the first comma of the whole line cuts a tag-less line
// with two or more fields inside its field set (`cpu a=1,b=2`): the row is dropped or stored under the name "cpu a=1".
func measurementEndsAtTheFirstSeparator(c *eng.Ctx) {
	_ = c.P
	c.Rule("GUARD", "ingestion/influx.scanMetricName{the comma that ends the measurement lies before the first white space}", func() {
		f := c.Fn("ingestion/influx.scanMetricName")
		walkOf := func(ch int64) []ssa.Value {
			var out []ssa.Value
			for _, b := range eng.BlocksT(f) {
				for _, in := range b.Instrs {
					cl, ok := in.(*ssa.Call)
					if !ok || calleeName(cl) != "walkToUnescapedChar" {
						continue
					}
					a := eng.CallArgs(cl)
					if len(a) >= 2 {
						if k, isC := eng.ConstInt(a[1]); isC && k == ch {
							out = append(out, cl)
						}
					}
				}
			}
			return out
		}
		commas, spaces := walkOf(','), walkOf(' ')
		c.Check(len(commas) >= 1 && len(spaces) >= 1, "separators-searched", nil, f, "scanMetricName looks for the first comma and the first white space", fmt.Sprintf("%d / %d searches", len(commas), len(spaces)))
		isOf := func(v ssa.Value, set []ssa.Value) bool {
			return eng.DependsOn(v, func(x ssa.Value) bool {
				for _, s := range set {
					if x == s {
						return true
					}
				}
				return false
			})
		}
		n := 0
		for _, b := range f.Blocks {
			r, ok := b.Instrs[len(b.Instrs)-1].(*ssa.Return)
			if !ok || len(r.Results) < 1 || !eng.ReturnsNilError(r) {
				continue
			}
			if !isOf(r.Results[0], commas) || isOf(r.Results[0], spaces) {
				continue // not the "tags follow" exit
			}
			n++
			// the comparisons of the two positions, and the edges on which the comma position is known not to be positive
			// (those paths end in the "no comma" exits, not here)
			var cmps []ssa.Instruction
			for _, b2 := range f.Blocks {
				for _, in2 := range b2.Instrs {
					if bo, isB := in2.(*ssa.BinOp); isB {
						switch bo.Op {
						case token.LSS, token.LEQ, token.GTR, token.GEQ:
							if isOf(bo.X, commas) && isOf(bo.Y, spaces) || isOf(bo.X, spaces) && isOf(bo.Y, commas) {
								cmps = append(cmps, in2)
							}
						}
					}
				}
			}
			noComma := eng.EdgesWithFact(f, func(ft eng.Fact) bool {
				k, isC := eng.ConstInt(ft.Y)
				// ... nor is there anything to compare with when the line has no white space at all
				return isC && k == 0 && (isOf(ft.X, commas) || isOf(ft.X, spaces)) && (ft.Op == "le" || ft.Op == "lt" || ft.Op == "eq")
			})
			_, bypass := eng.PathExists(eng.PathQuery{Fn: f,
				Target: func(in2 ssa.Instruction) bool { return in2 == ssa.Instruction(r) },
				Blocked: func(in2 ssa.Instruction) bool {
					for _, x := range cmps {
						if x == in2 {
							return true
						}
					}
					return false
				},
				Edge: eng.ForbidEdges(noComma)})
			compared := len(cmps) > 0 && !bypass
			// or: the comma was searched only in front of the first white space
			if !compared {
				for _, cm := range commas {
					cl := cm.(*ssa.Call)
					a := eng.CallArgs(cl)
					if len(a) >= 1 && isOf(a[0], spaces) {
						compared = true
					}
				}
			}
			c.Check(compared, fmt.Sprintf("comma-before-the-first-space[%d]", n), r, f,
				"the position of the first comma is taken for the end of the measurement only when no white space lies before it: in a line without tags the first comma separates two FIELDS",
				"the comma's position is returned without having been compared with the position of the first white space")
		}
		c.Check(n >= 1, "tags-exit-found", nil, f, "scanMetricName has an exit for 'tags follow'", "")
	})
}

// ---- C07-m19 (C07): a log directory is removed only for a partition that was found expired ----------------------------------------------------
//
// The garbage-collect goroutine runs from the moment the WAL manager is created, i.e. also while Recovery() is still loading
// the logs of the previous run.  A directory may be deleted only (a) as the Path() of a tracked partition whose IsExpire()
// said so (all groups drained), (b) as an EMPTY family directory, or (c) by Drop.  Deleting "orphan" directories found by
// listing the disk removes the not-yet-loaded logs of a crashed process - unflushed, unacknowledged entries included.
func logDirRemovedOnlyForAnExpiredPartition(c *eng.Ctx) {
	p := c.P
	c.Rule("PROV", "replica.writeAheadLog{a directory is removed as an expired partition's path, as an empty family directory, or by Drop}", func() {
		n := 0
		for _, fn := range p.AllFuncs {
			k := p.FuncKey(fn)
			if !strings.HasPrefix(k, "replica.writeAheadLog.") || fn.Blocks == nil {
				continue
			}
			for _, s := range p.SitesDirect(fn, eng.Any(eng.CallTo("var:replica.removeDirFn"), eng.AnyCallTo("github.com/lindb/common/pkg/fileutil.RemoveDir", "os.RemoveAll"))) {
				n++
				if strings.HasSuffix(k, ".Drop") {
					c.Check(true, fmt.Sprintf("%s:drop[%d]", k, n), s.Instr, fn, "Drop removes the whole log", "")
					continue
				}
				args := eng.CallArgs(s.Instr.(ssa.CallInstruction))
				isPath := len(args) >= 1 && eng.DependsOn(args[0], func(x ssa.Value) bool { return calleeName(x) == "Path" })
				// an empty directory: guarded by len(listing) == 0 / > 0
				emptyDir := false
				conds, _ := eng.GuardingConds(fn, s.Instr)
				for _, cd := range conds {
					// len(listDirFn(<the removed directory>)) compared with the constant 0 - a loop bound over a listing is no emptiness test
					bo, ok := eng.Unwrap(cd).(*ssa.BinOp)
					if !ok {
						continue
					}
					for _, pr := range [][2]ssa.Value{{bo.X, bo.Y}, {bo.Y, bo.X}} {
						cl, ok := eng.Unwrap(pr[0]).(*ssa.Call)
						if !ok {
							continue
						}
						bi, isB := cl.Common().Value.(*ssa.Builtin)
						if k0, isC := eng.ConstInt(pr[1]); !isB || bi.Name() != "len" || !isC || k0 != 0 {
							continue
						}
						if eng.DependsOn(cl.Common().Args[0], func(y ssa.Value) bool {
							if !strings.Contains(strings.Join(calleeKeysOf(p, y), " "), "listDirFn") {
								return false
							}
							lc, _ := y.(*ssa.Call)
							if ex, isE := y.(*ssa.Extract); isE {
								lc, _ = ex.Tuple.(*ssa.Call)
							}
							return lc != nil && len(args) >= 1 && len(lc.Call.Args) >= 1 && eng.Unwrap(lc.Call.Args[0]) == eng.Unwrap(args[0])
						}) {
							emptyDir = true
						}
					}
				}
				expired := false
				if isPath {
					// the partition whose path it is came out of the "expired" selection: some IsExpire() call exists in the function
					expired = len(p.Sites(fn, invokeOn("", "IsExpire"))) > 0
				}
				c.Check(isPath && expired || emptyDir, fmt.Sprintf("%s:removal-justified[%d]", k, n), s.Instr, fn,
					"the log of a family is deleted through the partition that tracks it, after IsExpire() (every group drained) - never because a directory found on disk is not in the registry: during Recovery the registry is still being filled, and the GC goroutine is already running",
					"removes "+p.Desc(args[0]))
			}
		}
		c.Check(n >= 2, "removals-found", nil, nil, "the write ahead log removes directories", fmt.Sprintf("%d sites", n))
	})
}

func calleeKeysOf(p *eng.Prog, v ssa.Value) []string {
	if cl, ok := v.(*ssa.Call); ok {
		return p.CalleeKeys(cl)
	}
	if ex, ok := v.(*ssa.Extract); ok {
		if cl, ok := ex.Tuple.(*ssa.Call); ok {
			return p.CalleeKeys(cl)
		}
	}
	return nil
}
