package props

import (
	"fmt"
	"go/token"
	"go/types"
	"sort"
	"strings"

	"golang.org/x/tools/go/ssa"

	"lincheck/internal/eng"
)

const (
	kvsT  = "index.indexKVStore"
	kvsMu = kvsT + ".lock"
	mssT  = "index.metricSchemaStore"
	mssMu = mssT + ".lock"
	mmT   = "index.metricMetaDatabase"
	midT  = "index.metricIndexDatabase"
	seqT  = "index.Sequence"
)

func init() {
	register(eng.Property{
		ID:    "C09",
		Title: "Name-to-ID assignment is a stable injective function",
		Explanation: "Decides the structure that makes get-or-create atomic and recoverable: every creator re-checks the container (memory, and the " +
			"persisted store when a flush completed since the lookup) under the write lock that guards the insert, the ID generator is invoked only inside that " +
			"hold and only on the miss edges; schema mutations happen on the object resolved from the container under the lock; the generators are referenced " +
			"only from the creators; lookups consult mutable, immutable and the persisted store before creating; counters are synced before dictionaries, " +
			"postings before the series dictionary; prepare-flush never overwrites an unflushed immutable; immutable is cleared only after a successful " +
			"commit (with the new snapshot in the same hold); the counter file's writer and reader agree per role; and no data file may be written ahead " +
			"of the counters/dictionaries of the IDs it contains (F8, shared with C07).",
		NotDecided: "hash collisions of tag sets, contents of persisted dictionaries, the narrow window in which index readers take the snapshot before reading memory (recorded as an observation).",
		MinObls:    60,
		Run:        runC09,
	})
}

// tupleBoolFalseAt: is there a must-fact false(extract #idx of call) at instruction at?
func extractIs(v ssa.Value, call ssa.Value, idx int) bool {
	e, ok := v.(*ssa.Extract)
	return ok && e.Tuple == call && e.Index == idx
}

func runC09(c *eng.Ctx) {
	p := c.P
	schemaReadBeforeAFlushIsNotAdopted(c)
	cachedBucketIsNotRecycled(c)
	cachedBucketNotReleasedByReader(c)
	failedPostingsReadFailsTheID(c)
	sequenceCacheHoldsTheNewestID(c)
	kvStoreFlushSnapshotThenPurge(c)

	// ---- 1. GOC: indexKVStore.createValue -------------------------------------------------------------
	c.Rule("GOC", kvsT+".createValue", func() { gocCreateValue(c) })
	// ---- 1b. a name kept in a dictionary owns its memory ---------------------------------------------------------------------------
	dictionaryKeysOwnTheirMemory(c)

	// ---- 5. UNION: lookup consults memory and persisted store before creating ---------------------------
	c.Rule("UNION", kvsT+".getOrCreateValue", func() {
		g := c.Fn(kvsT + ".getOrCreateValue")
		facts := p.MustFacts(g)
		call := c.One(g, eng.CallTo(kvsT+".createValue"), "createValue call")
		// the memory lookup: a call of GetValueFromMem, or its body (getValueFromMem on mutable, then immutable) written in place
		memTop := c.Some(g, eng.Any(eng.CallTo(kvsT+".GetValueFromMem"), eng.CallTo(kvsT+".getValueFromMem")), "memory lookup")
		isMemOK := func(v ssa.Value) bool {
			var rec func(x ssa.Value, d int) bool
			rec = func(x ssa.Value, d int) bool {
				if d > 4 {
					return false
				}
				if ph, ok := x.(*ssa.Phi); ok {
					for _, e := range ph.Edges {
						if !rec(e, d+1) {
							return false
						}
					}
					return len(ph.Edges) > 0
				}
				for _, mt := range memTop {
					if extractIs(x, mt.Instr.(ssa.Value), 1) {
						return true
					}
				}
				return false
			}
			return rec(v, 0)
		}
		miss := facts.Find(facts.At(call.Instr), "false", func(_ string, v ssa.Value) bool { return isMemOK(v) }, nil)
		c.Check(len(miss) > 0, "create-only-on-memory-miss", call.Instr, g, "creation is attempted only after the memory lookup missed", "facts: "+strings.Join(facts.Render(facts.At(call.Instr)), " ; "))
		per := p.Sites(g, eng.Any(invokeOn("", "GetBucket"), invokeOn(".bucketCache", "Get")))
		c.Check(len(per) >= 2 && eng.DominatedBy(g, call.Instr, per, nil), "persisted-consulted", call.Instr, g, "the persisted bucket (cache or reader) is consulted before creating", "createValue reachable without a persisted lookup")
		gv := p.Sites(g, eng.CallTo("index/model.TrieBucket.GetValue"))
		// when a bucket exists its GetValue must have missed
		_, skip := eng.PathExists(eng.PathQuery{Fn: g, Target: func(in ssa.Instruction) bool { return in == call.Instr },
			Blocked: func(in ssa.Instruction) bool { return instrIn(in, gv) }, Edge: func(b *ssa.BasicBlock, s int) bool { return !isNilBucketEdge(p, b, s) }})
		c.Check(len(gv) > 0 && !skip, "persisted-miss-before-create", call.Instr, g, "with a persisted bucket present, creation happens only after bucket.GetValue missed", "a path with a non-nil bucket reaches createValue without GetValue")
		// GetValueFromMem covers mutable and immutable under the read lock
		m := c.Fn(kvsT + ".GetValueFromMem")
		if len(p.Sites(g, eng.CallTo(kvsT+".GetValueFromMem"))) == 0 {
			m = g // written in place
		}
		ls := p.Locks(m, nil)
		for _, mm := range []string{"mutable", "immutable"} {
			var look []eng.Site
			for _, s := range p.Sites(m, eng.CallTo(kvsT+".getValueFromMem")) {
				if strings.HasSuffix(p.Desc(eng.CallArgs(s.Instr.(*ssa.Call))[0]), "."+mm) {
					look = append(look, s)
				}
			}
			if len(look) == 0 {
				c.Check(false, "mem:"+mm, nil, m, "the memory lookup reads the "+mm+" store", "no lookup of s."+mm)
				continue
			}
			c.Check(ls.At(look[0].Instr).HasField(kvsMu, false), "mem-locked:"+mm, look[0].Instr, m, "the "+mm+" store is read under the lock", "held: "+ls.At(look[0].Instr).String())
		}
		// a miss in mutable must fall through to immutable
		var first, second eng.Site
		for _, s := range p.Sites(m, eng.CallTo(kvsT+".getValueFromMem")) {
			if strings.HasSuffix(p.Desc(eng.CallArgs(s.Instr.(*ssa.Call))[0]), ".mutable") {
				first = s
			} else {
				second = s
			}
		}
		if first.Instr != nil && second.Instr != nil {
			te, _ := eng.BoolCheckEdges(m, first.Instr.(ssa.Value))
			_, skip := eng.PathExists(eng.PathQuery{Fn: m, After: first.Instr, Target: func(in ssa.Instruction) bool { _, ok := in.(*ssa.Return); return ok },
				Blocked: func(in ssa.Instruction) bool { return in == second.Instr }, Edge: eng.ForbidEdges(te)})
			c.Check(!skip, "mem-miss-falls-through", second.Instr, m, "a miss in mutable always consults immutable", "a miss path returns without reading immutable")
		}
	})

	// ---- 2. GOC: schema store -------------------------------------------------------------------------------
	for _, fnName := range []string{"genFieldID", "genTagKeyID"} {
		fnName := fnName
		c.Rule("GOC", mssT+"."+fnName, func() {
			f := c.Fn(mssT + "." + fnName)
			ls := p.Locks(f, nil)
			res := c.One(f, eng.CallTo(mssT+".getOrCreateSchemaUnderLock"), "schema resolution under the lock")
			c.Check(ls.At(res.Instr).HasField(mssMu, true), "resolve-under-lock", res.Instr, f, "the shared schema object is resolved while holding the write lock", "held: "+ls.At(res.Instr).String())
			field := "Fields"
			if fnName == "genTagKeyID" {
				field = "TagKeys"
			}
			muts := c.Some(f, eng.StoreField("series/metric.Schema."+field), "append to schema."+field)
			for i, s := range muts {
				st := s.Instr.(*ssa.Store)
				fa := st.Addr.(*ssa.FieldAddr)
				obj := fa.X
				if s.Instr.Parent() != f {
					// the find-or-append half sits in a helper that is handed the schema: judged by what this function passes
					if v := eng.UpParamVia(f, s, eng.Unwrap(obj)); v != nil {
						obj = v
					}
				}
				c.Check(eng.DerivesFromCall(obj, res.Instr.(ssa.Value), 0) && eng.OnlyFromCall(obj, res.Instr.(ssa.Value)), fmt.Sprintf("mutates-resolved-object[%d]", i), s.Instr, f,
					"the schema that receives the new entry is the object resolved from the container under the lock, not a copy fetched before locking", "mutated object is "+p.Desc(fa.X))
				okh, why := ls.SameHold(res.Instr, s.Instr, mssMu, true)
				c.Check(okh, fmt.Sprintf("resolve-and-mutate-one-hold[%d]", i), s.Instr, f, "resolution and mutation are in one write hold", why)
				okd, why2 := eng.OkDominates(f, res.Instr, s.Instr)
				c.Check(okd, fmt.Sprintf("mutate-only-after-resolve[%d]", i), s.Instr, f, "the mutation happens only after a successful resolution", why2)
			}
			// existing entry -> its ID is returned without creating: the append is reachable only via the Find miss edge
			find := c.Some(f, func(p *eng.Prog, in ssa.Instruction) bool {
				cl, ok := in.(*ssa.Call)
				return ok && !cl.Common().IsInvoke() && cl.Common().StaticCallee() != nil && cl.Common().StaticCallee().Name() == "Find"
			}, "schema.Find")
			facts := p.MustFacts(f)
			for i, s := range muts {
				miss := facts.Find(facts.At(s.Instr), "false", func(_ string, v ssa.Value) bool { return extractIs(v, find[0].Instr.(ssa.Value), 1) }, nil)
				c.Check(len(miss) > 0, fmt.Sprintf("create-only-on-miss[%d]", i), s.Instr, f, "a new entry is appended only when Find missed on the resolved schema", "facts: "+strings.Join(facts.Render(facts.At(s.Instr)), " ; "))
			}
			fr := eng.CallRecv(find[0].Instr.(*ssa.Call))
			c.Check(eng.DependsOn(fr, func(x ssa.Value) bool { return x == res.Instr.(ssa.Value) }), "find-on-resolved-object", find[0].Instr, f, "the existence check runs on the resolved schema", "Find on "+p.Desc(fr))
			if fnName == "genTagKeyID" {
				gen := c.One(f, eng.CallTo("param:createFn"), "createFn()")
				okh, why := ls.SameHold(res.Instr, gen.Instr, mssMu, true)
				c.Check(okh, "generator-in-hold", gen.Instr, f, "the tag-key ID generator runs inside the write hold", why)
				miss := facts.Find(facts.At(gen.Instr), "false", func(_ string, v ssa.Value) bool { return extractIs(v, find[0].Instr.(ssa.Value), 1) }, nil)
				c.Check(len(miss) > 0, "generate-only-on-miss", gen.Instr, f, "a tag-key ID is generated only when the key is absent", "")
			} else {
				// field id = len(schema.Fields) of the resolved object
				for _, s := range muts {
					_ = s
				}
			}
			// the flush version handed to the resolver is read before the lookup
			gs := c.One(f, eng.CallTo(mssT+".GetSchema"), "GetSchema")
			ra := eng.CallArgs(res.Instr.(*ssa.Call))[2]
			var fv eng.Site
			nfv := 0
			for _, s := range c.Some(f, eng.LoadField(mssT+".flushVersion"), "read of the store's flush version") {
				if eng.DependsOn(ra, func(x ssa.Value) bool { return x == s.Instr.(ssa.Value) }) {
					fv = s
					nfv++
				}
			}
			if nfv != 1 {
				c.Undecided("expected one read of flushVersion that is handed to the resolver, found %d", nfv)
			}
			handed := true
			c.Check(eng.DominatedBy(f, gs.Instr, []eng.Site{fv}, nil) && handed, "flush-version-read-first", fv.Instr, f,
				"the flush version is captured before the unlocked lookup and handed to the resolver", fmt.Sprintf("handed to the resolver: %v (argument %s)", handed, p.Desc(ra)))
			c.Check(ls.At(fv.Instr).HasField(mssMu, false), "flush-version-read-locked", fv.Instr, f, "the flush version is read under the store's lock", "held: "+ls.At(fv.Instr).String())
		})
	}
	c.Rule("GOC", mssT+".getOrCreateSchemaUnderLock", func() {
		f := c.Fn(mssT + ".getOrCreateSchemaUnderLock")
		ok, why, n := p.HeldAtAllCallers(f, mssMu, true, 0)
		c.Check(ok && n >= 2, "callers-hold-lock", nil, f, "every caller holds the schema store's write lock", fmt.Sprintf("%s (%d callers)", why, n))
		mget := c.Some(f, invokeOnGeneric(".mutable", "Get"), "s.mutable.Get")
		iget := c.Some(f, invokeOnGeneric(".immutable", "Get"), "s.immutable.Get")
		put := c.Some(f, invokeOnGeneric(".mutable", "Put", "PutIfNotExist"), "s.mutable.Put")
		c.Check(eng.DominatedBy(f, put[0].Instr, mget, nil) && eng.DominatedBy(f, put[0].Instr, iget, func(b *ssa.BasicBlock, s int) bool { return !isNilFieldEdge(p, b, s, ".immutable") }),
			"lookup-before-register", put[0].Instr, f, "mutable and (when present) immutable are looked up before a schema is registered", "Put reachable without the lookups")
		for i, r := range eng.SuccessReturns(f) {
			ret := eng.RetVal(r, 0)
			fromMutable := eng.DependsOn(ret, func(x ssa.Value) bool { return x == mget[0].Instr.(ssa.Value) })
			registered := false
			for _, pu := range put {
				a := eng.CallArgs(pu.Instr.(*ssa.Call))
				if a[len(a)-1] == ret && eng.DominatedBy(f, r, []eng.Site{pu}, nil) {
					registered = true
				}
			}
			c.Check(fromMutable || registered, fmt.Sprintf("returns-container-object[%d]", i), r, f,
				"the returned schema is the object held by (or just registered in) the mutable store", "returns "+p.Desc(ret))
		}
		// a flush completed since the lookup -> re-read the persisted schema when memory misses
		kv := p.Sites(f, eng.CallTo(mssT+".getSchemaFromKV"))
		var cmp bool
		for _, b := range eng.BlocksT(f) {
			for _, in := range b.Instrs {
				if bo, ok := in.(*ssa.BinOp); ok && (bo.Op == token.NEQ || bo.Op == token.EQL) {
					dx, dy := p.Desc(bo.X), p.Desc(bo.Y)
					if strings.HasSuffix(dx, ".flushVersion") && dy == "lookupFlushVersion" || strings.HasSuffix(dy, ".flushVersion") && dx == "lookupFlushVersion" {
						cmp = true
					}
				}
			}
		}
		c.Check(cmp && len(kv) > 0, "recheck:persisted-after-flush", nil, f, "when a flush completed since the lookup and memory misses, the persisted schema is read again under the lock", "no flushVersion comparison / persisted re-read")
		fl := c.Fn(mssT + ".Flush")
		inc := c.Some(fl, eng.StoreField(mssT+".flushVersion"), "flushVersion++")
		clr := c.Some(fl, eng.StoreField(mssT+".immutable"), "immutable = nil")
		okh, why2 := p.Locks(fl, nil).SameHold(clr[0].Instr, inc[0].Instr, mssMu, true)
		c.Check(okh, "version-bumped-with-clear", inc[0].Instr, fl, "the flush version changes in the same write hold that drops the immutable store", why2)
	})

	// ---- 4. OWNER: who may reference the generators ------------------------------------------------------------
	c.Rule("OWNER", seqT+".Gen*Seq", func() {
		owner(c, "reference to Sequence.GenNamespaceSeq", eng.RefersTo(seqT+".GenNamespaceSeq"), []string{mmT + ".genNSID"}, 1)
		owner(c, "reference to Sequence.GenMetricNameSeq", eng.RefersTo(seqT+".GenMetricNameSeq"), []string{mmT + ".genMetricID"}, 1)
		owner(c, "reference to Sequence.GenTagValueSeq", eng.RefersTo(seqT+".GenTagValueSeq"), []string{mmT + ".getTagValueID"}, 1)
		owner(c, "reference to Sequence.GenTagKeySeq", eng.RefersTo(seqT+".GenTagKeySeq"), []string{mmT + ".GenTagKeyID"}, 1)
		owner(c, "reference to metricMetaDatabase.genNSID/genMetricID/getTagValueID", eng.RefersTo(mmT+".genNSID", mmT+".genMetricID", mmT+".getTagValueID"),
			[]string{mmT + ".GenMetricID", mmT + ".GenTagValueID"}, 3)
		owner(c, "reference to metricIndexDatabase.createSeriesID", eng.RefersTo(midT+".createSeriesID"), []string{midT + ".GenSeriesID"}, 1)
		owner(c, "call of metricSchemaStore.genFieldID/genTagKeyID", eng.AnyCallTo(mssT+".genFieldID", mssT+".genTagKeyID", "index.MetricSchemaStore.genFieldID", "index.MetricSchemaStore.genTagKeyID"),
			[]string{mmT + ".GenFieldID", mmT + ".GenTagKeyID"}, 2)
		owner(c, "call of indexKVStore.createValue", eng.AnyCallTo(kvsT+".createValue"), []string{kvsT + ".getOrCreateValue"}, 1)
		owner(c, "store to Sequence counters", eng.StoreField(seqT+".ns", seqT+".metric", seqT+".tagKey", seqT+".tagValue"),
			[]string{"index.NewSequence", seqT + ".GenNamespaceSeq", seqT + ".GenMetricNameSeq", seqT + ".GenTagKeySeq", seqT + ".GenTagValueSeq"}, 8)
		// each generator is Inc()-1 of its own counter
		for _, g := range []struct{ fn, fld string }{{"GenNamespaceSeq", "ns"}, {"GenMetricNameSeq", "metric"}, {"GenTagKeySeq", "tagKey"}, {"GenTagValueSeq", "tagValue"}} {
			f := c.Fn(seqT + "." + g.fn)
			st := c.One(f, eng.StoreField(seqT+"."+g.fld), "counter increment")
			_, m, _ := eng.AtomicOp(st.Instr)
			c.Check(m == "Inc", "atomic-increment:"+g.fn, st.Instr, f, "the generator takes its value from one atomic increment of its own counter (no two callers see the same value)", "op "+m)
		}
		// the mapped generators are handed to the matching dictionary
		gm := c.Fn(mmT + ".GenMetricID")
		for _, s := range c.Some(gm, invokeOn("", "GetOrCreateValue"), "GetOrCreateValue") {
			cl := s.Instr.(*ssa.Call)
			rd := p.Desc(eng.CallRecv(cl))
			gd := p.Desc(eng.CallArgs(cl)[2])
			want := "genNSID"
			if strings.HasSuffix(rd, ".metric") {
				want = "genMetricID"
			}
			c.Check(strings.Contains(gd, want), "generator-matches-dictionary:"+rd, cl, gm, "each dictionary is given the generator of its own counter", rd+" gets "+gd)
		}
	})

	// ---- 6/7. flush ordering ---------------------------------------------------------------------------------------
	c.Rule("ORDER", mmT+".Flush{counters<dictionaries}", func() { metaFlushCountersFirst(c) })
	c.Rule("ORDER", midT+".Flush{postings<series-dictionary}", func() { indexFlushSeriesLast(c) })
	eventLoopPreparesBeforeFlush(c)

	// ---- 8/9. prepare-flush guard and flush commit order, four stores (shared with C10) ----------------------------
	flushLifecycleRules(c)

	// ---- 9a. the live schema's field list is append-only: nobody reorders it -----------------------------------------------------------
	// (the schema flush copies the list, writes the copy and then marks "persisted" BY POSITION in the live list; GetSchema hands
	// the live object to queries. A sort of that list between the copy and the marking flags a field that was never written)
	c.Rule("PROV", "series/metric.Schema.Fields{never reordered in place}", func() {
		fieldsKey := "series/metric.Schema.Fields"
		n := 0
		perFn := map[*ssa.Function]int{}
		for _, fn := range p.AllFuncs {
			for _, b := range fn.Blocks {
				for _, in := range b.Instrs {
					cl, ok := in.(*ssa.Call)
					if !ok {
						continue
					}
					g := cl.Common().StaticCallee()
					if g == nil || g.Pkg == nil || g.Pkg.Pkg.Path() != "sort" && g.Pkg.Pkg.Path() != "slices" {
						continue
					}
					switch g.Name() {
					case "Sort", "Stable", "Slice", "SliceStable", "SortFunc", "SortStableFunc", "Reverse":
					default:
						continue
					}
					n++
					if len(cl.Common().Args) == 0 {
						continue
					}
					a := cl.Common().Args[0]
					live := eng.DependsOnField(a, fieldsKey)
					perFn[fn]++
					c.Check(!live, fmt.Sprintf("sorts-no-live-field-list@%s[%d]", p.FuncKey(fn), perFn[fn]), cl, fn,
						"a sort in "+p.FuncKey(fn)+" does not reorder the field list of a schema object (it may sort a copy)", "sorts "+p.Desc(a))
				}
			}
		}
		if n < 8 {
			c.Undecided("expected >= 8 sort calls in the module, found %d", n)
		}
	})

	// ---- 9b. the schema flush marks persisted exactly what it wrote -----------------------------------------------------------------
	c.Rule("ATOMIC", mssT+".Flush{written == marked}", func() { schemaFlushMarksWhatItWrote(c) })

	// ---- 10. series id provenance -----------------------------------------------------------------------------------
	// ---- compaction of the persisted schema dictionary: one metric's schema is merged from that metric's values only -----------------
	c.Rule("RESET", "index/v1.metricSchemaMerger.Merge{schema accumulator per metric}", func() {
		f := c.Fn("index/v1.metricSchemaMerger.Merge")
		un := c.Some(f, eng.AnyCallTo("series/metric.Schema.Unmarshal", "series/metric.Schema.UnmarshalFromPersist"), "schema.Unmarshal(value)")
		// the fields Unmarshal accumulates into
		acc := map[string]bool{}
		for _, w := range writesIn(p, c.Fn("series/metric.Schema.unmarshal"), "series/metric.Schema") {
			acc[w.field] = true
		}
		c.Check(len(acc) >= 2, "accumulating-fields-found", nil, f, "Schema.unmarshal appends to the schema's field and tag-key lists", fmt.Sprintf("%d fields", len(acc)))
		for i, u := range un {
			recv := eng.Unwrap(eng.CallRecv(u.Instr.(*ssa.Call)))
			if al, ok := recv.(*ssa.Alloc); ok && al.Parent() == f {
				c.Check(true, fmt.Sprintf("fresh-accumulator[%d]", i), u.Instr, f, "the schema a metric's values are merged into starts empty", "")
				continue
			}
			// a reused object: every accumulating field is emptied before the first value of the metric is merged
			var fs []string
			for k := range acc {
				fs = append(fs, k)
			}
			sort.Strings(fs)
			missing := ""
			for _, fld := range fs {
				sts := p.Sites(f, func(p *eng.Prog, in ssa.Instruction) bool {
					st, ok := in.(*ssa.Store)
					if !ok {
						return false
					}
					fa, ok := st.Addr.(*ssa.FieldAddr)
					return ok && eng.FieldKeyOfAddr(fa) == "series/metric.Schema."+fld && (eng.SameValue(fa.X, recv) || p.Desc(fa.X) == p.Desc(recv))
				})
				if len(sts) == 0 || !eng.DominatedBy(f, u.Instr, sts, nil) {
					missing += fld + " "
				}
			}
			c.Check(missing == "", fmt.Sprintf("fresh-accumulator[%d]", i), u.Instr, f,
				"the schema a metric's values are merged into starts empty: a fresh object per Merge call, or a reused one with EVERY list Unmarshal appends to emptied first (otherwise the fields / tag keys of the previous metric are written into this metric's persisted schema)",
				"reused accumulator "+p.Desc(recv)+"; not reset before Unmarshal: "+missing)
		}
	})

	// ---- a bucket enters the cache only while the snapshot it was loaded from is still the store's current snapshot ------------------
	c.Rule("GOC", kvsT+"{bucket cached only from the current snapshot}", func() {
		n := 0
		for _, fn := range p.AllFuncs {
			if !strings.HasPrefix(p.FuncKey(fn), kvsT+".") {
				continue
			}
			for _, a := range p.SitesDirect(fn, invokeOn(".bucketCache", "Add")) {
				n++
				ls := p.Locks(fn, nil)
				facts := p.MustFacts(fn)
				held := ls.At(a.Instr).HasField(kvsMu, false)
				fs := facts.At(a.Instr)
				cur := facts.Find(fs, "eq", func(_ string, v ssa.Value) bool {
					in, ok := eng.Unwrap(v).(ssa.Instruction)
					return ok && eng.LoadField(kvsT+".snapshot")(p, in)
				}, func(d string, _ ssa.Value) bool { return strings.Contains(d, "napshot") })
				if len(cur) == 0 {
					// the comparison may sit in a predicate helper (isCurrentSnapshot(x)): the Add lies on its equal-edge
					for _, e := range snapshotSameEdges(p, fn, func(v ssa.Value) bool { return strings.Contains(p.Desc(v), "napshot") }) {
						if eng.DominatedByEdge(fn, a.Instr, e) {
							cur = append(cur, eng.Fact{})
						}
					}
				}
				c.Check(held && len(cur) > 0, fmt.Sprintf("cached-under-lock-from-current-snapshot:%s[%d]", p.FuncKey(fn), n), a.Instr, fn,
					"a bucket read from a snapshot is added to bucketCache only in a hold of the store lock in which that snapshot was compared equal to s.snapshot: Flush installs the new snapshot and purges the cache in one write hold, so a bucket of the OLD snapshot added after the purge would answer later lookups for names the flush moved to disk with 'absent' — and they are created a second time",
					fmt.Sprintf("store lock held: %v; facts: %s", held, strings.Join(facts.Render(fs), " ; ")))
			}
		}
		c.Check(n > 0, "cache-fill-found", nil, nil, "the dictionary store fills its bucket cache", "")
	})

	// ---- a registered series id is always completed (sequence advanced, postings written): nothing can fail in between ---------------
	c.Rule("ERRFLOW", midT+".GenSeriesID{no failing exit after the id was registered}", func() {
		f := c.Fn(midT + ".GenSeriesID")
		goc := c.One(f, invokeOn(".series", "GetOrCreateValue"), "index.series.GetOrCreateValue(metricID, tagsHash, createFn)")
		adv := c.Some(f, invokeOn(".sequenceCache", "Add"), "sequenceCache.Add(metricID, seriesID)")
		n := 0
		for _, b := range f.Blocks {
			r, ok := b.Instrs[len(b.Instrs)-1].(*ssa.Return)
			if !ok || b == f.Recover || len(r.Results) == 0 {
				continue
			}
			if _, after := eng.Reaches(f, goc.Instr, []eng.Site{{Fn: f, Instr: r}}, nil); !after {
				continue
			}
			ev := r.Results[len(r.Results)-1]
			if eng.IsNilConst(ev) || eng.DependsOn(ev, func(x ssa.Value) bool { return x == goc.Instr.(ssa.Value) }) {
				continue // success, or the dictionary's own error (nothing was registered then)
			}
			n++
			c.Check(false, fmt.Sprintf("failing-exit-after-registration[%d]", n), r, f,
				"once GetOrCreateValue has registered tags-hash -> id for a new series, GenSeriesID completes it (sequence cache advanced, metric postings and inverted index written): a limit or any other refusal has to happen INSIDE the create callback, where an error leaves nothing registered — otherwise the sequence is not advanced, the next new series receives the same id, and a repeated row of the refused series gets that shared id back with err == nil",
				"returns "+p.Desc(ev)+" after the id was registered")
		}
		for i, a := range adv {
			c.Check(eng.DominatedBy(f, a.Instr, []eng.Site{goc}, nil), fmt.Sprintf("sequence-advanced-after-registration[%d]", i), a.Instr, f, "the per-metric sequence follows the id just registered", "")
		}
	})

	c.Rule("PROV", midT+".createSeriesID", func() {
		f := c.Fn(midT + ".createSeriesID")
		n := 0
		for i, r := range eng.SuccessReturns(f) {
			ret := eng.RetVal(r, 0)
			d := p.Desc(ret)
			n++
			okv := false
			switch {
			case strings.Contains(d, "sequenceCache") && strings.HasSuffix(d, "+1)"):
				okv = true
			case strings.Contains(d, "Maximum()") && strings.HasSuffix(d, "+1)") && strings.Contains(d, "getSeriesIDs"):
				okv = true
			case d == "0":
				okv = true
			}
			c.Check(okv, fmt.Sprintf("next-id[%d]", i), r, f, "a new series ID is last-known+1 (cache) or max(existing posting)+1, or 0 for an empty metric", "returns "+d)
		}
		if n < 3 {
			c.Undecided("createSeriesID shape changed (%d returns)", n)
		}
		for _, s := range c.Some(f, eng.CallTo("index.invertedIndex.getSeriesIDs"), "getSeriesIDs") {
			c.Check(strings.HasSuffix(p.Desc(eng.CallRecv(s.Instr.(*ssa.Call))), ".metricInverted") && strings.Contains(p.Desc(eng.CallArgs(s.Instr.(*ssa.Call))[0]), "metricID"),
				"max-over-this-metric", s.Instr, f, "the maximum is taken over this metric's posting list", "")
		}
		g := c.Fn(midT + ".GenSeriesID")
		add := c.One(g, invokeOnGeneric(".sequenceCache", "Add"), "sequenceCache.Add")
		put := c.One(g, eng.And(eng.CallTo("index.invertedIndex.put"), invokeOn(".metricInverted", "put")), "metricInverted.put")
		goc := c.One(g, invokeOn(".series", "GetOrCreateValue"), "series.GetOrCreateValue")
		for _, x := range []eng.Site{add, put} {
			a := eng.CallArgs(x.Instr.(*ssa.Call))
			fromGoc := eng.DerivesFromCall(eng.UpParam(a[1]), goc.Instr.(ssa.Value), 0) || eng.DependsOn(a[1], func(y ssa.Value) bool {
				e, ok := y.(*ssa.Extract)
				return ok && e.Tuple == goc.Instr.(ssa.Value) && e.Index == 0
			})
			c.Check(fromGoc && p.Desc(a[0]) != "", "records-created-id:"+shortInstr(p, x.Instr), x.Instr, g,
				"the ID recorded in the cache / posting list is the one the dictionary just created", "records "+p.Desc(a[1]))
		}
		facts := p.MustFacts(g)
		isNew := facts.Find(facts.At(put.Instr), "true", func(_ string, v ssa.Value) bool { return extractIs(v, goc.Instr.(ssa.Value), 1) }, nil)
		c.Check(len(isNew) > 0, "posting-only-for-new", put.Instr, g, "postings are extended only for newly created series", "")
		// getSeriesIDs unions snapshot and both memory stores
		gs := c.Fn("index.invertedIndex.getSeriesIDs")
		c.Check(p.MustPass(gs, eng.CallTo("index.invertedIndex.findSeriesIDsByKeyFromMem"), 0) || len(p.Sites(gs, eng.CallTo("index.invertedIndex.findSeriesIDsByKeyFromMem"))) > 0 &&
			eng.DominatedBy(gs, eng.SuccessReturns(gs)[0], p.Sites(gs, eng.CallTo("index.invertedIndex.findSeriesIDsByKeyFromMem")), nil), "postings-include-memory", nil, gs,
			"the posting list used for max+1 includes the in-memory entries", "")
		mem := c.Fn("index.invertedIndex.findSeriesIDsByKeyFromMem")
		for _, fld := range []string{"mutable", "immutable"} {
			c.Check(len(p.SitesDeep(mem, eng.LoadField("index.invertedIndex."+fld))) > 0, "memory:"+fld, nil, mem, "the in-memory posting lookup reads "+fld, "no read of "+fld)
		}
	})

	// ---- memory is read before the snapshot is taken (entries only move memory -> kv store) -------------------------------------
	c.Rule("ORDER", "index{memory<snapshot in posting readers}", func() {
		for _, r := range []struct{ fn, mem string }{
			{"index.invertedIndex.getSeriesIDs", "index.invertedIndex.findSeriesIDsByKeyFromMem"},
			{"index.invertedIndex.findSeriesIDsByKeys", "index.invertedIndex.findSeriesIDsByKeyFromMem"},
			{"index.forwardIndex.findSeriesIDsForTag", "index.forwardIndex.loadSeriesIDsInMem"},
		} {
			f := c.Fn(r.fn)
			snap := c.One(f, invokeOn(".family", "GetSnapshot"), "family.GetSnapshot()")
			mem := c.Some(f, eng.CallTo(r.mem), "memory read")
			for i, m := range mem {
				_, late := eng.Reaches(f, snap.Instr, []eng.Site{m}, nil)
				c.Check(!late, fmt.Sprintf("%s:memory-before-snapshot[%d]", r.fn, i), m.Instr, f,
					"the memory stores are read before the snapshot is taken: a flush moves entries from memory into a NEWER snapshot, so the other order can miss them (createSeriesID would then reuse a series id)",
					"a memory read is reachable after GetSnapshot()")
			}
			_, before := eng.Reaches(f, mem[0].Instr, []eng.Site{snap}, nil)
			c.Check(before, r.fn+":memory-read-precedes-snapshot", snap.Instr, f, "the memory read is followed by the snapshot acquisition (both parts exist, in that order)", "")
		}
	})

	// ---- counter file layout ---------------------------------------------------------------------------------------
	c.Rule("LAYOUT", seqT+"{Sync<->NewSequence}", func() {
		w := c.Fn(seqT + ".Sync")
		writer := map[string]int64{}
		for _, s := range c.Some(w, eng.CallTo("pkg/stream.PutUint32"), "stream.PutUint32") {
			a := eng.CallArgs(s.Instr.(*ssa.Call))
			off, ok := eng.ConstInt(a[1])
			d := p.Desc(a[2])
			role := d[strings.LastIndex(d, ".")+1:]
			if !ok {
				c.Undecided("non-constant offset in Sequence.Sync")
			}
			writer[role] = off
		}
		r := c.Fn("index.NewSequence")
		reader := map[string]int64{}
		for _, s := range p.Sites(r, eng.StoreField(seqT+".ns", seqT+".metric", seqT+".tagKey", seqT+".tagValue")) {
			st := s.Instr.(*ssa.Store)
			role := eng.FieldKeyOfAddr(st.Addr.(*ssa.FieldAddr))
			role = role[strings.LastIndex(role, ".")+1:]
			for _, rd := range p.CallsIn(st.Val, "pkg/stream.ReadUint32") {
				off, _ := eng.ConstInt(eng.CallArgs(rd)[1])
				reader[role] = off
			}
		}
		seen := map[int64]string{}
		for _, role := range []string{"ns", "metric", "tagKey", "tagValue"} {
			wo, ok1 := writer[role]
			ro, ok2 := reader[role]
			c.Check(ok1 && ok2 && wo == ro, "role:"+role, nil, w, "the "+role+" counter is restored from the offset Sync writes it to", fmt.Sprintf("writer %v reader %v", writer, reader))
			if o, dup := seen[wo]; dup {
				c.Check(false, "distinct:"+role, nil, w, "every counter has its own 4-byte slot", role+" shares offset with "+o)
			}
			seen[wo] = role
		}
		c.Check(p.MustPass(w, eng.CallTo("var:index.syncFn"), 0), "sync-flushes-mapping", nil, w, "Sync makes the counters durable (msync) on every path", "a path returns without syncFn")
	})

	// ---- 11. F8: no data file ahead of the counters/dictionaries of its IDs (shared with C07) ----------------
	freezeOrderRule(c)

	c.Observe("forwardIndex.GetGroupingContext and the indexKVStore value readers (like/regexp/suggest/collect) still take their snapshot before reading the memory stores; a flush completing in between hides " +
		"just-flushed entries from that one query — queries concurrent with a flush are outside C10's quantifier and these paths are not on the ID-assignment path of C09, so this is noticed, not armed (the posting readers on the C09 path were fixed, F9)")
	c.Observe("createSeriesID returns 0 when reading the posting list fails — noticed, not armed")
}

// isNilBucketEdge: edge taken when a *TrieBucket value compared with nil IS nil.
func isNilBucketEdge(p *eng.Prog, b *ssa.BasicBlock, succ int) bool {
	if len(b.Instrs) == 0 {
		return false
	}
	ifi, ok := b.Instrs[len(b.Instrs)-1].(*ssa.If)
	if !ok {
		return false
	}
	bo, ok := ifi.Cond.(*ssa.BinOp)
	if !ok || (bo.Op != token.NEQ && bo.Op != token.EQL) {
		return false
	}
	var other ssa.Value
	if eng.IsNilConst(bo.Y) {
		other = bo.X
	} else if eng.IsNilConst(bo.X) {
		other = bo.Y
	} else {
		return false
	}
	if !strings.Contains(other.Type().String(), "TrieBucket") {
		return false
	}
	if bo.Op == token.NEQ {
		return succ == 1
	}
	return succ == 0
}

// isNilFieldEdge: edge taken when a load of a field with the given suffix compared with nil IS nil.
func isNilFieldEdge(p *eng.Prog, b *ssa.BasicBlock, succ int, suffix string) bool {
	if len(b.Instrs) == 0 {
		return false
	}
	ifi, ok := b.Instrs[len(b.Instrs)-1].(*ssa.If)
	if !ok {
		return false
	}
	bo, ok := ifi.Cond.(*ssa.BinOp)
	if !ok || (bo.Op != token.NEQ && bo.Op != token.EQL) {
		return false
	}
	var other ssa.Value
	if eng.IsNilConst(bo.Y) {
		other = bo.X
	} else if eng.IsNilConst(bo.X) {
		other = bo.Y
	} else {
		return false
	}
	if !strings.HasSuffix(p.Desc(other), suffix) {
		return false
	}
	if bo.Op == token.NEQ {
		return succ == 1
	}
	return succ == 0
}

// invokeOnGeneric matches calls of (possibly generic, instantiated) methods by name on a receiver
// whose descriptor ends with recvSuffix.
func invokeOnGeneric(recvSuffix string, methods ...string) eng.Matcher {
	return func(p *eng.Prog, in ssa.Instruction) bool {
		c, ok := in.(*ssa.Call)
		if !ok {
			return false
		}
		cc := c.Common()
		name := ""
		if cc.IsInvoke() {
			name = cc.Method.Name()
		} else if f := cc.StaticCallee(); f != nil && f.Signature.Recv() != nil {
			name = baseName(f.Name())
		} else {
			return false
		}
		found := false
		for _, m := range methods {
			if name == m {
				found = true
			}
		}
		if !found {
			return false
		}
		r := eng.CallRecv(c)
		return r != nil && strings.HasSuffix(p.Desc(r), recvSuffix)
	}
}

// flushLifecycleRules (C09 + C10): for each of the four memory/kv index stores, PrepareFlush swaps only when no unflushed
// immutable store exists (it would be overwritten: entries lost from dictionary and postings alike), and Flush drops the
// immutable store only after the kv commit succeeded.
func flushLifecycleRules(c *eng.Ctx) {
	p := c.P
	stores := []struct{ t, prep, flush, mu string }{
		{kvsT, "PrepareFlush", "Flush", kvsMu},
		{mssT, "PrepareFlush", "Flush", mssMu},
		{"index.invertedIndex", "prepareFlush", "flush", "index.invertedIndex.lock"},
		{"index.forwardIndex", "prepareFlush", "flush", "index.forwardIndex.lock"},
	}
	for _, s := range stores {
		s := s
		c.Rule("GUARD", s.t+"."+s.prep, func() {
			f := c.Fn(s.t + "." + s.prep)
			ls := p.Locks(f, nil)
			facts := p.MustFacts(f)
			im := c.One(f, eng.StoreField(s.t+".immutable"), "immutable = mutable")
			mu := c.One(f, eng.StoreField(s.t+".mutable"), "mutable = new")
			empty := facts.Find(facts.At(im.Instr), "eq", eng.DescSuffix(".immutable"), eng.DescIs("nil"))
			c.Check(len(empty) > 0, "swap-only-when-immutable-empty", im.Instr, f, "the swap happens only when no unflushed immutable store exists (it would be overwritten and lost)", "facts: "+strings.Join(facts.Render(facts.At(im.Instr)), " ; "))
			v, _ := storedValue(im.Instr)
			c.Check(strings.HasSuffix(p.Desc(v), ".mutable"), "immutable-gets-mutable", im.Instr, f, "the immutable store becomes the previous mutable store", "stores "+p.Desc(v))
			okh, why := ls.SameHold(im.Instr, mu.Instr, s.mu, true)
			c.Check(okh && eng.DominatedBy(f, mu.Instr, []eng.Site{im}, nil), "swap-atomic", mu.Instr, f, "both halves of the swap are in one write hold, immutable first", why)
			for _, e := range empty {
				if in, ok := e.X.(ssa.Instruction); ok {
					ok2, why2 := ls.SameHold(in, im.Instr, s.mu, true)
					c.Check(ok2, "check-and-swap-one-hold", in, f, "the emptiness check and the swap are in one write hold", why2)
				}
			}
		})
		// F17: an immutable store that flush declines to write is never produced by the swap
		c.Rule("TYPESTATE", s.t+"{swapped store is always drained}", func() {
			pf := c.Fn(s.t + "." + s.prep)
			f := c.Fn(s.t + "." + s.flush)
			clr := p.Sites(f, eng.StoreField(s.t+".immutable"))
			// exits of flush that report success although the immutable store was not dropped, taken after its emptiness was consulted
			empt := p.Sites(f, invokeOnGeneric(".immutable", "IsEmpty"))
			var kept ssa.Instruction
			for _, e := range empt {
				if w, ok := eng.PathExists(eng.PathQuery{Fn: f, After: e.Instr,
					Target:  func(in ssa.Instruction) bool { return in.Parent() == f && instrIsSuccessReturn(f, in) },
					Blocked: func(in ssa.Instruction) bool { return instrIn(in, clr) }}); ok {
					kept = w
				}
			}
			// the other sound design: flush itself drops a store it found empty (some IsEmpty()==true edge leads to the clearing store on
			// every path to a successful return)
			for _, e := range empt {
				te, _ := eng.BoolCheckEdges(f, e.Instr.(ssa.Value))
				for _, ed := range te {
					first := ed.B.Succs[ed.Succ].Instrs[0]
					if instrIn(first, clr) {
						kept = nil
						continue
					}
					if _, leak := eng.PathExists(eng.PathQuery{Fn: f, After: first,
						Target:  func(in ssa.Instruction) bool { return in.Parent() == f && instrIsSuccessReturn(f, in) },
						Blocked: func(in ssa.Instruction) bool { return instrIn(in, clr) }}); !leak {
						kept = nil
					}
				}
			}
			if kept == nil {
				c.Check(true, "empty-store-dropped-or-never-made", nil, f, "flush drops every immutable store it is given (an empty one included), or never skips one because it is empty", "")
				return
			}
			facts := p.MustFacts(pf)
			im := c.One(pf, eng.StoreField(s.t+".immutable"), "immutable = mutable")
			fs := facts.At(im.Instr)
			nonEmpty := facts.Find(fs, "false", func(d string, v ssa.Value) bool {
				return strings.Contains(d, ".mutable") && strings.Contains(d, "IsEmpty(")
			}, nil)
			c.Check(len(nonEmpty) > 0, "empty-store-dropped-or-never-made", im.Instr, pf,
				"flush skips an EMPTY immutable store and leaves it in place (success exit at "+p.InstrPos(kept)+" without `immutable = nil`), and the next swap requires immutable == nil: "+
					"so the swap must not install an empty store — otherwise, after one flush round with nothing new, the store never swaps again and nothing created later is ever persisted",
				"the swap is not guarded by !mutable.IsEmpty(); facts at the swap: "+strings.Join(facts.Render(fs), " ; "))
		})
		c.Rule("ORDER", s.t+"."+s.flush+"{commit<clear}", func() {
			f := c.Fn(s.t + "." + s.flush)
			ls := p.Locks(f, nil)
			cl := c.Some(f, invokeOn("", "Close"), "flusher.Close()")
			// the kv flusher commit is the Close() whose error is checked; pick closes on values named flusher
			var commit []eng.Site
			for _, x := range cl {
				if strings.Contains(p.Desc(eng.CallRecv(x.Instr.(*ssa.Call))), "Flusher") || strings.Contains(p.Desc(eng.CallRecv(x.Instr.(*ssa.Call))), "flusher") {
					commit = append(commit, x)
				}
			}
			if len(commit) != 1 {
				c.Undecided("expected one flusher.Close() in %s, found %d", p.FuncKey(f), len(commit))
			}
			clr := c.Some(f, eng.StoreField(s.t+".immutable"), "immutable = nil")
			for i, x := range clr {
				ok, why := eng.OkDominates(f, commit[0].Instr, x.Instr)
				if !ok {
					// dropping a store that was just found EMPTY loses nothing
					ff := p.MustFacts(f)
					if len(ff.Find(ff.At(x.Instr), "true", func(d string, _ ssa.Value) bool {
						return strings.Contains(d, ".immutable") && strings.Contains(d, "IsEmpty(")
					}, nil)) > 0 {
						ok = true
					}
				}
				c.Check(ok, fmt.Sprintf("clear-only-after-commit[%d]", i), x.Instr, f, "the immutable store is dropped only after the flusher committed successfully (a failed flush keeps it for retry and for readers), or when it was found empty", why)
				c.Check(ls.At(x.Instr).HasField(s.mu, true), fmt.Sprintf("clear-locked[%d]", i), x.Instr, f, "the immutable store is dropped under the write lock", "held: "+ls.At(x.Instr).String())
			}
			// what is flushed is the immutable store
			walk := c.Some(f, invokeOnGeneric(".immutable", "WalkEntry"), "immutable.WalkEntry")
			c.Check(eng.DominatedBy(f, commit[0].Instr, walk, nil), "flushes-immutable", walk[0].Instr, f, "the flusher is fed from the immutable store", "")
			if s.t == kvsT {
				snap := c.One(f, eng.StoreField(kvsT+".snapshot"), "s.snapshot = new snapshot")
				okh, why := ls.SameHold(snap.Instr, clr[0].Instr, kvsMu, true)
				c.Check(okh, "new-snapshot-with-clear", snap.Instr, f, "the new snapshot is installed in the same write hold that drops the immutable store (no moment where an entry is in neither)", why)
				okd, why2 := eng.OkDominates(f, commit[0].Instr, snap.Instr)
				c.Check(okd, "new-snapshot-after-commit", snap.Instr, f, "the snapshot is renewed only after the commit", why2)
			}
		})
	}

}

// schemaFlushMarksWhatItWrote (F16): genFieldID / genTagKeyID append to a schema object under the store's write lock, and an
// object of the immutable store may also be registered in the mutable store (same pointer).  metricSchemaStore.Flush therefore
// must not (a) serialise such an object outside the lock and then (b) mark ALL its entries persisted: an entry appended in
// between is marked without having been written, no later flush writes it, and after a restart its id is handed out again.
// Necessary condition decided here: the value handed to flusher.Write is either written inside the same write hold that marks
// it, or it is a private copy taken under the lock — and the marking is then bounded by that copy (not Schema.MarkPersisted,
// which marks whatever the live object holds now).
func schemaFlushMarksWhatItWrote(c *eng.Ctx) {
	p := c.P
	f := c.Fn(mssT + ".Flush")
	ls := p.Locks(f, nil)
	// position inside Flush of an instruction that may sit in a callback literal handed to a call of Flush (WalkEntry(func...))
	posInFlush := func(in ssa.Instruction) ssa.Instruction {
		cl := in.Parent()
		if cl == f {
			return in
		}
		for cl != nil && cl.Parent() != f {
			cl = cl.Parent()
		}
		if cl == nil {
			return nil
		}
		for _, b := range f.Blocks {
			for _, x := range b.Instrs {
				if call, ok := x.(ssa.CallInstruction); ok {
					for _, a := range call.Common().Args {
						if eng.FuncOfValue(a) == cl { // a closure, or a literal that captures nothing (plain function value)
							return x
						}
					}
				}
			}
		}
		return nil
	}
	writes := p.SitesDeep(f, invokeOn("", "Write"))
	if len(writes) == 0 {
		c.Undecided("no flusher.Write(schema) in metricSchemaStore.Flush or its callbacks")
	}
	markAll := p.SitesDeep(f, eng.AnyCallTo("series/metric.Schema.MarkPersisted"))
	marks := p.SitesDeep(f, eng.StoreField("series/field.Meta.Persisted", "series/tag.Meta.Persisted"))
	isLive := func(arg ssa.Value) bool {
		// the callback parameter of immutable.WalkEntry (or a value read from the store): the object writers may extend
		return eng.DependsOn(arg, func(x ssa.Value) bool {
			pr, ok := x.(*ssa.Parameter)
			return ok && pr.Parent() != f
		}) && !eng.DependsOn(arg, func(x ssa.Value) bool { _, ok := x.(*ssa.Alloc); return ok })
	}
	for i, w := range writes {
		arg := eng.CallArgs(w.Instr.(*ssa.Call))[0]
		at := posInFlush(w.Instr)
		underWriteLock := at != nil && ls.At(at).HasField(mssMu, true)
		if isLive(arg) {
			// the live object is written: only safe inside the write hold that also marks it
			okHold := underWriteLock
			why := "flusher.Write(" + p.Desc(arg) + ") serialises the live schema object outside the store's write lock"
			for _, m := range append(append([]eng.Site{}, markAll...), marks...) {
				mp := posInFlush(m.Instr)
				if mp == nil || at == nil {
					okHold = false
					continue
				}
				if ok, w2 := ls.SameHold(at, mp, mssMu, true); !ok {
					okHold = false
					why = "the write of the live object and the marking are not in one write hold (" + w2 + "): an entry appended in between is marked persisted without having been written"
				}
			}
			c.Check(okHold, fmt.Sprintf("live-object-written-and-marked-in-one-hold[%d]", i), w.Instr, f,
				"a schema object that writers can still extend is written and marked persisted inside one write hold of the store lock", why)
			continue
		}
		c.Check(true, fmt.Sprintf("written-value-is-a-private-copy[%d]", i), w.Instr, f, "the schema handed to the flusher is a copy taken by Flush (it cannot change while it is written)", "")
		// ... then nothing may be marked beyond what the copy holds: no wholesale MarkPersisted on the live object, and
		// every Persisted store is bounded by a loop over the written copy
		c.Check(len(markAll) == 0, fmt.Sprintf("no-wholesale-marking-after-writing-a-copy[%d]", i), w.Instr, f,
			"after writing a copy, the live object is not marked persisted wholesale (it may hold entries appended since the copy was taken)",
			"Schema.MarkPersisted() marks every entry of the live object although only the copy was written")
		wfa, _ := eng.Unwrap(arg).(*ssa.FieldAddr)
		for k, m := range marks {
			bounded := false
			conds, _ := eng.GuardingConds(m.Instr.Parent(), m.Instr)
			for _, cd := range conds {
				if eng.DependsOn(cd, func(x ssa.Value) bool {
					fa, ok := x.(*ssa.FieldAddr)
					return ok && wfa != nil && fa.Field == wfa.Field && types.Identical(fa.X.Type(), wfa.X.Type())
				}) {
					bounded = true
				}
			}
			c.Check(bounded, fmt.Sprintf("marking-bounded-by-the-written-copy[%d,%d]", i, k), m.Instr, f,
				"an entry is marked persisted only inside a loop over the entries of the written copy", "the Persisted store is not guarded by the extent of the written copy")
		}
	}
	// whatever marks entries persisted does so under the write lock
	for i, m := range append(append([]eng.Site{}, markAll...), marks...) {
		at := posInFlush(m.Instr)
		c.Check(at != nil && ls.At(at).HasField(mssMu, true), fmt.Sprintf("marking-under-write-lock[%d]", i), m.Instr, f, "entries are marked persisted under the store's write lock", "")
	}
	c.Check(len(markAll)+len(marks) > 0, "marks-something", nil, f, "Flush marks the written entries persisted", "no marking found")
}

func gocCreateValue(c *eng.Ctx) {
	p := c.P
	_ = p
	f := c.Fn(kvsT + ".createValue")
	ls := p.Locks(f, nil)
	facts := p.MustFacts(f)
	gen := c.One(f, eng.CallTo("param:createFn"), "createFn()")
	ins := c.Some(f, func(p *eng.Prog, in ssa.Instruction) bool { _, ok := in.(*ssa.MapUpdate); return ok }, "insert kvs[key] = id")
	c.Check(ls.At(gen.Instr).HasField(kvsMu, true), "generator-under-lock", gen.Instr, f, "the ID generator runs under the store's write lock", "held: "+ls.At(gen.Instr).String())
	for i, s := range ins {
		ok, why := ls.SameHold(gen.Instr, s.Instr, kvsMu, true)
		c.Check(ok, fmt.Sprintf("generate-and-insert-one-hold[%d]", i), s.Instr, f, "the ID is generated and inserted in one write hold", why)
		mu := s.Instr.(*ssa.MapUpdate)
		c.Check(eng.DerivesFromCall(mu.Value, gen.Instr.(ssa.Value), 0), fmt.Sprintf("inserted-id-is-generated[%d]", i), s.Instr, f, "the inserted value is the generated ID", "inserts "+p.Desc(mu.Value))
		c.Check(eng.DependsOn(mu.Map, func(x ssa.Value) bool { return strings.HasSuffix(p.Desc(x), ".mutable") }), fmt.Sprintf("insert-into-mutable[%d]", i), s.Instr, f,
			"the new entry goes into the mutable store", "map is "+p.Desc(mu.Map))
		okd, why2 := eng.OkDominates(f, gen.Instr, s.Instr)
		c.Check(okd, fmt.Sprintf("insert-only-on-generator-success[%d]", i), s.Instr, f, "nothing is inserted when the generator failed", why2)
	}
	// re-check of both memory stores under the lock, generator only on their miss edges
	for _, mem := range []string{"mutable", "immutable"} {
		var look []eng.Site
		for _, s := range p.Sites(f, eng.CallTo(kvsT+".getValueFromMem")) {
			a := eng.CallArgs(s.Instr.(*ssa.Call))
			if strings.HasSuffix(p.Desc(a[0]), "."+mem) && p.Desc(a[2]) == "key" && p.Desc(a[1]) == "bucketID" {
				look = append(look, s)
			}
		}
		if len(look) == 0 {
			c.Check(false, "recheck:"+mem, gen.Instr, f, "the key is looked up again in the "+mem+" store under the write lock before an ID is generated",
				"no getValueFromMem(s."+mem+", bucketID, key) in createValue")
			continue
		}
		l := look[0].Instr
		okh, why := ls.SameHold(l, gen.Instr, kvsMu, true)
		c.Check(okh, "recheck-in-hold:"+mem, l, f, "the re-check of "+mem+" and the generation are in the same write hold", why)
		hit, _ := eng.BoolCheckEdges(f, l.(ssa.Value))
		hitReaches := false
		for _, e := range hit {
			first := e.B.Succs[e.Succ].Instrs[0]
			if _, ok := eng.PathExists(eng.PathQuery{Fn: f, After: first, Target: func(in ssa.Instruction) bool { return in == gen.Instr }}); ok || first == gen.Instr {
				hitReaches = true
			}
		}
		c.Check(len(hit) > 0 && !hitReaches && eng.DominatedBy(f, gen.Instr, look, nil), "generate-only-on-miss:"+mem, gen.Instr, f,
			"an ID is generated only after the "+mem+" re-check missed (no path from its hit outcome reaches the generator; a hit returns the existing ID)",
			fmt.Sprintf("hit edges %d, generator reachable from a hit: %v", len(hit), hitReaches))
	}
	// a flush that completed between lookup and lock moved entries to the persisted store
	sameEdges := snapshotSameEdges(p, f, func(v ssa.Value) bool { return p.Desc(v) == "lookupSnapshot" })
	if len(sameEdges) == 0 {
		c.Check(false, "recheck:persisted-after-flush", gen.Instr, f,
			"when the store's snapshot changed since the caller's lookup (a flush completed), the persisted bucket is looked up again under the lock",
			"no comparison of s.snapshot with the lookup snapshot")
	} else {
		same := sameEdges[0]
		get := p.Sites(f, eng.CallTo("index/model.TrieBucket.GetValue"))
		_, skip := eng.PathExists(eng.PathQuery{Fn: f, Target: func(in ssa.Instruction) bool { return in == gen.Instr },
			Blocked: func(in ssa.Instruction) bool { return instrIn(in, get) }, Edge: func(b *ssa.BasicBlock, s int) bool {
				// forbid the "snapshot unchanged" edge and the "bucket == nil" edge
				if b == same.B && s == same.Succ {
					return false
				}
				return !isNilBucketEdge(p, b, s)
			}})
		c.Check(len(get) > 0 && !skip, "recheck:persisted-after-flush", same.B.Instrs[len(same.B.Instrs)-1], f,
			"when the snapshot changed and the bucket exists, the generator is reached only after bucket.GetValue(key) missed", "a path with a changed snapshot skips the persisted lookup")
		for i, g := range get {
			miss := facts.Find(facts.At(gen.Instr), "false", func(_ string, v ssa.Value) bool { return extractIs(v, g.Instr.(ssa.Value), 1) }, nil)
			_ = miss
			// hit edge must return without generating: generator unreachable via the hit edge
			te, _ := eng.BoolCheckEdges(f, g.Instr.(ssa.Value))
			hitReaches := false
			for _, e := range te {
				first := e.B.Succs[e.Succ].Instrs[0]
				if first == gen.Instr {
					hitReaches = true
				}
				if _, ok := eng.PathExists(eng.PathQuery{Fn: f, After: first, Target: func(in ssa.Instruction) bool { return in == gen.Instr }}); ok {
					hitReaches = true
				}
			}
			c.Check(len(te) > 0 && !hitReaches, fmt.Sprintf("persisted-hit-returns[%d]", i), g.Instr, f, "a hit in the persisted bucket returns that ID and never generates", "the generator is reachable from the hit edge")
		}
		// the caller captures the snapshot BEFORE its memory lookup
		g := c.Fn(kvsT + ".getOrCreateValue")
		call := c.One(g, eng.CallTo(kvsT+".createValue"), "createValue call")
		snapArg, sn := lookupSnapshotOf(c)
		okSnap := sn != nil
		if sn == nil {
			sn = call.Instr
		}
		memLook := c.Some(g, eng.Any(eng.CallTo(kvsT+".GetValueFromMem"), eng.CallTo(kvsT+".getValueFromMem")), "memory lookup")
		c.Check(okSnap && eng.DominatedBy(g, memLook[0].Instr, []eng.Site{{Fn: g, Instr: sn}}, nil), "lookup-snapshot-taken-first", call.Instr, g,
			"the snapshot handed to createValue is captured before the memory lookup (so a flush completing during the lookup is detected)", "snapshot argument is "+p.Desc(snapArg))
	}
}

func metaFlushCountersFirst(c *eng.Ctx) {
	p := c.P
	_ = p
	f := c.Fn(mmT + ".Flush")
	sync := eng.CallTo(seqT + ".Sync")
	for _, d := range []string{".ns", ".metric", ".tagValue", ".schemaStore"} {
		okOrderInFn(c, f, sync, invokeOn(d, "Flush"), "sequence.Sync", "mm"+d+".Flush")
	}
}

func indexFlushSeriesLast(c *eng.Ctx) {
	p := c.P
	_ = p
	f := c.Fn(midT + ".Flush")
	ser := invokeOn(".series", "Flush")
	// the four flushes are steps of one sequence: none of them runs in a goroutine of its own
	for _, b := range f.Blocks {
		for _, in := range b.Instrs {
			g, isGo := in.(*ssa.Go)
			if !isGo {
				continue
			}
			var body *ssa.Function
			switch x := g.Common().Value.(type) {
			case *ssa.MakeClosure:
				body, _ = x.Fn.(*ssa.Function)
			case *ssa.Function:
				body = x
			}
			if body == nil {
				body = g.Common().StaticCallee()
			}
			if body == nil {
				continue
			}
			conc := len(p.DeepSites(body, eng.Any(ser, invokeOn(".metricInverted", "flush"), invokeOn(".forward", "flush"), invokeOn(".inverted", "flush")), 2, false)) > 0
			c.Check(!conc, "flushes-are-sequential", in, f,
				"the series dictionary (tags hash -> series id) becomes durable only after the postings of the same flush are: GenSeriesID builds index entries only for a series the dictionary does not know, so a dictionary that survives a crash without its postings leaves replayed rows un-indexed for good. Flushing the families concurrently establishes no order",
				"an index family is flushed in a goroutine")
		}
	}
	// ... nor is one of them taken as a method value and called through a table (the order is then whatever the caller of
	// the table makes it - concurrently, in the change this clause was written for)
	for _, g := range append([]*ssa.Function{f}, closuresT(f)...) {
		for _, b := range g.Blocks {
			for _, in := range b.Instrs {
				mc, ok := in.(*ssa.MakeClosure)
				if !ok {
					continue
				}
				bf, _ := mc.Fn.(*ssa.Function)
				if bf == nil || !strings.HasSuffix(bf.Name(), "$bound") || !strings.EqualFold(strings.TrimSuffix(baseName(bf.Name()), "$bound"), "flush") {
					continue
				}
				if !strings.HasPrefix(p.FuncKey(bf), "index.") {
					continue
				}
				c.Check(false, "flushes-are-direct-calls:"+p.FuncKey(bf), in, f,
					"the four index flushes are written as a sequence of direct calls with the series dictionary last; a flush taken as a method value is run by whoever calls the table - no order is established",
					"method value "+p.FuncKey(bf))
				return
			}
		}
	}
	for _, d := range []string{".metricInverted", ".forward", ".inverted"} {
		okOrderInFn(c, f, invokeOn(d, "flush"), ser, "index"+d+".flush", "index.series.Flush")
	}
}

// dictionaryKeysOwnTheirMemory (shared by C09 and C10).
func dictionaryKeysOwnTheirMemory(c *eng.Ctx) {
	p := c.P
	_ = p
	c.Rule("PROV", "index{keys stored in the in-memory dictionaries own their memory}", func() {
		n := 0
		for _, prefix := range []string{"index.", "index/model.", "tsdb/memdb."} {
			for _, fn := range p.FuncsWithPrefix(prefix) {
				for _, b := range fn.Blocks {
					for _, in := range b.Instrs {
						mu, ok := in.(*ssa.MapUpdate)
						if !ok {
							continue
						}
						if bt, ok := mu.Key.Type().Underlying().(*types.Basic); !ok || bt.Kind() != types.String {
							continue
						}
						n++
						alias := eng.DependsOn(mu.Key, func(x ssa.Value) bool {
							cl, ok := x.(*ssa.Call)
							if !ok || cl.Common().StaticCallee() == nil {
								return false
							}
							g := cl.Common().StaticCallee()
							return g.Name() == "ByteSlice2String" || g.Pkg != nil && g.Pkg.Pkg.Path() == "unsafe"
						})
						c.Check(!alias, fmt.Sprintf("key-copied@%s", p.FuncKey(fn)), in, fn,
							"a string stored as a map key is a copy (string(b)), not a view of the caller's byte slice: callers hand in slices of a reused decompression buffer, and a key that changes under the map gives a later name the id of an earlier one",
							"the key is "+p.Desc(mu.Key)+", an unsafe view of a byte slice")
					}
				}
			}
		}
		c.Check(n >= 1, "string-keyed-inserts-found", nil, nil, "the dictionaries insert string keys", fmt.Sprintf("%d", n))
	})
}

// eventLoopPreparesBeforeFlush (shared by C09 and C07): the memdb event loops switch their stores to a new flush generation
// (PrepareFlush) on the event goroutine itself, before the background flush goroutine is started - the switch is then
// serialised with the rows the same loop handles.
func eventLoopPreparesBeforeFlush(c *eng.Ctx) {
	for _, h := range []string{"tsdb/memdb.metadataDatabase.handle", "tsdb/memdb.indexDatabase.handle"} {
		h := h
		c.Rule("ORDER", h+"{prepare<flush}", func() {
			f := c.Fn(h)
			gos := c.Some(f, func(p *eng.Prog, in ssa.Instruction) bool { _, ok := in.(*ssa.Go); return ok }, "go handleFlush")
			prep := c.Some(f, invokeOn("", "PrepareFlush"), "PrepareFlush()")
			for i, g := range gos {
				c.Check(eng.DominatedBy(f, g.Instr, prep, nil), fmt.Sprintf("prepare<go-flush[%d]", i), g.Instr, f,
					"the stores are switched (PrepareFlush) on the event goroutine before the background flush starts", "go handleFlush reachable without PrepareFlush")
			}
		})
	}
}
