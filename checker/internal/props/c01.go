package props

import (
	"fmt"
	"go/types"
	"sort"
	"strings"

	"golang.org/x/tools/go/ssa"

	"lincheck/internal/eng"
)

const (
	vsT  = "kv/version.storeVersionSet"
	vsMu = vsT + ".mutex"
	sfT  = "kv.storeFlusher"
	famT = "kv.family"
	cjT  = "kv.compactJob"
)

func init() {
	register(eng.Property{
		ID:    "C01",
		Title: "KV store: a committed flush is atomic and durable across a crash",
		Explanation: "Decides the shape of the commit protocol the crash argument rests on: table closed (ok) before its NewFile record is added, all records of a flush in the one " +
			"edit log that is committed; the pending-output mark is never released before the commit on any path; compaction outputs closed before being registered and installed only after a " +
			"successful merge; each manifest record written then synced before the next step; CommitFamilyEditLog = next-file-number record, persist (ok), apply to a clone, install — in one write hold; the " +
			"next-file-number counter changed only under that lock or during single-threaded recovery; the journal is created, filled with a complete snapshot (ok), CURRENT switched via tmp+rename (ok), and " +
			"only then adopted; recovery replays before creating the new journal and obsolete files are deleted only afterwards, only manifests other than the live one, only from that one place; " +
			"file-system mutators are reachable only through their owner functions; every Log codec reads what it writes (type by type, field by field), every Log type is registered, the snapshot re-emits " +
			"every additive record kind and logs the next FILE number, Clone carries every version component, and a new table's number is allocated, marked pending and used for the file name as one value.",
		NotDecided: "contents after replay, file-system semantics (rename atomicity and fsync are assumed), a torn tail record (recover fails on ErrUnexpectedEOF: observation), create-family schedules.",
		MinObls:    90,
		Run:        runC01,
	})
}

// effectiveTops: for a deep site, the instructions of root at which it takes effect — the top call,
// or, when the top is a defer, every RunDefers of root.
func effectiveTops(root *ssa.Function, d eng.DeepSite) []ssa.Instruction {
	if _, ok := d.Top().(*ssa.Defer); ok {
		var out []ssa.Instruction
		for _, s := range eng.RunDefersSites(root) {
			out = append(out, s.Instr)
		}
		return out
	}
	return []ssa.Instruction{d.Top()}
}

// neverBeforeDeep: no `first` site (anywhere below root, incl. deferred closures) takes effect
// on a path that later reaches a `then` site.
func neverBeforeDeep(c *eng.Ctx, root *ssa.Function, first, then eng.Matcher, fname, tname string, depth int) {
	p := c.P
	fs := p.DeepSites(root, first, depth, false)
	ts := p.DeepSites(root, then, depth, false)
	if len(fs) == 0 || len(ts) == 0 {
		c.Undecided("%s: expected %s and %s below %s (found %d / %d)", p.FuncKey(root), fname, tname, p.FuncKey(root), len(fs), len(ts))
	}
	var thenTops []eng.Site
	for _, t := range ts {
		for _, in := range effectiveTops(root, t) {
			thenTops = append(thenTops, eng.Site{Fn: root, Instr: in})
		}
	}
	for i, f := range fs {
		bad := false
		where := ""
		for _, in := range effectiveTops(root, f) {
			if w, ok := eng.Reaches(root, in, thenTops, nil); ok {
				bad = true
				where = p.InstrPos(w)
			}
			if instrIn(in, thenTops) {
				// same top instruction (both inside one helper): decide inside the helper
				if len(f.Chain) > 1 {
					sub := f.Chain[1].Parent()
					if p.Contains(sub, then, depth) {
						// order inside the helper
						subThen := p.Sites(sub, then)
						for _, ft := range effectiveTops(sub, eng.DeepSite{Chain: f.Chain[1:]}) {
							if w, ok := eng.Reaches(sub, ft, subThen, nil); ok {
								bad = true
								where = p.InstrPos(w)
							}
						}
					}
				}
			}
		}
		c.Check(!bad, fmt.Sprintf("%s-not-before-%s[%d]", fname, tname, i), f.Leaf(), f.Leaf().Parent(),
			fmt.Sprintf("%s never takes effect on a path that later reaches %s", fname, tname),
			fmt.Sprintf("%s (via %s) can execute before %s at %s", fname, shortInstr(p, f.Top()), tname, where))
	}
}

func runC01(c *eng.Ctx) {
	decodedRecordOwnsItsStrings(c)
	storeCleanupBeforeTheStoreIsUsed(c)
	optionsWrittenInTheRegistrationHold(c)
	p := c.P
	replayReinstallsStoreLogs(c)

	// ---- 1/2. flush commit ------------------------------------------------------------------------------------
	c.Rule("ORDER", sfT+".Commit", func() {
		f := c.Fn(sfT + ".Commit")
		adds := p.DeepSites(f, invokeOn(".editLog", "Add"), 2, false)
		if len(adds) < 3 {
			c.Undecided("expected >=3 editLog.Add sites below Commit, found %d", len(adds))
		}
		commit := c.One(f, invokeOn(".family", "commitEditLog"), "family.commitEditLog")
		arg := eng.CallArgs(commit.Instr.(*ssa.Call))[0]
		c.Check(strings.HasSuffix(p.Desc(arg), "sf.editLog"), "commits-the-flushers-log", commit.Instr, f, "the committed edit log is the flusher's own", "commits "+p.Desc(arg))
		kinds := map[string]int{}
		for i, a := range adds {
			call := a.Leaf().(*ssa.Call)
			logArg := eng.CallArgs(call)[0]
			kind := "?"
			if cl, ok := logArg.(*ssa.Call); ok {
				kind = strings.Join(p.CalleeKeys(cl), "")
			}
			kinds[kind]++
			c.Check(strings.HasSuffix(p.Desc(eng.CallRecv(call)), "sf.editLog"), fmt.Sprintf("record-into-flushers-log[%d]", i), call, call.Parent(),
				"every record of a flush goes into the flusher's one edit log", "receiver "+p.Desc(eng.CallRecv(call)))
			// each record is added before the commit, never after
			_, late := eng.Reaches(f, commit.Instr, []eng.Site{{Fn: f, Instr: a.Top()}}, nil)
			c.Check(!late, fmt.Sprintf("record-before-commit[%d]", i), call, call.Parent(), "records are added before the commit, never after", "an editLog.Add is reachable after commitEditLog")
		}
		for _, k := range []string{"kv/version.CreateNewFile", "kv/version.CreateSequence", "kv/version.CreateNewRollupFile"} {
			c.Check(kinds[k] > 0, "records:"+k, nil, f, "a flush records "+k+" in the committed edit log", fmt.Sprintf("kinds found: %v", kinds))
		}
		// table closed successfully before its record exists
		closes := p.DeepSites(f, invokeOn("builder", "Close"), 2, false)
		if len(closes) != 1 {
			c.Undecided("expected one builder.Close() below Commit, found %d", len(closes))
		}
		cl := closes[0].Leaf()
		cf := cl.Parent()
		for _, a := range adds {
			call := a.Leaf().(*ssa.Call)
			if lc, ok := eng.CallArgs(call)[0].(*ssa.Call); ok && inList(strings.Join(p.CalleeKeys(lc), ""), []string{"kv/version.CreateNewFile"}) {
				if call.Parent() != cf {
					c.Undecided("builder.Close and the NewFile record are in different functions (unrecognised shape)")
				}
				ok2, why := eng.OkDominates(cf, cl, call)
				c.Check(ok2, "close(ok)<new-file-record", call, cf, "the NewFile record is added only after the table was closed (footer written, synced) without error", why)
				// the record names that builder's file
				meta := eng.CallArgs(lc)[1]
				c.Check(eng.DependsOn(meta, func(x ssa.Value) bool {
					cc, ok := x.(*ssa.Call)
					return ok && cc.Common().IsInvoke() && cc.Common().Method.Name() == "FileNumber" && eng.SameValue(cc.Common().Value, eng.CallRecv(cl.(*ssa.Call)))
				}), "record-names-closed-table", call, cf, "the record carries the number of the table that was just closed", "meta "+p.Desc(meta))
			}
		}
		// the commit decides success
		for i, r := range eng.SuccessReturns(f) {
			okc := eng.DominatedBy(f, r, []eng.Site{commit}, nil)
			te, fe := eng.BoolCheckEdges(f, commit.Instr.(ssa.Value))
			_ = te
			_, viaFail := eng.PathExists(eng.PathQuery{Fn: f, After: commit.Instr, Target: func(in ssa.Instruction) bool { return in == r },
				Edge: func(b *ssa.BasicBlock, s int) bool {
					for _, e := range fe {
						if e.B == b && e.Succ != s {
							return false
						}
					}
					return true
				}})
			c.Check(okc && len(fe) > 0 && !viaFail, fmt.Sprintf("success-only-after-commit[%d]", i), r, f, "Commit reports success only when commitEditLog succeeded", "a nil return is reachable without / despite a failed commit")
		}
		neverBeforeDeep(c, f, eng.AnyCallTo("kv.Family.removePendingOutput", famT+".removePendingOutput"), invokeOn(".family", "commitEditLog"), "removePendingOutput", "commitEditLog", 3)
	})

	// ---- 2b. a table whose bytes did not reach the file is never reported as closed ---------------------------------------------
	c.Rule("ERRFLOW", "kv/table.storeBuilder.Close{write and close errors are returned}", func() {
		f := c.Fn("kv/table.storeBuilder.Close")
		// the buffered writer flushes most of the table only in the deferred writer.Close(): its error must reach the result
		ds := deferredErrStores(f)
		nClose := 0
		for i, d := range ds {
			fromClose := eng.DependsOn(d.Store.Val, func(x ssa.Value) bool {
				cl, ok := x.(*ssa.Call)
				return ok && cl.Common().IsInvoke() && cl.Common().Method.Name() == "Close"
			})
			if fromClose {
				nClose++
			}
			c.Check(d.Named, fmt.Sprintf("deferred-error-assigned-to-named-result[%d]", i), d.Store, f,
				"an error assigned inside a deferred function changes what Close returns only if the variable is a named result", "the deferred closure assigns to the ordinary local `"+d.Var+"`: the value was already returned")
		}
		c.Check(nClose == 1, "deferred-writer-close-error-kept", nil, f, "the error of the deferred writer.Close() (final flush of the buffered table bytes) is assigned to Close's result", fmt.Sprintf("%d such assignments", nClose))
		ws := c.Some(f, invokeOn(".writer", "Write"), "b.writer.Write")
		if len(ws) < 3 {
			c.Undecided("expected 3 writer.Write calls in storeBuilder.Close (offsets, keys, footer), found %d", len(ws))
		}
		for i, r := range eng.SuccessReturns(f) {
			for j, w := range ws {
				ok, why := eng.OkDominates(f, w.Instr, r)
				if g := w.Instr.Parent(); g != f {
					// the write lies in a helper Close enters: inside the helper success needs the write, and Close's success
					// needs the helper's
					ok, why = true, ""
					for _, gr := range eng.SuccessReturns(g) {
						if o, y := eng.OkDominates(g, w.Instr, gr); !o {
							ok, why = false, "in "+p.FuncKey(g)+": "+y
						}
					}
					top := eng.TopOf(f, w)
					if top == nil {
						ok, why = false, "the helper is entered at several sites"
					} else if o, y := eng.OkDominates(f, top, r); !o {
						ok, why = false, y
					}
				}
				c.Check(ok, fmt.Sprintf("success-only-if-written[%d,%d]", i, j), w.Instr, f, "Close returns success only when every footer write succeeded", why)
			}
		}
	})

	// ---- 2c. rollup: three ordered manifest commits (target output+references, source marks, target references dropped) -----------
	c.Rule("ORDER", "kv.family.rollup{commit<clean references}", func() { rollupCommitBeforeClean(c) })
	c.Rule("SYMMETRY", famT+"{reference key = (source store, source family id, file)}", func() { referenceKeySymmetry(c) })
	c.Rule("PROV", "kv{edit log family id = the committing family}", func() { editLogOwnID(c) })
	c.Rule("ERRFLOW", "kv{the outcome of a manifest commit that installs job output reaches the job's caller}", func() { commitResultExamined(c) })

	c.Rule("GUARD", "kv{a table builder is abandoned only when it holds no key}", func() { abandonOnlyWhenNoKeys(c) })

	c.Rule("UNION", "kv.family.deleteObsoleteFiles{keep-set}", func() { obsoleteKeepSet(c) })

	// ---- 3. compaction ---------------------------------------------------------------------------------------------
	c.Rule("ORDER", cjT+"{close<register; merge(ok)<install; cleanup after install}", func() {
		f := c.Fn(cjT + ".finishCompactionOutputFile")
		okOrderInFn(c, f, invokeOn("builder", "Close"), invokeOn(".state", "addOutputFile"), "builder.Close", "addOutputFile")
		m := c.Fn(cjT + ".mergeCompaction")
		okOrderInFn(c, m, eng.CallTo(cjT+".doMerge"), eng.CallTo(cjT+".installCompactionResults"), "doMerge", "installCompactionResults")
		neverBeforeDeep(c, m, eng.AnyCallTo("kv.Family.removePendingOutput", famT+".removePendingOutput"), eng.AnyCallTo("kv.Family.commitEditLog", famT+".commitEditLog"), "removePendingOutput", "commitEditLog", 3)
		owner(c, "call of removePendingOutput", eng.AnyCallTo("kv.Family.removePendingOutput", famT+".removePendingOutput"),
			[]string{sfT + ".Commit", cjT + ".cleanupCompaction"}, 3)
		owner(c, "call of compactJob.cleanupCompaction", eng.AnyCallTo(cjT+".cleanupCompaction"), []string{cjT + ".mergeCompaction"}, 1)
	})

	// ---- 4. every record written then synced ------------------------------------------------------------------------
	c.Rule("PASS", vsT+".persistEditLogs{write->sync}", func() {
		f := c.Fn(vsT + ".persistEditLogs")
		wr := c.One(f, invokeOn("writer", "Write"), "writer.Write")
		sy := c.One(f, invokeOn("writer", "Sync"), "writer.Sync")
		succ := eng.SuccessReturns(f)
		isNextOrSuccess := func(in ssa.Instruction) bool {
			if _, ok := in.(*ssa.Next); ok {
				return true
			}
			if ph, ok := in.(*ssa.Phi); ok && ph.Comment == "rangeindex" {
				return true
			}
			for _, r := range succ {
				if r == in {
					return true
				}
			}
			return false
		}
		// loop back-edge: also treat the block of the range header as "next iteration"
		_, skip := eng.PathExists(eng.PathQuery{Fn: f, After: wr.Instr, Target: func(in ssa.Instruction) bool {
			if isNextOrSuccess(in) {
				return true
			}
			return in.Block() != wr.Instr.Block() && eng.DominatedBy(f, wr.Instr, []eng.Site{{Fn: f, Instr: in}}, nil) && in == in.Block().Instrs[0] && len(in.Block().Preds) > 1
		}, Blocked: func(in ssa.Instruction) bool { return in == sy.Instr }})
		c.Check(!skip, "sync-after-each-write", wr.Instr, f, "after a record is written, neither the next record nor a success return is reached without writer.Sync()", "a path from Write reaches the next iteration / success without Sync")
		nilE, _ := eng.ErrCheckEdges(f, sy.Instr.(ssa.Value))
		_, viaErr := eng.PathExists(eng.PathQuery{Fn: f, After: sy.Instr, Target: isNextOrSuccess, Edge: eng.ForbidEdges(nilE)})
		c.Check(len(nilE) > 0 && !viaErr, "sync-error-stops", sy.Instr, f, "a failed Sync stops persisting and is reported", "")
		nilW, _ := eng.ErrCheckEdges(f, wr.Instr.(ssa.Value))
		_, viaErrW := eng.PathExists(eng.PathQuery{Fn: f, After: wr.Instr, Target: func(in ssa.Instruction) bool { return in == sy.Instr || isNextOrSuccess(in) }, Edge: eng.ForbidEdges(nilW)})
		c.Check(len(nilW) > 0 && !viaErrW, "write-error-stops", wr.Instr, f, "a failed Write stops persisting and is reported", "")
		mar := c.One(f, invokeOn("", "marshal"), "editLog.marshal()")
		c.Check(eng.DerivesFromCall(eng.CallArgs(wr.Instr.(*ssa.Call))[0], mar.Instr.(ssa.Value), 0), "writes-the-marshalled-log", wr.Instr, f, "the bytes written are the marshalled edit log", "")
	})

	// ---- 5/6. commit of an edit log -----------------------------------------------------------------------------------
	c.Rule("ATOMIC", vsT+".CommitFamilyEditLog", func() { commitFamilyEditLogAtomic(c) })

	// ---- 7/8. journal creation and CURRENT switch -----------------------------------------------------------------------
	c.Rule("ORDER", vsT+".initJournal", func() {
		f := c.Fn(vsT + ".initJournal")
		mk := c.One(f, eng.CallTo("var:kv/version.newBufferWriterFunc"), "newBufferWriterFunc")
		per := c.One(f, eng.CallTo(vsT+".persistEditLogs"), "persistEditLogs(writer, snapshot)")
		cur := c.One(f, eng.CallTo(vsT+".setCurrent"), "setCurrent")
		ad := c.One(f, eng.StoreField(vsT+".manifest"), "vs.manifest = writer")
		ok1, w1 := eng.OkDominates(f, mk.Instr, per.Instr)
		c.Check(ok1, "create(ok)<snapshot", per.Instr, f, "the snapshot is written into a successfully created manifest file", w1)
		ok2, w2 := eng.OkDominates(f, per.Instr, cur.Instr)
		c.Check(ok2, "snapshot(ok)<switch-current", cur.Instr, f, "CURRENT is switched only after the complete snapshot was written and synced", w2)
		ok3, w3 := eng.OkDominates(f, cur.Instr, ad.Instr)
		c.Check(ok3, "switch(ok)<adopt-writer", ad.Instr, f, "the new manifest becomes the live journal only after CURRENT points to it", w3)
		pa := eng.CallArgs(per.Instr.(*ssa.Call))
		c.Check(eng.DerivesFromCall(pa[0], mk.Instr.(ssa.Value), 0) && strings.Contains(p.Desc(pa[1]), "createSnapshot()"), "snapshot-into-new-file", per.Instr, f, "what is persisted is createSnapshot() into the new writer", p.Desc(pa[0])+", "+p.Desc(pa[1]))
		v, _ := storedValue(ad.Instr)
		c.Check(eng.DerivesFromCall(v, mk.Instr.(ssa.Value), 0), "adopts-that-writer", ad.Instr, f, "the adopted writer is the one that received the snapshot", "")
		nameArg := eng.CallArgs(cur.Instr.(*ssa.Call))[0]
		pathArg := eng.CallArgs(mk.Instr.(*ssa.Call))[0]
		c.Check(eng.DependsOn(pathArg, func(x ssa.Value) bool { return x == nameArg }), "current-names-that-file", cur.Instr, f, "CURRENT is set to the name of the file that was just written", "")
		c.Check(eng.DependsOnField(nameArg, vsT+".manifestFileNumber"), "manifest-number-from-counter", cur.Instr, f, "the manifest name derives from manifestFileNumber", "")
		owner(c, "store to storeVersionSet.manifest", eng.StoreField(vsT+".manifest"), []string{vsT + ".initJournal", "kv/version.NewStoreVersionSet"}, 1)
	})
	c.Rule("ORDER", vsT+".setCurrent{tmp+rename}", func() {
		f := c.Fn(vsT + ".setCurrent")
		wr := c.One(f, eng.CallTo("var:kv/version.writeFileFunc"), "writeFileFunc(tmp, name)")
		rn := c.One(f, eng.CallTo("var:kv/version.renameFunc"), "renameFunc(tmp, current)")
		ok, why := eng.OkDominates(f, wr.Instr, rn.Instr)
		c.Check(ok, "write-tmp(ok)<rename", rn.Instr, f, "the temporary file is completely written before it is renamed over CURRENT", why)
		wa, ra := eng.CallArgs(wr.Instr.(*ssa.Call)), eng.CallArgs(rn.Instr.(*ssa.Call))
		c.Check(wa[0] == ra[0] && strings.Contains(p.Desc(wa[0]), "TmpSuffix") || wa[0] == ra[0] && strings.Contains(p.Desc(wa[0]), "Sprintf"), "tmp-is-not-current", wr.Instr, f,
			"the file written is a temporary sibling (never CURRENT itself) and the same path is renamed", "writes "+p.Desc(wa[0])+", renames "+p.Desc(ra[0]))
		c.Check(strings.Contains(p.Desc(ra[1]), "getCurrentPath()") && ra[1] != ra[0], "rename-onto-current", rn.Instr, f, "the rename target is the CURRENT path", "target "+p.Desc(ra[1]))
		c.Check(strings.Contains(p.Desc(wa[1]), "manifestFile"), "content-is-manifest-name", wr.Instr, f, "the content written is the manifest file name", "")
		for i, r := range eng.SuccessReturns(f) {
			okr, _ := eng.OkDominates(f, rn.Instr, r)
			c.Check(okr, fmt.Sprintf("success-only-after-rename[%d]", i), r, f, "setCurrent succeeds only when the rename succeeded", "")
		}
	})

	// ---- 9/11. recovery order, obsolete file deletion -------------------------------------------------------------------------
	c.Rule("ORDER", vsT+".Recover / kv.newStore", func() {
		f := c.Fn(vsT + ".Recover")
		rec := c.One(f, eng.CallTo(vsT+".recover"), "vs.recover()")
		ex := c.One(f, func(p *eng.Prog, in ssa.Instruction) bool {
			cl, ok := in.(*ssa.Call)
			if !ok || cl.Common().StaticCallee() == nil || cl.Common().StaticCallee().Pkg == nil {
				return false
			}
			g := cl.Common().StaticCallee()
			return g.Name() == "Exist" && strings.HasSuffix(g.Pkg.Pkg.Path(), "/fileutil")
		}, "fileutil.Exist(CURRENT)")
		_, noCurrent := eng.BoolCheckEdges(f, ex.Instr.(ssa.Value))
		c.Check(len(noCurrent) > 0, "current-tested", ex.Instr, f, "Recover branches on the existence of CURRENT", "")
		recNil, _ := eng.ErrCheckEdges(f, rec.Instr.(ssa.Value))
		for i, j := range c.Some(f, eng.CallTo(vsT+".initJournal"), "vs.initJournal()") {
			// when CURRENT exists (the edges on which it does not are forbidden) a new journal is reachable only through a
			// replay that returned nil
			onlyExisting := eng.ForbidEdges(noCurrent)
			byReplay := eng.DominatedBy(f, j.Instr, []eng.Site{rec}, onlyExisting)
			_, viaFail := eng.PathExists(eng.PathQuery{Fn: f, After: rec.Instr, Target: func(in ssa.Instruction) bool { return in == j.Instr }, Edge: eng.ForbidEdges(append(append([]eng.Edge{}, noCurrent...), recNil...))})
			c.Check(byReplay && len(recNil) > 0 && !viaFail, fmt.Sprintf("replay(ok)<new-journal[%d]", i), j.Instr, f,
				"with a CURRENT file present the new journal (a snapshot of the recovered state) is written only after the old one was replayed successfully; a journal without replay is created only when no CURRENT file exists",
				fmt.Sprintf("dominated by replay on the CURRENT-exists paths: %v, reachable after a failed replay: %v", byReplay, viaFail))
		}
		// F25: a torn FINAL record (the process died while appending the commit that was in flight) is the end of the log, not
		// corruption: the failing exit taken for an error of reader.Read() excludes io.ErrUnexpectedEOF
		rc := c.Fn(vsT + ".recover")
		rd := c.One(rc, invokeOn("", "Read"), "reader.Read()")
		rfacts := p.MustFacts(rc)
		nTorn := 0
		for _, b := range rc.Blocks {
			r, ok := b.Instrs[len(b.Instrs)-1].(*ssa.Return)
			if !ok || b == rc.Recover || len(r.Results) == 0 {
				continue
			}
			ev := r.Results[len(r.Results)-1]
			if eng.IsNilConst(ev) || !eng.DependsOn(ev, func(x ssa.Value) bool { return extractIs(x, rd.Instr.(ssa.Value), 1) }) {
				continue
			}
			nTorn++
			fs := rfacts.At(r)
			excl := rfacts.Find(fs, "false", func(d string, _ ssa.Value) bool {
				return strings.Contains(d, "errors.Is(") && strings.Contains(d, "ErrUnexpectedEOF")
			}, nil)
			excl = append(excl, rfacts.Find(fs, "ne", func(d string, _ ssa.Value) bool { return strings.Contains(d, "Read()") }, func(d string, _ ssa.Value) bool { return strings.Contains(d, "ErrUnexpectedEOF") })...)
			c.Check(len(excl) > 0, fmt.Sprintf("torn-final-record-is-end-of-log[%d]", nTorn), r, rc,
				"replay fails for a read error only when it is not io.ErrUnexpectedEOF: a record cut short can only be the last one — the commit that was being appended when the process died, never acknowledged — and every commit before it must stay readable",
				"facts at the failing return: "+strings.Join(rfacts.Render(fs), " ; "))
		}
		c.Check(nTorn > 0, "read-error-exit-found", nil, rc, "recover has an exit for a failed record read", "")
		n := c.Fn("kv.newStore")
		if len(n.AnonFuncs) == 0 {
			c.Undecided("newStore has no deferred closure")
		}
		neverBeforeDeep(c, n, eng.AnyCallTo("kv.store.deleteObsoleteFiles", "kv.store.deleteFamilyObsoleteFiles"), invokeOn(".versions", "Recover"), "deleteObsoleteFiles", "versions.Recover", 2)
		// F25: the obsolete-file scans of an open run only when the open SUCCEEDED: after a failed replay the version set holds a
		// partial state, and scanning with it removes the live manifest and every table the replay had not reached
		for _, g := range append([]*ssa.Function{n}, n.AnonFuncs...) {
			gf := p.MustFacts(g)
			for i, cs := range p.SitesDirect(g, eng.AnyCallTo("kv.store.deleteObsoleteFiles", "kv.store.deleteFamilyObsoleteFiles")) {
				okG := false
				why := "not guarded by err == nil"
				if g == n {
					rcv := p.Sites(n, invokeOn(".versions", "Recover"))
					if len(rcv) == 1 {
						okG, why = eng.OkDominates(n, rcv[0].Instr, cs.Instr)
					}
				} else {
					fs := gf.At(cs.Instr)
					okG = len(gf.Find(fs, "eq", func(d string, v ssa.Value) bool {
						u, ok := eng.Unwrap(v).(*ssa.UnOp)
						if !ok {
							return false
						}
						fv, ok := u.X.(*ssa.FreeVar)
						return ok && eng.LocalName(fv) == "err"
					}, eng.DescIs("nil"))) > 0
					why = "facts in the deferred closure: " + strings.Join(gf.Render(fs), " ; ")
				}
				c.Check(okG, fmt.Sprintf("cleanup-only-after-successful-open:%s[%d]", baseName(g.Name()), i), cs.Instr, g,
					"the obsolete-file scans at open run only when the open succeeded (err == nil): with the partially replayed state of a failed Recover they would delete the manifest CURRENT names and tables that are referenced by records not yet replayed",
					why)
			}
		}
		fam := p.Sites(n, eng.MapUpdateOf("kv.store.families"))
		recv := c.One(n, invokeOn(".versions", "Recover"), "versions.Recover()")
		for i, s := range fam {
			_, late := eng.Reaches(n, recv.Instr, []eng.Site{s}, nil)
			c.Check(!late, fmt.Sprintf("families<recover[%d]", i), s.Instr, n, "families are registered before the manifest is replayed (their versions must exist)", "")
		}
		owner(c, "call of store.deleteObsoleteFiles", eng.AnyCallTo("kv.store.deleteObsoleteFiles"), []string{"kv.newStore"}, 1)
		d := c.Fn("kv.store.deleteObsoleteFiles")
		rm := c.One(d, eng.CallTo("var:kv.removeFunc"), "removeFunc")
		facts := p.MustFacts(d)
		fs := facts.At(rm.Instr)
		isPrefix := facts.Find(fs, "true", func(dd string, _ ssa.Value) bool {
			return strings.Contains(dd, "HasPrefix(") && strings.Contains(dd, "MANIFEST")
		}, nil)
		notCur := facts.Find(fs, "ne", func(dd string, _ ssa.Value) bool {
			return strings.Contains(dd, "#") || strings.Contains(dd, "fileName") || strings.HasPrefix(dd, "files")
		},
			func(dd string, _ ssa.Value) bool {
				return strings.Contains(dd, "ManifestFileName(") && strings.Contains(dd, "ManifestFileNumber()")
			})
		c.Check(len(isPrefix) > 0, "only-manifests", rm.Instr, d, "only files with the manifest prefix are removed at store level", "facts: "+strings.Join(facts.Render(fs), " ; "))
		c.Check(len(notCur) > 0, "never-the-live-manifest", rm.Instr, d, "the manifest named by the current manifest number is never removed", "facts: "+strings.Join(facts.Render(fs), " ; "))
	})

	// ---- 10. who may touch the file system ---------------------------------------------------------------------------------------
	// ---- the reader keeps the sentinel the replay tests for -------------------------------------------------------------------------
	c.Rule("ERRFLOW", "pkg/bufioutil.bufioEntryReader.Next{read errors keep their identity}", func() {
		f := c.Fn("pkg/bufioutil.bufioEntryReader.Next")
		sts := c.Some(f, eng.StoreField("pkg/bufioutil.bufioEntryReader.err"), "br.err = err")
		var leafOK func(v ssa.Value, seen map[ssa.Value]bool) (bool, string)
		leafOK = func(v ssa.Value, seen map[ssa.Value]bool) (bool, string) {
			if seen[v] {
				return true, ""
			}
			seen[v] = true
			switch x := v.(type) {
			case *ssa.Const:
				return x.IsNil(), "constant"
			case *ssa.Phi:
				for _, e := range x.Edges {
					if ok, why := leafOK(e, seen); !ok {
						return false, why
					}
				}
				return true, ""
			case *ssa.Extract:
				return leafOK(x.Tuple, seen)
			case *ssa.Call:
				g := x.Common().StaticCallee()
				if g == nil || g.Pkg == nil {
					return false, "result of " + p.Desc(x)
				}
				if strings.HasPrefix(p.FuncKey(g), "pkg/bufioutil.") && g.Blocks != nil && len(seen) < 40 {
					// a helper of the reader: every error it can return must keep its identity
					nr := 0
					for _, b := range g.Blocks {
						r, ok := b.Instrs[len(b.Instrs)-1].(*ssa.Return)
						if !ok {
							continue
						}
						for _, res := range r.Results {
							if isErrorType(res.Type()) {
								nr++
								if ok, why := leafOK(res, seen); !ok {
									return false, why
								}
							}
						}
					}
					return nr > 0, "helper " + g.Name() + " returns no error"
				}
				switch g.Pkg.Pkg.Path() + "." + g.Name() {
				case "io.ReadFull", "encoding/binary.ReadUvarint", "io.ReadAtLeast":
					return true, ""
				case "fmt.Errorf":
					if k, ok := x.Common().Args[0].(*ssa.Const); ok && strings.Contains(k.Value.ExactString(), "%w") {
						return true, ""
					}
					return false, "fmt.Errorf without %w: the cause (io.ErrUnexpectedEOF for a record cut short) is flattened into text"
				}
				return false, "result of " + g.String()
			}
			return false, p.Desc(v)
		}
		for i, st := range sts {
			ok, why := leafOK(st.Instr.(*ssa.Store).Val, map[ssa.Value]bool{})
			c.Check(ok, fmt.Sprintf("identity-kept[%d]", i), st.Instr, f,
				"the error the entry reader reports is the reading function's own error value or wraps it with %w: the manifest replay recognises a record cut short by errors.Is(err, io.ErrUnexpectedEOF) and treats it as the end of the log",
				why)
		}
	})

	// ---- family ids are the store's own sequence ----------------------------------------------------------------------------------------
	c.Rule("PROV", "kv.store.CreateFamily{id of a new family = next value of the store's sequence}", func() { familyIDFromSequence(c) })

	c.Rule("OWNER", "kv{file-system mutators}", func() {
		owner(c, "call of writeFileFunc", eng.AnyCallTo("var:kv/version.writeFileFunc"), []string{vsT + ".setCurrent"}, 1)
		owner(c, "call of renameFunc", eng.AnyCallTo("var:kv/version.renameFunc"), []string{vsT + ".setCurrent"}, 1)
		owner(c, "call of newBufferWriterFunc", eng.AnyCallTo("var:kv/version.newBufferWriterFunc"), []string{vsT + ".initJournal"}, 1)
		owner(c, "call of kv.removeFunc", eng.AnyCallTo("var:kv.removeFunc"), []string{"kv.store.deleteObsoleteFiles"}, 1)
		owner(c, "call of kv.removeDirFunc", eng.AnyCallTo("var:kv.removeDirFunc"), []string{famT + ".deleteSST", famT + ".deleteObsoleteFiles"}, 1)
		owner(c, "call of family.deleteSST", eng.AnyCallTo(famT+".deleteSST"), []string{famT + ".deleteObsoleteFiles"}, 0)
		owner(c, "call of table.newBufioWriterFunc", eng.AnyCallTo("var:kv/table.newBufioWriterFunc"), []string{"kv/table.NewStoreBuilder"}, 1)
		owner(c, "call of setCurrent", eng.AnyCallTo(vsT+".setCurrent"), []string{vsT + ".initJournal"}, 1)
		owner(c, "call of initJournal", eng.AnyCallTo(vsT+".initJournal"), []string{vsT + ".Recover"}, 2)
		owner(c, "call of persistEditLogs", eng.AnyCallTo(vsT+".persistEditLogs"), []string{vsT + ".initJournal", vsT + ".CommitFamilyEditLog"}, 2)
		// no direct os.* mutators anywhere under kv/
		raw := func(p *eng.Prog, in ssa.Instruction) bool {
			cl, ok := in.(ssa.CallInstruction)
			if !ok {
				return false
			}
			f := cl.Common().StaticCallee()
			if f == nil || f.Pkg == nil || f.Pkg.Pkg.Path() != "os" {
				return false
			}
			switch f.Name() {
			case "Remove", "RemoveAll", "Rename", "Create", "WriteFile", "OpenFile", "Truncate":
				return strings.HasPrefix(eng.PkgOf(in.Parent()), "kv")
			}
			return false
		}
		sites := p.SitesInProgram(raw)
		c.Check(len(sites) == 0, "no-raw-os-mutators-in-kv", nil, nil, "kv/** never calls os.Remove/RemoveAll/Rename/Create/WriteFile/OpenFile directly (only through the owned seams)",
			func() string {
				if len(sites) > 0 {
					return "direct call at " + p.InstrPos(sites[0].Instr)
				}
				return ""
			}())
		// positive example: the matcher does see os mutators elsewhere in the module
		any := p.SitesInProgram(func(p *eng.Prog, in ssa.Instruction) bool {
			cl, ok := in.(ssa.CallInstruction)
			if !ok {
				return false
			}
			f := cl.Common().StaticCallee()
			return f != nil && f.Pkg != nil && f.Pkg.Pkg.Path() == "os" && (f.Name() == "Remove" || f.Name() == "RemoveAll" || f.Name() == "OpenFile" || f.Name() == "WriteFile")
		})
		c.Check(len(any) > 0, "raw-os-matcher-positive-example", nil, nil, "the raw-os matcher matches at least one call elsewhere in the module (not vacuous)", "")
	})

	// ---- 12/13. record codecs and registry ----------------------------------------------------------------------------------------
	c.Rule("LAYOUT", "kv/version.Log{Encode<->Decode}", func() { logCodecs(c) })

	// ---- 14/15. snapshot completeness, Clone ----------------------------------------------------------------------------------------
	c.Rule("UNION", vsT+".createFamilySnapshot / version.Clone", func() {
		// additive record kinds = Log types whose apply() calls a Version method named Add*/Sequence
		logIface := p.LookupType("kv/version", "Log")
		if logIface == nil {
			c.Undecided("kv/version.Log not found")
		}
		var additive []string
		ctor := map[string]string{}
		for _, fn := range p.FuncsWithPrefix("kv/version.") {
			if fn.Name() != "apply" || fn.Signature.Recv() == nil {
				continue
			}
			for _, s := range p.SitesDirect(fn, func(p *eng.Prog, in ssa.Instruction) bool {
				cl, ok := in.(*ssa.Call)
				return ok && cl.Common().IsInvoke() && (strings.HasPrefix(cl.Common().Method.Name(), "Add") || cl.Common().Method.Name() == "Sequence")
			}) {
				_ = s
				t := strings.TrimSuffix(strings.TrimPrefix(p.FuncKey(fn), "kv/version."), ".apply")
				additive = append(additive, t)
			}
		}
		sort.Strings(additive)
		// constructors: functions returning Log whose body allocates that type
		for _, fn := range p.FuncsWithPrefix("kv/version.") {
			if fn.Signature.Recv() != nil || fn.Parent() != nil || strings.HasPrefix(fn.Name(), "init") || fn.Signature.Results().Len() != 1 || fn.Signature.Results().At(0).Type().String() != logIface.String() {
				continue
			}
			for _, b := range eng.BlocksT(fn) {
				for _, in := range b.Instrs {
					if a, ok := in.(*ssa.Alloc); ok {
						if n, ok := a.Type().(*types.Pointer).Elem().(*types.Named); ok {
							ctor[n.Obj().Name()] = p.FuncKey(fn)
						}
					}
				}
			}
		}
		if len(additive) < 4 {
			c.Undecided("expected >=4 additive log kinds, found %v", additive)
		}
		sn := c.Fn(vsT + ".createFamilySnapshot")
		for _, t := range additive {
			k, ok := ctor[t]
			if !ok {
				c.Check(false, "snapshot-emits:"+t, nil, sn, "additive record kind "+t+" has a constructor", "no constructor found")
				continue
			}
			sites := p.Sites(sn, eng.CallTo(k))
			inLoop := false
			for _, s := range sites {
				// emitted inside a loop (per element of the version state) and added to the edit log
				if eng.DependsOn(s.Instr.(ssa.Value), func(ssa.Value) bool { return false }) || true {
					for _, ref := range *s.Instr.(ssa.Value).Referrers() {
						if cl, ok := ref.(*ssa.Call); ok && cl.Common().IsInvoke() && cl.Common().Method.Name() == "Add" {
							inLoop = true
						}
					}
				}
			}
			// every argument of a re-emitted record is read from the version being snapshotted (the loop variables over its
			// state), never taken from createFamilySnapshot's own parameters (e.g. the id of the family being written, which
			// differs from the SOURCE family id a reference mark is filed under)
			for si, s := range sites {
				for ai, a := range eng.CallArgs(s.Instr.(*ssa.Call)) {
					if _, isC := a.(*ssa.Const); isC {
						continue
					}
					fromParam := eng.DependsOn(a, func(x ssa.Value) bool {
						pr, ok := x.(*ssa.Parameter)
						return ok && pr.Parent() == sn && pr != sn.Params[0] && !strings.Contains(pr.Type().String(), "FamilyVersion")
					})
					fromState := eng.DependsOn(a, func(x ssa.Value) bool {
						switch y := x.(type) {
						case *ssa.Next, *ssa.Range:
							return true
						case *ssa.Call:
							return y.Common().IsInvoke()
						}
						return false
					})
					_ = fromState
					c.Check(!fromParam, fmt.Sprintf("snapshot-record-from-version-state:%s[%d,%d]", t, si, ai), s.Instr, sn,
						"each field of a record in the manifest snapshot is read from the version's state (for a reference mark: store, SOURCE family id and file are the keys and elements of the reference map)",
						"argument "+p.Desc(a)+" is a parameter of createFamilySnapshot, not a value read from the version state")
				}
			}
			c.Check(len(sites) > 0 && inLoop, "snapshot-emits:"+t, nil, sn,
				"the manifest snapshot re-emits every additive record kind ("+t+"), so version state survives manifest rotation", "createFamilySnapshot never adds a "+k+" record")
		}
		snapshotEnumeratesStateMaps(c, sn)
		st := c.Fn(vsT + ".createStoreSnapshot")
		nn := c.One(st, eng.CallTo("kv/version.NewNextFileNumber"), "NewNextFileNumber")
		a := eng.CallArgs(nn.Instr.(*ssa.Call))[0]
		c.Check(eng.DependsOnField(a, vsT+".nextFileNumber") && !eng.DependsOnField(a, vsT+".manifestFileNumber"), "snapshot-logs-next-file-number", nn.Instr, st,
			"the store snapshot records the next FILE number (recovery names the new manifest by it and continues table numbers above it)", "records "+p.Desc(a))
		cs := c.Fn(vsT + ".createSnapshot")
		c.Check(p.MustPass(cs, eng.CallTo(vsT+".createStoreSnapshot"), 0) && len(p.Sites(cs, eng.CallTo(vsT+".createFamilySnapshot"))) > 0, "snapshot-covers-families-and-store", nil, cs,
			"the snapshot contains every family's state and the store record", "")
		// Clone
		cl := c.Fn("kv/version.version.Clone")
		for _, spec := range []struct{ typ, pkg string }{{"version", "kv/version"}, {"rollup", "kv/version"}} {
			nt := p.LookupType(spec.pkg, spec.typ)
			if nt == nil {
				c.Undecided("type %s not found", spec.typ)
			}
			stt := nt.Underlying().(*types.Struct)
			for i := 0; i < stt.NumFields(); i++ {
				fld := stt.Field(i)
				switch fld.Type().Underlying().(type) {
				case *types.Map, *types.Slice:
					key := spec.pkg + "." + spec.typ + "." + fld.Name()
					reads := p.SitesDeep(cl, eng.TouchField(key))
					c.Check(len(reads) >= 1, "clone-carries:"+spec.typ+"."+fld.Name(), nil, cl, "Clone copies the "+fld.Name()+" component of a version", "Clone never reads "+key)
				}
			}
		}
	})

	// ---- 16. a new table's number ---------------------------------------------------------------------------------------------------
	c.Rule("ORDER", famT+".newTableBuilder", func() { newTableBuilderClaimsFirst(c) })

	c.Observe("a torn manifest tail makes recover fail (bufio entry reader reports ErrUnexpectedEOF) and newStore's deferred cleanup still runs after a failed Recover — noticed, not armed")
	c.Observe("compaction and rollup ignore commitEditLog's boolean result — noticed, not armed (outputs stay unreferenced and are collected)")
	c.Observe("kv.store.CreateFamily inserts under the write lock without re-checking the lookup made under the read lock — create-family schedules are outside C01's quantifier")
}

// logCodecs: every implementer of version.Log is registered, and its Decode reads, in order, the
// primitive types its Encode writes, binding the same fields.
func logCodecs(c *eng.Ctx) {
	p := c.P
	logIface := p.LookupType("kv/version", "Log")
	if logIface == nil {
		c.Undecided("kv/version.Log not found")
	}
	iface := logIface.Underlying().(*types.Interface)
	pk := p.Package("kv/version")
	var impls []string
	for _, name := range pk.Types.Scope().Names() {
		tn, ok := pk.Types.Scope().Lookup(name).(*types.TypeName)
		if !ok {
			continue
		}
		if _, isI := tn.Type().Underlying().(*types.Interface); isI {
			continue
		}
		if types.Implements(types.NewPointer(tn.Type()), iface) {
			impls = append(impls, name)
		}
	}
	if len(impls) < 8 {
		c.Undecided("expected >= 8 Log implementations, found %v", impls)
	}
	// registry: constructor closures passed to RegisterLogType in init
	registered := map[string]string{}
	usedConst := map[string]string{}
	for _, fn := range p.FuncsWithPrefix("kv/version.init") {
		for _, s := range p.Sites(fn, eng.CallTo("kv/version.RegisterLogType")) {
			a := eng.CallArgs(s.Instr.(*ssa.Call))
			lt := p.Desc(a[0])
			var cf *ssa.Function
			if mc, ok := eng.Unwrap(a[1]).(*ssa.MakeClosure); ok {
				cf = mc.Fn.(*ssa.Function)
			} else if fv, ok := eng.Unwrap(a[1]).(*ssa.Function); ok {
				cf = fv
			}
			if cf != nil {
				for _, b := range eng.BlocksT(cf) {
					for _, in := range b.Instrs {
						if al, ok := in.(*ssa.Alloc); ok {
							if n, ok := al.Type().(*types.Pointer).Elem().(*types.Named); ok {
								registered[n.Obj().Name()] = lt
								if prev, dup := usedConst[lt]; dup {
									c.Check(false, "registry-unique:"+lt, s.Instr, fn, "each log type constant is registered once", "also used for "+prev)
								}
								usedConst[lt] = n.Obj().Name()
							}
						}
					}
				}
			}
		}
	}
	rw := map[string]string{"PutVarint32": "ReadVarint32", "PutVarint64": "ReadVarint64", "PutUvarint32": "ReadUvarint32", "PutUvarint64": "ReadUvarint64",
		"PutBytes": "ReadBytes", "PutByte": "ReadByte", "PutUint32": "ReadUint32", "PutUint64": "ReadUint64", "PutInt32": "ReadInt32", "PutInt64": "ReadInt64"}
	for _, t := range impls {
		_, ok := registered[t]
		c.Check(ok, "registered:"+t, nil, nil, "Log implementation "+t+" is registered for decoding (a record written can be replayed)", "not passed to RegisterLogType in init")
		enc := p.Func("kv/version." + t + ".Encode")
		dec := p.Func("kv/version." + t + ".Decode")
		if enc == nil || dec == nil {
			c.Check(false, "codec:"+t, nil, nil, "Encode and Decode exist", "missing")
			continue
		}
		type op struct {
			name  string
			field string
		}
		var ws, rs []op
		for _, s := range p.Sites(enc, func(p *eng.Prog, in ssa.Instruction) bool {
			cl, ok := in.(*ssa.Call)
			if !ok {
				return false
			}
			f := cl.Common().StaticCallee()
			return f != nil && f.Signature.Recv() != nil && strings.HasPrefix(f.Name(), "Put") && strings.Contains(f.Signature.Recv().Type().String(), "stream")
		}) {
			cl := s.Instr.(*ssa.Call)
			fld := ""
			eng.WalkExpr(eng.CallArgs(cl)[0], func(x ssa.Value) bool {
				if fa, ok := x.(*ssa.FieldAddr); ok && fld == "" {
					k := eng.FieldKeyOfAddr(fa)
					if strings.HasPrefix(k, "kv/version."+t+".") {
						fld = k[strings.LastIndex(k, ".")+1:]
					}
				}
				return true
			})
			// accessor on the file meta: GetMinKey etc.
			if fld == "file" || fld == "" {
				d := p.Desc(eng.CallArgs(cl)[0])
				if i := strings.Index(d, ".file."); i >= 0 {
					rest := d[i+6:]
					j := 0
					for j < len(rest) && (rest[j] == '_' || rest[j] >= 'a' && rest[j] <= 'z' || rest[j] >= 'A' && rest[j] <= 'Z' || rest[j] >= '0' && rest[j] <= '9') {
						j++
					}
					fld = "file." + rest[:j]
				}
			}
			ws = append(ws, op{cl.Common().StaticCallee().Name(), fld})
		}
		for _, s := range p.Sites(dec, func(p *eng.Prog, in ssa.Instruction) bool {
			cl, ok := in.(*ssa.Call)
			if !ok {
				return false
			}
			f := cl.Common().StaticCallee()
			return f != nil && f.Signature.Recv() != nil && strings.HasPrefix(f.Name(), "Read") && strings.Contains(f.Signature.Recv().Type().String(), "stream")
		}) {
			cl := s.Instr.(*ssa.Call)
			// which field does the value reach?
			fld := ""
			var visit func(v ssa.Value, d int)
			visit = func(v ssa.Value, d int) {
				if d > 5 || fld != "" || v.Referrers() == nil {
					return
				}
				for _, ref := range *v.Referrers() {
					switch x := ref.(type) {
					case *ssa.Store:
						if fa, ok := x.Addr.(*ssa.FieldAddr); ok {
							k := eng.FieldKeyOfAddr(fa)
							if strings.HasPrefix(k, "kv/version."+t+".") {
								fld = k[strings.LastIndex(k, ".")+1:]
							}
						}
					case *ssa.Call:
						// constructor argument: NewFileMeta(fileNumber, minKey, maxKey, fileSize)
						if f := x.Common().StaticCallee(); f != nil && f.Name() == "NewFileMeta" {
							for i, a := range x.Common().Args {
								if a == v && i < len(f.Params) {
									fld = "file." + eng.ParamName(f.Params[i])
								}
							}
						} else if val, ok := ref.(ssa.Value); ok {
							visit(val, d+1)
						}
					case ssa.Value:
						visit(x, d+1)
					}
				}
			}
			visit(cl, 0)
			rs = append(rs, op{cl.Common().StaticCallee().Name(), fld})
		}
		okSeq := len(ws) == len(rs) && len(ws) > 0
		detail := fmt.Sprintf("writes %v reads %v", ws, rs)
		if okSeq {
			for i := range ws {
				if rw[ws[i].name] != rs[i].name {
					okSeq = false
				}
				// PutBytes(store) preceded by its length: fields match loosely
				wf, rf := ws[i].field, rs[i].field
				if wf != "" && rf != "" && !strings.EqualFold(wf, rf) {
					okSeq = false
				}
			}
		}
		c.Check(okSeq, "codec:"+t, nil, enc, "Decode reads, in the same order and into the same fields, the primitive values Encode writes", detail)
	}
	// the edit log envelope
	m := c.Fn("kv/version.editLog.marshal")
	u := c.Fn("kv/version.editLog.unmarshal")
	seq := func(fn *ssa.Function, prefix string) []string {
		var out []string
		for _, s := range p.Sites(fn, func(p *eng.Prog, in ssa.Instruction) bool {
			cl, ok := in.(*ssa.Call)
			if !ok {
				return false
			}
			f := cl.Common().StaticCallee()
			return f != nil && f.Signature.Recv() != nil && strings.HasPrefix(f.Name(), prefix) && strings.Contains(f.Signature.Recv().Type().String(), "stream")
		}) {
			out = append(out, s.Instr.(*ssa.Call).Common().StaticCallee().Name())
		}
		return out
	}
	ws, rs := seq(m, "Put"), seq(u, "Read")
	okEnv := len(ws) == len(rs) && len(ws) >= 5
	if okEnv {
		for i := range ws {
			want := rw[ws[i]]
			if ws[i] == "PutBytes" {
				want = "ReadSlice"
			}
			if want != rs[i] && !(ws[i] == "PutBytes" && rs[i] == "ReadBytes") {
				okEnv = false
			}
		}
	}
	c.Check(okEnv, "envelope", nil, m, "editLog.unmarshal reads the envelope (family id, count, then per record: type, length, bytes) exactly as marshal writes it", fmt.Sprintf("writes %v reads %v", ws, rs))
	// type tag written comes from the registry keyed by the record's dynamic type; the reader dispatches on it
	c.Check(len(p.Sites(u, func(p *eng.Prog, in ssa.Instruction) bool {
		l, ok := in.(*ssa.Lookup)
		return ok && strings.HasSuffix(p.Desc(l.X), "newLogFuncMap")
	})) > 0, "dispatch-through-registry", nil, u, "unmarshal constructs each record through the registry keyed by the type tag", "")
}

func commitFamilyEditLogAtomic(c *eng.Ctx) {
	p := c.P
	_ = p
	f := c.Fn(vsT + ".CommitFamilyEditLog")
	ls := p.Locks(f, nil)
	add := c.One(f, invokeOn("editLog", "Add"), "editLog.Add(NewNextFileNumber(..))")
	per := c.One(f, eng.CallTo(vsT+".persistEditLogs"), "persistEditLogs")
	app := c.One(f, invokeOn("editLog", "apply"), "editLog.apply(newVersion)")
	ins := c.One(f, invokeOn("", "appendVersion"), "familyVersion.appendVersion")
	steps := []eng.Site{add, per, app, ins}
	names := []string{"next-file-number-record", "persist", "apply", "install"}
	for i := 1; i < len(steps); i++ {
		c.Check(eng.DominatedBy(f, steps[i].Instr, []eng.Site{steps[i-1]}, nil), names[i-1]+"<"+names[i], steps[i].Instr, f, names[i-1]+" precedes "+names[i]+" on every path", "")
		ok, why := ls.SameHold(steps[0].Instr, steps[i].Instr, vsMu, true)
		c.Check(ok, "one-hold:"+names[i], steps[i].Instr, f, "record, persist, apply and install happen in one write hold of the version set mutex (commits never interleave)", why)
	}
	commitBaseInHold(c)
	ok, why := eng.OkDominates(f, per.Instr, app.Instr)
	c.Check(ok, "apply-only-if-persisted", app.Instr, f, "the new version is built and installed only after the record was persisted successfully", why)
	la := eng.CallArgs(add.Instr.(*ssa.Call))[0]
	okN := false
	if lc, ok := la.(*ssa.Call); ok && inList(strings.Join(p.CalleeKeys(lc), ""), []string{"kv/version.NewNextFileNumber"}) {
		okN = eng.DependsOnField(eng.CallArgs(lc)[0], vsT+".nextFileNumber")
	}
	c.Check(okN, "records-next-file-number", add.Instr, f, "every committed record carries the current next-file-number (a recovered store never reuses a number)", "adds "+p.Desc(la))
	pa := eng.CallArgs(per.Instr.(*ssa.Call))
	c.Check(strings.HasSuffix(p.Desc(pa[0]), ".manifest") && eng.DependsOn(pa[1], func(x ssa.Value) bool { return x == ssa.Value(f.Params[2]) }), "persists-this-log-to-manifest", per.Instr, f,
		"the persisted record is this edit log, written to the live manifest", p.Desc(pa[0])+", "+p.Desc(pa[1]))
	av := eng.CallArgs(app.Instr.(*ssa.Call))[0]
	c.Check(strings.Contains(p.Desc(av), "Clone()") && eng.CallArgs(ins.Instr.(*ssa.Call))[0] == av, "apply-to-clone-then-install-it", app.Instr, f,
		"the edit is applied to a clone of the current version and that clone is what gets installed", "applies to "+p.Desc(av))
	// the counter
	owner(c, "store to storeVersionSet.nextFileNumber/manifestFileNumber", eng.StoreField(vsT+".nextFileNumber", vsT+".manifestFileNumber"),
		[]string{vsT + ".NextFileNumber", vsT + ".setNextFileNumberWithoutLock", "kv/version.NewStoreVersionSet"}, 3)
	nf := c.Fn(vsT + ".NextFileNumber")
	for _, s := range c.Some(nf, eng.StoreField(vsT+".nextFileNumber"), "nextFileNumber.Inc") {
		c.Check(p.Locks(nf, nil).At(s.Instr).HasField(vsMu, true), "allocate-under-lock", s.Instr, nf, "file numbers are allocated under the version set mutex", "")
	}
	owner(c, "call of setNextFileNumberWithoutLock", eng.AnyCallTo(vsT+".setNextFileNumberWithoutLock", "kv/version.StoreVersionSet.setNextFileNumberWithoutLock"),
		[]string{"kv/version.nextFileNumber.applyVersionSet"}, 1)
	owner(c, "call of StoreLog.applyVersionSet", eng.AnyCallTo("kv/version.StoreLog.applyVersionSet", "kv/version.nextFileNumber.applyVersionSet", "kv/version.editLog.applyVersionSet", "kv/version.EditLog.applyVersionSet"),
		[]string{"kv/version.editLog.apply", "kv/version.editLog.applyVersionSet", vsT + ".recover"}, 3)
	owner(c, "call of EditLog.apply", eng.AnyCallTo("kv/version.editLog.apply", "kv/version.EditLog.apply"), []string{vsT + ".CommitFamilyEditLog", vsT + ".applyFamilyVersion"}, 2)
	owner(c, "call of storeVersionSet.recover/applyFamilyVersion", eng.AnyCallTo(vsT+".recover", vsT+".applyFamilyVersion"), []string{vsT + ".Recover", vsT + ".recover"}, 2)
	owner(c, "call of StoreVersionSet.Recover", eng.AnyCallTo(vsT+".Recover", "kv/version.StoreVersionSet.Recover"), []string{"kv.newStore"}, 1)
}

// snapshotEnumeratesStateMaps: the map-backed components of a version (rollup marks, replica sequences, reference marks) are
// re-emitted by enumerating the map itself: the key of every emitted record is produced by ranging over the accessor's
// result (or by a helper that receives that map). Looking entries up by some other collection's elements (e.g. the files
// still listed in a level) silently drops the entries that collection does not name.
func snapshotEnumeratesStateMaps(c *eng.Ctx, sn *ssa.Function) {
	p := c.P
	table := []struct{ ctor, accessor string }{
		{"kv/version.CreateNewRollupFile", "GetRollupFiles"},
		{"kv/version.CreateSequence", "GetSequences"},
		{"kv/version.CreateNewReferenceFile", "GetAllReferenceFiles"},
	}
	isAccessor := func(v ssa.Value, name string) bool {
		return eng.DependsOn(v, func(x ssa.Value) bool {
			cl, ok := x.(*ssa.Call)
			return ok && cl.Common().IsInvoke() && cl.Common().Method.Name() == name
		})
	}
	for _, t := range table {
		sites := p.Sites(sn, eng.CallTo(t.ctor))
		c.Check(len(sites) > 0, "snapshot-enumerates:"+t.accessor+"@found", nil, sn, "createFamilySnapshot emits "+t.ctor, "")
		for i, s := range sites {
			key := eng.CallArgs(s.Instr.(*ssa.Call))[0]
			ok := eng.DependsOn(key, func(x ssa.Value) bool {
				switch y := x.(type) {
				case *ssa.Range:
					return isAccessor(y.X, t.accessor)
				case *ssa.Call:
					if y.Common().IsInvoke() {
						return false
					}
					for _, a := range y.Common().Args {
						if _, isMap := a.Type().Underlying().(*types.Map); isMap && isAccessor(a, t.accessor) {
							return true
						}
					}
				}
				return false
			})
			c.Check(ok, fmt.Sprintf("snapshot-enumerates:%s[%d]", t.accessor, i), s.Instr, sn,
				"the key of every re-emitted "+t.ctor+" record is enumerated from "+t.accessor+"() itself, so no entry of the map is left out of the manifest snapshot",
				"key "+p.Desc(key)+" is not produced by ranging over "+t.accessor+"()")
		}
	}
}

func newTableBuilderClaimsFirst(c *eng.Ctx) {
	p := c.P
	_ = p
	f := c.Fn(famT + ".newTableBuilder")
	n := c.One(f, invokeOn(".store", "nextFileNumber"), "store.nextFileNumber()")
	pe := c.One(f, eng.CallTo(famT+".addPendingOutput"), "addPendingOutput(n)")
	mk := c.One(f, eng.CallTo("kv/table.NewStoreBuilder"), "table.NewStoreBuilder(n, path)")
	c.Check(eng.DominatedBy(f, mk.Instr, []eng.Site{pe}, nil) && eng.DominatedBy(f, pe.Instr, []eng.Site{n}, nil), "allocate<pending<create", mk.Instr, f,
		"the number is allocated, marked pending, and only then the file is created (cleanup can never see an unmarked unfinished file)", "")
	nv := n.Instr.(ssa.Value)
	ma := eng.CallArgs(mk.Instr.(*ssa.Call))
	c.Check(eng.CallArgs(pe.Instr.(*ssa.Call))[0] == nv && ma[0] == nv && eng.DependsOn(ma[1], func(x ssa.Value) bool { return x == nv }), "one-number", mk.Instr, f,
		"the pending mark, the builder's number and the file name all use the one allocated number", "")
}

func familyIDFromSequence(c *eng.Ctx) {
	p := c.P
	_ = p
	f := c.Fn("kv.store.CreateFamily")
	n := 0
	for _, b := range eng.BlocksT(f) {
		for _, in := range b.Instrs {
			st, ok := in.(*ssa.Store)
			if !ok {
				continue
			}
			fa, ok := st.Addr.(*ssa.FieldAddr)
			if !ok || eng.FieldKeyOfAddr(fa) != "kv.FamilyOption.ID" {
				continue
			}
			n++
			fromSeq := eng.DependsOnField(st.Val, "kv.store.familySeq")
			fromArg := eng.DependsOnField(st.Val, "kv.FamilyOption.ID")
			c.Check(fromSeq && !fromArg, fmt.Sprintf("id-from-sequence[%d]", n), in, f, "the id written into the store info is taken from s.familySeq", "stores "+p.Desc(st.Val))
			conds, _ := eng.GuardingConds(in.Parent(), in)
			for _, cd := range conds {
				c.Check(!eng.DependsOnField(cd, "kv.FamilyOption.ID"), fmt.Sprintf("id-not-optional[%d]", n), in, f,
					"whether a new family gets a fresh id does not depend on the id in the option the caller passed: rollup creates target families with the SOURCE family's option (id included), and the manifest keys every record by family id",
					"assignment guarded by "+p.Desc(cd))
			}
		}
	}
	c.Check(n >= 1, "id-assigned", nil, f, "CreateFamily assigns the id of a new family", "")
	// the sequence never moves to a caller-supplied value
	seqFns := append(p.FuncsWithPrefix("kv.store."), p.FuncsWithPrefix("kv.newStore")...)
	nSeq := 0
	for _, fn := range seqFns {
		for _, b := range fn.Blocks {
			for _, in := range b.Instrs {
				fa, method, call := eng.AtomicOp(in)
				if fa == nil || eng.FieldKeyOfAddr(fa) != "kv.store.familySeq" || method != "Store" {
					continue
				}
				args := eng.CallArgs(call)
				v := args[len(args)-1]
				c.Check(!eng.DependsOnField(v, "kv.FamilyOption.ID") || p.FuncKey(fn) != "kv.store.CreateFamily", "sequence-set@"+p.FuncKey(fn), in, fn,
					"the family sequence is set only from the persisted store info (on open), never from a CreateFamily argument", "stores "+p.Desc(v))
				if p.FuncKey(fn) != "kv.store.CreateFamily" {
					nSeq++
					// on open the sequence continues after the largest persisted ID (ids are not dense: a failed OPTIONS write burns one)
					c.Check(eng.DependsOnField(v, "kv.FamilyOption.ID"), "sequence-restored-from-ids@"+p.FuncKey(fn), in, fn,
						"on open the family sequence is restored from the persisted family ids (their maximum), not from how many families there are", "stores "+p.Desc(v))
				}
			}
		}
	}
	c.Check(nSeq >= 1, "sequence-restored-on-open", nil, nil, "opening a store restores the family sequence", fmt.Sprintf("%d stores outside CreateFamily", nSeq))
}
